// C20: password detection — implementation side (model side: ocaml/cmd_password.ml).
//   password ooxml|ooxmlf <path> …   Cfb::new (hook cfb_new) on the file: directory names + has_directory,
//                              then Xlsx::new and Xlsb::new on the same bytes
//        -> names=<hex,…>;has=<0|1>|xlsx=<c>|xlsb=<c>   or   err:<io|ole|invalid|emptyroot|other>|xlsx=…|xlsb=…
//           c = password | pass (any other outcome: Ok or another error) | panic | alloc
//   password xls <path> …     Xls::new -> xls=password|ok|other|panic|alloc
//   password ods <path> …     Ods::new -> ods=password|ok|other|panic|alloc
//   password all <path>       every reader and open_workbook_auto_from_rs on the same bytes
//        -> xlsx=<c>;xlsb=<c>;xls=<c>;ods=<c>;auto=<c>      (c = password|ok|other|panic|alloc)
//   password recs <hex>       RecordIter (hook xls::records): t:len:c1/c2,… (err at the first error item)
// Further arguments are for the model side.
use crate::util::*;
use calamine::verif_hooks::{cfb as hcfb, xls as hxls};
use calamine::{
    open_workbook_auto_from_rs, Error, Ods, OdsError, Reader, Xls, XlsError, Xlsb, XlsbError, Xlsx,
    XlsxError,
};
use std::io::Cursor;

fn guard<F: FnOnce() -> String>(f: F) -> String {
    crate::ALLOC_TRIPPED.store(false, std::sync::atomic::Ordering::Relaxed);
    match std::panic::catch_unwind(std::panic::AssertUnwindSafe(f)) {
        Ok(s) => s,
        Err(_) => {
            if crate::ALLOC_TRIPPED.load(std::sync::atomic::Ordering::Relaxed) {
                "alloc".to_string()
            } else {
                "panic".to_string()
            }
        }
    }
}

fn xlsx(b: &[u8]) -> String {
    let v = b.to_vec();
    guard(move || match Xlsx::new(Cursor::new(v)) {
        Ok(_) => "ok".into(),
        Err(XlsxError::Password) => "password".into(),
        Err(_) => "other".into(),
    })
}
fn xlsb(b: &[u8]) -> String {
    let v = b.to_vec();
    guard(move || match Xlsb::new(Cursor::new(v)) {
        Ok(_) => "ok".into(),
        Err(XlsbError::Password) => "password".into(),
        Err(_) => "other".into(),
    })
}
fn xls(b: &[u8]) -> String {
    let v = b.to_vec();
    guard(move || match Xls::new(Cursor::new(v)) {
        Ok(_) => "ok".into(),
        Err(XlsError::Password) => "password".into(),
        Err(_) => "other".into(),
    })
}
fn ods(b: &[u8]) -> String {
    let v = b.to_vec();
    guard(move || match Ods::new(Cursor::new(v)) {
        Ok(_) => "ok".into(),
        Err(OdsError::Password) => "password".into(),
        Err(_) => "other".into(),
    })
}
fn auto(b: &[u8]) -> String {
    let v = b.to_vec();
    guard(move || match open_workbook_auto_from_rs(Cursor::new(v)) {
        Ok(_) => "ok".into(),
        Err(Error::Xlsx(XlsxError::Password))
        | Err(Error::Xlsb(XlsbError::Password))
        | Err(Error::Xls(XlsError::Password))
        | Err(Error::Ods(OdsError::Password)) => "password".into(),
        Err(_) => "other".into(),
    })
}

fn pass(c: String) -> String {
    match c.as_str() {
        "ok" | "other" => "pass".to_string(),
        _ => c,
    }
}

fn cfb_part(b: &[u8]) -> String {
    let v = b.to_vec();
    guard(move || match hcfb::cfb_new(v) {
        Ok(h) => {
            let names: Vec<String> = h.directory_names().iter().map(|n| hexstr(n)).collect();
            format!(
                "names={};has={}",
                names.join(","),
                if h.has_directory("EncryptedPackage") { 1 } else { 0 }
            )
        }
        Err(m) => {
            let c = if m.starts_with("I/O error") {
                "io"
            } else if m.starts_with("Invalid OLE signature") {
                "ole"
            } else if m.starts_with("Invalid sector shift") || m.starts_with("Invalid minisector shift") {
                "invalid"
            } else if m.starts_with("Empty Root directory") {
                "emptyroot"
            } else {
                "other"
            };
            format!("err:{}", c)
        }
    })
}

pub fn run(args: &[&str]) -> String {
    let sub = args.first().copied().unwrap_or("");
    if sub == "recs" {
        let s = unhex(args.get(1).copied().unwrap_or(""));
        let mut out: Vec<String> = Vec::new();
        for r in hxls::records_until_err(&s) {
            match r {
                Ok((t, d, c)) => out.push(format!(
                    "{}:{}:{}",
                    t,
                    d.len(),
                    match c {
                        None => "-".to_string(),
                        Some(cs) => cs.iter().map(|c| c.len().to_string()).collect::<Vec<_>>().join("/"),
                    }
                )),
                Err(_) => {
                    out.push("err".to_string());
                    break;
                }
            }
        }
        return out.join(",");
    }
    let bytes = match std::fs::read(args.get(1).copied().unwrap_or("")) {
        Ok(b) => b,
        Err(_) => return "nofile".to_string(),
    };
    match sub {
        "ooxml" | "ooxmlf" => format!("{}|xlsx={}|xlsb={}", cfb_part(&bytes), pass(xlsx(&bytes)), pass(xlsb(&bytes))),
        "xls" => format!("xls={}", xls(&bytes)),
        "ods" => format!("ods={}", ods(&bytes)),
        "all" => format!(
            "xlsx={};xlsb={};xls={};ods={};auto={}",
            xlsx(&bytes),
            xlsb(&bytes),
            xls(&bytes),
            ods(&bytes),
            auto(&bytes)
        ),
        _ => "badsub".to_string(),
    }
}
