"""xlsbstyles — layouts of the part xl/styles.bin of an .xlsb package (property C10, xlsb half; used
by every generator that writes .xlsb files: biffgen_c10.write_xlsb, xlsbgen.styles_part,
gensheets.xlsb_bytes).

A layout mirrors the Coq type XlsbStyles.slayout, but the encoder here is written independently
(the C10 check compares the two byte for byte):

  fr      (w, k)          w: record id in its two-byte form; k: continuation bytes of the length
  raw     {"fr", "id", "body"}
  layout  {"pre":  [raw],                                  BrtBeginStyleSheet, ...
           "fmts": None | {"fr", "tail", "items": [{"junk": [raw], "fr", "id", "code", "tail"}]},
           "mid":  [raw],                                  BrtEndFmts, FONTS, FILLS, BORDERS, CELLSTYLEXFS
           "xfs":  {"fr", "tail", "items": [{"junk": [raw], "fr", "parent", "ifmt", "tail"}]},
           "post": bytes}                                  BrtEndCellXFs, STYLES, DXFS, ... never read

Excel always writes FONTS / FILLS / BORDERS / CELLSTYLEXFS between FMTS and CELLXFS; their bodies
hold colours, i.e. free bytes.  The byte pairs E9 04 and E7 04 are the two-byte forms of the
record ids 0x0269 BrtBeginCellXFs and 0x0267 BrtBeginFmts: a reader that does not skip record
bodies takes them for those records (XLSB-1 of notes/AUDIT2.md).  The layouts written here carry
such bytes in font, fill and border colours and in a font name (U+04E9 U+04E7) — always in the
default part, with high probability in the random ones.

API: excel_layout, random_layout, bare_layout, enc_layout, layout_text, default_part, frame.
"""
import struct

BRT_FMT, BRT_XF, BRT_BEGIN_FMTS, BRT_BEGIN_CELLXFS = 0x2C, 0x2F, 0x0267, 0x0269
PAIRS = [(0xE9, 0x04), (0xE7, 0x04)]

# ------------------------------------------------------------------ framing
def enc_id(w, rid):
    return bytes([(rid & 0x7F) | 0x80, rid >> 7]) if w else bytes([rid])

def enc_len(k, n):
    out = []
    for _ in range(k):
        out.append((n & 0x7F) | 0x80)
        n >>= 7
    out.append(n)
    return bytes(out)

def frame(fr, rid, body):
    return enc_id(fr[0], rid) + enc_len(fr[1], len(body)) + bytes(body)

def min_fr(rid, body):
    n = len(body)
    return (rid >= 128, 0 if n < 128 else 1 if n < 16384 else 2 if n < 2097152 else 3)

def rand_fr(rng, rid, body, p_odd=0.2):
    w, k = min_fr(rid, body)
    if rng is not None and rng.random() < p_odd:
        w = True
    if rng is not None and rng.random() < p_odd:
        k = rng.randrange(k, 4)
    return (w, k)

def raw(rid, body=b"", rng=None):
    return {"fr": rand_fr(rng, rid, body) if rng is not None else min_fr(rid, body), "id": rid, "body": bytes(body)}

def wide(s):
    u = s.encode("utf-16le")
    return struct.pack("<I", len(u) // 2) + u

# ------------------------------------------------------------------ record bodies Excel writes
def color_argb(r, g, b, index=0xFF):
    """BrtColor: fValidRGB, xColorType = 2 (ARGB); index; nTintAndShade; R G B A"""
    return bytes([0x05, index, 0, 0, r, g, b, 0xFF])

def color_theme(i):
    return bytes([0x07, i, 0, 0, 0, 0, 0, 0xFF])

def font_body(col, name="Calibri", bold=False):
    return (struct.pack("<HHHHBBBB", 220, 1 if bold else 0, 700 if bold else 400, 0, 0, 2, 0, 0) + col +
            b"\x02" + wide(name))

def fill_body(pattern, fore, back):
    # fls, brtColorFore, brtColorBack, gradient fields (iGradientType, degree, left, right, top,
    # bottom, cNumStop)
    return struct.pack("<I", pattern) + fore + back + struct.pack("<IdddddI", 0, 0, 0, 0, 0, 0, 0)

def border_body(cols):
    # flags, then five Blxf (dg, reserved, BrtColor): top bottom left right diagonal
    return b"\0" + b"".join(bytes([1 if c else 0, 0]) + (c or color_theme(0)) for c in cols)

def xf_tail(font=0, fill=0, border=0):
    # iFont, iFill, ixBorder, trot, indent, alc/alcv/flags, grbitAtr ...: 12 bytes after iFmt
    return struct.pack("<HHHBBBBBB", font, fill, border, 0, 0, 0, 0, 0x10, 0)

def colliding_color(rng=None):
    """a colour whose bytes contain E9 04 or E7 04 (in R,G or G,B, or across index / tint)"""
    forms = [lambda a, b: color_argb(a, b, 0x20), lambda a, b: color_argb(0x10, a, b),
             lambda a, b: bytes([0x05, a, b, 0, 1, 2, 3, 0xFF]), lambda a, b: color_argb(a, b, a)]
    a, b = PAIRS[rng.randrange(2)] if rng is not None else PAIRS[0]
    f = forms[rng.randrange(len(forms))] if rng is not None else forms[0]
    return f(a, b)

def plain_color(rng=None):
    if rng is None:
        return color_theme(1)
    return rng.choice([color_theme(rng.randrange(10)), color_argb(rng.randrange(256), rng.randrange(256), rng.randrange(256))])

# ------------------------------------------------------------------ layouts
def _fmt_item(i, code, rng=None, junk=(), tail=b""):
    body = struct.pack("<H", i) + wide(code) + tail
    return {"junk": list(junk), "fr": rand_fr(rng, BRT_FMT, body), "id": i, "code": code, "tail": tail}

def _xf_item(ifmt, rng=None, junk=(), parent=0, tail=None):
    tail = xf_tail() if tail is None else tail
    body = struct.pack("<HH", parent, ifmt) + tail
    return {"junk": list(junk), "fr": rand_fr(rng, BRT_XF, body), "parent": parent, "ifmt": ifmt, "tail": tail}

def _coll(rid, items_body, tail, rng):
    body = struct.pack("<I", items_body) + tail
    return rand_fr(rng, rid, body)

def excel_layout(customs, xfs, rng=None, collide=True):
    """the shape Excel gives the part.  customs: [(ifmt, code)], xfs: [ifmt].
    rng None: a fixed choice of fonts / fills / borders, with the colliding bytes when `collide`"""
    col = (lambda: colliding_color(rng)) if collide else (lambda: plain_color(rng))
    pre = [raw(0x0116, b"", rng)]                                         # BrtBeginStyleSheet
    fmts = None
    mid = []
    if customs:
        items = [_fmt_item(i, c, rng) for i, c in customs]
        fmts = {"fr": _coll(BRT_BEGIN_FMTS, len(items), b"", rng), "tail": b"", "items": items}
        mid.append(raw(0x0268, b"", rng))                                 # BrtEndFmts
    fonts = [font_body(color_theme(1)), font_body(col(), "Calibri", True), font_body(color_argb(0x10, 0xE7, 0x04) if collide else plain_color(rng)),
             font_body(color_theme(1), "өӧ" if collide else "Arial")]
    mid.append(raw(0x0263, struct.pack("<I", len(fonts)), rng))           # BrtBeginFonts
    mid += [raw(0x002B, b, rng) for b in fonts]                           # BrtFont
    mid.append(raw(0x0264, b"", rng))                                     # BrtEndFonts
    fills = [fill_body(0, color_theme(1), color_theme(0)), fill_body(17, color_theme(1), color_theme(0)),
             fill_body(1, col(), bytes([0x03, 0x41, 0, 0, 0xFF, 0xFF, 0xFF, 0xFF]))]
    mid.append(raw(0x025B, struct.pack("<I", len(fills)), rng))           # BrtBeginFills
    mid += [raw(0x002D, b, rng) for b in fills]                           # BrtFill
    mid.append(raw(0x025C, b"", rng))                                     # BrtEndFills
    borders = [border_body([None] * 5), border_body([col(), None, col(), None, None])]
    mid.append(raw(0x0265, struct.pack("<I", len(borders)), rng))         # BrtBeginBorders
    mid += [raw(0x002E, b, rng) for b in borders]                         # BrtBorder
    mid.append(raw(0x0266, b"", rng))                                     # BrtEndBorders
    mid.append(raw(0x0272, struct.pack("<I", 2), rng))                    # BrtBeginCellStyleXFs
    mid.append(raw(BRT_XF, struct.pack("<HH", 0xFFFF, 0) + xf_tail(), rng))
    mid.append(raw(BRT_XF, struct.pack("<HH", 0xFFFF, 14) + xf_tail(1, 2, 1), rng))   # a date cell style
    mid.append(raw(0x0273, b"", rng))                                     # BrtEndCellStyleXFs
    xitems = [_xf_item(f, rng, tail=xf_tail(k % 4, k % 3, k % 2)) for k, f in enumerate(xfs)]
    xf = {"fr": _coll(BRT_BEGIN_CELLXFS, len(xitems), b"", rng), "tail": b"", "items": xitems}
    post = (frame((True, 0), 0x026A, b"") +                               # BrtEndCellXFs
            frame((True, 0), 0x026B, struct.pack("<I", 1)) +              # BrtBeginStyles
            frame((False, 0), 0x0030, struct.pack("<IHBB", 0, 1, 0, 0xFF) + wide("Normal")) +
            frame((True, 0), 0x026C, b"") +                               # BrtEndStyles
            frame((True, 0), 0x01F9, struct.pack("<I", 0)) + frame((True, 0), 0x01FA, b"") +   # DXFS
            frame((True, 0), 0x01FC, struct.pack("<I", 0) + wide("TableStyleMedium2") + wide("PivotStyleLight16")) +
            frame((True, 0), 0x01FD, b"") +                               # TABLESTYLES
            frame((True, 0), 0x0117, b""))                                # BrtEndStyleSheet
    return {"pre": pre, "fmts": fmts, "mid": mid, "xfs": xf, "post": post}

def bare_layout(customs, xfs):
    """the two collections and nothing else of substance (what the generators wrote before)"""
    fmts = None
    mid = []
    if customs:
        items = [_fmt_item(i, c) for i, c in customs]
        fmts = {"fr": (True, 0), "tail": b"", "items": items}
        mid.append(raw(0x0268))
    xitems = [_xf_item(f) for f in xfs]
    return {"pre": [raw(0x0116)], "fmts": fmts, "mid": mid, "xfs": {"fr": (True, 0), "tail": b"", "items": xitems},
            "post": frame((True, 0), 0x026A, b"") + frame((True, 0), 0x0117, b"")}

def _rand_body(rng, maxlen=40):
    """random bytes seeded with the colliding pairs at random offsets"""
    n = rng.randrange(0, maxlen)
    b = bytearray(rng.randrange(256) for _ in range(n))
    for _ in range(rng.randrange(0, 3)):
        if n >= 2:
            o = rng.randrange(0, n - 1)
            b[o], b[o + 1] = PAIRS[rng.randrange(2)]
    if rng.random() < 0.05:
        b = bytes(b) * rng.choice([10, 200, 900])          # a long record: two / three length bytes
    return bytes(b)

def _rand_raw(rng, forbid):
    while True:
        rid = rng.choice([rng.randrange(0, 128), rng.randrange(128, 1200), rng.randrange(1200, 16384),
                          0x25, 0x26, 0x23, 0x24, 0x2B, 0x2D, 0x2E, BRT_XF, BRT_FMT, 0x013, 0x0116])
        if rid not in forbid:
            return raw(rid, _rand_body(rng), rng)

def random_layout(rng, customs, xfs):
    """an Excel-shaped layout with random framing forms, random tails behind the fields read, random
    records (random ids and bodies, the colliding byte pairs sown in) in every place the format or
    the reader tolerates them"""
    L = excel_layout(customs, xfs, rng, collide=rng.random() < 0.85)
    outer = (BRT_BEGIN_FMTS, BRT_BEGIN_CELLXFS)
    for part in ("pre", "mid"):
        for _ in range(rng.randrange(0, 4)):
            L[part].insert(rng.randrange(0, len(L[part]) + 1), _rand_raw(rng, outer))
    if L["fmts"] is not None:
        if rng.random() < 0.2:
            L["fmts"]["tail"] = _rand_body(rng, 8)
        for it in L["fmts"]["items"]:
            if rng.random() < 0.25:
                it["junk"] = [_rand_raw(rng, (BRT_FMT,)) for _ in range(rng.randrange(1, 3))]
            if rng.random() < 0.25:
                it["tail"] = _rand_body(rng, 12)
            it["fr"] = rand_fr(rng, BRT_FMT, struct.pack("<H", it["id"]) + wide(it["code"]) + it["tail"])
        L["fmts"]["fr"] = rand_fr(rng, BRT_BEGIN_FMTS, struct.pack("<I", len(L["fmts"]["items"])) + L["fmts"]["tail"])
    elif rng.random() < 0.2:
        # FMTS present but empty is not what Excel writes (1*BrtFmt); absent FMTS is the normal case
        pass
    if rng.random() < 0.2:
        L["xfs"]["tail"] = _rand_body(rng, 8)
    for it in L["xfs"]["items"]:
        if rng.random() < 0.2:
            it["junk"] = [_rand_raw(rng, (BRT_XF,)) for _ in range(rng.randrange(1, 3))]
        r = rng.random()
        if r < 0.15:
            it["tail"] = b""                                             # only the fields read
        elif r < 0.4:
            it["tail"] = _rand_body(rng, 16)
        it["parent"] = rng.choice([0, 0, 1, 0xFFFF])
        it["fr"] = rand_fr(rng, BRT_XF, struct.pack("<HH", it["parent"], it["ifmt"]) + it["tail"])
    L["xfs"]["fr"] = rand_fr(rng, BRT_BEGIN_CELLXFS, struct.pack("<I", len(L["xfs"]["items"])) + L["xfs"]["tail"])
    r = rng.random()
    if r < 0.15:
        L["post"] = b""
    elif r < 0.4:
        L["post"] = L["post"] + _rand_body(rng)
    elif r < 0.5:
        L["post"] = _rand_body(rng)
    return L

# ------------------------------------------------------------------ encoder (independent of Coq's)
def enc_raw(r):
    return frame(r["fr"], r["id"], r["body"])

def enc_layout(L):
    out = b"".join(enc_raw(r) for r in L["pre"])
    if L["fmts"] is not None:
        F = L["fmts"]
        out += frame(F["fr"], BRT_BEGIN_FMTS, struct.pack("<I", len(F["items"])) + F["tail"])
        for it in F["items"]:
            out += b"".join(enc_raw(r) for r in it["junk"])
            out += frame(it["fr"], BRT_FMT, struct.pack("<H", it["id"]) + wide(it["code"]) + it["tail"])
    out += b"".join(enc_raw(r) for r in L["mid"])
    X = L["xfs"]
    out += frame(X["fr"], BRT_BEGIN_CELLXFS, struct.pack("<I", len(X["items"])) + X["tail"])
    for it in X["items"]:
        out += b"".join(enc_raw(r) for r in it["junk"])
        out += frame(it["fr"], BRT_XF, struct.pack("<HH", it["parent"], it["ifmt"]) + it["tail"])
    return out + L["post"]

def default_part(customs, xfs):
    """the bytes every generated .xlsb package carries as xl/styles.bin unless told otherwise: Excel's
    shape, with the colliding colours"""
    return enc_layout(excel_layout(customs, xfs))

# ---- the text form understood by `xlsbstyles enc` (ocaml/cmd_xlsbstyles.ml)
def hx(b):
    return bytes(b).hex() if len(b) else "-"

def _fr(fr):
    return "%d,%d" % (1 if fr[0] else 0, fr[1])

def _raw(r):
    return "%s,%d,%s" % (_fr(r["fr"]), r["id"], hx(r["body"]))

def _raws(rs, sep):
    return sep.join(_raw(r) for r in rs) or "-"

def layout_text(L):
    if L["fmts"] is None:
        fm = "-"
    else:
        F = L["fmts"]
        fm = "%s,%s/%s" % (_fr(F["fr"]), hx(F["tail"]), ";".join(
            "%s@%s,%d,%s,%s" % (_raws(it["junk"], "~"), _fr(it["fr"]), it["id"],
                               it["code"].encode("utf-8").hex() or "-", hx(it["tail"])) for it in F["items"]) or "-")
    X = L["xfs"]
    xf = "%s,%s/%s" % (_fr(X["fr"]), hx(X["tail"]), ";".join(
        "%s@%s,%d,%d,%s" % (_raws(it["junk"], "~"), _fr(it["fr"]), it["parent"], it["ifmt"], hx(it["tail"]))
        for it in X["items"]) or "-")
    return "|".join([_raws(L["pre"], ";"), fm, _raws(L["mid"], ";"), xf, hx(L["post"])])
