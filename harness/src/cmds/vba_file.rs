// C18 (public API): open a generated workbook FILE and read its VBA project through
// Reader::vba_project().  args: kind (xlsx | xlsb | xls), path; the remaining args are for the
// model side.  Answer as the `vba` command: ok|R…|M… / err / none (no project reported).
use crate::util::{hex, hexstr};
use calamine::vba::VbaProject;
use calamine::{open_workbook, Reader, Xls, Xlsb, Xlsx};

fn show(p: &VbaProject) -> String {
    let refs: Vec<String> = p
        .get_references()
        .iter()
        .map(|r| format!("{}:{}:{}", hexstr(&r.name), hexstr(&r.description), hexstr(&r.path.to_string_lossy())))
        .collect();
    let mods: Vec<String> = p
        .get_module_names()
        .iter()
        .map(|n| {
            let raw = p.get_module_raw(n).map(hex).unwrap_or_else(|_| "?".to_string());
            let text = p.get_module(n).map(|t| hexstr(&t)).unwrap_or_else(|_| "?".to_string());
            format!("{}={}={}", hexstr(n), raw, text)
        })
        .collect();
    format!("ok|R{}|M{}", refs.join(","), mods.join(","))
}

pub fn run(args: &[&str]) -> String {
    let kind = args.first().copied().unwrap_or("");
    let path = args.get(1).copied().unwrap_or("");
    match kind {
        "xlsx" => match open_workbook::<Xlsx<_>, _>(path) {
            Ok(mut wb) => match wb.vba_project() {
                Some(Ok(p)) => show(&p),
                Some(Err(_)) => "err".to_string(),
                None => "none".to_string(),
            },
            Err(_) => "open-err".to_string(),
        },
        "xlsb" => match open_workbook::<Xlsb<_>, _>(path) {
            Ok(mut wb) => match wb.vba_project() {
                Some(Ok(p)) => show(&p),
                Some(Err(_)) => "err".to_string(),
                None => "none".to_string(),
            },
            Err(_) => "open-err".to_string(),
        },
        // xls reads the project while opening: a project error is an open error
        "xls" => match open_workbook::<Xls<_>, _>(path) {
            Ok(mut wb) => match wb.vba_project() {
                Some(Ok(p)) => show(&p),
                Some(Err(_)) => "err".to_string(),
                None => "none".to_string(),
            },
            Err(_) => "err".to_string(),
        },
        _ => "bad-kind".to_string(),
    }
}
