#!/usr/bin/env python3
"""c06_probe — development driver for property C06: builds only the Rust harness (against
VERIF_REPO) and runs the fault machinery of tools/props/c06.py without the Coq side.
    VERIF_REPO=/tmp/ag/c06/repo tools/c06_probe.py [--tier quick|thorough] [--seed N] [--only systematic|random|corpus|function]
Prints every distinct failure key with one example and keeps the witness under .cache/c06_probe/."""
import os, sys, time, json
sys.path.insert(0, os.path.dirname(os.path.abspath(__file__)))
import vlib

def main():
    a = sys.argv[1:]
    tier, seed, only = "quick", 20260926, None
    i = 0
    while i < len(a):
        if a[i] == "--tier": tier = a[i + 1]; i += 2
        elif a[i] == "--seed": seed = int(a[i + 1]); i += 2
        elif a[i] == "--only": only = a[i + 1]; i += 2
        else: i += 1
    ok, hooks, out = vlib.cargo_build()
    if not ok:
        print(out[-4000:]); return 2
    import importlib
    mod = importlib.import_module("props.c06")
    ctx = vlib.Ctx("C06", tier, seed)
    t0 = time.time()
    if only:
        mod.run_only(ctx, only)
    else:
        mod.run(ctx)
    print("wall %.1fs evaluations=%d" % (time.time() - t0, ctx.evaluations))
    print(json.dumps({k: v for k, v in sorted(ctx.distribution.items()) if k.startswith(("outcome", "phase"))}))
    for k, v in sorted(ctx.known_hits.items()):
        print("KNOWN", k, v)
    for v in ctx.violations:
        print("VIOLATION", v["what"]); print("     ", v["actual"]); print("     ", v["case"])
    for n in ctx.notes:
        print("note:", n)
    return 1 if ctx.violations else 0

if __name__ == "__main__":
    sys.exit(main())
