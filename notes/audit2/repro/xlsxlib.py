import zipfile, os
OUT='/tmp/ag/audit2/repro/out'
os.makedirs(OUT, exist_ok=True)
M='http://schemas.openxmlformats.org/spreadsheetml/2006/main'
R='http://schemas.openxmlformats.org/officeDocument/2006/relationships'
PR='http://schemas.openxmlformats.org/package/2006/relationships'
CT=('<?xml version="1.0" encoding="UTF-8" standalone="yes"?>\n<Types xmlns="http://schemas.openxmlformats.org/package/2006/content-types">'
    '<Default Extension="rels" ContentType="application/vnd.openxmlformats-package.relationships+xml"/><Default Extension="xml" ContentType="application/xml"/>'
    '<Override PartName="/xl/workbook.xml" ContentType="application/vnd.openxmlformats-officedocument.spreadsheetml.sheet.main+xml"/>'
    '<Override PartName="/xl/worksheets/sheet1.xml" ContentType="application/vnd.openxmlformats-officedocument.spreadsheetml.worksheet+xml"/>'
    '</Types>')
ROOTRELS=('<?xml version="1.0" encoding="UTF-8" standalone="yes"?>\n<Relationships xmlns="%s"><Relationship Id="rId1" Type="%s/officeDocument" Target="xl/workbook.xml"/></Relationships>')%(PR,R)
def workbook(sheets=(('S1','rId1'),), extra_before='', extra_after='', pr=''):
    return ('<?xml version="1.0" encoding="UTF-8" standalone="yes"?>\n<workbook xmlns="%s" xmlns:r="%s">%s%s<sheets>%s</sheets>%s</workbook>')%(
        M,R,pr,extra_before,''.join('<sheet name="%s" sheetId="%d" r:id="%s"/>'%(n,i+1,rid) for i,(n,rid) in enumerate(sheets)),extra_after)
def wbrels(rels=(('rId1','worksheet','worksheets/sheet1.xml'),), extra=''):
    return ('<?xml version="1.0" encoding="UTF-8" standalone="yes"?>\n<Relationships xmlns="%s">%s%s</Relationships>')%(
        PR,''.join('<Relationship Id="%s" Type="%s/%s" Target="%s"/>'%(i,R,t,tg) for i,t,tg in rels),extra)
def sheet(data, pre='', post=''):
    return ('<?xml version="1.0" encoding="UTF-8" standalone="yes"?>\n<worksheet xmlns="%s" xmlns:r="%s">%s<sheetData>%s</sheetData>%s</worksheet>')%(M,R,pre,data,post)
def sst(items):
    return ('<?xml version="1.0" encoding="UTF-8" standalone="yes"?>\n<sst xmlns="%s" count="%d" uniqueCount="%d">%s</sst>')%(M,len(items),len(items),''.join(items))
def styles(numfmts='', cellxfs='<xf numFmtId="0"/>'):
    return ('<?xml version="1.0" encoding="UTF-8" standalone="yes"?>\n<styleSheet xmlns="%s">%s<cellXfs>%s</cellXfs></styleSheet>')%(M,numfmts,cellxfs)
def write_xlsx(name, parts):
    """parts: dict name->content; defaults filled in"""
    d={'[Content_Types].xml':CT,'_rels/.rels':ROOTRELS,'xl/workbook.xml':workbook(),'xl/_rels/workbook.xml.rels':wbrels()}
    d.update(parts)
    p=os.path.join(OUT,name)
    with zipfile.ZipFile(p,'w',zipfile.ZIP_DEFLATED) as z:
        for k,v in d.items():
            if v is None: continue
            z.writestr(k, v if isinstance(v,bytes) else v.encode('utf-8'))
    return p
