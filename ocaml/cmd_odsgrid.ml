(* C04: the model side of harness/src/cmds/odsgrid.rs.
     odsgrid file <path> <desc>        desc = tokens separated by ' ':
                                         R<attrs>                    a table:table-row
                                         C<0|1><attrs>(~<item>)*     a (covered-)table-cell with
                                                                     its children: <hexpara> a text:p,
                                                                     w<hex> white space, k a comment,
                                                                     h<hexname>(:<hexpara>)* a drawing
                                                                     object with its paragraphs,
                                                                     n(:<hexpara>)* an annotation
                                         W<hex> | K | X              between the cells of the current
                                                                     row: text, a comment, anything
                                                                     else (a CDATA section)
                                       attrs = k=v,k=v (hex of UTF-8), possibly empty
     odsgrid hook <cells> <cols> <reps>
   Answers:  file: <model>##<coq spec or ->##p<counts_pos>e<extent_ok>k<rows legal>
             hook: <model>##<coq spec or -> *)
open Conv
open Prelude
open OdsGrid

let parse_attrs (s : string) =
  if s = "" then []
  else
    List.map (fun kv ->
        match String.split_on_char '=' kv with
        | [k; v] -> (scalars_of_hex k, scalars_of_hex v)
        | [k] -> (scalars_of_hex k, [])
        | _ -> failwith "bad attr") (String.split_on_char ',' s)

(* the content of table:table as the items the loop of read_table sees: rows (R… C… tokens),
   start tags G<hex name> / end tags g<hex name> of the elements that hold or accompany the rows,
   J = anything else (text, comment, empty element) *)
let parse_table (s : string) : titem list =
  let toks = split_on ' ' s in
  let rows = ref [] and cur = ref None in
  let flush () =
    match !cur with
    | None -> ()
    | Some (a, cells) -> rows := TRow { xr_attrs = a; xr_items = List.rev cells } :: !rows; cur := None in
  let row_item it =
    match !cur with
    | Some (ra, cells) -> cur := Some (ra, it :: cells)
    | None -> failwith "row item outside a row" in
  let parse_xitem (p : string) : xitem =
    if p = "" then XPara [] else
    let body = String.sub p 1 (String.length p - 1) in
    match p.[0] with
    | 'w' -> XWs (scalars_of_hex body)
    | 'k' -> XComment
    | 'h' ->
      (match String.split_on_char ':' body with
       | n :: ps -> XShape (scalars_of_hex n, List.map scalars_of_hex ps)
       | [] -> failwith "bad shape")
    | 'n' ->
      (match String.split_on_char ':' body with
       | _ :: ps -> XAnnot (List.map scalars_of_hex ps)
       | [] -> XAnnot [])
    | _ -> XPara (scalars_of_hex p) in
  List.iter (fun tok ->
      if tok <> "" then begin
        let body = String.sub tok 1 (String.length tok - 1) in
        match tok.[0] with
        | 'G' -> flush (); rows := TOpen (scalars_of_hex body, []) :: !rows
        | 'g' -> flush (); rows := TClose (scalars_of_hex body) :: !rows
        | 'J' -> flush (); rows := TOther :: !rows
        | 'R' -> flush (); cur := Some (parse_attrs body, [])
        | 'C' ->
          let parts = String.split_on_char '~' body in
          let head = List.hd parts in
          let cov = head.[0] = '1' in
          let a = parse_attrs (String.sub head 1 (String.length head - 1)) in
          let items = List.map parse_xitem (List.tl parts) in
          row_item (RCell { xc_covered = cov; xc_attrs = a; xc_items = items })
        | 'W' -> row_item (RText (scalars_of_hex body))
        | 'K' -> row_item RComment
        | 'X' -> row_item ROther
        | _ -> failwith "bad token"
      end) toks;
  flush ();
  List.rev !rows

let float_bits (s : BinNums.coq_N list) : string =
  let txt = utf8_encode (List.map int_of_n s) in
  match float_of_string_opt txt with
  | Some f -> Printf.sprintf "F%Lu" (Int64.bits_of_float f)
  | None -> "F?"

let show_data (v : data) : string =
  match v with
  | DEmpty -> "E"
  | DFloat s -> float_bits s
  | DString s -> "S" ^ hex_of_scalars s
  | DBool b -> if b then "B1" else "B0"
  | DDateTimeIso s -> "T" ^ hex_of_scalars s
  | DDurationIso s -> "U" ^ hex_of_scalars s

let show_str (s : BinNums.coq_N list) : string =
  match s with [] -> "E" | _ -> "S" ^ hex_of_scalars s

let show_int (n : BinNums.coq_N) : string =
  match n with BinNums.N0 -> "E" | _ -> "I" ^ string_of_n n

let range_str show r =
  match Range.start r, Range.end_ r with
  | Some a, Some e ->
    Printf.sprintf "R[%s,%s,%s,%s|%s]" (string_of_n (fst a)) (string_of_n (snd a))
      (string_of_n (fst e)) (string_of_n (snd e))
      (String.concat "/" (List.map (fun row -> String.concat "," (List.map show row)) (Range.rows r)))
  | _ -> "R[-]"

let pair_str (rv, rf) = "V" ^ range_str show_data rv ^ ";;F" ^ range_str show_str rf

let outcome_str f o =
  match o with
  | Ok x -> f x
  | Err _ -> "err"
  | Panic -> "panic"
  | OutOfFuel -> "fuel"

(* float approximation of an N, only used to decide whether the spec is cheap enough to run *)
let approx (n : BinNums.coq_N) : float = float_of_string (string_of_n n)

let run_file (args : string list) : string =
  let desc = match args with _ :: _ :: d :: _ -> d | _ -> "" in
  let items = parse_table desc in
  let xrows = rows_of items in
  let model = outcome_str pair_str (read_table_items (items @ [TClose k_table_table])) in
  let spec, flags =
    (* the spec is computed on the flat rows (cells alone, paragraphs alone): what the layout of
       the rows does is the model's business *)
    let legal = List.for_all xrow_legal xrows in
    match map_outcome read_xrow (List.map flat_row xrows) with
    | Ok rows ->
      let cost =
        List.fold_left (fun acc r ->
            let w = List.fold_left (fun a c -> a +. approx c.ce_rep) 0.0 r.re_cells in
            acc +. approx r.re_rep *. (w +. 1.0)) 0.0 rows in
      let flags =
        Printf.sprintf "p%de%dk%d" (if counts_pos rows then 1 else 0) (if extent_ok rows then 1 else 0)
          (if legal then 1 else 0) in
      ((if cost <= 400000.0 then pair_str (ods_spec_table rows) else "-"), flags)
    | _ -> ("-", "p-e-k-") in
  model ^ "##" ^ spec ^ "##" ^ flags

let nums (s : string) : BinNums.coq_N list = List.map n_of_string (split_on ',' s)

let run_hook (args : string list) : string =
  match args with
  | _ :: cells :: cols :: reps :: _ ->
    let cells = nums cells and cols = nums cols and reps = nums reps in
    let isd x = BinNat.N.eqb x BinNums.N0 in
    outcome_str (range_str show_int) (get_range BinNums.N0 isd cells cols reps)
  | _ -> "badargs"

let () =
  Registry.register "odsgrid" (fun args ->
      match args with
      | "file" :: _ -> run_file args
      | "hook" :: _ -> run_hook args
      | _ -> "badcmd")
let init () = ()
