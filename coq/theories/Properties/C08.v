(* Property C08 — the header-row option selects the first row without altering any cell.
   Model: HeaderRow.v (lazy path of xlsx/xlsb, eager path of xls/ods) on top of Range.v.
   Only property theorems, pins and Print Assumptions here; proofs in HeaderRow_proofs.v. *)
From Calamine Require Import Prelude Range Range_spec HeaderRow HeaderRow_proofs.
Open Scope N_scope.

(* ---- lazy path (xlsx, xlsb): cells = the sheet's non-Empty cells in document order ---- *)
(* With an explicit header row n the call does not panic; if the sheet has a cell in a row >= n
   the range starts exactly at row n, otherwise it is empty; every position with row >= n reads
   as under the default option (absent = the Empty value d); no value from a row < n appears. *)
Theorem C08_header_row_lazy :
  forall (T : Type) (d : T) (cells : list (pos * T)) (n : N),
    sorted_by_row cells ->
    pre empty (OFromSparse (lazy_cells d (HRow n) cells)) ->
    pre empty (OFromSparse cells) ->
    exists r r0,
      lazy_range d (HRow n) cells = Ok r /\ lazy_range d FirstNonEmptyRow cells = Ok r0 /\
      Wf r /\
      (if existsb (fun c => n <=? fst (fst c)) cells
       then option_map fst (start r) = Some n
       else is_empty r = true) /\
      (forall q, n <= fst q -> cell_or d r q = cell_or d r0 q) /\
      (forall q, fst q < n -> get_value r q = None).
Proof. exact header_row_lazy. Qed.

(* default option: the range starts at the first row that holds a cell *)
Theorem C08_default_starts_at_first_row :
  forall (T : Type) (d : T) (c0 : pos * T) (cells : list (pos * T)),
    sorted_by_row (c0 :: cells) ->
    pre empty (OFromSparse (c0 :: cells)) ->
    exists r0, lazy_range d FirstNonEmptyRow (c0 :: cells) = Ok r0 /\
      option_map fst (start r0) = Some (fst (fst c0)).
Proof. exact default_starts_at_first_row. Qed.

(* ---- eager path (xls, ods): sheet = the range stored when the workbook was opened ---- *)
Theorem C08_header_row_eager :
  forall (T : Type) (d : T) (sheet : range T) (n : N),
    Wf sheet ->
    (is_empty sheet = false -> n <= fst (r_end sheet) ->
       box_cells (n, snd (r_start sheet)) (r_end sheet) <= U32MAX) ->
    exists r,
      eager_range d (HRow n) sheet = Ok r /\ Wf r /\
      (if negb (is_empty sheet) && (n <=? fst (r_end sheet))
       then option_map fst (start r) = Some n
       else is_empty r = true) /\
      (forall q, n <= fst q -> cell_or d r q = cell_or d sheet q) /\
      (forall q, fst q < n -> get_value r q = None).
Proof. exact header_row_eager. Qed.

(* the default option returns the stored range unchanged *)
Theorem C08_eager_default_is_identity :
  forall (T : Type) (d : T) (sheet : range T),
    eager_range d FirstNonEmptyRow sheet = Ok sheet.
Proof. exact eager_default_is_identity. Qed.

(* non-vacuity *)
Example C08_lazy_nonvacuous :
  let cells := [((1, 1), 5); ((4, 2), 6); ((5, 0), 7)] in
  sorted_by_row cells /\ pre empty (OFromSparse (lazy_cells 0 (HRow 3) cells)) /\
  pre empty (OFromSparse cells) /\
  exists r, lazy_range 0 (HRow 3) cells = Ok r /\ r_start r = (3, 0) /\ r_end r = (5, 2).
Proof. exact lazy_nonvacuous. Qed.

Example C08_eager_nonvacuous :
  let sheet := mkRange (1, 1) (2, 2) [1; 0; 0; 2] in
  Wf sheet /\ exists r, eager_range 0 (HRow 0) sheet = Ok r /\ r_start r = (0, 1) /\
                        r_inner r = [0; 0; 1; 0; 0; 2].
Proof. exact eager_nonvacuous. Qed.

Check C08_header_row_lazy :
  forall (T : Type) (d : T) (cells : list (pos * T)) (n : N),
    sorted_by_row cells ->
    pre empty (OFromSparse (lazy_cells d (HRow n) cells)) ->
    pre empty (OFromSparse cells) ->
    exists r r0,
      lazy_range d (HRow n) cells = Ok r /\ lazy_range d FirstNonEmptyRow cells = Ok r0 /\
      Wf r /\
      (if existsb (fun c => n <=? fst (fst c)) cells
       then option_map fst (start r) = Some n
       else is_empty r = true) /\
      (forall q, n <= fst q -> cell_or d r q = cell_or d r0 q) /\
      (forall q, fst q < n -> get_value r q = None).
Check C08_header_row_eager :
  forall (T : Type) (d : T) (sheet : range T) (n : N),
    Wf sheet ->
    (is_empty sheet = false -> n <= fst (r_end sheet) ->
       box_cells (n, snd (r_start sheet)) (r_end sheet) <= U32MAX) ->
    exists r,
      eager_range d (HRow n) sheet = Ok r /\ Wf r /\
      (if negb (is_empty sheet) && (n <=? fst (r_end sheet))
       then option_map fst (start r) = Some n
       else is_empty r = true) /\
      (forall q, n <= fst q -> cell_or d r q = cell_or d sheet q) /\
      (forall q, fst q < n -> get_value r q = None).

Print Assumptions C08_header_row_lazy.
Print Assumptions C08_default_starts_at_first_row.
Print Assumptions C08_header_row_eager.
Print Assumptions C08_eager_default_is_identity.
