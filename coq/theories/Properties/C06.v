(* Property C06 — malformed or hostile files yield an error, never a panic, hang or memory
   blow-up.  PARTIAL BY NATURE: the property quantifies over every byte sequence handed to four
   readers; what is proved here is, for the functions listed, a statement over ALL inputs (every
   list of numbers, so every byte string, valid or not).  Every other parser is covered only by the
   fault enumeration of tools/props/c06.py (see notes/C06.md for the exact split).

   This file contains only the property theorems (closed by [exact]), [Check] pins of the main
   statements, non-vacuity examples and [Print Assumptions].
   Models of the hardened code: Totality.v; proofs: Totality_proofs.v.  Re-exported no-panic
   results of models other properties own: Ovba_proofs (C18), Serial_proofs (C11), Range_proofs (C05). *)
From Calamine Require Import Prelude Ovba Ovba_proofs Col26 Totality Totality_proofs
  Serial Serial_proofs Range Range_spec Range_proofs.
Open Scope N_scope.

(* ---------------------------------------------------------------------------------------------- *)
(* cfb::decompress_stream (hardened): every input                                                  *)
(* ---------------------------------------------------------------------------------------------- *)
(* no panic site is reachable and the fuel (= input length) always suffices: the decompressor
   returns Ok or Err on every input *)
Theorem C06_decompress_total :
  forall s : list N, decompress_h s <> Panic /\ decompress_h s <> OutOfFuel.
Proof. exact decompress_h_total. Qed.

(* output linear in the input: at most 2048 bytes per input byte (4096 per chunk, a chunk takes at
   least its two header bytes) — before the hardening a chunk could expand about 2000-fold per BYTE *)
Theorem C06_decompress_output_linear :
  forall s out : list N,
    decompress_h s = Ok out -> N.of_nat (length out) <= 2048 * N.of_nat (length s).
Proof. exact decompress_h_output_bound. Qed.

(* … and so is what it reserves ahead of the data (res.reserve(4096) per chunk) *)
Theorem C06_decompress_alloc_linear :
  forall s out : list N,
    decompress_h s = Ok out -> N.of_nat (length out) + 4096 <= decompress_alloc_bound s.
Proof. exact decompress_h_alloc_bound. Qed.

(* the copy-token field extraction cannot fail inside a chunk, whatever the token *)
Theorem C06_copy_token_fields_total :
  forall d t : N, d <= 4096 ->
    exists len off, copy_token_fields d t = Ok (len, off) /\ 3 <= len /\ 1 <= off <= 4096.
Proof. exact copy_token_fields_total. Qed.

(* ---------------------------------------------------------------------------------------------- *)
(* cfb::Sectors::get_chain (hardened): every file body, every allocation table                     *)
(* ---------------------------------------------------------------------------------------------- *)
(* the walk returns on every table — cyclic, dangling, empty — with a stream or an error; it needs
   no fuel beyond the table length it counts down itself *)
Theorem C06_get_chain_total :
  forall (body : list N) (size : N) (fats : list N) (start len : N),
    get_chain_h body size fats start len <> Panic /\
    get_chain_h body size fats start len <> OutOfFuel.
Proof. exact get_chain_h_total. Qed.

(* the stream is bounded by what the table can address and by the length asked for, and so is the
   capacity reserved before the first sector is read *)
Theorem C06_get_chain_bounded :
  forall (body : list N) (size : N) (fats : list N) (start len : N) (out : list N),
    get_chain_h body size fats start len = Ok out ->
    N.of_nat (length out) <= N.of_nat (length fats) * size /\
    (0 < len -> N.of_nat (length out) <= len) /\
    chain_capacity_h size fats len <= N.of_nat (length fats) * size.
Proof. exact get_chain_h_bound. Qed.

(* non-vacuity: a self-loop and a two-cycle are reported as errors, a proper chain is read *)
Example C06_get_chain_nonvacuous :
  get_chain_h (repeat 7 512) 512 [0] 0 0 = Err E_CYCLE /\
  get_chain_h (repeat 7 1024) 512 [1; 0] 0 100 = Err E_CYCLE /\
  get_chain_h [1; 2; 3; 4; 5; 6] 4 [1; ENDOFCHAIN] 0 5 = Ok [1; 2; 3; 4; 5].
Proof. exact (conj get_chain_h_self_loop (conj get_chain_h_two_cycle get_chain_h_ok)). Qed.

(* ---------------------------------------------------------------------------------------------- *)
(* xlsx get_row_and_optional_column (hardened): every byte string                                  *)
(* ---------------------------------------------------------------------------------------------- *)
Theorem C06_cell_ref_total :
  forall range : list N, get_rc_h range <> Panic /\ get_rc_h range <> OutOfFuel.
Proof. exact get_rc_h_total. Qed.

Theorem C06_cell_ref_in_range :
  forall (range : list N) (row : N) (col : option N),
    get_rc_h range = Ok (row, col) ->
    row <= U32MAX /\ match col with Some c => c <= U32MAX | None => True end.
Proof. exact get_rc_h_in_range. Qed.

(* the hardening changed no answer: where the model of the code before the fix (Col26, u32
   arithmetic, overflow = Panic) returns Ok or Err, the hardened function returns the same *)
Theorem C06_cell_ref_hardening_conservative :
  forall range : list N,
    (forall r, get_row_and_optional_column range = Ok r -> get_rc_h range = Ok r) /\
    (forall e, get_row_and_optional_column range = Err e -> get_rc_h range = Err e).
Proof. exact get_rc_h_preserves. Qed.

Example C06_cell_ref_nonvacuous :
  get_row_and_optional_column [65; 57; 57; 57; 57; 57; 57; 57; 57; 57; 57; 57] = Panic /\
  get_rc_h [65; 57; 57; 57; 57; 57; 57; 57; 57; 57; 57; 57] = Err E_OUT_OF_RANGE /\
  get_rc_h [65; 49] = Ok (0, Some 0).
Proof. exact get_rc_h_overflow_is_error. Qed.

(* ---------------------------------------------------------------------------------------------- *)
(* re-exports: no-panic / fuel results of models owned by other properties                         *)
(* ---------------------------------------------------------------------------------------------- *)
(* C18's model of the decompressor as it was before the hardening: its fuel suffices on every
   input (its Panic outcomes are the sites the hardening turned into errors) *)
Theorem C06_old_decompress_never_out_of_fuel :
  forall s : list N, decompress s <> OutOfFuel.
Proof. exact decompress_no_fuel. Qed.

(* C11: the serial-number conversions return a value for every double, NaN and infinities included *)
Theorem C06_serial_no_panic :
  (forall x : excel_dt,
     (exists r, edt_as_datetime x = Ok r) /\ (exists r, edt_as_duration x = Ok r)) /\
  (forall c : cell,
     (exists r, data_as_datetime c = Ok r) /\ (exists r, data_as_date c = Ok r) /\
     (exists r, data_as_time c = Ok r) /\ (exists r, data_as_duration c = Ok r)).
Proof. exact (conj edt_no_panic data_no_panic). Qed.

(* C05: Range operations under their documented preconditions never panic *)
Theorem C06_range_history_no_panic :
  forall (T : Type) (d : T) (ops : list (op T)) (r0 : range T),
    Wf r0 -> pre_all d r0 ops -> exists r, run d r0 ops = Ok r /\ Wf r.
Proof. exact range_wf_history. Qed.

(* ---------------------------------------------------------------------------------------------- *)
Check C06_decompress_total :
  forall s : list N, decompress_h s <> Panic /\ decompress_h s <> OutOfFuel.
Check C06_decompress_output_linear :
  forall s out : list N,
    decompress_h s = Ok out -> N.of_nat (length out) <= 2048 * N.of_nat (length s).
Check C06_get_chain_total :
  forall (body : list N) (size : N) (fats : list N) (start len : N),
    get_chain_h body size fats start len <> Panic /\
    get_chain_h body size fats start len <> OutOfFuel.
Check C06_cell_ref_total :
  forall range : list N, get_rc_h range <> Panic /\ get_rc_h range <> OutOfFuel.

Print Assumptions C06_decompress_total.
Print Assumptions C06_decompress_output_linear.
Print Assumptions C06_decompress_alloc_linear.
Print Assumptions C06_copy_token_fields_total.
Print Assumptions C06_get_chain_total.
Print Assumptions C06_get_chain_bounded.
Print Assumptions C06_get_chain_nonvacuous.
Print Assumptions C06_cell_ref_total.
Print Assumptions C06_cell_ref_in_range.
Print Assumptions C06_cell_ref_hardening_conservative.
Print Assumptions C06_cell_ref_nonvacuous.
Print Assumptions C06_old_decompress_never_out_of_fuel.
Print Assumptions C06_serial_no_panic.
Print Assumptions C06_range_history_no_panic.
