(* Ovba — MS-OVBA compressed containers (property C18).
   M: [decompress] = src/cfb.rs [decompress_stream], statement by statement.
   S: tokens / chunks with their byte-by-byte meaning ([sem_chunk]) and the MS-OVBA limits
      ([valid_chunk]).
   E: [ovba_encode], the MS-OVBA container writer (also the generator of the correspondence
      cases after extraction).
   Definitions only; the proofs are in Ovba_proofs.v.

   Representation choices of the model (none changes what is computed):
   * the read cursor [i] into the immutable input slice [s] is represented by the suffix
     [&s[i..]]; [i >= s.len()] is "the suffix is empty", [s[i]] is its head, [&s[i..i+n]] its
     first n elements ([s.get(..)] = None, i.e. the "truncated compressed stream" error, when
     shorter);
   * the output [res : Vec<u8>] is a record holding the bytes in REVERSED order plus the length
     (a Vec knows its length), so that [push] is a cons and the model stays linear-time after
     extraction; [vec_to_list] gives the bytes in order;
   * the scratch array [buf : [u8; 4096]] is only ever read on the prefix that was written by
     the statement just before, so only its bound (4096) is modelled. *)
From Calamine Require Import Prelude.
Open Scope N_scope.
Set Implicit Arguments.

(* ------------------------------------------------------------------------------------------ *)
(* Vec<u8>                                                                                      *)
(* ------------------------------------------------------------------------------------------ *)
Record vec := mkvec { v_rev : list N; v_len : N }.
Definition vec_empty : vec := mkvec [] 0.
Definition vec_push (v : vec) (b : N) : vec := mkvec (b :: v_rev v) (v_len v + 1).
(* extend_from_slice, the slice being given in reversed order *)
Definition vec_extend_rev (v : vec) (r : list N) : vec :=
  mkvec (r ++ v_rev v) (v_len v + N.of_nat (length r)).
(* &v[v.len() - n ..] in reversed order (callers check n <= v.len() first) *)
Definition vec_tail_rev (v : vec) (n : N) : list N := firstn (N.to_nat n) (v_rev v).
Definition vec_to_list (v : vec) : list N := rev_append (v_rev v) [].
Definition vec_of (l : list N) : vec := mkvec (rev_append l []) (N.of_nat (length l)).

(* ------------------------------------------------------------------------------------------ *)
(* M — decompress_stream                                                                        *)
(* ------------------------------------------------------------------------------------------ *)

(* error classes of CfbError (never compared as text) *)
Definition E_SIGNATURE : N := 0.        (* Invalid { name: "signature" } *)
Definition E_TRUNCATED : N := 1.        (* Io(UnexpectedEof, "truncated compressed stream") *)
Definition E_CHUNK_SIGNATURE : N := 2.  (* Invalid { name: "chunk signature" } *)
Definition E_CHUNK_OUTPUT : N := 3.     (* Invalid { name: "compressed chunk", expected: "at most 4096 decompressed bytes" } *)
Definition E_COPY_OFFSET : N := 4.      (* Invalid { name: "copy token offset" } *)

(* read_u16(s.get(i..i + 2).ok_or_else(truncated_stream)?) *)
Definition read_u16 (s : list N) : outcome N :=
  match s with
  | a :: b :: _ => Ok (a + 256 * b)
  | _ => Err E_TRUNCATED
  end.

(* (4..16).find(|i| POWER_2[*i] >= decomp_len); POWER_2[i] = 1 << i *)
Fixpoint find_bit_count (n : nat) (i decomp_len : N) : option N :=
  match n with
  | O => None
  | S n' => if decomp_len <=? N.shiftl 1 i then Some i
            else find_bit_count n' (i + 1) decomp_len
  end.
Definition bit_count_of (decomp_len : N) : option N := find_bit_count 12 4 decomp_len.

(* let bit_count = ….unwrap(); let len_mask = 0xFFFF >> bit_count;
   let mut len = (token & len_mask) as usize + 3;
   let offset = ((token & !len_mask) >> (16 - bit_count)) as usize + 1;        -> (len, offset) *)
Definition copy_token_fields (decomp_len token : N) : outcome (N * N) :=
  do bit_count <- of_option (bit_count_of decomp_len);
  let len_mask := N.shiftr 0xFFFF bit_count in
  let len := N.land token len_mask + 3 in
  let offset := N.shiftr (N.land token (N.lxor 0xFFFF len_mask)) (16 - bit_count) + 1 in
  Ok (len, offset).

(* while len > offset {
       buf[..offset].copy_from_slice(&res[res.len() - offset..]);
       res.extend_from_slice(&buf[..offset]);
       len -= offset;
   }                                                       (offset >= 1, so fuel = len suffices) *)
Fixpoint copy_loop (fuel : nat) (len offset : N) (res : vec) : outcome (N * vec) :=
  match fuel with
  | O => OutOfFuel
  | S f =>
    if offset <? len then
      if 4096 <? offset then Panic                 (* buf[..offset], buf: [u8; 4096] *)
      else if v_len res <? offset then Panic        (* res.len() - offset *)
      else copy_loop f (len - offset) offset (vec_extend_rev res (vec_tail_rev res offset))
    else Ok (len, res)
  end.

(* buf[..len].copy_from_slice(&res[res.len() - offset..res.len() - offset + len]);
   res.extend_from_slice(&buf[..len]); *)
Definition copy_tail (len offset : N) (res : vec) : outcome vec :=
  if 4096 <? len then Panic                         (* buf[..len] *)
  else if v_len res <? offset then Panic            (* res.len() - offset *)
  else if offset <? len then Panic                  (* slice end past res.len() *)
  else Ok (vec_extend_rev res (skipn (N.to_nat (offset - len)) (vec_tail_rev res offset))).

(* state of the flag-byte loop: &s[i..], res, chunk_len *)
Record cstate := mkst { st_in : list N; st_res : vec; st_clen : N }.

Definition CHUNK : N := 4096.

(* if res.len() - start >= 4096 { return Err(..) }
   res.push( *s.get(i).ok_or_else(truncated_stream)?); i += 1; chunk_len += 1; *)
Definition do_literal (start : N) (st : cstate) : outcome cstate :=
  if CHUNK <=? v_len (st_res st) - start then Err E_CHUNK_OUTPUT
  else
    match st_in st with
    | [] => Err E_TRUNCATED
    | b :: s' => Ok (mkst s' (vec_push (st_res st) b) (st_clen st + 1))
    end.

(* let token = read_u16(s.get(i..i + 2).ok_or_else(truncated_stream)?); i += 2; chunk_len += 2;
   let decomp_len = res.len() - start; …bit_count (unwrap), len…;
   if decomp_len + len > 4096 { return Err(..) }   …offset…;
   if offset > res.len() { return Err(..) }        …copy… *)
Definition do_copy (start : N) (st : cstate) : outcome cstate :=
  do token <- read_u16 (st_in st);
  let s' := skipn 2 (st_in st) in
  let decomp_len := v_len (st_res st) - start in
  do (len, offset) <- copy_token_fields decomp_len token;
  if CHUNK <? decomp_len + len then Err E_CHUNK_OUTPUT
  else if v_len (st_res st) <? offset then Err E_COPY_OFFSET
  else
    do (len', res1) <- copy_loop (N.to_nat len) len offset (st_res st);
    do res2 <- copy_tail len' offset res1;
    Ok (mkst s' res2 (st_clen st + 2)).

(* for bit_index in 0..8 { if chunk_len > chunk_size { break 'chunk; } …token… }
   result: (true, st) = left by [break 'chunk]; (false, st) = the for loop ran to its end *)
Fixpoint token_loop (n : nat) (bit_index bit_flags chunk_size start : N) (st : cstate)
  : outcome (bool * cstate) :=
  match n with
  | O => Ok (false, st)
  | S n' =>
    if chunk_size <? st_clen st then Ok (true, st)
    else
      do st' <- (if N.land bit_flags (N.shiftl 1 bit_index) =? 0
                 then do_literal start st else do_copy start st);
      token_loop n' (bit_index + 1) bit_flags chunk_size start st'
  end.

(* 'chunk: loop {
       if i >= s.len() || chunk_len > chunk_size { break; }
       let bit_flags = s[i]; i += 1; chunk_len += 1;
       for … } *)
Fixpoint chunk_loop (fuel : nat) (chunk_size start : N) (st : cstate) : outcome cstate :=
  match fuel with
  | O => OutOfFuel
  | S f =>
    match st_in st with
    | [] => Ok st
    | bit_flags :: s' =>
      if chunk_size <? st_clen st then Ok st
      else
        do (brk, st') <- token_loop 8 0 bit_flags chunk_size start
                           (mkst s' (st_res st) (st_clen st + 1));
        if (brk : bool) then Ok st' else chunk_loop f chunk_size start st'
    end
  end.

(* while i < s.len() { header; raw or compressed chunk } *)
Fixpoint chunks_loop (fuel : nat) (s : list N) (res : vec) : outcome vec :=
  match fuel with
  | O => OutOfFuel
  | S f =>
    match s with
    | [] => Ok res
    | _ :: _ =>
      do chunk_header <- read_u16 s;
      let s1 := skipn 2 s in
      let start := v_len res in
      let chunk_size := N.land chunk_header 0x0FFF in
      let chunk_signature := N.shiftr (N.land chunk_header 0x7000) 12 in
      let chunk_flag := N.shiftr (N.land chunk_header 0x8000) 15 in
      if negb (chunk_signature =? 3) then Err E_CHUNK_SIGNATURE
      else if chunk_flag =? 0 then
        let blk := firstn (N.to_nat CHUNK) s1 in              (* s.get(i..i + 4096) *)
        if N.of_nat (length blk) <? CHUNK then Err E_TRUNCATED
        else chunks_loop f (skipn (N.to_nat CHUNK) s1) (vec_extend_rev res (rev_append blk []))
      else
        do st <- chunk_loop f chunk_size start (mkst s1 res 0);
        chunks_loop f (st_in st) (st_res st)
    end
  end.

Definition decompress_fuel (fuel : nat) (s : list N) : outcome (list N) :=
  match s with
  | [] => Err E_TRUNCATED                                    (* s.first().ok_or_else(..)? *)
  | sig :: s' =>
    if negb (sig =? 1) then Err E_SIGNATURE
    else do res <- chunks_loop fuel s' vec_empty; Ok (vec_to_list res)
  end.

(* every loop iteration consumes input, so the input length bounds the iterations *)
Definition decompress (s : list N) : outcome (list N) := decompress_fuel (length s) s.

(* the number of chunk headers the outer loop processes (for the bound on the output length):
   the same walk as [chunks_loop], counting *)
Fixpoint chunks_count (fuel : nat) (s : list N) (res : vec) : nat :=
  match fuel with
  | O => O
  | S f =>
    match s with
    | [] => O
    | _ :: _ =>
      match read_u16 s with
      | Ok chunk_header =>
        let s1 := skipn 2 s in
        if negb (N.shiftr (N.land chunk_header 0x7000) 12 =? 3) then O
        else if N.shiftr (N.land chunk_header 0x8000) 15 =? 0 then
          let blk := firstn (N.to_nat CHUNK) s1 in
          if N.of_nat (length blk) <? CHUNK then O
          else S (chunks_count f (skipn (N.to_nat CHUNK) s1) (vec_extend_rev res (rev_append blk [])))
        else
          match chunk_loop f (N.land chunk_header 0x0FFF) (v_len res) (mkst s1 res 0) with
          | Ok st => S (chunks_count f (st_in st) (st_res st))
          | _ => O
          end
      | _ => O
      end
    end
  end.
Definition n_chunks (s : list N) : nat := chunks_count (length s) (tl s) vec_empty.

(* ------------------------------------------------------------------------------------------ *)
(* S — tokens, chunks, meaning, validity (MS-OVBA 2.4.1)                                        *)
(* ------------------------------------------------------------------------------------------ *)
Inductive token := Lit (b : N) | Copy (off len : N).
Inductive chunk := Raw (bs : list N) | Toks (ts : list token).

(* CopyToken Help (2.4.1.3.19.1): BitCount = max(ceil(log2(difference)), 4),
   MaximumLength = (0xFFFF >> BitCount) + 3; pos = DecompressedCurrent - DecompressedChunkStart *)
Definition spec_bit_count (pos : N) : N := N.max 4 (N.log2_up pos).
Definition max_len (pos : N) : N := N.shiftr 0xFFFF (spec_bit_count pos) + 3.
(* Pack CopyToken (2.4.1.3.19.3) *)
Definition pack (pos off len : N) : N :=
  N.lor (N.shiftl (off - 1) (16 - spec_bit_count pos)) (len - 3).

Definition tok_out (t : token) : N := match t with Lit _ => 1 | Copy _ l => l end.
Definition is_copy (t : token) : bool := match t with Lit _ => false | Copy _ _ => true end.

(* Byte Copy (2.4.1.3.11): one byte at a time, so that source and destination may overlap *)
Fixpoint copy_bytes (n off : nat) (out : list N) : list N :=
  match n with
  | O => out
  | S n' => copy_bytes n' off (out ++ [nth (length out - off) out 0])
  end.
Definition sem_token (out : list N) (t : token) : list N :=
  match t with
  | Lit b => out ++ [b]
  | Copy off len => copy_bytes (N.to_nat len) (N.to_nat off) out
  end.
Definition sem_tokens_from (out : list N) (ts : list token) : list N := fold_left sem_token ts out.
Definition sem_chunk (c : chunk) : list N :=
  match c with
  | Raw bs => bs
  | Toks ts => sem_tokens_from [] ts
  end.
Definition sem (cs : list chunk) : list N := concat (map sem_chunk cs).

Definition valid_tokenb (pos : N) (t : token) : bool :=
  match t with
  | Lit b => (b <? 256) && (pos <? CHUNK)
  | Copy off len =>
    (1 <=? off) && (off <=? pos) && (3 <=? len) && (len <=? max_len pos) && (pos + len <=? CHUNK)
  end.
Fixpoint valid_tokensb (pos : N) (ts : list token) : bool :=
  match ts with
  | [] => true
  | t :: ts' => valid_tokenb pos t && valid_tokensb (pos + tok_out t) ts'
  end.

(* ------------------------------------------------------------------------------------------ *)
(* E — the container writer                                                                     *)
(* ------------------------------------------------------------------------------------------ *)
Definition le16 (x : N) : list N := [x mod 256; x / 256].

Definition enc_token (pos : N) (t : token) : list N :=
  match t with
  | Lit b => [b]
  | Copy off len => le16 (pack pos off len)
  end.
(* the tokens of one flag group, back to back *)
Fixpoint enc_seq (pos : N) (ts : list token) : list N :=
  match ts with
  | [] => []
  | t :: ts' => enc_token pos t ++ enc_seq (pos + tok_out t) ts'
  end.
Fixpoint out_len (ts : list token) : N :=
  match ts with
  | [] => 0
  | t :: ts' => tok_out t + out_len ts'
  end.
(* FlagByte: bit k set iff the k-th token of the group is a copy token *)
Fixpoint flag_byte (ts : list token) : N :=
  match ts with
  | [] => 0
  | t :: ts' => 2 * flag_byte ts' + N.b2n (is_copy t)
  end.
(* token sequences: a flag byte then up to eight tokens, repeated (fuel = number of tokens) *)
Fixpoint enc_groups (fuel : nat) (pos : N) (ts : list token) : list N :=
  match fuel with
  | O => []
  | S f =>
    match ts with
    | [] => []
    | _ :: _ =>
      let g := firstn 8 ts in
      flag_byte g :: enc_seq pos g ++ enc_groups f (pos + out_len g) (skipn 8 ts)
    end
  end.
Definition enc_body (ts : list token) : list N := enc_groups (length ts) 0 ts.

(* CompressedChunkHeader: size - 3 | 0b011 << 12 | flag << 15, size = bytes of the chunk
   including the two header bytes *)
Definition chunk_header (size flag : N) : N :=
  N.lor (N.lor (size - 3) (N.shiftl 3 12)) (N.shiftl flag 15).
Definition encode_chunk (c : chunk) : list N :=
  match c with
  | Raw bs => le16 (chunk_header (N.of_nat (length bs) + 2) 0) ++ bs
  | Toks ts => let body := enc_body ts in
               le16 (chunk_header (N.of_nat (length body) + 2) 1) ++ body
  end.
Definition ovba_encode (cs : list chunk) : list N := 1 :: concat (map encode_chunk cs).

(* a chunk the format allows: raw chunks carry exactly 4096 bytes; a token chunk is not empty,
   decompresses to at most 4096 bytes, every token within the limits at its position, and its
   compressed size (with header) is at most 4098 *)
Definition valid_chunkb (c : chunk) : bool :=
  match c with
  | Raw bs => (N.of_nat (length bs) =? CHUNK) && forallb (fun b => b <? 256) bs
  | Toks ts =>
    match ts with [] => false | _ :: _ => true end &&
    valid_tokensb 0 ts &&
    (N.of_nat (length (enc_body ts)) <=? CHUNK)
  end.
Definition valid_chunk (c : chunk) : Prop := valid_chunkb c = true.

(* classes of valid containers on which the current code is known to deviate: none since the
   repair of the flag-byte-boundary defect (commit 01a1da3) *)
Definition known_C18 (cs : list chunk) : option N := None.

(* vba.rs, VbaProject::from_cfb: s.get(m.text_offset..).ok_or_else(..)? then decompress_stream:
   an offset recorded past the end of the module stream is an error *)
Definition module_content (stream : list N) (text_offset : N) : outcome (list N) :=
  if N.of_nat (length stream) <? text_offset then Err E_TRUNCATED
  else decompress (skipn (N.to_nat text_offset) stream).
