# ods_1: text of shapes / images anchored to a STRING cell leaks into the cell text (C19, C04)
# LibreOffice anchors images/shapes "to cell" by default and writes them as children of the
# table:table-cell, after the text:p (see /repo/tests/picture.ods for the <draw:image><text:p/></draw:image> form).
import sys; sys.path.insert(0, '/tmp/ag/audit2'); sys.path.insert(0, '/tmp/ag/audit2/repro')
from vhrun import vh, hx
from odslib import write_ods
S = hx('S1')
calls = ['range ' + S]

def cell(inner, typ='office:value-type="string" calcext:value-type="string"'):
    return ('<table:table table:name="S1"><table:table-row><table:table-cell %s>%s</table:table-cell>'
            '<table:table-cell office:value-type="float" office:value="2"><text:p>2</text:p></table:table-cell>'
            '</table:table-row></table:table>') % (typ, inner)

IMG = ('<draw:frame table:end-cell-address="S1.G31" table:end-x="0.7cm" table:end-y="0.05cm" draw:z-index="0" '
       'draw:name="Image 1" svg:width="14cm" svg:height="13cm" svg:x="0cm" svg:y="0cm">'
       '<draw:image xlink:href="Pictures/1.jpg" xlink:type="simple" xlink:show="embed" xlink:actuate="onLoad">'
       '<text:p/></draw:image></draw:frame>')
SHAPE = ('<draw:custom-shape table:end-cell-address="S1.C4" draw:z-index="1" draw:name="Shape 1" svg:width="3cm" '
         'svg:height="2cm" svg:x="0cm" svg:y="0cm"><text:p>Shape text</text:p>'
         '<draw:enhanced-geometry draw:type="rectangle"/></draw:custom-shape>')
TBOX = ('<draw:frame draw:z-index="2" draw:name="Box" svg:width="3cm" svg:height="1cm" svg:x="0cm" svg:y="0cm">'
        '<draw:text-box><text:p>Box line 1</text:p><text:p>Box line 2</text:p></draw:text-box></draw:frame>')

out = []
for name, inner in [
    ('plain', '<text:p>abc</text:p>'),
    ('image', '<text:p>abc</text:p>' + IMG),
    ('shape', '<text:p>abc</text:p>' + SHAPE),
    ('textbox', '<text:p>abc</text:p>' + TBOX),
    ('annot+image', '<office:annotation><dc:date>2024-01-01T00:00:00</dc:date><text:p>note</text:p></office:annotation><text:p>abc</text:p>' + IMG),
]:
    p = write_ods('ods_1_%s.ods' % name.replace('+', '_'), cell(inner))
    out.append('%-12s %s' % (name, vh('ods', p, calls)))
# control: the same shape on a float cell is skipped correctly (read_to_end_into)
p = write_ods('ods_1_float_shape.ods', cell('<text:p>1</text:p>' + SHAPE, 'office:value-type="float" office:value="1"'))
out.append('%-12s %s' % ('float+shape', vh('ods', p, calls)))
print('\n'.join(out))
