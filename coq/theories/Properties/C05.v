(* Property C05 — Range stays a consistent rectangle under every sequence of operations.
   This file contains only the property theorems (closed by [exact]), a [Check] pin of each
   full statement, and [Print Assumptions].  Model: Range.v; vocabulary: Range_spec.v;
   proofs: Range_proofs.v. *)
From Calamine Require Import Prelude Range Range_spec Range_proofs.
Open Scope N_scope.

(* every history that respects the documented preconditions runs without panic and every
   state it passes through is well formed *)
Theorem C05_history_wf :
  forall (T : Type) (d : T) (ops : list (op T)) (r0 : range T),
    Wf r0 -> pre_all d r0 ops ->
    exists r, run d r0 ops = Ok r /\ Wf r.
Proof. exact range_wf_history. Qed.

Theorem C05_new_spec :
  forall (T : Type) (d : T) (s e : pos),
    le2 s e -> box_cells s e <= U32MAX ->
    exists r, new d s e = Ok r /\ Wf r /\ rect r = Some (s, e) /\
      forall q, get_value r q = if in_box s e q then Some d else None.
Proof. exact new_spec. Qed.

(* set_value changes exactly the addressed cell and grows the rectangle to the bounding box of
   the old rectangle and that position, leaving every other cell unchanged *)
Theorem C05_set_value_spec :
  forall (T : Type) (d : T) (r : range T) (p : pos) (v : T),
    Wf r -> pre r (OSetValue p v) ->
    exists r', set_value d r p v = Ok r' /\ Wf r' /\
      rect r' = Some (bbox (rect r) p) /\
      forall q, get_value r' q =
        if pos_eqb q p then Some v
        else if in_rect r' q then Some (cell_or d r q) else None.
Proof. exact set_value_spec. Qed.

(* from_sparse places every cell at its position inside the tight bounding box *)
Theorem C05_from_sparse_spec :
  forall (T : Type) (d : T) (cs : list (pos * T)),
    pre empty (OFromSparse cs) ->
    exists r, from_sparse d cs = Ok r /\ Wf r /\
      rect r = tight_bbox (map fst cs) /\
      forall q, get_value r q = if in_rect r q then Some (last_write d cs q) else None.
Proof. exact from_sparse_spec. Qed.

(* range(s, e) has bounds (s, e), equals the source on the overlap, default elsewhere *)
Theorem C05_window_spec :
  forall (T : Type) (d : T) (r : range T) (s e : pos),
    Wf r -> le2 s e -> box_cells s e <= U32MAX ->
    exists w, window d r s e = Ok w /\ Wf w /\ rect w = Some (s, e) /\
      forall q, get_value w q = if in_box s e q then Some (cell_or d r q) else None.
Proof. exact window_spec. Qed.

(* the read accessors agree with each other and with start/end *)
Theorem C05_accessors_agree :
  forall (T : Type) (d : T) (teqb : T -> T -> bool) (r : range T),
    Wf r ->
    length (rows r) = N.to_nat (height r) /\
    Forall (fun row => length row = N.to_nat (width r)) (rows r) /\
    (forall i j, i < height r -> j < width r ->
       match nth_error (rows r) (N.to_nat i) with
       | Some row => nth_error row (N.to_nat j)
       | None => None
       end = get r (i, j) /\ get r (i, j) <> None) /\
    length (cells r) = N.to_nat (height r * width r) /\
    (forall i j, i < height r -> j < width r ->
       nth_error (cells r) (N.to_nat (i * width r + j)) =
       option_map (fun v => (i, j, v)) (get r (i, j))) /\
    used_cells d teqb r = filter (fun c => negb (teqb (snd c) d)) (cells r) /\
    (forall p, get_value r p =
       if in_rect r p then get r (fst p - fst (r_start r), snd p - snd (r_start r)) else None) /\
    (forall rel, index2 r rel = match get r rel with Some v => Ok v | None => Panic end) /\
    (forall rel, get r rel <> None <-> (fst rel < height r /\ snd rel < width r)) /\
    start r = option_map fst (rect r) /\ end_ r = option_map snd (rect r).
Proof. exact accessors_agree. Qed.

(* non-vacuity: a concrete non-trivial history meets the preconditions *)
Example C05_history_nonvacuous :
  let ops := [ONew (1, 1) (2, 3); OSetValue (4, 5) 7; OSetValue (1, 1) 9;
              OWindow (0, 0) (3, 3); OFromSparse [((2, 3), 5); ((4, 1), 6)];
              OEmpty; OSetValue (3, 3) 1] in
  Wf (@empty N) /\ pre_all 0 (@empty N) ops /\
  exists r, run 0 (@empty N) ops = Ok r /\ r_inner r = [1].
Proof. exact history_nonvacuous. Qed.

Check C05_history_wf :
  forall (T : Type) (d : T) (ops : list (op T)) (r0 : range T),
    Wf r0 -> pre_all d r0 ops -> exists r, run d r0 ops = Ok r /\ Wf r.
Check C05_set_value_spec :
  forall (T : Type) (d : T) (r : range T) (p : pos) (v : T),
    Wf r -> pre r (OSetValue p v) ->
    exists r', set_value d r p v = Ok r' /\ Wf r' /\
      rect r' = Some (bbox (rect r) p) /\
      forall q, get_value r' q =
        if pos_eqb q p then Some v
        else if in_rect r' q then Some (cell_or d r q) else None.
Check C05_window_spec :
  forall (T : Type) (d : T) (r : range T) (s e : pos),
    Wf r -> le2 s e -> box_cells s e <= U32MAX ->
    exists w, window d r s e = Ok w /\ Wf w /\ rect w = Some (s, e) /\
      forall q, get_value w q = if in_box s e q then Some (cell_or d r q) else None.
Check C05_from_sparse_spec :
  forall (T : Type) (d : T) (cs : list (pos * T)),
    pre empty (OFromSparse cs) ->
    exists r, from_sparse d cs = Ok r /\ Wf r /\
      rect r = tight_bbox (map fst cs) /\
      forall q, get_value r q = if in_rect r q then Some (last_write d cs q) else None.

Print Assumptions C05_history_wf.
Print Assumptions C05_new_spec.
Print Assumptions C05_set_value_spec.
Print Assumptions C05_from_sparse_spec.
Print Assumptions C05_window_spec.
Print Assumptions C05_accessors_agree.
