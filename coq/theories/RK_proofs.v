(* RK_proofs.v — theorems about the RK model of RK.v.  All statements quantify over every
   32-bit pattern / every legal form and are proved arithmetically over N and Z (two's
   complement made explicit), not by enumeration.  The only enumeration is the byte-level
   identity [b & 0xFC = 4 * (b / 4)] over the 256 byte values.  No axioms. *)
From Calamine Require Import Prelude RK.
Open Scope N_scope.
Set Implicit Arguments.
Set Default Proof Using "Type".

(* ---------- little-endian bytes ---------- *)
Lemma le_bytes_length : forall k v, length (le_bytes k v) = k.
Proof. induction k as [|k IH]; intros v; cbn [le_bytes length]; auto. Qed.

Lemma le_val_le_bytes : forall k v, le_val (le_bytes k v) = v mod 256 ^ N.of_nat k.
Proof.
  induction k as [|k IH]; intros v.
  - cbn [le_bytes le_val]. change (256 ^ N.of_nat 0) with 1. now rewrite N.mod_1_r.
  - cbn [le_bytes le_val]. rewrite IH.
    replace (N.of_nat (S k)) with (N.succ (N.of_nat k)) by lia.
    rewrite N.pow_succ_r'.
    assert (H : 256 ^ N.of_nat k <> 0) by (apply N.pow_nonzero; lia).
    set (m := 256 ^ N.of_nat k) in *.
    rewrite N.mod_mul_r by lia. reflexivity.
Qed.

Lemma le_bytes_bytes : forall k v, Forall (fun b => b < 256) (le_bytes k v).
Proof.
  induction k as [|k IH]; intros v; cbn [le_bytes]; constructor; auto.
  apply N.mod_lt. lia.
Qed.

Lemma nthN_app_l : forall (A : Type) (l l' : list A) i, i < N.of_nat (length l) ->
  nthN (l ++ l') i = nthN l i.
Proof.
  induction l as [|x l IH]; intros l' i H; cbn [length] in H; [lia|].
  cbn [app nthN]. destruct (i =? 0) eqn:E; auto. apply IH. lia.
Qed.

(* ---------- bits of a byte / of a word ---------- *)
Fixpoint upto (n : nat) : list N :=
  match n with O => [] | S k => upto k ++ [N.of_nat k] end.

Lemma upto_In : forall n b, b < N.of_nat n -> In b (upto n).
Proof.
  induction n as [|n IH]; intros b H; [lia|].
  cbn [upto]. apply in_or_app.
  destruct (N.eq_dec b (N.of_nat n)) as [->|Hne]; [right; left; reflexivity|].
  left. apply IH. lia.
Qed.

(* v[4] &= 0xFC : the only finite sweep, over the 256 byte values *)
Lemma land252_sweep : forallb (fun b => N.land b 252 =? 4 * (b / 4)) (upto 256) = true.
Proof. vm_compute. reflexivity. Qed.

Lemma land252 : forall b, b < 256 -> N.land b 252 = 4 * (b / 4).
Proof.
  intros b H. pose proof land252_sweep as S. rewrite forallb_forall in S.
  apply N.eqb_eq. apply S. apply upto_In. exact H.
Qed.

Lemma odd_eqb : forall a, N.odd a = (a mod 2 =? 1).
Proof. intros a. rewrite <- N.bit0_odd. apply N.bit0_eqb. Qed.

Lemma bit1_eqb : forall a, N.testbit a 1 = ((a / 2) mod 2 =? 1).
Proof. intros a. rewrite N.testbit_eqb. reflexivity. Qed.

Lemma odd_low_byte : forall w, N.odd (w mod 256) = N.odd w.
Proof. intros w. rewrite !odd_eqb. f_equal. lia. Qed.

Lemma bit1_low_byte : forall w, N.testbit (w mod 256) 1 = N.testbit w 1.
Proof. intros w. rewrite !bit1_eqb. f_equal. lia. Qed.

(* the masked bytes reassemble to the word with its two low bits cleared *)
Lemma masked_word : forall w, w < 4294967296 ->
  N.land (w mod 256) 252 + 256 * (w / 256 mod 256) + 65536 * (w / 65536 mod 256)
    + 16777216 * (w / 16777216) = 4 * (w / 4).
Proof.
  intros w H. rewrite land252 by (apply N.mod_lt; lia). lia.
Qed.

(* (read_i32 >> 2) of a word 4p is the sign-extended 30-bit payload p *)
Lemma shiftr_i32 : forall p, p < 1073741824 -> Z.shiftr (to_i32 (4 * p)) 2 = signed30 p.
Proof.
  intros p H. rewrite Z.shiftr_div_pow2 by lia. change (2 ^ 2)%Z with 4%Z.
  unfold to_i32, signed30.
  destruct (4 * p <? 2147483648) eqn:E1; destruct (p <? 536870912) eqn:E2; lia.
Qed.

Lemma signed30_range : forall p, p < 1073741824 ->
  (-536870912 <= signed30 p < 536870912)%Z.
Proof. intros p H. unfold signed30. destruct (p <? 536870912) eqn:E; lia. Qed.

(* ---------- decoding is the denotation of the pattern's form ---------- *)
Lemma form_of_word_legal : forall w, w < 4294967296 -> legal_form (rk_form_of_word w) = true.
Proof.
  intros w Hw. unfold rk_form_of_word.
  assert (Hp : w / 4 < 1073741824) by lia.
  destruct (N.testbit w 1); cbn [legal_form].
  - pose proof (signed30_range Hp). lia.
  - lia.
Qed.

Lemma flag_odd : forall x, flag (N.odd x) = x mod 2.
Proof. intros x. rewrite odd_eqb. unfold flag. destruct (x mod 2 =? 1) eqn:E; lia. Qed.

Theorem form_of_word_encode : forall w, w < 4294967296 -> rk_encode (rk_form_of_word w) = w.
Proof.
  intros w Hw. unfold rk_form_of_word.
  destruct (N.testbit w 1) eqn:Hb; cbn [rk_encode]; rewrite flag_odd.
  - rewrite bit1_eqb in Hb.
    assert (Hs : Z.to_N (signed30 (w / 4) mod 1073741824) = w / 4).
    { unfold signed30. destruct (w / 4 <? 536870912) eqn:E; lia. }
    rewrite Hs. lia.
  - rewrite bit1_eqb in Hb. lia.
Qed.

(* ---------- the encoder ---------- *)
Lemma rk_encode_lt : forall f, legal_form f = true -> rk_encode f < 4294967296.
Proof.
  intros [v x|hi x] H; cbn [legal_form rk_encode] in *; unfold flag; destruct x; lia.
Qed.

Lemma rk_encode_int_bits : forall v x,
  N.testbit (rk_encode (RkI v x)) 1 = true /\ N.odd (rk_encode (RkI v x)) = x /\
  rk_encode (RkI v x) / 4 = Z.to_N (v mod 1073741824).
Proof.
  intros v x. cbn [rk_encode]. rewrite bit1_eqb, odd_eqb. unfold flag.
  destruct x; repeat split; lia.
Qed.

Lemma rk_encode_float_bits : forall hi x,
  N.testbit (rk_encode (RkF hi x)) 1 = false /\ N.odd (rk_encode (RkF hi x)) = x /\
  rk_encode (RkF hi x) / 4 = hi.
Proof.
  intros hi x. cbn [rk_encode]. rewrite bit1_eqb, odd_eqb. unfold flag.
  destruct x; repeat split; lia.
Qed.

Lemma signed30_encode : forall v, (-536870912 <= v < 536870912)%Z ->
  signed30 (Z.to_N (v mod 1073741824)) = v.
Proof.
  intros v H. unfold signed30.
  destruct (Z.to_N (v mod 1073741824) <? 536870912) eqn:E; lia.
Qed.

Lemma form_of_word_encode_inv : forall f, legal_form f = true ->
  rk_form_of_word (rk_encode f) = f.
Proof.
  intros [v x|hi x] H; unfold rk_form_of_word.
  - destruct (rk_encode_int_bits v x) as (B1 & B0 & Bp). rewrite B1, B0, Bp.
    cbn [legal_form] in H. rewrite signed30_encode by lia. reflexivity.
  - destruct (rk_encode_float_bits hi x) as (B1 & B0 & Bp). rewrite B1, B0, Bp. reflexivity.
Qed.

(* the encoder reaches every 32-bit pattern: nothing the decoder accepts is left out *)
Theorem rk_forms_cover : forall w, w < 4294967296 ->
  exists f, legal_form f = true /\ rk_encode f = w.
Proof.
  intros w Hw. exists (rk_form_of_word w). split.
  - apply form_of_word_legal. exact Hw.
  - apply form_of_word_encode. exact Hw.
Qed.

(* ---------- bytes of the RkRec ---------- *)
Lemma word_bytes : forall w, w < 4294967296 ->
  le_bytes 4 w = [w mod 256; w / 256 mod 256; w / 65536 mod 256; w / 16777216].
Proof.
  intros w H. cbn [le_bytes].
  replace (w / 256 / 256 mod 256) with (w / 65536 mod 256) by lia.
  replace (w / 256 / 256 / 256 mod 256) with (w / 16777216) by lia.
  reflexivity.
Qed.

Section RKProofs.
Variable fdiv100 : N -> N.
Notation rk_decode := (rk_decode fdiv100).
Notation rk_form_value := (rk_form_value fdiv100).

(* ---------- every pattern with fInt set ---------- *)
Theorem rk_int_all : forall w, w < 4294967296 -> N.testbit w 1 = true ->
  rk_decode w =
    let v := signed30 (w / 4) in
    if N.odd w
    then (if (Z.rem v 100 =? 0)%Z then RInt (Z.quot v 100) else RFloat (fdiv100 (z2f v)))
    else RInt v.
Proof.
  intros w Hw Hb. unfold RK.rk_decode, rk_val4.
  rewrite odd_low_byte, bit1_low_byte, Hb, masked_word by exact Hw.
  rewrite shiftr_i32 by lia. cbn zeta.
  destruct (N.odd w); cbn [andb]; [|reflexivity].
  destruct (Z.rem (signed30 (w / 4)) 100 =? 0)%Z; reflexivity.
Qed.

(* ---------- every pattern with fInt clear ---------- *)
Theorem rk_float_all : forall w, w < 4294967296 -> N.testbit w 1 = false ->
  rk_decode w =
    let x := (w - w mod 4) * 4294967296 in
    RFloat (if N.odd w then fdiv100 x else x).
Proof.
  intros w Hw Hb. unfold RK.rk_decode, rk_val4.
  rewrite odd_low_byte, bit1_low_byte, Hb, masked_word by exact Hw.
  cbn zeta. replace (4 * (w / 4)) with (w - w mod 4) by lia. reflexivity.
Qed.

Theorem rk_decode_form : forall w, w < 4294967296 ->
  rk_decode w = rk_form_value (rk_form_of_word w).
Proof.
  intros w Hw. unfold rk_form_of_word.
  destruct (N.testbit w 1) eqn:Hb.
  - rewrite rk_int_all by assumption. cbn zeta. cbn [RK.rk_form_value].
    destruct (N.odd w); reflexivity.
  - rewrite rk_float_all by assumption. cbn zeta. cbn [RK.rk_form_value].
    replace ((w - w mod 4) * 4294967296) with (w / 4 * 17179869184) by lia.
    destruct (N.odd w); reflexivity.
Qed.

(* every legal RK form of a number decodes to the value it denotes *)
Theorem rk_roundtrip : forall f, legal_form f = true ->
  rk_decode (rk_encode f) = rk_form_value f.
Proof.
  intros f H. rewrite rk_decode_form by (apply rk_encode_lt; exact H).
  rewrite form_of_word_encode_inv by exact H. reflexivity.
Qed.

(* ... hence to a value numerically equal to any double the form is a form of *)
Corollary rk_roundtrip_num : forall bits f, form_of fdiv100 bits f = true ->
  rk_num_eqb (rk_decode (rk_encode f)) bits = true.
Proof.
  intros bits f H. unfold form_of in H. apply andb_true_iff in H as [Hl Hn].
  rewrite rk_roundtrip by exact Hl. exact Hn.
Qed.

Theorem rk_num_bytes : forall ixfe w formats is1904, ixfe < 65536 -> w < 4294967296 ->
  rk_num fdiv100 (le_bytes 2 ixfe ++ le_bytes 4 w) formats is1904 =
    Ok (rk_wrap (rk_decode w) (nthN formats ixfe) is1904).
Proof.
  intros ixfe w formats is1904 Hi Hw. rewrite word_bytes by exact Hw.
  cbn [le_bytes app rk_num]. unfold RK.rk_decode.
  replace (ixfe mod 256 + 256 * (ixfe / 256 mod 256)) with ixfe by lia. reflexivity.
Qed.

Theorem rk_num_panics : forall rk formats is1904, length rk <> 6%nat ->
  rk_num fdiv100 rk formats is1904 = Panic.
Proof.
  intros rk formats is1904 H.
  do 7 (destruct rk as [|? rk]; try reflexivity). cbn [length] in H. lia.
Qed.

(* rk_num never yields an integer outside the 30-bit range, so [v as f64] is exact *)
Theorem rk_int_range : forall w, w < 4294967296 ->
  match rk_decode w with
  | RInt v => (-536870912 <= v < 536870912)%Z
  | RFloat _ => True
  end.
Proof.
  intros w Hw. rewrite rk_decode_form by exact Hw.
  pose proof (form_of_word_legal Hw) as L. unfold rk_form_of_word in *.
  destruct (N.testbit w 1); [|destruct (N.odd w); exact I].
  cbn [legal_form] in L. set (v := signed30 (w / 4)) in *.
  destruct (N.odd w); cbn [RK.rk_form_value]; [|lia].
  destruct (Z.rem v 100 =? 0)%Z; [|exact I].
  pose proof (Z.quot_rem' v 100). pose proof (Z.rem_bound_abs v 100). lia.
Qed.

End RKProofs.

(* ---------- [v as f64] ---------- *)
(* z2f is injective on the 30-bit range: distinct integers are distinct doubles, so
   "numerically equal" cannot confuse two integers. *)
Lemma z2f_mag_bounds : forall m, 0 < m -> m < 9007199254740992 ->
  let e := N.log2 m in
  e < 53 /\ 2 ^ e <= m < 2 ^ (e + 1) /\
  z2f_mag m = (1023 + e) * 4503599627370496 + (m - 2 ^ e) * 2 ^ (52 - e).
Proof.
  intros m H0 H1 e. pose proof (N.log2_spec m H0) as S. fold e in S.
  rewrite <- N.add_1_r in S. split; [|split; [exact S|]].
  - apply N.log2_lt_pow2; [exact H0|]. exact H1.
  - unfold z2f_mag. destruct m; [lia|reflexivity].
Qed.

(* the double of a non-zero integer is not one of the zeros, and its sign bit is the sign *)
Lemma z2f_mag_pos : forall m, 0 < m -> m < 9007199254740992 ->
  4503599627370496 <= z2f_mag m < 9223372036854775808.
Proof.
  intros m H0 H1. destruct (z2f_mag_bounds H0 H1) as (He & (Hlo & Hhi) & ->).
  set (e := N.log2 m) in *.
  assert (Hf : (m - 2 ^ e) * 2 ^ (52 - e) < 4503599627370496).
  { change 4503599627370496 with (2 ^ 52).
    replace 52 with (e + (52 - e)) at 2 by lia. rewrite N.pow_add_r.
    apply N.mul_lt_mono_pos_r.
    - assert (2 ^ (52 - e) <> 0) by (apply N.pow_nonzero; lia). lia.
    - rewrite N.pow_add_r in Hhi. change (2 ^ 1) with 2 in Hhi. lia. }
  split; [nia|].
  assert (1023 + e <= 1075) by lia. nia.
Qed.
