(* XmlText: cell text through the XML storage forms of xlsx and ods (property C19).

   Models start at the EVENT LIST that quick-xml hands to calamine (tokenisation, entity and
   character-reference unescaping, attribute parsing and zip are external, DESIGN.md section 3):

       Start name attrs | End name | Text s | CData s | Other          (end of list = Eof)

   with `expand_empty_elements = true` (an empty element is a Start immediately followed by an
   End), `trim_text(false)`, `check_end_names = false`.  Names are qualified names as bytes;
   strings are lists of scalar values, already unescaped.

   M (models, one Rust loop = one state of a machine, one match arm = one transition):
     xlsx  read_string           src/xlsx/mod.rs            rs_step / rs_run / read_string
           read_shared_strings   src/xlsx/mod.rs            sst_run / read_shared_strings
           next_cell inner loop, read_value, read_v (text types)
                                 src/xlsx/cells_reader.rs   cc_step / cc_run / read_cell
           next_formula inner loop, read_formula (plain formulas)
                                 src/xlsx/cells_reader.rs   fc_step / fc_run / read_fcell
     ods   get_datatype (attribute loop + content loop) and the read_to_end_into of read_row
                                 src/ods.rs                 ods_attrs / od_step / ods_cell
   S (spec): item_text, tc_text, content_text — the text an element denotes per ECMA-376 /
     ODF 1.2.   E (encoders): item_events, sst_events, cell_events, content_events, with the
     storage-form choices as their arguments; legal_* predicates.
   Source state: /repo at 9abe48a (6af5287 + the C06 hardening: a shared-string index outside
   the table is an error, Eof inside office:annotation is an error; no transition of any loop
   below can panic any more and none needs fuel): CDATA sections are text in <t>/<v>/<f>/text:p (db4dbf4),
   read_string compares its end tag by qualified name (7dba6c7), ods <text:tab/> and
   <text:line-break/> append TAB / LF (69a4591), the characters of a <t> and of the <v> of a
   t="str" cell go through unescape_xstring (6af5287).  No known class is left: there are no
   known_* predicates any more.
   Definitions only (executable); proofs are in XmlText_proofs.v. *)
From Calamine Require Import Prelude.
From Coq Require Strings.String Strings.Ascii.
Open Scope N_scope.
Set Implicit Arguments.

Definition str := list N.

Fixpoint str_eqb (a b : str) : bool :=
  match a, b with
  | [], [] => true
  | x :: a', y :: b' => (x =? y) && str_eqb a' b'
  | _, _ => false
  end.

Definition COLON : N := 58.

(* quick-xml QName::local_name: everything after the FIRST ':' (memchr), the whole name if none *)
Fixpoint after_colon (n : str) : option str :=
  match n with
  | [] => None
  | c :: r => if c =? COLON then Some r else after_colon r
  end.
Definition local_name (n : str) : str :=
  match after_colon n with Some r => r | None => n end.

Definition no_colon (n : str) : bool := forallb (fun c => negb (c =? COLON)) n.

(* qualified name under a namespace prefix ([] = default namespace) *)
Definition qn (pfx l : str) : str :=
  match pfx with [] => l | _ => pfx ++ COLON :: l end.

(* ---------- names ---------- *)
(* String is imported only inside this module so that List's names stay visible elsewhere *)
Module Lit.
Import Coq.Strings.String Coq.Strings.Ascii.
Fixpoint s2l (s : string) : list N :=
  match s with
  | EmptyString => []
  | String a r => N_of_ascii a :: s2l r
  end.

(* element names (local) *)
Definition n_r    : list N := Eval vm_compute in s2l "r"%string.
Definition n_rPh  : list N := Eval vm_compute in s2l "rPh"%string.
Definition n_t    : list N := Eval vm_compute in s2l "t"%string.
Definition n_si   : list N := Eval vm_compute in s2l "si"%string.
Definition n_sst  : list N := Eval vm_compute in s2l "sst"%string.
Definition n_is   : list N := Eval vm_compute in s2l "is"%string.
Definition n_v    : list N := Eval vm_compute in s2l "v"%string.
Definition n_f    : list N := Eval vm_compute in s2l "f"%string.
Definition n_c    : list N := Eval vm_compute in s2l "c"%string.
Definition n_rPr  : list N := Eval vm_compute in s2l "rPr"%string.
Definition n_sheetData : list N := Eval vm_compute in s2l "sheetData"%string.
Definition n_row  : list N := Eval vm_compute in s2l "row"%string.
Definition n_phoneticPr : list N := Eval vm_compute in s2l "phoneticPr"%string.
(* attribute names / values *)
Definition a_t    : list N := Eval vm_compute in s2l "t"%string.
Definition a_r    : list N := Eval vm_compute in s2l "r"%string.
Definition a_space : list N := Eval vm_compute in s2l "xml:space"%string.
Definition v_preserve : list N := Eval vm_compute in s2l "preserve"%string.
Definition v_s    : list N := Eval vm_compute in s2l "s"%string.
Definition v_str  : list N := Eval vm_compute in s2l "str"%string.
Definition v_inlineStr : list N := Eval vm_compute in s2l "inlineStr"%string.
Definition v_is   : list N := Eval vm_compute in s2l "is"%string.
Definition v_b    : list N := Eval vm_compute in s2l "b"%string.
Definition v_e    : list N := Eval vm_compute in s2l "e"%string.
Definition v_d    : list N := Eval vm_compute in s2l "d"%string.
Definition v_n    : list N := Eval vm_compute in s2l "n"%string.
Definition a_sb   : list N := Eval vm_compute in s2l "sb"%string.
Definition a_eb   : list N := Eval vm_compute in s2l "eb"%string.
Definition a_fontId : list N := Eval vm_compute in s2l "fontId"%string.
Definition v_0    : list N := Eval vm_compute in s2l "0"%string.
Definition v_1    : list N := Eval vm_compute in s2l "1"%string.
(* ods *)
Definition o_cell     : list N := Eval vm_compute in s2l "table:table-cell"%string.
Definition o_covered  : list N := Eval vm_compute in s2l "table:covered-table-cell"%string.
Definition o_annot    : list N := Eval vm_compute in s2l "office:annotation"%string.
Definition o_p        : list N := Eval vm_compute in s2l "text:p"%string.
Definition o_s        : list N := Eval vm_compute in s2l "text:s"%string.
Definition o_c        : list N := Eval vm_compute in s2l "text:c"%string.
Definition o_tab      : list N := Eval vm_compute in s2l "text:tab"%string.
Definition o_break    : list N := Eval vm_compute in s2l "text:line-break"%string.
Definition o_span     : list N := Eval vm_compute in s2l "text:span"%string.
Definition o_ruby      : list N := Eval vm_compute in s2l "text:ruby"%string.
Definition o_ruby_base : list N := Eval vm_compute in s2l "text:ruby-base"%string.
Definition o_ruby_text : list N := Eval vm_compute in s2l "text:ruby-text"%string.
(* some drawing objects by name (used in examples; the reader knows them by prefix only) *)
Definition o_frame     : list N := Eval vm_compute in s2l "draw:frame"%string.
Definition o_text_box  : list N := Eval vm_compute in s2l "draw:text-box"%string.
Definition o_image     : list N := Eval vm_compute in s2l "draw:image"%string.
Definition o_draw_g    : list N := Eval vm_compute in s2l "draw:g"%string.
Definition o_cshape    : list N := Eval vm_compute in s2l "draw:custom-shape"%string.
Definition o_scene     : list N := Eval vm_compute in s2l "dr3d:scene"%string.
Definition p_draw      : list N := Eval vm_compute in s2l "draw:"%string.
Definition p_dr3d      : list N := Eval vm_compute in s2l "dr3d:"%string.
Definition o_style_name : list N := Eval vm_compute in s2l "text:style-name"%string.
Definition o_value    : list N := Eval vm_compute in s2l "office:value"%string.
Definition o_string_value : list N := Eval vm_compute in s2l "office:string-value"%string.
Definition o_date_value : list N := Eval vm_compute in s2l "office:date-value"%string.
Definition o_time_value : list N := Eval vm_compute in s2l "office:time-value"%string.
Definition o_boolean_value : list N := Eval vm_compute in s2l "office:boolean-value"%string.
Definition o_value_type : list N := Eval vm_compute in s2l "office:value-type"%string.
Definition o_formula  : list N := Eval vm_compute in s2l "table:formula"%string.
Definition v_string   : list N := Eval vm_compute in s2l "string"%string.
Definition v_TRUE     : list N := Eval vm_compute in s2l "TRUE"%string.
Definition v_true     : list N := Eval vm_compute in s2l "true"%string.

End Lit.
Export Lit.

(* ---------- events ---------- *)
Definition attrs := list (str * str).
Inductive event : Type :=
| Start (name : str) (a : attrs)
| End (name : str)
| Text (s : str)
| CData (s : str)
| Other.                       (* comment, processing instruction, declaration, doctype *)

(* get_attribute / try_get_attribute: the first attribute whose key equals the name *)
Fixpoint get_attribute (a : attrs) (k : str) : option str :=
  match a with
  | [] => None
  | (k', v) :: r => if str_eqb k' k then Some v else get_attribute r k
  end.

(* error classes (only the class travels; the harness prints "err") *)
Definition ERR_EOF : N := 1.
Definition ERR_NODE : N := 2.          (* UnexpectedNode("v, f, or is") *)
Definition ERR_TATTR : N := 3.         (* CellTAttribute / Unexpected *)
Definition ERR_PARSEINT : N := 4.
Definition ERR_INDEX : N := 5.         (* Unexpected("shared string index out of bounds") *)

(* result of one transition of a reader loop *)
Inductive step_res (S R : Type) : Type :=
| Cont (s : S)                 (* stay in the loops *)
| Ret (r : R)                  (* the function returns *)
| Fail (e : N)                 (* Err(_) *)
| Boom.                        (* panic *)
Arguments Cont {S R} s.
Arguments Ret {S R} r.
Arguments Fail {S R} e.
Arguments Boom {S R}.

(* ====================================================================================== *)
(*          ECMA-376 ST_Xstring: S (xunescape), E (xescape), M (unescape_xstring)          *)
(* ====================================================================================== *)
(* S.  ST_Xstring (ECMA-376 Part 1, 22.9.2.19): _xHHHH_ stands for the character with that code
   (that is how Excel stores CR and the characters XML 1.0 cannot carry; a literal underscore
   that would otherwise start an escape is written _x005F_).  Lower-case x, exactly four hex
   digits of either case, closing underscore.  One left-to-right pass; decoded characters are
   not examined again.  An escape naming a surrogate code unit (D800-DFFF) does not denote a
   character and stays as written (a Rust String could not hold it either). *)
Definition hexval (c : N) : option N :=
  if (48 <=? c) && (c <=? 57) then Some (c - 48)
  else if (65 <=? c) && (c <=? 70) then Some (c - 55)
  else if (97 <=? c) && (c <=? 102) then Some (c - 87)
  else None.
Definition is_surrogate (c : N) : bool := (55296 <=? c) && (c <=? 57343).
Fixpoint xunescape (s : str) : str :=
  match s with
  | [] => []
  | c :: s' =>
    match s' with
    | x :: h1 :: h2 :: h3 :: h4 :: u :: r =>
      if (c =? 95) && (x =? 120) && (u =? 95) then
        match hexval h1, hexval h2, hexval h3, hexval h4 with
        | Some a, Some b, Some d, Some e =>
          let v := a * 4096 + b * 256 + d * 16 + e in
          if is_surrogate v then c :: xunescape s' else v :: xunescape r
        | _, _, _, _ => c :: xunescape s'
        end
      else c :: xunescape s'
    | _ => c :: xunescape s'
    end
  end.

(* E.  A writer in the style of Excel: every underscore is written _x005F_ (Excel does so only
   where an escape would otherwise be read; escaping all of them is legal and simpler), the
   characters selected by [must] that four hex digits can name are written _xHHHH_ (upper-case
   digits), everything else literally. *)
Definition hexdigit (d : N) : N := if d <? 10 then 48 + d else 55 + d.
Definition esc4 (c : N) : str :=
  [95; 120; hexdigit (c / 4096); hexdigit ((c / 256) mod 16); hexdigit ((c / 16) mod 16);
   hexdigit (c mod 16); 95].
Definition escapable (c : N) : bool := (c <? 65536) && negb (is_surrogate c).
Definition xescape (must : N -> bool) (s : str) : str :=
  flat_map (fun c => if (c =? 95) || (must c && escapable c) then esc4 c else [c]) s.
(* what Excel escapes: C0 controls other than TAB and LF (so CR is), U+FFFE, U+FFFF *)
Definition excel_must (c : N) : bool :=
  ((c <? 32) && negb (c =? 9) && negb (c =? 10)) || (c =? 65534) || (c =? 65535).

(* M.  src/xlsx/mod.rs unescape_xstring (6af5287).  The Rust function walks the UTF-8 bytes; an
   escape is seven ASCII bytes, i.e. seven one-byte characters, and `i` only advances by whole
   characters or by those seven bytes, so the walk over scalar values below is the same walk
   (seven bytes b[i..i+7] that pass the tests are seven characters and conversely). *)
(* s.contains("_x") *)
Fixpoint contains_ux (s : str) : bool :=
  match s with
  | [] => false
  | c :: r => ((c =? 95) && match r with x :: _ => x =? 120 | [] => false end) || contains_ux r
  end.
(* u8::is_ascii_hexdigit / (h as char).to_digit(16) *)
Definition is_ascii_hexdigit (c : N) : bool :=
  ((48 <=? c) && (c <=? 57)) || ((65 <=? c) && (c <=? 70)) || ((97 <=? c) && (c <=? 102)).
Definition to_digit16 (c : N) : N :=
  if c <=? 57 then c - 48 else if c <=? 70 then c - 55 else c - 87.
(* char::from_u32 on a value below 0x10000: None exactly for the surrogates *)
Definition char_from_u32 (v : N) : option N :=
  if (55296 <=? v) && (v <=? 57343) || (1114111 <? v) then None else Some v.
(* one iteration of `while i < b.len()` per call *)
Fixpoint ux_loop (s : str) : str :=
  match s with
  | [] => []
  | c :: s' =>
    match s' with
    | x :: h1 :: h2 :: h3 :: h4 :: u :: r =>
      (* b[i] == b'_' && i + 7 <= b.len() && b[i + 1] == b'x' && b[i + 6] == b'_' *)
      if (c =? 95) && (x =? 120) && (u =? 95) then
        if forallb is_ascii_hexdigit [h1; h2; h3; h4] then
          let code := fold_left (fun a h => a * 16 + to_digit16 h) [h1; h2; h3; h4] 0 in
          match char_from_u32 code with
          | Some ch => ch :: ux_loop r                      (* out.push(c); i += 7; continue *)
          | None => c :: ux_loop s'
          end
        else c :: ux_loop s'
      else c :: ux_loop s'
    | _ => c :: ux_loop s'
    end
  end.
Definition unescape_xstring (s : str) : str :=
  if negb (contains_ux s) then s else ux_loop s.

(* ====================================================================================== *)
(*                                xlsx  read_string                                        *)
(* ====================================================================================== *)
Inductive rs_state : Type :=
| RsOuter (rich : option str) (phon : bool)           (* the main loop *)
| RsInT (rich : option str) (tname : str) (value : str)  (* the loop inside <t> (phon = false) *)
| RsSkip (value : str) (depth : N).                    (* xml.read_to_end_into(closing) *)

Definition rs_step (closing : str) (st : rs_state) (e : event) : step_res rs_state (option str) :=
  match st with
  | RsOuter rich phon =>
    match e with
    | Start n _ =>
      let l := local_name n in
      if str_eqb l n_r then
        Cont (RsOuter (Some (match rich with Some b => b | None => [] end)) phon)
      else if str_eqb l n_rPh then Cont (RsOuter rich true)
      else if str_eqb l n_t && negb phon then Cont (RsInT rich n [])
      else Cont st
    | End n =>
      (* e.name() == closing: qualified name against the start tag's qualified name (7dba6c7) *)
      if str_eqb n closing then Ret rich
      else if str_eqb (local_name n) n_rPh then Cont (RsOuter rich false)
      else Cont st
    | _ => Cont st
    end
  | RsInT rich tname value =>
    match e with
    | Text s => Cont (RsInT rich tname (value ++ s))          (* Event::Text: unescaped *)
    | CData s => Cont (RsInT rich tname (value ++ s))         (* Event::CData: verbatim (db4dbf4) *)
    | End n =>
      if str_eqb n tname then
        let value' := unescape_xstring value in                 (* let value = unescape_xstring(value) *)
        match rich with
        | Some b => Cont (RsOuter (Some (b ++ value')) false)
        | None => Cont (RsSkip value' 0)                       (* early return path *)
        end
      else Cont st
    | _ => Cont st                                              (* nested Start, comments: dropped *)
    end
  | RsSkip value depth =>
    match e with
    | Start n _ => if str_eqb n closing then Cont (RsSkip value (depth + 1)) else Cont st
    | End n =>
      if str_eqb n closing then
        if depth =? 0 then Ret (Some value) else Cont (RsSkip value (depth - 1))
      else Cont st
    | _ => Cont st
    end
  end.

(* every loop answers Eof with an error *)
Fixpoint rs_run (closing : str) (st : rs_state) (evs : list event)
  : outcome (option str * list event) :=
  match evs with
  | [] => Err ERR_EOF
  | e :: rest =>
    match rs_step closing st e with
    | Cont st' => rs_run closing st' rest
    | Ret r => Ok (r, rest)
    | Fail c => Err c
    | Boom => Panic
    end
  end.

(* read_string(xml, closing): called just after the Start event whose name is [closing] *)
Definition read_string (closing : str) (evs : list event) : outcome (option str * list event) :=
  rs_run closing (RsOuter None false) evs.

(* ====================================================================================== *)
(*                              xlsx  read_shared_strings                                  *)
(* ====================================================================================== *)
Definition unwrap_or_default (o : option str) : str :=
  match o with Some s => s | None => [] end.

(* [cur] = Some (closing, st) while read_string is running for an item; [racc] is the table in
   reverse order *)
Fixpoint sst_run (cur : option (str * rs_state)) (racc : list str) (evs : list event)
  : outcome (list str) :=
  match evs with
  | [] => Err ERR_EOF
  | e :: rest =>
    match cur with
    | Some (closing, st) =>
      match rs_step closing st e with
      | Cont st' => sst_run (Some (closing, st')) racc rest
      | Ret r => sst_run None (unwrap_or_default r :: racc) rest     (* empty item keeps its index *)
      | Fail c => Err c
      | Boom => Panic
      end
    | None =>
      match e with
      | Start n _ =>
        if str_eqb (local_name n) n_si then sst_run (Some (n, RsOuter None false)) racc rest
        else sst_run None racc rest
      | End n =>
        if str_eqb (local_name n) n_sst then Ok (rev racc) else sst_run None racc rest
      | _ => sst_run None racc rest
      end
    end
  end.
Definition read_shared_strings (evs : list event) : outcome (list str) := sst_run None [] evs.

(* ====================================================================================== *)
(*                      xlsx  cell content: <is>, <v>, <f>  (text types)                   *)
(* ====================================================================================== *)
Definition is_digit (c : N) : bool := (48 <=? c) && (c <=? 57).

(* unbounded value of a digit string; Rust's checked parsers fail exactly when this exceeds
   the type's maximum (the running value is monotone) *)
Definition dec_value (ds : str) : N := fold_left (fun a c => a * 10 + (c - 48)) ds 0.

(* atoi_simd::parse::<usize>: digits only, non-empty, at most 20 of them, <= u64::MAX *)
Definition parse_usize (v : str) : option N :=
  match v with
  | [] => None
  | _ =>
    if forallb is_digit v && (N.of_nat (length v) <=? 20) && (dec_value v <=? U64MAX)
    then Some (dec_value v) else None
  end.

Inductive cellval : Type :=
| CEmpty
| CString (s : str)             (* DataRef::String / DataRef::SharedString *)
| CNonText.                     (* numbers, booleans, errors, dates: outside this model *)

(* read_v for the text types; t = None / n / b / e / d are not text storage forms *)
Definition read_v (v : str) (strings : list str) (cattrs : attrs) : step_res cellval cellval :=
  match get_attribute cattrs a_t with
  | Some t =>
    if str_eqb t v_s then
      let idx := match parse_usize v with Some i => i | None => 0 end in      (* unwrap_or(0) *)
      if idx <? N.of_nat (length strings) then                     (* strings.get(idx) *)
        match nth_error strings (N.to_nat idx) with
        | Some s => Cont (CString s)
        | None => Fail ERR_INDEX
        end
      else Fail ERR_INDEX                       (* "shared string index out of bounds" (C06 hardening) *)
    else if str_eqb t v_str then Cont (CString (unescape_xstring v))
    else if str_eqb t v_b || str_eqb t v_e || str_eqb t v_d || str_eqb t v_n then Cont CNonText
    else Fail ERR_TATTR                                            (* "is" or unknown *)
  | None => Cont CNonText
  end.

Inductive cc_state : Type :=
| CcOuter (value : cellval)                (* loop inside <c> *)
| CcInIs (closing : str) (st : rs_state)   (* read_string(xml, e.name()) *)
| CcInV (vname : str) (acc : str)          (* text accumulation in <v> *)
| CcInF (fname : str) (depth : N).         (* read_to_end_into(e.name()) for <f> *)

Definition cc_step (strings : list str) (cattrs : attrs) (st : cc_state) (e : event)
  : step_res cc_state cellval :=
  match st with
  | CcOuter value =>
    match e with
    | Start n _ =>
      let l := local_name n in
      if str_eqb l n_is then Cont (CcInIs n (RsOuter None false))
      else if str_eqb l n_v then Cont (CcInV n [])
      else if str_eqb l n_f then Cont (CcInF n 0)
      else Fail ERR_NODE
    | End n => if str_eqb (local_name n) n_c then Ret value else Cont st
    | _ => Cont st
    end
  | CcInIs closing rs =>
    match rs_step closing rs e with
    | Cont rs' => Cont (CcInIs closing rs')
    | Ret r => Cont (CcOuter (match r with Some s => CString s | None => CEmpty end))
    | Fail c => Fail c
    | Boom => Boom
    end
  | CcInV vname acc =>
    match e with
    | Text s => Cont (CcInV vname (acc ++ s))                    (* Event::Text *)
    | CData s => Cont (CcInV vname (acc ++ s))                   (* Event::CData (db4dbf4) *)
    | End n =>
      if str_eqb n vname then
        match read_v acc strings cattrs with
        | Cont v => Cont (CcOuter v)
        | Ret v => Cont (CcOuter v)
        | Fail c => Fail c
        | Boom => Boom
        end
      else Cont st
    | _ => Cont st
    end
  | CcInF fname depth =>
    match e with
    | Start n _ => if str_eqb n fname then Cont (CcInF fname (depth + 1)) else Cont st
    | End n =>
      if str_eqb n fname then
        if depth =? 0 then Cont (CcOuter CEmpty) else Cont (CcInF fname (depth - 1))
      else Cont st
    | _ => Cont st
    end
  end.

Fixpoint cc_run (strings : list str) (cattrs : attrs) (st : cc_state) (evs : list event)
  : outcome (cellval * list event) :=
  match evs with
  | [] => Err ERR_EOF
  | e :: rest =>
    match cc_step strings cattrs st e with
    | Cont st' => cc_run strings cattrs st' rest
    | Ret r => Ok (r, rest)
    | Fail c => Err c
    | Boom => Panic
    end
  end.

(* the loop of next_cell after `Start c cattrs`, up to and including `End c` *)
Definition read_cell (strings : list str) (cattrs : attrs) (evs : list event)
  : outcome (cellval * list event) :=
  cc_run strings cattrs (CcOuter CEmpty) evs.

(* The loop of next_cell over the events that follow `Start sheetData`, reduced to what matters
   for text: which <c> elements are read, with which attributes, and what value each yields
   (positions are C01's: the r attribute is returned as it stands).  A cell whose reader does not
   stop at its own end tag (irregular nesting) goes on consuming the following cells, exactly as
   the real loop does.  [cur] = Some (cattrs, st) while the inner loop of a <c> is running. *)
Fixpoint sheet_run (strings : list str) (cur : option (attrs * cc_state))
         (racc : list (attrs * cellval)) (evs : list event) : outcome (list (attrs * cellval)) :=
  match evs with
  | [] => Err ERR_EOF
  | e :: rest =>
    match cur with
    | Some (ca, st) =>
      match cc_step strings ca st e with
      | Cont st' => sheet_run strings (Some (ca, st')) racc rest
      | Ret v => sheet_run strings None ((ca, v) :: racc) rest
      | Fail c => Err c
      | Boom => Panic
      end
    | None =>
      match e with
      | Start n a =>
        if str_eqb (local_name n) n_c then sheet_run strings (Some (a, CcOuter CEmpty)) racc rest
        else sheet_run strings None racc rest            (* <row>: position bookkeeping only *)
      | End n =>
        if str_eqb (local_name n) n_sheetData then Ok (rev racc) else sheet_run strings None racc rest
      | _ => sheet_run strings None racc rest
      end
    end
  end.
Definition read_sheet_cells (strings : list str) (evs : list event)
  : outcome (list (attrs * cellval)) := sheet_run strings None [] evs.

(* ====================================================================================== *)
(*               xlsx  formula text: next_formula inner loop, read_formula                 *)
(* ====================================================================================== *)
(* what worksheet_formula gets for a cell.  A <f t="shared"> hands the value to the shared
   formula bookkeeping (SharedFmla.v, property C17): here only the marker [FvOutside]. *)
Inductive fval : Type :=
| FvNone                        (* no <f>: value = None -> "" *)
| FvText (s : str)              (* Some(f) *)
| FvOutside.                    (* decided by the shared-formula branch: outside this model *)

Definition v_shared : str := [115; 104; 97; 114; 101; 100].       (* "shared" *)
(* if let Ok(Some(b"shared")) = get_attribute(e.attributes(), QName(b"t")) *)
Definition is_shared (a : attrs) : bool :=
  match get_attribute a a_t with Some t => str_eqb t v_shared | None => false end.

Inductive fc_state : Type :=
| FcOuter (value : fval)                                        (* loop inside <c> *)
| FcSkip (name : str) (shared : bool) (depth : N) (value : fval)
                                        (* read_formula on <is>/<v>: read_to_end_into(e.name()) *)
| FcInF (fname : str) (shared : bool) (acc : str).             (* read_formula on <f> *)

Definition fc_step (st : fc_state) (e : event) : step_res fc_state fval :=
  match st with
  | FcOuter value =>
    match e with
    | Start n a =>
      let l := local_name n in
      if str_eqb l n_is || str_eqb l n_v then Cont (FcSkip n (is_shared a) 0 value)
      else if str_eqb l n_f then Cont (FcInF n (is_shared a) [])
      else Fail ERR_NODE
    | End n => if str_eqb (local_name n) n_c then Ret value else Cont st
    | _ => Cont st
    end
  | FcSkip name shared depth value =>
    match e with
    | Start n _ => if str_eqb n name then Cont (FcSkip name shared (depth + 1) value) else Cont st
    | End n =>
      if str_eqb n name then
        if depth =? 0 then Cont (FcOuter (if shared then FvOutside else value))   (* Ok(None) *)
        else Cont (FcSkip name shared (depth - 1) value)
      else Cont st
    | _ => Cont st
    end
  | FcInF fname shared acc =>
    match e with
    | Text s => Cont (FcInF fname shared (acc ++ s))
    | CData s => Cont (FcInF fname shared (acc ++ s))            (* Event::CData (db4dbf4) *)
    | End n =>
      if str_eqb n fname then Cont (FcOuter (if shared then FvOutside else FvText acc))
      else Cont st
    | _ => Cont st
    end
  end.

Fixpoint fc_run (st : fc_state) (evs : list event) : outcome (fval * list event) :=
  match evs with
  | [] => Err ERR_EOF
  | e :: rest =>
    match fc_step st e with
    | Cont st' => fc_run st' rest
    | Ret r => Ok (r, rest)
    | Fail c => Err c
    | Boom => Panic
    end
  end.
Definition read_fcell (evs : list event) : outcome (fval * list event) := fc_run (FcOuter FvNone) evs.

(* the loop of next_formula over the events that follow `Start sheetData` *)
Fixpoint fsheet_run (cur : option (attrs * fc_state)) (racc : list (attrs * fval))
         (evs : list event) : outcome (list (attrs * fval)) :=
  match evs with
  | [] => Err ERR_EOF
  | e :: rest =>
    match cur with
    | Some (ca, st) =>
      match fc_step st e with
      | Cont st' => fsheet_run (Some (ca, st')) racc rest
      | Ret v => fsheet_run None ((ca, v) :: racc) rest
      | Fail c => Err c
      | Boom => Panic
      end
    | None =>
      match e with
      | Start n a =>
        if str_eqb (local_name n) n_c then fsheet_run (Some (a, FcOuter FvNone)) racc rest
        else fsheet_run None racc rest
      | End n =>
        if str_eqb (local_name n) n_sheetData then Ok (rev racc) else fsheet_run None racc rest
      | _ => fsheet_run None racc rest
      end
    end
  end.
Definition read_sheet_formulas (evs : list event) : outcome (list (attrs * fval)) :=
  fsheet_run None [] evs.

(* ====================================================================================== *)
(*                                  ods  get_datatype                                      *)
(* ====================================================================================== *)
Inductive odsval : Type :=
| OEmpty
| OString (s : str)
| ODateIso (s : str)
| ODurIso (s : str)
| OBool (b : bool)
| ONonText.                     (* office:value: the float parse is external *)

(* the attribute loop: the first value attribute wins *)
Fixpoint ods_attrs (a : attrs) (is_string is_set : bool) (val : odsval) (formula : str)
  : bool * bool * odsval * str :=
  match a with
  | [] => (is_string, is_set, val, formula)
  | (k, v) :: r =>
    if str_eqb k o_value && negb is_set then ods_attrs r is_string true ONonText formula
    else if (str_eqb k o_string_value || str_eqb k o_date_value || str_eqb k o_time_value)
            && negb is_set then
      ods_attrs r is_string true
        (if str_eqb k o_date_value then ODateIso v
         else if str_eqb k o_time_value then ODurIso v else OString v) formula
    else if str_eqb k o_boolean_value && negb is_set then
      ods_attrs r is_string true (OBool (str_eqb v v_TRUE || str_eqb v v_true)) formula
    else if str_eqb k o_value_type && negb is_set then
      ods_attrs r (str_eqb v v_string) is_set val formula
    else if str_eqb k o_formula then ods_attrs r is_string is_set val v
    else ods_attrs r is_string is_set val formula
  end.

(* str::parse::<i32>: optional sign, at least one digit, no overflow *)
Definition I32MAX : N := 2147483647.
Definition parse_i32 (v : str) : option Z :=
  let body (ds : str) (neg : bool) : option Z :=
    match ds with
    | [] => None
    | _ =>
      if forallb is_digit ds then
        let n := dec_value ds in
        if neg then (if n <=? I32MAX + 1 then Some (- Z.of_N n)%Z else None)
        else (if n <=? I32MAX then Some (Z.of_N n) else None)
      else None
    end in
  match v with
  | 43 :: ds => body ds false        (* '+' *)
  | 45 :: ds => body ds true         (* '-' *)
  | _ => body v false
  end.

Definition SPACE : N := 32.
Definition spaces (count : Z) : str := repeat SPACE (Z.to_nat count).   (* for _ in 0..count *)

(* <[u8]>::starts_with *)
Fixpoint starts_with (p n : str) : bool :=
  match p, n with
  | [], _ => true
  | x :: p', y :: n' => (x =? y) && starts_with p' n'
  | _ :: _, [] => false
  end.
(* the elements whose whole subtree the content loop passes over (read_to_end_into): drawing
   objects anchored to the cell (fix ODS-1) and the phonetic guide of a text:ruby (fix ODS-4) *)
Definition skipped_subtree (n : str) : bool :=
  starts_with p_draw n || starts_with p_dr3d n || str_eqb n o_ruby_text.

(* [paras] = `paragraphs`, the number of open text:p elements (a usize: `+= 1` cannot overflow on
   an input that fits in memory; `saturating_sub(1)` is the truncated subtraction of N) *)
Inductive od_state : Type :=
| OdMain (s : str) (first : bool) (paras : N)    (* the content loop *)
| OdAnnot (s : str) (first : bool) (paras : N)   (* the inner loop skipping office:annotation *)
| OdSub (name : str) (depth : N) (s : str) (first : bool) (paras : N)
                                       (* read_to_end_into(name) inside the content loop *)
| OdSkip (depth : N).                  (* read_row: read_to_end_into(cell name) when !is_closed *)

(* [cname] is the name of the cell's Start event; the content loop only runs when the value
   type is "string" and no value attribute was seen *)
Definition od_step (cname : str) (val : odsval) (st : od_state) (e : event)
  : step_res od_state odsval :=
  match st with
  | OdMain s first paras =>
    match e with
    (* character data is cell text only inside a paragraph (fix ODS-3) *)
    | Text t => if 0 <? paras then Cont (OdMain (s ++ t) first paras) else Cont st
    | CData t => if 0 <? paras then Cont (OdMain (s ++ t) first paras) else Cont st   (* Event::CData (db4dbf4) *)
    | End n =>
      if str_eqb n o_p then Cont (OdMain s first (paras - 1))
      else if str_eqb n o_cell || str_eqb n o_covered then Ret (OString s) else Cont st
    | Start n a =>
      if str_eqb n o_annot then Cont (OdAnnot s first paras)
      else if skipped_subtree n then Cont (OdSub n 0 s first paras)
      else if str_eqb n o_p then
        if first then Cont (OdMain s false (paras + 1)) else Cont (OdMain (s ++ [10]) false (paras + 1))
      else if str_eqb n o_s then
        match get_attribute a o_c with
        | Some c =>
          match parse_i32 c with
          | Some k => Cont (OdMain (s ++ spaces k) first paras)
          | None => Fail ERR_PARSEINT
          end
        | None => Cont (OdMain (s ++ [SPACE]) first paras)
        end
      else if str_eqb n o_tab then Cont (OdMain (s ++ [9]) first paras)          (* s.push('\t') (69a4591) *)
      else if str_eqb n o_break then Cont (OdMain (s ++ [10]) first paras)       (* s.push('\n') (69a4591) *)
      else Cont st
    | _ => Cont st
    end
  | OdAnnot s first paras =>
    match e with
    | End n => if str_eqb n o_annot then Cont (OdMain s first paras) else Cont st
    | _ => Cont st
    end
  | OdSub name depth s first paras =>
    match e with
    | Start n _ => if str_eqb n name then Cont (OdSub name (depth + 1) s first paras) else Cont st
    | End n =>
      if str_eqb n name then
        if depth =? 0 then Cont (OdMain s first paras) else Cont (OdSub name (depth - 1) s first paras)
      else Cont st
    | _ => Cont st
    end
  | OdSkip depth =>
    match e with
    | Start n _ => if str_eqb n cname then Cont (OdSkip (depth + 1)) else Cont st
    | End n =>
      if str_eqb n cname then
        if depth =? 0 then Ret val else Cont (OdSkip (depth - 1))
      else Cont st
    | _ => Cont st
    end
  end.

Fixpoint od_run (cname : str) (val : odsval) (st : od_state) (evs : list event)
  : outcome (odsval * list event) :=
  match evs with
  | [] => Err ERR_EOF               (* every loop, the annotation loop included (C06 hardening) *)
  | e :: rest =>
    match od_step cname val st e with
    | Cont st' => od_run cname val st' rest
    | Ret r => Ok (r, rest)
    | Fail c => Err c
    | Boom => Panic
    end
  end.

(* get_datatype + the trailing read_to_end_into of read_row: value, formula, remaining events *)
Definition ods_cell (cname : str) (a : attrs) (evs : list event)
  : outcome (odsval * str * list event) :=
  let '(is_string, is_set, val, formula) := ods_attrs a false false OEmpty [] in
  do r <- (if negb is_set && is_string then od_run cname val (OdMain [] true 0) evs
           else od_run cname val (OdSkip 0) evs);
  Ok (fst r, formula, snd r).

(* ====================================================================================== *)
(*                              S and E for xlsx (ECMA-376)                                *)
(* ====================================================================================== *)
(* the character content of <t>, <v>, <f>: text, CDATA sections, comments in any order *)
Inductive tchunk : Type := TcText (s : str) | TcCData (s : str) | TcOther.
Definition tcontent := list tchunk.

Definition tc_events (tc : tcontent) : list event :=
  map (fun c => match c with TcText s => Text s | TcCData s => CData s | TcOther => Other end) tc.
(* the characters between the tags, CDATA included *)
Definition tc_raw (tc : tcontent) : str :=
  flat_map (fun c => match c with TcText s => s | TcCData s => s | TcOther => [] end) tc.

(* S: what the content denotes: the characters, then the ST_Xstring layer *)
Definition tc_text (tc : tcontent) : str := xunescape (tc_raw tc).
(* M: what the readers keep of it (proved in XmlText_proofs.v): every chunk, Text or CDATA,
   then unescape_xstring *)
Definition tc_mtext (tc : tcontent) : str := unescape_xstring (tc_raw tc).

Definition elt (pfx l : str) (a : attrs) (body : list event) : list event :=
  Start (qn pfx l) a :: body ++ [End (qn pfx l)].

Definition t_elt (pfx : str) (preserve : bool) (tc : tcontent) : list event :=
  elt pfx n_t (if preserve then [(a_space, v_preserve)] else []) (tc_events tc).

(* children of CT_Rst *)
Inductive piece : Type :=
| PRun (rpr : list (str * attrs)) (preserve : bool) (tc : tcontent)
     (* <r>[<rPr><name attrs/>…</rPr>]<t>…</t></r> *)
| PPhon (tc : tcontent)          (* <rPh sb="0" eb="1"><t>…</t></rPh> *)
| PPhonPr.                        (* <phoneticPr fontId="1"/> *)

Definition piece_events (pfx : str) (p : piece) : list event :=
  match p with
  | PRun rpr preserve tc =>
    elt pfx n_r []
      ((match rpr with
        | [] => []
        | _ => elt pfx n_rPr [] (flat_map (fun na => elt pfx (fst na) (snd na) []) rpr)
        end) ++ t_elt pfx preserve tc)
  | PPhon tc => elt pfx n_rPh [(a_sb, v_0); (a_eb, v_1)] (t_elt pfx false tc)
  | PPhonPr => elt pfx n_phoneticPr [(a_fontId, v_1)] []
  end.

Definition is_phonetic (p : piece) : bool :=
  match p with PRun _ _ _ => false | _ => true end.

Inductive item_form : Type :=
| FPlain (preserve : bool) (tc : tcontent) (after : list piece)   (* <t>…</t> rPh* phoneticPr? *)
| FRich (pieces : list piece).                                    (* r / rPh / phoneticPr *)

(* S: runs concatenate in order, phonetic runs contribute nothing *)
Definition piece_text (p : piece) : str :=
  match p with PRun _ _ tc => tc_text tc | _ => [] end.
Definition item_text (f : item_form) : str :=
  match f with
  | FPlain _ tc _ => tc_text tc
  | FRich ps => flat_map piece_text ps
  end.

(* E: the children of <si> / <is> *)
Definition item_events (pfx : str) (f : item_form) : list event :=
  match f with
  | FPlain preserve tc after => t_elt pfx preserve tc ++ flat_map (piece_events pfx) after
  | FRich ps => flat_map (piece_events pfx) ps
  end.

(* what read_string is expected to return: None when the item has neither <t> nor <r> *)
Definition item_result (f : item_form) : option str :=
  match f with
  | FPlain _ tc _ => Some (tc_text tc)
  | FRich ps => if existsb (fun p => negb (is_phonetic p)) ps then Some (flat_map piece_text ps)
                else None
  end.

(* names allowed for the children of <rPr> (b, i, sz, color, rFont, family, …) *)
Definition rpr_name_ok (n : str) : bool :=
  no_colon n && negb (str_eqb n n_r) && negb (str_eqb n n_rPh) && negb (str_eqb n n_t)
  && negb (str_eqb n n_si) && negb (str_eqb n n_is).

Definition legal_piece (p : piece) : bool :=
  match p with
  | PRun rpr _ _ => forallb (fun na => rpr_name_ok (fst na)) rpr
  | _ => true
  end.
Definition legal_form (f : item_form) : bool :=
  match f with
  | FPlain _ _ after => forallb is_phonetic after
  | FRich ps => forallb legal_piece ps
  end.

(* the shared-string part: declaration, <sst>, per item optional white space and <si>…</si> *)
Definition si_elt (pfx : str) (f : item_form) : list event :=
  elt pfx n_si [] (item_events pfx f).
Definition sst_events (pfx : str) (sattrs : attrs) (items : list (str * item_form)) : list event :=
  Other :: Start (qn pfx n_sst) sattrs ::
  flat_map (fun it => Text (fst it) :: si_elt pfx (snd it)) items ++ [End (qn pfx n_sst)].

(* storage forms of a string cell *)
Inductive store : Type :=
| StShared (vtext : str)                       (* <c t="s"><v>index</v></c> *)
| StInline (f : item_form)                     (* <c t="inlineStr"><is>…</is></c> *)
| StFormula (ftc : tcontent) (vtc : tcontent). (* <c t="str"><f>…</f><v>…</v></c> *)

Definition cell_attrs (ref : str) (st : store) : attrs :=
  [(a_r, ref);
   (a_t, match st with StShared _ => v_s | StInline _ => v_inlineStr | StFormula _ _ => v_str end)].

(* events after `Start c`, including `End c` *)
Definition cell_events (pfx : str) (st : store) : list event :=
  (match st with
   | StShared v => elt pfx n_v [] [Text v]
   | StInline f => elt pfx n_is [] (item_events pfx f)
   | StFormula ftc vtc => elt pfx n_f [] (tc_events ftc) ++ elt pfx n_v [] (tc_events vtc)
   end) ++ [End (qn pfx n_c)].

(* l[i] for an index given as N (never converts a huge index to unary) *)
Definition nth_N (A : Type) (l : list A) (i : N) : option A :=
  if i <? N.of_nat (length l) then nth_error l (N.to_nat i) else None.

(* a sheet: every cell in a row of its own (row attributes are free), then </sheetData> *)
Definition sheet_events (pfx : str) (cells : list (attrs * str * store)) : list event :=
  flat_map (fun c => let '(rattrs, ref, st) := c in
              Start (qn pfx n_row) rattrs :: Start (qn pfx n_c) (cell_attrs ref st) ::
              cell_events pfx st ++ [End (qn pfx n_row)]) cells
  ++ [End (qn pfx n_sheetData)].

(* S: the text the cell denotes, given the items of the shared-string part *)
Definition stored_text (items : list (str * item_form)) (st : store) : option str :=
  match st with
  | StShared v =>
    match parse_usize v with
    | Some i => option_map (fun it => item_text (snd it)) (nth_N items i)
    | None => None
    end
  | StInline f => Some (item_text f)
  | StFormula _ vtc => Some (tc_text vtc)
  end.

(* an <is> with neither <t> nor <r> yields an empty cell, not an empty string *)
Definition cell_expected (st : store) (s : str) : cellval :=
  match st with
  | StInline f => match item_result f with Some _ => CString s | None => CEmpty end
  | _ => CString s
  end.

Definition legal_store (st : store) : bool :=
  match st with
  | StShared _ => true
  | StInline f => legal_form f
  | StFormula _ _ => true
  end.

(* S for worksheet_formula: the characters of <f> (Text and CDATA chunks) *)
Definition formula_expected (st : store) : fval :=
  match st with
  | StFormula ftc _ => FvText (tc_raw ftc)
  | _ => FvNone
  end.

(* cutting a string into runs at arbitrary points *)
Fixpoint chop (cuts : list nat) (s : str) : list str :=
  match cuts with
  | [] => [s]
  | n :: r => firstn n s :: chop r (skipn n s)
  end.
Definition runs_of (cuts : list nat) (s : str) : item_form :=
  FRich (map (fun p => PRun [] true [TcText p]) (chop cuts s)).

(* ====================================================================================== *)
(*                               S and E for ods (ODF 1.2)                                 *)
(* ====================================================================================== *)
Inductive opiece : Type :=
| OLit (s : str)                    (* literal characters *)
| OCD (s : str)                     (* a CDATA section *)
| OSp (c : option str)              (* <text:s/> or <text:s text:c="…"/> *)
| OTab                              (* <text:tab/> *)
| OBreak                            (* <text:line-break/> *)
| OSpanOpen (style : str)           (* <text:span text:style-name="…"> *)
| OSpanClose                        (* </text:span> *)
| OOther                            (* comment *)
(* a phonetic guide (ODF 1.2 part 1, 6.4): <text:ruby text:style-name="…"><text:ruby-base> the
   annotated text (any pieces) </text:ruby-base><text:ruby-text> the reading </text:ruby-text>
   </text:ruby>.  The base is cell text, the reading is not. *)
| ORubyOpen (style : str)
| ORubyClose
| ORubyBaseOpen
| ORubyBaseClose
| ORubyText (style : option str) (body : list event)
(* a drawing object anchored as a character inside the paragraph (draw:frame, …) *)
| OShape (name : str) (a : attrs) (body : list event).

(* the children of a string cell (ODF 1.2 part 1, 9.1.4): an optional office:annotation, the
   paragraphs, and the drawing objects anchored to the cell — images (draw:frame > draw:image,
   which may hold a text:p), shapes (draw:custom-shape, draw:rect, draw:g … with text:p children of
   their own), text boxes (draw:frame > draw:text-box > paragraphs), 3-D scenes (dr3d:scene).  Between
   the children an indented file has white space; comments may stand anywhere. *)
Inductive citem : Type :=
| CPara (ps : list opiece)          (* <text:p>…</text:p> *)
| CAnnot (body : list event)        (* <office:annotation>…</office:annotation> *)
| CWs (ws : str)                    (* white space between the children (indentation) *)
| CComment                          (* <!-- … --> between the children *)
| CShape (name : str) (a : attrs) (body : list event).   (* <draw:…>…</draw:…>, <dr3d:scene>… *)

Definition opiece_events (p : opiece) : list event :=
  match p with
  | OLit s => [Text s]
  | OCD s => [CData s]
  | OSp None => [Start o_s []; End o_s]
  | OSp (Some c) => [Start o_s [(o_c, c)]; End o_s]
  | OTab => [Start o_tab []; End o_tab]
  | OBreak => [Start o_break []; End o_break]
  | OSpanOpen st => [Start o_span [(o_style_name, st)]]
  | OSpanClose => [End o_span]
  | OOther => [Other]
  | ORubyOpen st => [Start o_ruby [(o_style_name, st)]]
  | ORubyClose => [End o_ruby]
  | ORubyBaseOpen => [Start o_ruby_base []]
  | ORubyBaseClose => [End o_ruby_base]
  | ORubyText st body =>
    Start o_ruby_text (match st with Some n => [(o_style_name, n)] | None => [] end)
    :: body ++ [End o_ruby_text]
  | OShape n a body => Start n a :: body ++ [End n]
  end.

Definition citem_events (c : citem) : list event :=
  match c with
  | CPara ps => Start o_p [] :: flat_map opiece_events ps ++ [End o_p]
  | CAnnot body => Start o_annot [] :: body ++ [End o_annot]
  | CWs ws => [Text ws]
  | CComment => [Other]
  | CShape n a body => Start n a :: body ++ [End n]
  end.
Definition content_events (cs : list citem) : list event := flat_map citem_events cs.

(* S *)
Definition opiece_text (p : opiece) : str :=
  match p with
  | OLit s => s
  | OCD s => s
  | OSp None => [SPACE]
  | OSp (Some c) => match parse_i32 c with Some k => spaces k | None => [] end
  | OTab => [9]
  | OBreak => [10]
  | _ => []
  end.
Definition para_text (ps : list opiece) : str := flat_map opiece_text ps.

Fixpoint join_nl (l : list str) : str :=
  match l with
  | [] => []
  | [x] => x
  | x :: r => x ++ 10 :: join_nl r
  end.
Definition paras_of (cs : list citem) : list (list opiece) :=
  flat_map (fun c => match c with CPara ps => [ps] | _ => [] end) cs.
Definition content_text (cs : list citem) : str := join_nl (map para_text (paras_of cs)).

(* the content of an element named [name] as far as a reader that only counts the tags of that
   name can tell: [sub_depth] runs the nesting depth over the events (None: an end tag of that
   name without its start tag, i.e. the content would end early); [sub_ok]: every start tag of
   that name inside has its end tag inside.  Everything else — text, paragraphs, other elements
   in any arrangement — is free.  (draw:g inside draw:g is the usual case of nesting.) *)
Fixpoint sub_depth (name : str) (body : list event) (d : N) : option N :=
  match body with
  | [] => Some d
  | Start n _ :: r => if str_eqb n name then sub_depth name r (d + 1) else sub_depth name r d
  | End n :: r =>
    if str_eqb n name then (if d =? 0 then None else sub_depth name r (d - 1))
    else sub_depth name r d
  | _ :: r => sub_depth name r d
  end.
Definition sub_ok (name : str) (body : list event) : bool :=
  match sub_depth name body 0 with Some 0 => true | _ => false end.

(* the element names of drawing objects: the draw: and dr3d: namespaces under their conventional
   prefixes (every producer uses them; the reader matches qualified names as bytes) *)
Definition is_drawing (n : str) : bool := starts_with p_draw n || starts_with p_dr3d n.
(* XML white space *)
Definition is_xml_ws (c : N) : bool := (c =? 32) || (c =? 9) || (c =? 10) || (c =? 13).

Definition legal_opiece (p : opiece) : bool :=
  match p with
  | OSp (Some c) => match parse_i32 c with Some k => (0 <=? k)%Z | None => false end
  | ORubyText _ body => sub_ok o_ruby_text body
  | OShape n _ body => is_drawing n && sub_ok n body
  | _ => true
  end.
Definition event_not_end (n : str) (e : event) : bool :=
  match e with End m => negb (str_eqb m n) | _ => true end.
Definition legal_citem (c : citem) : bool :=
  match c with
  | CPara ps => forallb legal_opiece ps
  | CAnnot body => forallb (event_not_end o_annot) body
  | CWs ws => forallb is_xml_ws ws
  | CComment => true
  | CShape n _ body => is_drawing n && sub_ok n body
  end.
Definition legal_content (cs : list citem) : bool := forallb legal_citem cs.

(* storage forms of an ods string cell *)
Inductive ods_store : Type :=
| OsContent (cs : list citem)                  (* office:value-type="string", text in content *)
| OsAttr (s : str) (cs : list citem).          (* office:string-value="…"; content is display only *)

(* attributes that get_datatype does not look at (style, calcext:value-type, spans, …) *)
Definition inert_key (k : str) : bool :=
  negb (str_eqb k o_value || str_eqb k o_string_value || str_eqb k o_date_value
        || str_eqb k o_time_value || str_eqb k o_boolean_value || str_eqb k o_value_type
        || str_eqb k o_formula).
Definition legal_extra (extra : attrs) : bool := forallb (fun kv => inert_key (fst kv)) extra.

Definition ods_cell_attrs (extra : attrs) (st : ods_store) : attrs :=
  extra ++ (o_value_type, v_string) ::
  match st with OsContent _ => [] | OsAttr s _ => [(o_string_value, s)] end.
Definition ods_cell_content (st : ods_store) : list citem :=
  match st with OsContent cs => cs | OsAttr _ cs => cs end.
(* events after the cell's Start, including its End *)
Definition ods_cell_events (cname : str) (st : ods_store) : list event :=
  content_events (ods_cell_content st) ++ [End cname].

Definition ods_text (st : ods_store) : str :=
  match st with OsContent cs => content_text cs | OsAttr s _ => s end.
Definition legal_ods (st : ods_store) : bool := legal_content (ods_cell_content st).
(* a writer in the style of LibreOffice: one text:p per line, every space a <text:s/>, every
   TAB a <text:tab/> *)
Fixpoint split_nl_aux (cur : str) (s : str) : list str :=
  match s with
  | [] => [rev cur]
  | c :: r => if c =? 10 then rev cur :: split_nl_aux [] r else split_nl_aux (c :: cur) r
  end.
Definition split_nl (s : str) : list str := split_nl_aux [] s.
Definition spaces_as_elements (line : str) : list opiece :=
  map (fun c => if c =? SPACE then OSp None else if c =? 9 then OTab else OLit [c]) line.
Definition ods_encode (s : str) : list citem :=
  map (fun line => CPara (spaces_as_elements line)) (split_nl s).
