#!/usr/bin/env python3
"""xlsb whose styles.bin has the parts Excel always writes (fonts, fills, borders, cellStyleXfs before
cellXfs).  One font has the custom colour #E90420: the bytes E9 04 inside the BrtFont body are taken
for the record id of BrtBeginCellXFs (0x0269 = E9 04) because Xlsb::read_styles does not skip the
bodies of the records it is not interested in.  A second file with colour #E80420 is the control."""
import sys, struct, zipfile
sys.path.insert(0, '/verif/tools')
from biffgen_c10 import brec, wide
def color_rgb(r, g, b): return bytes([0x05, 0xFF, 0, 0, r, g, b, 0xFF])      # BrtColor: fValidRGB, xColorType = 2 (ARGB)
def color_theme(i): return bytes([0x07, i, 0, 0, 0, 0, 0, 0xFF])
def font(col): return brec(0x002B, struct.pack('<HHHHBBBB', 220, 0, 400, 0, 0, 2, 0, 0) + col + b'\x02' + wide('Calibri'))
def fill(): return brec(0x002D, struct.pack('<I', 0) + color_theme(1) + color_theme(0) + struct.pack('<IddddddI', 0, 0, 0, 0, 0, 0, 0, 0))
def border():
    blxf = b'\0\0' + bytes([0x01, 0, 0, 0, 0, 0, 0, 0])
    return brec(0x002E, b'\0' + blxf * 5)
def xf(parent, ifmt): return brec(0x002F, struct.pack('<HHHHHBBBB', parent, ifmt, 0, 0, 0, 0, 0, 0, 0x10) + b'\0\0')
def styles(rgb):
    st = brec(0x0116)
    st += brec(0x0267, struct.pack('<I', 1)) + brec(0x002C, struct.pack('<H', 164) + wide('yyyy\\-mm\\-dd')) + brec(0x0268)
    st += brec(0x0263, struct.pack('<I', 2)) + font(color_theme(1)) + font(color_rgb(*rgb)) + brec(0x0264)
    st += brec(0x025B, struct.pack('<I', 1)) + fill() + brec(0x025C)
    st += brec(0x0265, struct.pack('<I', 1)) + border() + brec(0x0266)
    st += brec(0x0272, struct.pack('<I', 1)) + xf(0xFFFF, 0) + brec(0x0273)
    st += brec(0x0269, struct.pack('<I', 2)) + xf(0, 0) + xf(0, 164) + brec(0x026A)
    return st + brec(0x0117)
def write(path, rgb):
    wb = (brec(0x0083) + brec(0x0099, struct.pack('<II', 0, 0) + wide('')) + brec(0x008F) +
          brec(0x009C, struct.pack('<II', 0, 1) + wide('rId1') + wide('S1')) + brec(0x0090) +
          brec(0x009D, struct.pack('<IdB', 0, 0.001, 0)) + brec(0x0084))
    sh = (brec(0x0081) + brec(0x0094, struct.pack('<IIII', 0, 0, 0, 1)) + brec(0x0091) +
          brec(0x0000, struct.pack('<IIHBBBI', 0, 0, 300, 0, 0, 0, 0)) +
          brec(0x0005, struct.pack('<II', 0, 0) + struct.pack('<d', 45000.0)) +      # A1 style 0: number
          brec(0x0005, struct.pack('<II', 1, 1) + struct.pack('<d', 45000.0)) +      # B1 style 1: date
          brec(0x0092) + brec(0x0082))
    R = 'http://schemas.openxmlformats.org/officeDocument/2006/relationships'
    rels = ('<?xml version="1.0" encoding="UTF-8" standalone="yes"?><Relationships xmlns="http://schemas.openxmlformats.org/package/2006/relationships">'
            '<Relationship Id="rId1" Type="%s/worksheet" Target="worksheets/sheet1.bin"/><Relationship Id="rId2" Type="%s/styles" Target="styles.bin"/></Relationships>' % (R, R))
    ct = ('<?xml version="1.0" encoding="UTF-8" standalone="yes"?><Types xmlns="http://schemas.openxmlformats.org/package/2006/content-types">'
          '<Default Extension="bin" ContentType="application/vnd.ms-excel.sheet.binary.macroEnabled.main"/>'
          '<Default Extension="rels" ContentType="application/vnd.openxmlformats-package.relationships+xml"/></Types>')
    root = ('<?xml version="1.0" encoding="UTF-8" standalone="yes"?><Relationships xmlns="http://schemas.openxmlformats.org/package/2006/relationships">'
            '<Relationship Id="rId1" Type="%s/officeDocument" Target="xl/workbook.bin"/></Relationships>' % R)
    with zipfile.ZipFile(path, 'w', zipfile.ZIP_DEFLATED) as z:
        for n, c in [('[Content_Types].xml', ct), ('_rels/.rels', root), ('xl/workbook.bin', wb),
                     ('xl/_rels/workbook.bin.rels', rels), ('xl/styles.bin', styles(rgb)), ('xl/worksheets/sheet1.bin', sh)]:
            z.writestr(n, c)
    return path
if __name__ == '__main__':
    print(write('/tmp/ag/audit2/repro/out/xlsb_styles_ok.xlsb', (0xE8, 0x04, 0x20)))
    print(write('/tmp/ag/audit2/repro/out/xlsb_styles_scan.xlsb', (0xE9, 0x04, 0x20)))
    sys.path.insert(0, '/tmp/ag/audit2')
    from vhrun import vh, hx
    for f in ['xlsb_styles_ok', 'xlsb_styles_scan']:      # expected for both: R[0,0,0,1|F45000,D45000:0:0]
        print(f, vh('xlsb', '/tmp/ag/audit2/repro/out/%s.xlsb' % f, ['sheets', 'range ' + hx('S1')]))
