#!/usr/bin/env python3
"""xls_4: Lbl records whose NameParsedFormula has extra data (rgcb) behind the rgce ([MS-XLS] 2.4.150
Lbl: rgce is a NameParsedFormula = rgce ++ rgcb; 2.5.198.1: PtgArray keeps its values in rgcb).
xls.rs takes `rgce = &r.data[r.data.len() - cce..]` (the LAST cce bytes of the record) instead of the
cce bytes that follow the name.  Also: hidden / sheet-local / empty names.
C16: every defined name listed, in order, with its text; C06-ish: a legal file must open."""
import struct
from xls_helper import *
def lbl(flags, name, rgce, rgcb=b'', itab=0):
    nb = name if isinstance(name, bytes) else name.encode('latin-1')
    return (0x18, struct.pack('<HBBHHH', flags, 0, len(nb), len(rgce), 0, itab) + b'\0\0\0\0' + b'\0' + nb + rgce + rgcb)
ref3d = lambda ixti, r, c: struct.pack('<BHHH', 0x3A, ixti, r, c)
sernum = lambda v: b'\x01' + struct.pack('<d', v)
serstr = lambda s: b'\x02' + struct.pack('<HB', len(s), 0) + s.encode('latin-1')
ptgarray = b'\x20' + b'\0' * 7
glob = [(0x0042, struct.pack('<H', 1200)), xf(0)]
ext = [(0x01AE, struct.pack('<HH', 1, 0x0401)), (0x0017, struct.pack('<HHhh', 1, 0, 0, 0))]
sh = sheet([number(0, 0, 1.0)])
# (a) an array-constant name between two ordinary ones; a hidden sheet-local name; an empty name
names = [lbl(0, 'First', ref3d(0, 0, 0)),
         lbl(0, 'Arr', ptgarray, b'\x01\x00\x00' + sernum(1.0) + sernum(2.0)),
         lbl(1, 'HiddenLocal', ref3d(0, 1, 1), itab=1),
         lbl(0, 'Empty', b''),
         lbl(0, 'Last', ref3d(0, 2, 2))]
p = write(OUT + 'xls_4a_lbl_rgcb.xls', workbook(glob, [('Sheet1', 0, 0, sh)], ext + names))
print('4a', unhex(vh('xls', p, ['sheets', 'names'])))
# (b) ={"x;1234567"} : the last 8 bytes of the record start with ';' = 0x3B (PtgArea3d needs 11 bytes)
names = [lbl(0, 'First', ref3d(0, 0, 0)),
         lbl(0, 'Txt', ptgarray, b'\x00\x00\x00' + serstr('x;1234567'))]
p = write(OUT + 'xls_4b_lbl_rgcb_semicolon.xls', workbook(glob, [('Sheet1', 0, 0, sh)], ext + names))
print('4b', unhex(vh('xls', p, ['sheets', 'names', 'at 0'])))
