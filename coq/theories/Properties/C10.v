(* Property C10 — a number is typed DateTime exactly when its cell style is a date/time format.
   Only the property theorems (closed by [exact]), [Check] pins, non-vacuity examples and
   [Print Assumptions].  Model and spec: NumFmt.v; proofs: NumFmt_proofs.v.
   The model follows /repo after the fix: commits ac433ce c5a918f a61713f aa1af82 4fe67c6 35d58d0
   and — audit 2, FMT-1 — "date formats made only of weekday / era / Buddhist-year tokens were
   typed as numbers"; there is no known class left. *)
From Calamine Require Import Prelude NumFmt NumFmt_proofs.
From Calamine Require XlsbRec XlsbRec_proofs XlsbStyles XlsbStyles_proofs.
Open Scope N_scope.

(* string half: for every derivation of the number-format grammar the scanner
   detect_custom_number_format returns the kind of the first deciding token of the first
   section: DateTime for a date/time token, TimeDelta for an elapsed bracket, Other otherwise *)
Theorem C10_scanner_agrees_with_grammar :
  forall a : ast, wf a = true -> detect (render a) = classify a.
Proof. exact scanner_agrees_with_grammar. Qed.

(* [wf] since audit 2: the grammar has the date tokens of Excel's format language that ECMA-376
   shows only inside locale-specific built-in formats — aaa / aaaa (day of the week), g / gg / ggg
   (era), e / ee (year of the era), bb / bbbb (Buddhist year) — and two context conditions: the
   exponent E+ / e- stands directly after a digit placeholder, a decimal point or a comma (it is
   part of a number), the year of the era does not (without them "e+" would have two readings,
   NumFmt_proofs.exponent_context_needed) *)
Theorem C10_wf_is :
  forall s : section, wf_section s = forallb wf_tok s && ctx_ok false s.
Proof. reflexivity. Qed.

(* a format whose first deciding token is a weekday / era / era-year / Buddhist-year token is a
   date format, whatever non-deciding tokens surround it: [$-411]aaaa, ggge"年", [$-D07041E]bbbb *)
Theorem C10_locale_date_tokens_decide :
  forall (pre : section) (t : token) (post : section) (rest : list N),
    wf_section (pre ++ t :: post) = true -> classify_section pre = Other ->
    is_locale_date t = true ->
    detect (render_section (pre ++ t :: post)) = DateTime /\
    detect (render_section (pre ++ t :: post) ++ 59 :: rest) = DateTime.
Proof. exact locale_date_tokens_decide. Qed.

(* the scanner has no panic site: in every state reached from the initial one, over any prefix of
   any string, the u8 counter a_run is at most 2 before `a_run += 1` and keyword at most 6 *)
Theorem C10_scanner_counters_bounded :
  forall (l1 l2 : list N) (q : st),
    run_with l2 init l1 = Continue q -> a_run q <= 2 /\ keyword q <= 6.
Proof. exact a_run_bounded. Qed.

(* stronger form for the tail: whatever follows the first top-level ';' is irrelevant (it need
   not even be well formed) *)
Theorem C10_first_section_only :
  forall (s : section) (rest : list N),
    wf_section s = true ->
    detect (render_section s) = classify_section s /\
    detect (render_section s ++ 59 :: rest) = classify_section s.
Proof. exact scanner_first_section_only. Qed.

(* id half: both built-in tables agree with each other and with the ECMA-376 list on every u16 *)
Theorem C10_builtin_tables_agree :
  forall c : N, c < 65536 ->
    builtin_format_by_code c = builtin_format_by_id (decimal c) /\
    builtin_format_by_code c = ecma_builtin c.
Proof. exact builtin_tables_agree. Qed.

(* plumbing half, per file format: the cell is DateTime iff the format its style resolves to is
   not Other, duration flavour iff elapsed, serial bits and date system unchanged (spec_cell).
   Hypotheses that remain and why:
   - ids_below: numFmtId is a 32-bit unsigned (xlsx) / ifmt a 16-bit field (BIFF, XLSB);
   - codes_nonempty (xlsx): Xlsx::read_styles skips a numFmt whose formatCode is empty and then
     falls back to the built-in meaning of the id;
   - xfs_present (xls, xlsb): a BIFF/XLSB XF record always carries an ifmt;
   - customs_off_builtin_dates (xlsb): Xlsb::read_styles asks the built-in table first;
     [MS-XLSB] 2.4.659 restricts the ifmt of BrtFmt so that this cannot be observed;
   - nth_error … = Some fmt: the style index of the cell is inside cellXfs. *)
Theorem C10_date_iff_style_xlsx :
  forall (t : style_table) (is_1904 : bool) (s_attr : option N) (bits : N) (fmt : option N),
    ids_below (2 ^ 32) t -> codes_nonempty t ->
    nth_error (xfs t) (N.to_nat (match s_attr with Some i => i | None => 0 end)) = Some fmt ->
    xlsx_cell_number (xlsx_read_styles (enc_xlsx t)) is_1904 s_attr bits =
    spec_cell (resolve t fmt) is_1904 (NF bits).
Proof. exact date_iff_style_xlsx. Qed.

Theorem C10_date_iff_style_xls :
  forall (t : style_table) (is_1904 : bool) (ixfe : N) (v : num) (fmt : option N),
    ids_below 65536 t -> xfs_present t ->
    nth_error (xfs t) (N.to_nat ixfe) = Some fmt ->
    xls_cell_number (xls_formats (enc_biff t)) is_1904 ixfe v = spec_cell (resolve t fmt) is_1904 v.
Proof. exact date_iff_style_xls. Qed.

(* xls FORMULA records with a numeric cached value *)
Theorem C10_date_iff_style_xls_formula :
  forall (t : style_table) (is_1904 : bool) (ixfe bits : N) (fmt : option N),
    ids_below 65536 t -> xfs_present t ->
    nth_error (xfs t) (N.to_nat ixfe) = Some fmt ->
    xls_formula_number (xls_formats (enc_biff t)) is_1904 ixfe bits =
    spec_cell (resolve t fmt) is_1904 (NF bits).
Proof. exact date_iff_style_xls_formula. Qed.

Theorem C10_date_iff_style_xlsb :
  forall (t : style_table) (is_1904 : bool) (style_ref : N) (v : num) (fmt : option N),
    ids_below 65536 t -> xfs_present t -> customs_off_builtin_dates t ->
    nth_error (xfs t) (N.to_nat style_ref) = Some fmt ->
    xlsb_cell_number (xlsb_formats (enc_biff t)) is_1904 style_ref v =
    spec_cell (resolve t fmt) is_1904 v.
Proof. exact date_iff_style_xlsb. Qed.

(* ---- xlsb: the style table as it is read from the bytes of xl/styles.bin (XlsbStyles.v) ----
   A layout of the part = records before FMTS, the optional FMTS (BrtBeginFmts, BrtFmt records with
   other records between them), records between FMTS and CELLXFS (BrtEndFmts, FONTS, FILLS, BORDERS,
   CELLSTYLEXFS with BrtXF records of its own), CELLXFS (BrtBeginCellXFs, BrtXF records with other
   records between them), arbitrary bytes behind the last cell XF; every record in any framing
   form, every body outside the fields read arbitrary — the byte pairs E7 04 / E9 04 (the ids of
   BrtBeginFmts / BrtBeginCellXFs) included.  Xlsb::read_styles returns the table of the BrtFmt
   and BrtXF records: *)
Theorem C10_xlsb_read_styles :
  forall L : XlsbStyles.slayout, XlsbStyles.wf_slayout L = true ->
    XlsbStyles.read_styles (Some (XlsbStyles.encode_styles L)) =
    Ok (xlsb_formats (XlsbStyles.styles_of L)).
Proof. exact XlsbStyles_proofs.read_styles_encode. Qed.

(* ... so it does not depend on any other record of the part, nor on the framing *)
Theorem C10_xlsb_styles_independent :
  forall L1 L2 : XlsbStyles.slayout,
    XlsbStyles.wf_slayout L1 = true -> XlsbStyles.wf_slayout L2 = true ->
    XlsbStyles.styles_of L1 = XlsbStyles.styles_of L2 ->
    XlsbStyles.read_styles (Some (XlsbStyles.encode_styles L1)) =
    XlsbStyles.read_styles (Some (XlsbStyles.encode_styles L2)).
Proof. exact XlsbStyles_proofs.read_styles_independent. Qed.

(* ... and with C10_date_iff_style_xlsb: from the bytes of styles.bin to the cell *)
Theorem C10_date_iff_style_xlsb_bytes :
  forall (L : XlsbStyles.slayout) (t : style_table) (is_1904 : bool) (style_ref : N) (v : num)
         (fmt : option N),
    XlsbStyles.wf_slayout L = true -> XlsbStyles.styles_of L = enc_biff t ->
    ids_below 65536 t -> xfs_present t -> customs_off_builtin_dates t ->
    nth_error (xfs t) (N.to_nat style_ref) = Some fmt ->
    exists formats,
      XlsbStyles.read_styles (Some (XlsbStyles.encode_styles L)) = Ok formats /\
      xlsb_cell_number formats is_1904 style_ref v = spec_cell (resolve t fmt) is_1904 v.
Proof. exact XlsbStyles_proofs.date_iff_style_xlsb_bytes. Qed.

(* totality: on every byte string, and without the part, a table or an error *)
Theorem C10_no_panic_xlsb_read_styles : forall part : option (list N),
  XlsbStyles.read_styles part <> Panic /\ XlsbStyles.read_styles part <> OutOfFuel.
Proof. exact XlsbStyles_proofs.no_panic_read_styles. Qed.

(* non-vacuity: Excel's shape of the part, with a font coloured #E90420, one coloured #10E704, a
   font name U+04E9 U+04E7, a fill and a border holding both pairs, a cell-style XF, FRT junk *)
Example C10_xlsb_styles_nonvacuous :
  XlsbStyles.wf_slayout XlsbStyles_proofs.example_styles = true /\
  xlsb_formats (XlsbStyles.styles_of XlsbStyles_proofs.example_styles) =
    [Other; DateTime; TimeDelta; DateTime; TimeDelta] /\
  XlsbStyles.read_styles (Some (XlsbStyles.encode_styles XlsbStyles_proofs.example_styles)) =
    Ok [Other; DateTime; TimeDelta; DateTime; TimeDelta].
Proof. exact XlsbStyles_proofs.example_styles_legal. Qed.

Example C10_xlsb_styles_collide_nonvacuous :
  existsb (fun r : XlsbRec.rawrec => XlsbStyles_proofs.has_pair 233 4 (snd r))
          (XlsbStyles.sl_mid XlsbStyles_proofs.example_styles) = true /\
  existsb (fun r : XlsbRec.rawrec => XlsbStyles_proofs.has_pair 231 4 (snd r))
          (XlsbStyles.sl_mid XlsbStyles_proofs.example_styles) = true.
Proof. exact XlsbStyles_proofs.example_styles_collides. Qed.

Example C10_xlsb_styles_independent_nonvacuous :
  XlsbStyles.wf_slayout XlsbStyles_proofs.bare_styles = true /\
  XlsbStyles.styles_of XlsbStyles_proofs.bare_styles =
    XlsbStyles.styles_of XlsbStyles_proofs.example_styles /\
  XlsbStyles.encode_styles XlsbStyles_proofs.bare_styles <>
    XlsbStyles.encode_styles XlsbStyles_proofs.example_styles.
Proof. exact XlsbStyles_proofs.example_independent. Qed.

(* what spec_cell says, spelled out *)
Theorem C10_spec_cell_meaning :
  forall (k : cell_format) (is_1904 : bool) (v : num),
    match spec_cell k is_1904 v with
    | DDateTime bits dur d1904 =>
        k <> Other /\ (dur = true <-> k = TimeDelta) /\ bits = num_bits v /\ d1904 = is_1904
    | DFloat bits => k = Other /\ v = NF bits
    | DInt z => k = Other /\ v = NI z
    end.
Proof. exact spec_cell_meaning. Qed.

(* a custom entry rendered from a derivation resolves to the derivation's classification *)
Theorem C10_resolve_custom_classify :
  forall (t : style_table) (id : N) (a : ast),
    assoc_last N.eqb id (customs t) = Some (render a) ->
    wf a = true ->
    resolve t (Some id) = classify a.
Proof. exact resolve_custom_classify. Qed.

(* non-vacuity: concrete non-trivial objects meet the hypotheses; the second example is the list
   of derivations on which the scanner deviated before the fix: commits *)
Example C10_grammar_nonvacuous :
  let a := [[TColour CMagenta [true]; TCond OpGe [49; 48; 48]; TLocale [8364] [52; 48; 55];
             TQuoted [100; 92; 92]; TEsc 100; TPad 109; TFill 100; TGeneral []; TLit 47;
             TElapsed EH 1 [false; true]; TLit 58; TDate LM 1 []; TSecFrac 2];
            [TGeneral [true]; TDate LD 0 []]] in
  wf a = true /\ classify a = TimeDelta /\ detect (render a) = TimeDelta.
Proof. vm_compute. repeat split. Qed.

Example C10_former_witnesses_nonvacuous :
  forallb wf former_witnesses = true /\
  map (fun a => detect (render a)) former_witnesses = map classify former_witnesses /\
  map classify former_witnesses =
    [DateTime; DateTime; Other; DateTime; DateTime; DateTime; Other; DateTime;
     DateTime; DateTime; DateTime; DateTime; DateTime; Other; Other; DateTime].
Proof. exact former_witnesses_agree. Qed.

(* the newly admitted tokens inside one derivation that meets [wf]: [$-411]aaaa after a colour, an
   exponent after a placeholder in the second section; and the hypotheses of
   C10_locale_date_tokens_decide on ggge"年" behind a locale prefix *)
Example C10_locale_tokens_nonvacuous :
  let a := [[TColour CBlue []; TLocale [] [52; 49; 49]; TQuoted [40]; TWeekday true [true]; TQuoted [41]];
            [TDigit PZero; TLit 46; TDigit PZero; TExp [true] false; TDigit PZero]] in
  wf a = true /\ classify a = DateTime /\ detect (render a) = DateTime /\
  render a = [91; 98; 108; 117; 101; 93; 91; 36; 45; 52; 49; 49; 93; 34; 40; 34; 65; 97; 97; 97; 34; 41; 34;
              59; 48; 46; 48; 69; 45; 48] /\                 (* [blue][$-411]"("Aaaa")";0.0E-0 *)
  (let pre := [TLocale [] [52; 49; 49]] in
   let post := [TEraYear false []; TQuoted [24180]] in
   wf_section (pre ++ TEra 2 [] :: post) = true /\ classify_section pre = Other /\
   is_locale_date (TEra 2 []) = true /\
   render_section (pre ++ TEra 2 [] :: post) =
     [91; 36; 45; 52; 49; 49; 93; 103; 103; 103; 101; 34; 24180; 34]) /\     (* [$-411]ggge"年" *)
  wf [[TExp [] true]] = false /\ wf [[TDigit PHash; TEraYear true []]] = false /\
  wf [[TEra 3 []]] = false.
Proof. vm_compute. repeat split. Qed.

Example C10_tables_nonvacuous :
  builtin_format_by_code 46 = TimeDelta /\ builtin_format_by_id (decimal 22) = DateTime /\
  ecma_builtin 23 = Other.
Proof. vm_compute. repeat split. Qed.

Example C10_plumbing_nonvacuous :
  let t := mkStyleTable [(164, [91; 104; 93; 58; 109; 109]); (165, [48; 46; 48; 48])]
                        [Some 0; Some 14; Some 164; Some 165] in
  ids_below 65536 t /\ ids_below (2 ^ 32) t /\ codes_nonempty t /\ xfs_present t /\
  customs_off_builtin_dates t /\
  spec_formats t = [Other; DateTime; TimeDelta; Other] /\
  xlsx_read_styles (enc_xlsx t) = spec_formats t /\
  xls_formats (enc_biff t) = spec_formats t /\
  xlsb_formats (enc_biff t) = spec_formats t.
Proof. exact plumbing_nonvacuous. Qed.

Check C10_scanner_agrees_with_grammar :
  forall a : ast, wf a = true -> detect (render a) = classify a.
Check C10_wf_is : forall s : section, wf_section s = forallb wf_tok s && ctx_ok false s.
Check C10_locale_date_tokens_decide :
  forall (pre : section) (t : token) (post : section) (rest : list N),
    wf_section (pre ++ t :: post) = true -> classify_section pre = Other ->
    is_locale_date t = true ->
    detect (render_section (pre ++ t :: post)) = DateTime /\
    detect (render_section (pre ++ t :: post) ++ 59 :: rest) = DateTime.
Check C10_builtin_tables_agree :
  forall c : N, c < 65536 ->
    builtin_format_by_code c = builtin_format_by_id (decimal c) /\
    builtin_format_by_code c = ecma_builtin c.
Check C10_date_iff_style_xlsx :
  forall (t : style_table) (is_1904 : bool) (s_attr : option N) (bits : N) (fmt : option N),
    ids_below (2 ^ 32) t -> codes_nonempty t ->
    nth_error (xfs t) (N.to_nat (match s_attr with Some i => i | None => 0 end)) = Some fmt ->
    xlsx_cell_number (xlsx_read_styles (enc_xlsx t)) is_1904 s_attr bits =
    spec_cell (resolve t fmt) is_1904 (NF bits).
Check C10_date_iff_style_xls :
  forall (t : style_table) (is_1904 : bool) (ixfe : N) (v : num) (fmt : option N),
    ids_below 65536 t -> xfs_present t ->
    nth_error (xfs t) (N.to_nat ixfe) = Some fmt ->
    xls_cell_number (xls_formats (enc_biff t)) is_1904 ixfe v = spec_cell (resolve t fmt) is_1904 v.
Check C10_date_iff_style_xls_formula :
  forall (t : style_table) (is_1904 : bool) (ixfe bits : N) (fmt : option N),
    ids_below 65536 t -> xfs_present t ->
    nth_error (xfs t) (N.to_nat ixfe) = Some fmt ->
    xls_formula_number (xls_formats (enc_biff t)) is_1904 ixfe bits =
    spec_cell (resolve t fmt) is_1904 (NF bits).
Check C10_date_iff_style_xlsb :
  forall (t : style_table) (is_1904 : bool) (style_ref : N) (v : num) (fmt : option N),
    ids_below 65536 t -> xfs_present t -> customs_off_builtin_dates t ->
    nth_error (xfs t) (N.to_nat style_ref) = Some fmt ->
    xlsb_cell_number (xlsb_formats (enc_biff t)) is_1904 style_ref v =
    spec_cell (resolve t fmt) is_1904 v.
Check C10_xlsb_read_styles :
  forall L : XlsbStyles.slayout, XlsbStyles.wf_slayout L = true ->
    XlsbStyles.read_styles (Some (XlsbStyles.encode_styles L)) =
    Ok (xlsb_formats (XlsbStyles.styles_of L)).

Print Assumptions C10_scanner_agrees_with_grammar.
Print Assumptions C10_first_section_only.
Print Assumptions C10_wf_is.
Print Assumptions C10_locale_date_tokens_decide.
Print Assumptions C10_scanner_counters_bounded.
Print Assumptions C10_builtin_tables_agree.
Print Assumptions C10_date_iff_style_xlsx.
Print Assumptions C10_date_iff_style_xls.
Print Assumptions C10_date_iff_style_xls_formula.
Print Assumptions C10_date_iff_style_xlsb.
Print Assumptions C10_xlsb_read_styles.
Print Assumptions C10_xlsb_styles_independent.
Print Assumptions C10_date_iff_style_xlsb_bytes.
Print Assumptions C10_no_panic_xlsb_read_styles.
Print Assumptions C10_spec_cell_meaning.
Print Assumptions C10_resolve_custom_classify.
