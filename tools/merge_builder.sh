#!/bin/bash
# usage: tools/merge_builder.sh <agent-name> <verif-branch>
# Brings a builder agent's work (/tmp/ag/<name>/{repo,verif}) into /repo and /verif:
#  1. cherry-picks the agent's repo commits that /repo does not have (in order), recording old -> new ids;
#  2. merges the agent's verif branch; generated files are resolved mechanically (evidence: ours; MANIFEST.json and
#     the source baseline are regenerated; known_findings.json by a 3-way merge of its entries);
#  3. rewrites the agent's commit ids in notes/, known_findings.json and tools/gen_manifest.py.
# Anything else in conflict is left for a manual resolution (the script stops and lists it).
set -u
N=$1; B=$2
A=/tmp/ag/$N
cd /repo || exit 1
[ -z "$(git status --porcelain --untracked-files=no)" ] || { echo "/repo has uncommitted changes"; exit 1; }
git fetch -q $A/repo main || exit 1
MAP=/tmp/merge_$N.map; : > $MAP
for c in $(git rev-list --reverse HEAD..FETCH_HEAD); do
  subj=$(git log -1 --format=%s $c)
  if git log --format=%s | grep -qxF "$subj"; then echo "skip (already in /repo): $subj"; old=$(git rev-parse --short=7 $c); new=$(git log --format='%h %s' | grep -F " $subj" | head -1 | cut -d' ' -f1); echo "$old $new" >> $MAP; continue; fi
  if ! git cherry-pick $c > /tmp/merge_$N.cp 2>&1; then echo "CHERRY-PICK CONFLICT at $c: $subj"; cat /tmp/merge_$N.cp | tail -5; exit 2; fi
  echo "$(git rev-parse --short=7 $c) $(git rev-parse --short=7 HEAD)" >> $MAP
  echo "picked $(git rev-parse --short=7 HEAD) $subj"
done
cd /verif || exit 1
[ -z "$(git status --porcelain --untracked-files=no)" ] || { echo "/verif has uncommitted changes"; exit 1; }
git fetch -q $A/verif $B || exit 1
git merge --no-commit FETCH_HEAD > /tmp/merge_$N.log 2>&1
for f in $(git diff --name-only --diff-filter=U); do
  case $f in
    evidence/*|MANIFEST.json|tools/source_baseline.json|seeded/RESULTS.md|seeded/results.json) git checkout --ours -- $f && git add $f;;
    known_findings.json) python3 tools/merge_findings3.py && git add $f;;
  esac
done
while read old new; do
  [ -n "$old" ] && [ "$old" != "$new" ] && grep -rl "$old" notes known_findings.json tools/gen_manifest.py DESIGN.md 2>/dev/null | xargs -r sed -i "s/$old/$new/g"
done < $MAP
echo "--- still in conflict:"; git diff --name-only --diff-filter=U
echo "--- id map:"; cat $MAP
