"""Writers used by c14.py for the end-to-end tier: a minimal BIFF8 workbook stream with FORMULA
records and a compound-file (CFB v3) container.  Written from MS-XLS / MS-CFB (container part
adapted from the design-round reference writer); only what calamine's reader needs."""
import struct

FREE, EOC, FATS = 0xFFFFFFFF, 0xFFFFFFFE, 0xFFFFFFFD


def rec(t, data):
    assert len(data) <= 8224, len(data)
    return struct.pack("<HH", t, len(data)) + data


def short_str16(s):
    u = s.encode("utf-16le")
    return bytes([len(u) // 2, 1]) + u


def xl_ustr(s):
    """XLUnicodeString: cch u16, flags, characters (16-bit)"""
    u = s.encode("utf-16le")
    return struct.pack("<HB", len(u) // 2, 1) + u


def supbook_record(sb, nsheets):
    """SupBook (MS-XLS 2.4.271).  sb: ("self",) this workbook (cch = 0x0401, ctab = its sheet count);
    ("addin",) the add-in functions (ctab = 1, cch = 0x3A01); ("ext", path, [sheet names]) another
    workbook: ctab, cch, virtPath (XLUnicodeStringNoCch), ctab x XLUnicodeString"""
    if sb[0] == "self":
        return rec(0x01AE, struct.pack("<HH", nsheets, 0x0401))
    if sb[0] == "addin":
        return rec(0x01AE, struct.pack("<HH", 1, 0x3A01))
    path, shs = sb[1], sb[2]
    u = path.encode("utf-16le")
    return rec(0x01AE, struct.pack("<HH", len(shs), len(u) // 2) + b"\x01" + u + b"".join(xl_ustr(x) for x in shs))


def workbook_stream(sheets, names, xtis, formulas_by_sheet, lbls=None, split_extern=False, extern_cuts=None,
                    supbooks=None):
    """sheets: names; names: Latin-1 defined names (plain Lbl records) — or lbls: ready Lbl payloads
    (tools/fmlagen.lbl_payload: any flags, 8/16-bit names, a formula) in record order;
    xtis: (sup, first, last) raw u16; split_extern: two EXTERNSHEET records (calamine appends);
    extern_cuts: sizes of the pieces of the XTI array in the ExternSheet record and in all but the last of its
    CONTINUE records (MS-XLS 2.4.105: more than 1370 XTI do not fit into one record; any split is read the same);
    supbooks: the supporting links in record order (default: this workbook only), see supbook_record;
    formulas_by_sheet[i] = sorted list of (row, col, cell_parsed_formula_bytes[, records that follow
    the FORMULA record, e.g. SHRFMLA / ARRAY / a value cell]); an item (row, col, None, records)
    writes only the raw records (value cells outside the formula area)"""
    bof_g = rec(0x0809, struct.pack("<HHHHII", 0x0600, 0x0005, 0x0DBB, 0x07CC, 0, 0x0306))
    # any CodePage record or none: BIFF8 text (sheet names, defined names, PtgStr) never depends on it (audit-2 XLS-1)
    import zlib
    cpv = [1200, 1200, 1252, 1252, 932, 936, 1251, 65001, 10000, 437, 54321, None][zlib.crc32(repr((sheets, names, xtis)).encode("utf-8", "replace")) % 12]
    cp = b"" if cpv is None else rec(0x0042, struct.pack("<H", cpv))
    supbook = b"".join(supbook_record(sb, len(sheets)) for sb in (supbooks or [("self",)]))
    def ext(xs, cuts=None):
        arr = b"".join(struct.pack("<HHH", *x) for x in xs)
        parts, rest = [], arr
        for c in (cuts or []):
            parts.append(rest[:c])
            rest = rest[c:]
        parts.append(rest)
        out = rec(0x0017, struct.pack("<H", len(xs)) + parts[0])
        for p_ in parts[1:]:
            out += rec(0x003C, p_)
        return out
    if xtis and extern_cuts is not None:
        extern = ext(xtis, extern_cuts)
    elif xtis and split_extern and len(xtis) > 1:
        extern = ext(xtis[:len(xtis) // 2]) + ext(xtis[len(xtis) // 2:])
    else:
        extern = ext(xtis) if xtis else b""
    if lbls is not None:
        lbls = b"".join(rec(0x0018, p) for p in lbls)
    else:
        lbls = b""
        for n in names:
            nb = n.encode("latin-1")
            lbls += rec(0x0018, struct.pack("<HBBHHH", 0, 0, len(nb), 0, 0, 0) + b"\0" * 4 + b"\0" + nb)
    eof = rec(0x000A, b"")
    subs = []
    for fl in formulas_by_sheet:
        bof_s = rec(0x0809, struct.pack("<HHHHII", 0x0600, 0x0010, 0x0DBB, 0x07CC, 0, 0x0306))
        body = b""
        for item in fl:
            r, c, cpf = item[0], item[1], item[2]
            if cpf is None:                 # no FORMULA record here: only the raw records (a value cell …)
                body += item[3]
                continue
            body += rec(0x0006, struct.pack("<HHH", r, c, 0) + struct.pack("<d", 0.0) + struct.pack("<HI", 0, 0) + cpf)
            if len(item) > 3:
                body += item[3]
        subs.append(bof_s + body + eof)

    def globals_with(positions):
        bs = b"".join(rec(0x0085, struct.pack("<IBB", p, 0, 0) + short_str16(s)) for p, s in zip(positions, sheets))
        return bof_g + cp + bs + supbook + extern + lbls + eof
    glen = len(globals_with([0] * len(sheets)))
    pos, p = [], glen
    for s in subs:
        pos.append(p)
        p += len(s)
    return globals_with(pos) + b"".join(subs)


def cfb_write(streams, ss=512):
    """version-3 compound file, sequential layout; streams < 4096 bytes go to the mini stream"""
    big = [(n, b) for n, b in streams if len(b) >= 4096]
    small = [(n, b) for n, b in streams if len(b) < 4096]
    mini, minifat, mini_start = bytearray(), [], {}
    for n, b in small:
        cnt = (len(b) + 63) // 64
        first = len(minifat)
        mini_start[n] = first if cnt else EOC
        for i in range(cnt):
            mini += b[i * 64:(i + 1) * 64].ljust(64, b"\0")
            minifat.append(first + i + 1 if i + 1 < cnt else EOC)
    objs = [("s:" + n, bytes(b)) for n, b in big]
    if minifat:
        objs.append(("mini", bytes(mini)))
        mf = b"".join(struct.pack("<I", x) for x in minifat)
        objs.append(("minifat", mf.ljust(((len(mf) + ss - 1) // ss) * ss, b"\xff")))
    ndir = 1 + len(streams)
    dir_secs = (ndir * 128 + ss - 1) // ss
    objs.append(("dir", b"\0" * (dir_secs * ss)))
    nsec = sum((len(b) + ss - 1) // ss for _, b in objs)
    nfat = 1
    while nfat * (ss // 4) < nsec + nfat:
        nfat += 1
    assert nfat <= 109
    total = nsec + nfat
    fat = [FREE] * (nfat * (ss // 4))
    fat_ids = list(range(nfat))
    for f in fat_ids:
        fat[f] = FATS
    p, chains = nfat, {}
    for k, b in objs:
        cnt = (len(b) + ss - 1) // ss
        c = list(range(p, p + cnt))
        p += cnt
        chains[k] = c
        for i, sid in enumerate(c):
            fat[sid] = c[i + 1] if i + 1 < len(c) else EOC
    sectors = [b"\0" * ss for _ in range(total)]
    for k, b in objs:
        if k == "dir":
            continue
        for i, sid in enumerate(chains[k]):
            sectors[sid] = b[i * ss:(i + 1) * ss].ljust(ss, b"\0")

    def dirent(name, typ, start, size):
        n = name.encode("utf-16le") + b"\0\0"
        return (n.ljust(64, b"\0") + struct.pack("<H", len(n)) + bytes([typ, 1]) + struct.pack("<III", FREE, FREE, FREE)
                + b"\0" * 36 + struct.pack("<I", start) + struct.pack("<Q", size))
    root = dirent("Root Entry", 5, chains["mini"][0] if minifat else EOC, len(mini))
    ents = []
    for n, b in streams:
        ents.append(dirent(n, 2, chains["s:" + n][0] if len(b) >= 4096 else mini_start[n], len(b)))
    d = (root + b"".join(ents)).ljust(dir_secs * ss, b"\0")
    for i, sid in enumerate(chains["dir"]):
        sectors[sid] = d[i * ss:(i + 1) * ss]
    fb = b"".join(struct.pack("<I", x) for x in fat)
    for i, sid in enumerate(fat_ids):
        sectors[sid] = fb[i * ss:(i + 1) * ss]
    hdr = bytes.fromhex("D0CF11E0A1B11AE1") + b"\0" * 16 + struct.pack("<HHHHH", 0x3E, 3, 0xFFFE, 9, 6) + b"\0" * 6
    hdr += struct.pack("<IIIII", 0, nfat, chains["dir"][0], 0, 4096)
    hdr += struct.pack("<II", chains["minifat"][0] if minifat else EOC, len(chains["minifat"]) if minifat else 0)
    hdr += struct.pack("<II", EOC, 0)
    hdr += b"".join(struct.pack("<I", x) for x in fat_ids) + struct.pack("<I", FREE) * (109 - nfat)
    assert len(hdr) == 512
    return hdr + b"".join(sectors)
