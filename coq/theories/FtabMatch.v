(* FtabMatch — the function tables the code has now (regenerated: CalamineGen.Tables) are the
   frozen reference tables (FtabRef.v).  Proved by computation; breaks, on purpose, as soon as an
   entry of FTAB / FTAB_ARGC / FTAB_LEN in src/utils.rs changes. *)
From Coq Require Import List NArith.
From Calamine Require Import FtabRef.
From CalamineGen Require Tables.

Theorem tables_match_reference :
  Tables.FTAB_LEN = FTAB_LEN_REF /\ Tables.FTAB = FTAB_REF /\ Tables.FTAB_ARGC = FTAB_ARGC_REF.
Proof. vm_compute. repeat split. Qed.
