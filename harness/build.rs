// Generates the command dispatch table from the files present in src/cmds/.
use std::{env, fs, path::Path};
fn main() {
    let dir = Path::new(&env::var("CARGO_MANIFEST_DIR").unwrap()).join("src/cmds");
    let mut names: Vec<String> = fs::read_dir(&dir)
        .unwrap()
        .filter_map(|e| {
            let p = e.unwrap().path();
            if p.extension().map_or(false, |x| x == "rs") {
                Some(p.file_stem().unwrap().to_string_lossy().into_owned())
            } else {
                None
            }
        })
        .collect();
    names.sort();
    let mut out = String::new();
    for n in &names {
        out.push_str(&format!(
            "#[path = \"{}/{}.rs\"] pub mod {};\n",
            dir.display(),
            n,
            n
        ));
    }
    out.push_str("pub fn dispatch(cmd: &str, args: &[&str]) -> Option<String> {\n    match cmd {\n");
    for n in &names {
        out.push_str(&format!("        \"{}\" => Some({}::run(args)),\n", n, n));
    }
    out.push_str("        _ => None,\n    }\n}\n");
    let dest = Path::new(&env::var("OUT_DIR").unwrap()).join("cmds.rs");
    fs::write(dest, out).unwrap();
    println!("cargo:rerun-if-changed=src/cmds");
    println!("cargo:rustc-check-cfg=cfg(calamine_verif)");
    // optional hooks: a cfg per hook that only newer trees have, so that the harness keeps building
    // against trees without it (the command answers "no-hook" there)
    println!("cargo:rustc-check-cfg=cfg(has_get_chain_hook)");
    let manifest = Path::new(&env::var("CARGO_MANIFEST_DIR").unwrap()).join("Cargo.toml");
    if let Ok(txt) = fs::read_to_string(&manifest) {
        if let Some(i) = txt.find("calamine = { path = \"") {
            let rest = &txt[i + "calamine = { path = \"".len()..];
            if let Some(j) = rest.find('"') {
                let cfb = Path::new(&rest[..j]).join("src/cfb.rs");
                println!("cargo:rerun-if-changed={}", cfb.display());
                if fs::read_to_string(&cfb).map_or(false, |s| s.contains("pub fn get_chain(")) {
                    println!("cargo:rustc-cfg=has_get_chain_hook");
                }
            }
        }
    }
}
