// C03: XLSB record framing (hook) and whole generated .xlsb packages (public API), printed in
// exactly the format of ocaml/cmd_xlsbrec.ml.
//   xlsbrec recs <hex part>                        hook verif_hooks::xlsb::records
//   xlsbrec file <path> <sheet name hex utf8> <hdr>
//        Xlsb::new, then three independent readings of the sheet, each under its own
//        catch_unwind:  cells= worksheet_cells_reader + next_cell until None
//                       ref=   worksheet_range_ref      data= worksheet_range
//        hdr: "-" (FirstNonEmptyRow) or a row index.  A failing Xlsb::new answers "openerr"
//        (a panic inside it: "panic").
use crate::util::*;
use calamine::{Data, DataRef, HeaderRow, Range, Reader, ReaderRef, Xlsb};
use std::io::Cursor;
use std::panic::{catch_unwind, AssertUnwindSafe};

fn dref_str(d: &DataRef) -> String {
    match d {
        DataRef::SharedString(s) => format!("H{}", hexstr(s)),
        other => dataref_str(other),
    }
}

fn summary(b: &[u8]) -> String {
    // short payloads in full; long ones as length + head + tail + byte sum
    if b.len() <= 48 {
        hex(b)
    } else {
        let sum: u64 = b.iter().map(|x| *x as u64).sum();
        format!(
            "L{}.{}.{}.{}",
            b.len(),
            hex(&b[..8]),
            hex(&b[b.len() - 8..]),
            sum
        )
    }
}

fn range_ref_str(r: &Range<DataRef>) -> String {
    match (r.start(), r.end()) {
        (Some(s), Some(e)) => {
            let used: Vec<String> = r
                .used_cells()
                .map(|(i, j, v)| format!("{}:{}:{}", i, j, dref_str(v)))
                .collect();
            format!(
                "R[{},{},{},{}|{},{}|{}]",
                s.0,
                s.1,
                e.0,
                e.1,
                r.height(),
                r.width(),
                used.join(",")
            )
        }
        _ => "R[-]".to_string(),
    }
}

fn range_data_str(r: &Range<Data>) -> String {
    match (r.start(), r.end()) {
        (Some(s), Some(e)) => {
            let used: Vec<String> = r
                .used_cells()
                .map(|(i, j, v)| format!("{}:{}:{}", i, j, data_str(v)))
                .collect();
            format!(
                "R[{},{},{},{}|{},{}|{}]",
                s.0,
                s.1,
                e.0,
                e.1,
                r.height(),
                r.width(),
                used.join(",")
            )
        }
        _ => "R[-]".to_string(),
    }
}

fn guarded<F: FnOnce() -> String>(f: F) -> String {
    match catch_unwind(AssertUnwindSafe(f)) {
        Ok(s) => s,
        Err(_) => "panic".to_string(),
    }
}

fn file(args: &[&str]) -> String {
    let bytes = match std::fs::read(args[1]) {
        Ok(b) => b,
        Err(_) => return "nofile".to_string(),
    };
    let name = String::from_utf8_lossy(&unhex(args[2])).into_owned();
    let hdr = if args[3] == "-" {
        HeaderRow::FirstNonEmptyRow
    } else {
        HeaderRow::Row(args[3].parse().unwrap())
    };
    let mut wb: Xlsb<_> = match Xlsb::new(Cursor::new(bytes)) {
        Ok(w) => w,
        Err(_) => return "openerr".to_string(),
    };
    wb.with_header_row(hdr);
    let cells = guarded(|| {
        let mut rd = match wb.worksheet_cells_reader(&name) {
            Ok(r) => r,
            Err(_) => return "err".to_string(),
        };
        let mut out = Vec::new();
        loop {
            match rd.next_cell() {
                Ok(Some(c)) => out.push(format!(
                    "{},{}={}",
                    c.get_position().0,
                    c.get_position().1,
                    dref_str(c.get_value())
                )),
                Ok(None) => break,
                Err(_) => return "err".to_string(),
            }
        }
        format!("ok:{}", out.join(";"))
    });
    let rf = guarded(|| match wb.worksheet_range_ref(&name) {
        Ok(r) => range_ref_str(&r),
        Err(_) => "err".to_string(),
    });
    let dt = guarded(|| match wb.worksheet_range(&name) {
        Ok(r) => range_data_str(&r),
        Err(_) => "err".to_string(),
    });
    format!("cells={}#ref={}#data={}", cells, rf, dt)
}

#[cfg(calamine_verif)]
pub fn run(args: &[&str]) -> String {
    use calamine::verif_hooks::xlsb as h;
    match args[0] {
        "recs" => {
            let part = if args[1] == "-" { Vec::new() } else { unhex(args[1]) };
            match h::records(&part) {
                Ok(rs) => format!(
                    "ok:{}",
                    rs.iter()
                        .map(|(t, d)| format!("{}:{}", t, summary(d)))
                        .collect::<Vec<_>>()
                        .join(";")
                ),
                Err(_) => "err".to_string(),
            }
        }
        "file" => file(args),
        _ => "bad-args".to_string(),
    }
}

#[cfg(not(calamine_verif))]
pub fn run(args: &[&str]) -> String {
    match args[0] {
        "file" => file(args),
        _ => "hooks-unavailable".to_string(),
    }
}
