# xlsb_1b: the three PtgMem* headers that xlsb parse_formula does not know, through the decoder hook
# (vh ptg xlsb SHEETS NAMES RGCE), all three token classes; PtgMemFunc (known) as control.
import subprocess, struct
VH = '/verif/.cache/target/debug/vh'
def ptg(hexs, sheets='-', names='-'):
    line = "x\tptg\txlsb\t%s\t%s\t%s\n" % (sheets, names, hexs)
    out = subprocess.run([VH], input=line.encode(), stdout=subprocess.PIPE, stderr=subprocess.PIPE).stdout.decode().strip()
    r = out.split("\t", 1)[1]
    return ('ok:"' + bytes.fromhex(r[3:]).decode() + '"') if r.startswith('ok:') else r
def area(r1, r2, c1, c2): return b'\x25' + struct.pack('<IIHH', r1, r2, c1 | 0xC000, c2 | 0xC000)
sub = area(0, 1, 0, 0) + area(0, 1, 2, 2)
tail = b'\x15' + b'\x42\x01\x04\x00'          # PtgParen, PtgFuncVar(1, SUM)
cce = struct.pack('<H', len(sub) + 1)
for nm, hdr, op in [('PtgMemArea  0x26 (A1:A2,C1:C2)', b'\x26' + bytes(4) + cce, b'\x10'),
                    ('PtgMemArea  0x46', b'\x46' + bytes(4) + cce, b'\x10'),
                    ('PtgMemArea  0x66', b'\x66' + bytes(4) + cce, b'\x10'),
                    ('PtgMemErr   0x27 (A1:A2 C1:C2 = #NULL!)', b'\x27\x00' + bytes(3) + cce, b'\x0f'),
                    ('PtgMemNoMem 0x28', b'\x28' + bytes(4) + cce, b'\x10'),
                    ('PtgMemFunc  0x29 (control)', b'\x29' + cce, b'\x10'),
                    ('no header      (control)', b'', b'\x10')]:
    print('%-42s' % nm, ptg((hdr + sub + op + tail).hex()))
