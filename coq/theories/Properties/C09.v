(* Property C09 — Serde deserialization maps rows to records faithfully.
   Only the property theorems (closed by [exact]), [Check] pins, non-vacuity examples and
   [Print Assumptions].  Model + spec: De.v (numeric primitives: DeNum.v); proofs: De_proofs.v.
   Every theorem is parametric in X : ext, the conversions calamine delegates to core / other
   crates (decimal text <-> float, atoi_simd, fast_float2). *)
From Calamine Require Import Prelude Range Range_spec DeNum De De_proofs.
From Coq Require Import Permutation.
Open Scope N_scope.

(* The faithful model of the whole public run — RangeDeserializer::new for the three header
   modes, Iterator::next, Iterator::size_hint before every call and after the end,
   RowDeserializer as SeqAccess / MapAccess driven by the serde visitors of the target shape —
   computes exactly the specification, without panic and with the stated fuel, on every
   well-formed range, every header configuration and every modelled target shape. *)
Theorem C09_model_is_spec :
  forall (X : ext) (cfg : hcfg) (sh : shape) (r : range data),
    range_ok r -> de_run X cfg sh r = Ok (spec_run X cfg sh r).
Proof. exact de_run_spec. Qed.

(* exactly one item per row after the optional header row, in order, each the record of its own
   row *)
Theorem C09_items_are_rows :
  forall (X : ext) (cfg : hcfg) (sh : shape) (r : range data),
    range_ok r ->
    match spec_plan X cfg r with
    | DErr e => de_run X cfg sh r = Ok (DErr e)
    | DOk pl =>
      exists t, de_run X cfg sh r = Ok (DOk t) /\
        pl_rows pl = data_rows cfg r /\
        length (trace_items t) = length (data_rows cfg r) /\
        forall i, nth_error (trace_items t) i =
                  option_map (row_to_record X sh (pl_cols pl) (pl_headers pl)
                                            (fst (pl_pos pl) + N.of_nat i, snd (pl_pos pl)))
                             (nth_error (data_rows cfg r) i)
    end.
Proof. exact items_are_rows. Qed.

(* after ANY number k of calls to next() (also past the end) size_hint = (lo, Some hi) brackets
   the number of items still to come *)
Theorem C09_size_hint_brackets :
  forall (X : ext) (cfg : hcfg) (sh : shape) (r : range data) (st0 : de_state),
    range_ok r -> de_new X cfg r = Ok (DOk st0) ->
    forall k, exists stk items lo hi,
      de_advance X k sh st0 = Ok stk /\
      de_items X (S (length (rows r))) sh stk = Ok items /\
      de_size_hint stk = (lo, Some hi) /\
      lo <= N.of_nat (length items) /\ N.of_nat (length items) <= hi.
Proof. exact size_hint_brackets. Qed.

(* without headers a record is the row's cells by position *)
Theorem C09_positional_record :
  forall (X : ext) (sh : shape) (r : range data) t,
    range_ok r -> de_run X HNone sh r = Ok (DOk t) ->
    forall i row, nth_error (rows r) i = Some row ->
      let p := (fst (r_start r) + N.of_nat i, snd (r_start r)) in
      let rec := row_to_record X sh (seq 0 (N.to_nat (width r))) None p row in
      nth_error (trace_items t) i = Some rec /\
      (forall ks vs, sh = STuple ks -> rec = DOk (RSeq vs) ->
         length vs = length ks /\
         forall j k, nth_error ks j = Some k ->
           exists c v, get_value r (fst p, snd p + N.of_nat j) = Some c /\
                       nth_error vs j = Some v /\
                       convert X k (fst p, snd p + N.of_nat j) c = DOk v) /\
      (forall k vs, sh = SVec k -> rec = DOk (RSeq vs) ->
         length vs = N.to_nat (width r) /\
         forall j, (j < N.to_nat (width r))%nat ->
           exists c v, get_value r (fst p, snd p + N.of_nat j) = Some c /\
                       nth_error vs j = Some v /\
                       convert X k (fst p, snd p + N.of_nat j) c = DOk v).
Proof. exact positional_record. Qed.

(* with headers, fields are bound by header name independently of column order (whole range) *)
Theorem C09_header_binding_permutation_invariant :
  forall (X : ext) (sh : shape) (sigma : list nat) (r r' : range data) t t',
    range_ok r -> range_ok r' ->
    Permutation sigma (seq 0 (N.to_nat (width r))) ->
    rows r' = map (permute_row sigma) (rows r) ->
    match sh with
    | SStruct _ => True
    | SMap _ => forall hd rs hs, rows r = hd :: rs ->
                                 header_strings X (r_start r) hd = DOk hs -> NoDup hs
    | _ => False
    end ->
    de_run X HAll sh r = Ok (DOk t) -> de_run X HAll sh r' = Ok (DOk t') ->
    Forall2 rec_equiv (trace_items t) (trace_items t').
Proof. exact header_binding_permutation_invariant. Qed.

(* … and at row level, for any selection of columns: the record depends only on the multiset of
   (header, non-empty cell) pairs *)
Theorem C09_row_binding_perm_invariant :
  forall (X : ext) (sh : shape) (p p' : pos) (cols cols' : list nat) (hs hs' : list str)
         (row row' : list data),
    Permutation (map erase (bound_cells cols hs row)) (map erase (bound_cells cols' hs' row')) ->
    match sh with
    | SStruct _ => True
    | SMap _ => NoDup (map bc_hdr (bound_cells cols hs row))
    | _ => False
    end ->
    rec_equiv (row_to_record X sh cols (Some hs) p row) (row_to_record X sh cols' (Some hs') p' row').
Proof. exact row_binding_perm_invariant. Qed.

(* selecting headers (matched after trimming) returns the corresponding columns in that order, or
   HeaderNotFound for the first requested name no column carries *)
Theorem C09_selected_headers_spec :
  forall (X : ext) (sel : list str) (sh : shape) (r : range data) hd rs hs,
    range_ok r -> rows r = hd :: rs -> header_strings X (r_start r) hd = DOk hs ->
    (forall cols, Forall2 (first_match hs) sel cols ->
       exists t, de_run X (HCustom sel) sh r = Ok (DOk t) /\
         trace_items t = mapi_from 0 (fun k row =>
            row_to_record X sh cols (Some hs)
                          (fst (r_start r) + 1 + N.of_nat k, snd (r_start r)) row) rs) /\
    (forall s1 h s2, sel = s1 ++ h :: s2 -> no_match hs h ->
       (forall h', In h' s1 -> exists i, first_match hs h' i) ->
       de_run X (HCustom sel) sh r = Ok (DErr (EHeaderNotFound (trim h)))).
Proof. exact selected_headers_spec. Qed.

(* selection, characterised on its own *)
Theorem C09_select_columns_ok :
  forall (sel all : list str) (cols : list nat),
    select_columns sel all = DOk cols <-> Forall2 (first_match all) sel cols.
Proof. exact select_columns_ok. Qed.
Theorem C09_select_columns_err :
  forall (sel all : list str) (e : de_error),
    select_columns sel all = DErr e <->
    exists s1 h s2, sel = s1 ++ h :: s2 /\ e = EHeaderNotFound (trim h) /\ no_match all h /\
                    forall h', In h' s1 -> exists i, first_match all h' i.
Proof. exact select_columns_err. Qed.

(* each cell converts by the documented rules *)
Theorem C09_conversion_table :
  forall (X : ext) (p : pos),
  (forall k, convert X (KOption k) p DEmpty = DOk VNone) /\
  convert X KBool p DEmpty = DOk (VBool false) /\
  convert X KString p DEmpty = DOk (VStr []) /\
  convert X KBytes p DEmpty = DOk (VBytes []) /\
  convert X KUnit p DEmpty = DOk VUnit /\
  convert X KAny p DEmpty = DOk (VData DEmpty) /\
  (forall ik, convert X (KInt ik) p DEmpty = DErr ECustom) /\
  convert X KF64 p DEmpty = DErr ECustom /\ convert X KF32 p DEmpty = DErr ECustom /\
  (forall k d, is_empty_cell d = false -> convert X (KOption k) p d = dres_map VSome (convert X k p d)) /\
  (forall ik z, convert X (KInt ik) p (DInt z) = DOk (VInt (wrap_int ik z))) /\
  (forall ik f, convert X (KInt ik) p (DFloat f) = DOk (VInt (f64_to_int ik f))) /\
  (forall z, convert X KF64 p (DInt z) = DOk (VF64 (int_to_float F64 z))) /\
  (forall z, convert X KF32 p (DInt z) = DOk (VF32 (int_to_float F32 z))) /\
  (forall f, convert X KF64 p (DFloat f) = DOk (VF64 f)) /\
  (forall f, convert X KF32 p (DFloat f) = DOk (VF32 (f64_to_f32 f))) /\
  (forall ik s, convert X (KInt ik) p (DString s) =
                match parse_int ik s with Some z => DOk (VInt z) | None => DErr ECustom end) /\
  (forall s, convert X KF64 p (DString s) =
             match x_parse_f64 X s with Some b => DOk (VF64 b) | None => DErr ECustom end) /\
  (forall s, convert X KF32 p (DString s) =
             match x_parse_f32 X s with Some b => DOk (VF32 b) | None => DErr ECustom end) /\
  (forall b, convert X KBool p (DBool b) = DOk (VBool b)) /\
  (forall s, convert X KBool p (DString s) =
             match bool_of_str s with Some b => DOk (VBool b) | None => DErr ECustom end) /\
  (forall z, convert X KBool p (DInt z) = DOk (VBool (negb (z =? 0)%Z))) /\
  (forall f, convert X KBool p (DFloat f) = DOk (VBool (f64_nonzero f))) /\
  (forall ik b, convert X (KInt ik) p (DBool b) = DErr ECustom) /\
  (forall s, convert X KString p (DString s) = DOk (VStr s)) /\
  (forall z, convert X KString p (DInt z) = DOk (VStr (Z_to_str z))) /\
  (forall f, convert X KString p (DFloat f) = DOk (VStr (x_fmt_f64 X f))) /\
  (forall b, convert X KString p (DBool b) = DOk (VStr (bool_str b))) /\
  (forall d, convert X KAny p d = dres_map VData (visit_any p d)) /\
  (forall k e, convert X k p (DError e) = DErr (ECellError e p)) /\
  (forall k d e q, convert X k p d = DErr (ECellError e q) -> d = DError e /\ q = p).
Proof. exact conversion_table. Qed.

(* meaning of the integer casts and of the boolean strings used by the table *)
Theorem C09_wrap_int_spec :
  forall (ik : ikind) (z : Z),
    ik_in ik (wrap_int ik z) = true /\
    ((wrap_int ik z - z) mod 2 ^ ik_bits ik = 0)%Z /\
    (ik_in ik z = true -> wrap_int ik z = z).
Proof. exact wrap_int_spec. Qed.
Theorem C09_f64_to_int_spec :
  forall (ik : ikind) (f : N),
    ik_in ik (f64_to_int ik f) = true /\
    (fdecode F64 f = FNaN -> f64_to_int ik f = 0%Z) /\
    (forall neg m e, fdecode F64 f = FFin neg m e -> (0 <= m)%Z ->
       let t := (if 0 <=? e then m * 2 ^ e else m / 2 ^ (- e))%Z in
       ((0 <= e)%Z -> t = (m * 2 ^ e)%Z) /\
       ((e < 0)%Z -> (t * 2 ^ (- e) <= m < (t + 1) * 2 ^ (- e))%Z) /\
       f64_to_int ik f = clamp_int ik (if neg then (- t)%Z else t)).
Proof. exact f64_to_int_spec. Qed.
Theorem C09_parse_int_in :
  forall (ik : ikind) (s : str) (z : Z), parse_int ik s = Some z -> ik_in ik z = true.
Proof. exact parse_int_in. Qed.
Theorem C09_bool_of_str_spec :
  forall s : str,
    (bool_of_str s = Some true <-> s = s_TRUE \/ s = s_true \/ s = s_True) /\
    (bool_of_str s = Some false <-> s = s_FALSE \/ s = s_false \/ s = s_False).
Proof. exact bool_of_str_spec. Qed.

(* an integer survives being written as text, and being carried by an f64 (below 2^53) *)
Theorem C09_int_text_roundtrip :
  forall (X : ext) (ik : ikind) (z : Z) (p : pos), ik_in ik z = true ->
    convert X KString p (DInt z) = DOk (VStr (Z_to_str z)) /\
    convert X (KInt ik) p (DString (Z_to_str z)) = DOk (VInt z).
Proof. exact int_text_roundtrip. Qed.
Theorem C09_int_f64_roundtrip :
  forall (X : ext) (ik : ikind) (z : Z) (p : pos),
    (- 2 ^ 53 < z < 2 ^ 53)%Z -> ik_in ik z = true ->
    convert X KF64 p (DInt z) = DOk (VF64 (int_to_float F64 z)) /\
    convert X (KInt ik) p (DFloat (int_to_float F64 z)) = DOk (VInt z).
Proof. exact int_f64_roundtrip. Qed.

(* an error cell fails its own record with CellError carrying that cell's error kind and
   ABSOLUTE position *)
Theorem C09_cell_error_position :
  forall (X : ext) (cfg : hcfg) (sh : shape) (r : range data) t,
    range_ok r -> de_run X cfg sh r = Ok (DOk t) ->
    forall i e q, nth_error (trace_items t) i = Some (DErr (ECellError e q)) ->
      fst q = fst (r_start r) + N.of_nat (hdr_off cfg + i) /\
      get_value r q = Some (DError e).
Proof. exact cell_error_position. Qed.

Theorem C09_header_row_error_position :
  forall (X : ext) (cfg : hcfg) (sh : shape) (r : range data) e q,
    range_ok r -> de_run X cfg sh r = Ok (DErr (ECellError e q)) ->
    fst q = fst (r_start r) /\ get_value r q = Some (DError e).
Proof. exact header_row_error_position. Qed.

(* … and the shapes that look at every selected cell do fail on an error cell; when it is the
   first cell that does not convert, the error is exactly its CellError *)
Theorem C09_error_cell_fails_record :
  forall (X : ext) (sh : shape) (cols : list nat) (hdrs : option (list str)) (p : pos)
         (row : list data) (i : nat) (e : N),
    In i cols -> cell_at row i = DError e -> visits_all sh hdrs ->
    exists e', row_to_record X sh cols hdrs p row = DErr e'.
Proof. exact row_error_cell_fails. Qed.
Theorem C09_vec_first_error :
  forall (X : ext) (k : kind) (c1 : list nat) (i : nat) (c2 : list nat) (p : pos)
         (row : list data) (e : N),
    (forall i', In i' c1 -> exists v, spec_cell X k p row i' = DOk v) ->
    cell_at row i = DError e ->
    spec_vec X k (c1 ++ i :: c2) p row = DErr (ECellError e (abs_pos p i)).
Proof. exact spec_vec_first_error. Qed.

(* ---- non-vacuity: concrete objects meeting the hypotheses, with the computed behaviour ---- *)
Example C09_run_nonvacuous :
  range_ok ex_range /\
  de_run std_ext HAll (STuple [KString; KF64]) ex_range =
  Ok (DOk [((2, Some 2), Some (DOk (RSeq [VStr s_celsius; VF64 F64_22_2222])));
           ((1, Some 1), Some (DErr (ECellError 0 (7, 4))));
           ((0, Some 0), None); ((0, Some 0), None)]).
Proof. exact (conj ex_range_ok ex_run). Qed.

Example C09_size_hint_nonvacuous :
  exists st0, de_new std_ext HAll ex_range = Ok (DOk st0).
Proof. exact ex_new. Qed.

Example C09_selected_headers_nonvacuous :
  Forall2 (first_match [s_label; s_value_sp]) [s_value; [32; 32] ++ s_label] [1%nat; 0%nat] /\
  de_run std_ext (HCustom [s_value; [32; 32] ++ s_label]) (SVec KAny) ex_range =
  Ok (DOk [((2, Some 2), Some (DOk (RSeq [VData (DFloat F64_22_2222); VData (DString s_celsius)])));
           ((1, Some 1), Some (DErr (ECellError 0 (7, 4))));
           ((0, Some 0), None); ((0, Some 0), None)]) /\
  de_run std_ext (HCustom [s_value; s_celsius]) (SVec KAny) ex_range =
  Ok (DErr (EHeaderNotFound s_celsius)).
Proof. exact ex_selected. Qed.

Example C09_permutation_nonvacuous :
  range_ok ex_range /\ range_ok ex_range_swapped /\
  Permutation [1%nat; 0%nat] (seq 0 (N.to_nat (width ex_range))) /\
  rows ex_range_swapped = map (permute_row [1%nat; 0%nat]) (rows ex_range) /\
  de_run std_ext HAll ex_struct ex_range =
  Ok (DOk [((2, Some 2), Some (DOk (RStruct [VStr s_celsius; VSome (VF64 F64_22_2222)])));
           ((1, Some 1), Some (DErr (ECellError 0 (7, 4))));
           ((0, Some 0), None); ((0, Some 0), None)]) /\
  de_run std_ext HAll ex_struct ex_range_swapped =
  Ok (DOk [((2, Some 2), Some (DOk (RStruct [VStr s_celsius; VSome (VF64 F64_22_2222)])));
           ((1, Some 1), Some (DErr (ECellError 0 (7, 3))));
           ((0, Some 0), None); ((0, Some 0), None)]).
Proof. exact ex_permutation. Qed.

Check C09_model_is_spec :
  forall (X : ext) (cfg : hcfg) (sh : shape) (r : range data),
    range_ok r -> de_run X cfg sh r = Ok (spec_run X cfg sh r).
Check C09_size_hint_brackets :
  forall (X : ext) (cfg : hcfg) (sh : shape) (r : range data) (st0 : de_state),
    range_ok r -> de_new X cfg r = Ok (DOk st0) ->
    forall k, exists stk items lo hi,
      de_advance X k sh st0 = Ok stk /\
      de_items X (S (length (rows r))) sh stk = Ok items /\
      de_size_hint stk = (lo, Some hi) /\
      lo <= N.of_nat (length items) /\ N.of_nat (length items) <= hi.
Check C09_cell_error_position :
  forall (X : ext) (cfg : hcfg) (sh : shape) (r : range data) t,
    range_ok r -> de_run X cfg sh r = Ok (DOk t) ->
    forall i e q, nth_error (trace_items t) i = Some (DErr (ECellError e q)) ->
      fst q = fst (r_start r) + N.of_nat (hdr_off cfg + i) /\
      get_value r q = Some (DError e).
Check C09_header_binding_permutation_invariant :
  forall (X : ext) (sh : shape) (sigma : list nat) (r r' : range data) t t',
    range_ok r -> range_ok r' ->
    Permutation sigma (seq 0 (N.to_nat (width r))) ->
    rows r' = map (permute_row sigma) (rows r) ->
    match sh with
    | SStruct _ => True
    | SMap _ => forall hd rs hs, rows r = hd :: rs ->
                                 header_strings X (r_start r) hd = DOk hs -> NoDup hs
    | _ => False
    end ->
    de_run X HAll sh r = Ok (DOk t) -> de_run X HAll sh r' = Ok (DOk t') ->
    Forall2 rec_equiv (trace_items t) (trace_items t').

Print Assumptions C09_model_is_spec.
Print Assumptions C09_items_are_rows.
Print Assumptions C09_size_hint_brackets.
Print Assumptions C09_positional_record.
Print Assumptions C09_header_binding_permutation_invariant.
Print Assumptions C09_row_binding_perm_invariant.
Print Assumptions C09_selected_headers_spec.
Print Assumptions C09_select_columns_ok.
Print Assumptions C09_select_columns_err.
Print Assumptions C09_conversion_table.
Print Assumptions C09_wrap_int_spec.
Print Assumptions C09_f64_to_int_spec.
Print Assumptions C09_parse_int_in.
Print Assumptions C09_bool_of_str_spec.
Print Assumptions C09_int_text_roundtrip.
Print Assumptions C09_int_f64_roundtrip.
Print Assumptions C09_cell_error_position.
Print Assumptions C09_header_row_error_position.
Print Assumptions C09_error_cell_fails_record.
Print Assumptions C09_vec_first_error.
Print Assumptions C09_run_nonvacuous.
Print Assumptions C09_size_hint_nonvacuous.
Print Assumptions C09_selected_headers_nonvacuous.
Print Assumptions C09_permutation_nonvacuous.
