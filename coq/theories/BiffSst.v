(* BiffSst.v — property C12: XLS (BIFF8) strings across CONTINUE records and packings.

   Part 1  M: faithful executable model of the string readers of /repo/src/xls.rs and of
              XlsEncoding::decode_to / decode_segment of /repo/src/cfb.rs with the decoder a BIFF8
              workbook is read with: UTF-16LE (XlsEncoding::from_codepage(1200), the initial value
              of `encoding` in parse_workbook with force_codepage = None).  Since the fix of audit-2
              finding XLS-1 the CodePage record (0x0042) no longer replaces that decoder under a
              BIFF8 BOF — BIFF8 strings are Unicode whatever the record says ([MS-XLS] 2.5.240,
              2.5.293, 2.5.294) — so the model holds for EVERY value of the record (before the fix
              it held for 1200 only and the model answered E_UNMODELLED otherwise: exactly where the
              code was wrong).  Includes what encoding_rs's UTF-16LE decoder does: one-shot per call
              (decode_to) and streaming over the segments of one string (read_dbcs), with
              replacement of lone surrogates.  Code as of the hardening commits (errors instead of
              panics on malformed input) plus the fix that lets read_dbcs use one decoder per
              string.
   Part 2  S: UTF-16 decoding of a whole string (the text the writer stored).
   Part 3  E: the writer of MS-XLS 2.4.265 (SST) / 2.5.293 (XLUnicodeRichExtendedString) /
              2.5.294 (XLUnicodeString) / 2.5.240 (ShortXLUnicodeString) with every degree of
              freedom the format leaves: where CONTINUE records start, how each segment is packed.
   Part 4  legal layouts (no class is known on which the current code deviates).
   Definitions only (proofs: BiffSst_proofs.v); everything computes. *)
From Calamine Require Import Prelude.
Open Scope N_scope.
Set Implicit Arguments.

Definition bytes := list N.                       (* every element < 256 *)

Definition len {A} (l : list A) : N := N.of_nat (length l).          (* slice.len() *)
Definition drop {A} (n : N) (l : list A) : list A := skipn (N.to_nat n) l.
Definition take {A} (n : N) (l : list A) : list A := firstn (N.to_nat n) l.
Definition is_nil {A} (l : list A) : bool := match l with [] => true | _ => false end.

(* error classes (only the class travels on the wire) *)
Definition E_LEN : N := 1.          (* XlsError::Len *)
Definition E_EOS : N := 2.          (* XlsError::EoStream *)
Definition E_CONT : N := 3.         (* XlsError::ContinueRecordTooShort *)
Definition E_UNREC : N := 4.        (* XlsError::Unrecognized *)
Definition E_PASSWORD : N := 5.     (* XlsError::Password *)
Definition E_UNMODELLED : N := 99.  (* record kinds outside this model (never generated) *)

(* ------------------------------------------------------------------------------------- *)
(** * Part 1 — model                                                                      *)
(* ------------------------------------------------------------------------------------- *)

(* utils.rs read_u16 / read_u32 / read_i32: `s[..n].try_into().unwrap()` panics on a short slice *)
Definition read_u16 (s : bytes) : outcome N :=
  match s with a :: b :: _ => Ok (a + 256 * b) | _ => Panic end.
Definition read_u32 (s : bytes) : outcome N :=
  match s with
  | a :: b :: c :: d :: _ => Ok (a + 256 * b + 65536 * c + 16777216 * d)
  | _ => Panic
  end.
Definition read_i32 (s : bytes) : outcome Z :=
  do u <- read_u32 s;
  Ok (if u <? 2147483648 then Z.of_N u else (Z.of_N u - 4294967296)%Z).
(* `x as usize` for an i32 on a 64-bit target: sign extension *)
Definition i32_as_usize (x : Z) : N :=
  if (x <? 0)%Z then Z.to_N (x + 18446744073709551616)%Z else Z.to_N x.
(* `&s[n..]` *)
Definition slice_from {A} (s : list A) (n : N) : outcome (list A) :=
  if n <=? len s then Ok (drop n s) else Panic.
(* `s.get(n..).ok_or(XlsError::EoStream(..))` *)
Definition get_from {A} (s : list A) (n : N) : outcome (list A) :=
  if n <=? len s then Ok (drop n s) else Err 2.

(** ** encoding_rs, as far as calamine reaches it with code page 1200 *)

Definition FFFD : N := 65533.
Definition is_high (u : N) : bool := (55296 <=? u) && (u <? 56320).   (* u & 0xFC00 == 0xD800 *)
Definition is_low (u : N) : bool := (56320 <=? u) && (u <? 57344).    (* u & 0xFC00 == 0xDC00 *)
Definition pair_scalar (h l : N) : N := 65536 + (h - 55296) * 1024 + (l - 56320).

(* encoding_rs::utf_16::Utf16Decoder run over one complete input (last = true):
   state = pending lead byte, pending lead surrogate (0 = none).  The decoder's pending_bmp
   flag only splits one step in two for buffer management; its output is the same. *)
Fixpoint utf16_sm (be : bool) (bs : bytes) (lead_byte : option N) (lead_sur : N) : list N :=
  match bs with
  | [] =>
    (* eof: one replacement for a pending surrogate and/or a dangling byte *)
    if negb (lead_sur =? 0) || (match lead_byte with Some _ => true | None => false end)
    then [FFFD] else []
  | b :: rest =>
    match lead_byte with
    | None => utf16_sm be rest (Some b) lead_sur
    | Some lead =>
      let cu := if be then lead * 256 + b else b * 256 + lead in
      if is_high cu then
        if lead_sur =? 0 then utf16_sm be rest None cu
        else FFFD :: utf16_sm be rest None cu
      else if is_low cu then
        if lead_sur =? 0 then FFFD :: utf16_sm be rest None 0
        else pair_scalar lead_sur cu :: utf16_sm be rest None 0
      else
        if lead_sur =? 0 then cu :: utf16_sm be rest None 0
        else FFFD :: cu :: utf16_sm be rest None 0
    end
  end.

(* the same decoder fed with one chunk of a longer input (last = false): what it emits for the
   chunk and the state it keeps (pending lead byte, pending lead surrogate) for the next call.
   [utf16_sm] is the call with last = true from a given state. *)
Definition dec_state := (option N * N)%type.
Definition dec_init : dec_state := (None, 0).      (* new_decoder_without_bom_handling() *)
Fixpoint utf16_feed (be : bool) (bs : bytes) (lead_byte : option N) (lead_sur : N)
  : list N * dec_state :=
  match bs with
  | [] => ([], (lead_byte, lead_sur))
  | b :: rest =>
    match lead_byte with
    | None => utf16_feed be rest (Some b) lead_sur
    | Some lead =>
      let cu := if be then lead * 256 + b else b * 256 + lead in
      if is_high cu then
        if lead_sur =? 0 then utf16_feed be rest None cu
        else let r := utf16_feed be rest None cu in (FFFD :: fst r, snd r)
      else if is_low cu then
        if lead_sur =? 0 then let r := utf16_feed be rest None 0 in (FFFD :: fst r, snd r)
        else let r := utf16_feed be rest None 0 in (pair_scalar lead_sur cu :: fst r, snd r)
      else
        if lead_sur =? 0 then let r := utf16_feed be rest None 0 in (cu :: fst r, snd r)
        else let r := utf16_feed be rest None 0 in (FFFD :: cu :: fst r, snd r)
    end
  end.

(* a fresh decoder run over one complete input: what `decode_without_bom_handling(bytes).0` was
   (fix 98c2838; before it, Encoding::decode sniffed a byte-order mark at the start of every
   segment) and what decode_to does now with a decoder of its own and last = true *)
Definition enc_decode (bs : bytes) : list N := utf16_sm false bs None 0.

(** ** cfb.rs XlsEncoding *)

(* XlsEncoding::high_byte for UTF_16LE, the decoder of every BIFF8 workbook: None becomes Some(false)
   (since the fix of audit-2 finding XLS-6b for UTF_16LE only: under a code page — BIFF5 byte
   strings, outside this model — the bytes go to the code page's decoder as they are) *)
Definition high_byte_cp1200 (hb : option bool) : bool :=
  match hb with Some b => b | None => false end.

(* the 8-bit branch widens every byte to a 16-bit unit: bytes[2*i] = b, bytes[2*i+1] = 0 *)
Definition widen (bs : bytes) : bytes := flat_map (fun b => [b; 0]) bs.

(* the `match self.high_byte(high_byte)` of decode_segment: (l, ub, bytes handed to the decoder) *)
Definition segment (stream : bytes) (n : N) (hb : option bool) : N * N * bytes :=
  if high_byte_cp1200 hb then
    let l := N.min (len stream / 2) n in
    (l, 2 * l, take (2 * l) stream)
  else
    let l := N.min (len stream) n in
    (l, l, widen (take l stream)).

(* XlsEncoding::decode_segment(decoder, stream, len, s, high_byte, last) -> (l, ub).
   last = false: (l, ub, text appended to s, decoder afterwards);
   last = true:  (l, ub, text appended to s) — the decoder is finished. *)
Definition decode_segment (ds : dec_state) (stream : bytes) (n : N) (hb : option bool)
  : N * N * list N * dec_state :=
  let '(l, ub, bs) := segment stream n hb in
  let r := utf16_feed false bs (fst ds) (snd ds) in
  (l, ub, fst r, snd r).
Definition decode_segment_last (ds : dec_state) (stream : bytes) (n : N) (hb : option bool)
  : N * N * list N :=
  let '(l, ub, bs) := segment stream n hb in
  (l, ub, utf16_sm false bs (fst ds) (snd ds)).

(* XlsEncoding::decode_to(stream, len, s, high_byte) -> (l, ub): decode_segment with a decoder of
   its own and last = true; the third component is what is appended to s *)
Definition decode_to (stream : bytes) (n : N) (hb : option bool) : N * N * list N :=
  decode_segment_last dec_init stream n hb.

(** ** xls.rs Record *)

(* Record { data, cont }: the current fragment and the queue of CONTINUE fragments.  In Rust cont
   is an Option<Vec<_>>; None and Some(vec![]) behave identically in every function below
   (continue_record returns false), so the readers take the queue as a plain list. *)
Definition rstate := (bytes * list bytes)%type.
Definition conts_of (c : option (list bytes)) : list bytes :=
  match c with Some l => l | None => [] end.

(* Record::continue_record *)
Definition continue_record (st : rstate) : bool * rstate :=
  match snd st with
  | [] => (false, st)
  | c :: cs => (true, (c, cs))
  end.

(* Record::skip.  skip_loop is one iteration of `while len > 0` entered with len > 0; when the
   remaining length is still positive after consuming min(len, data.len()) bytes, data is empty
   and the next iteration starts with continue_record. *)
Fixpoint skip_loop (conts : list bytes) (data : bytes) (n : N) {struct conts} : outcome rstate :=
  let l := N.min n (len data) in
  let data' := drop l data in
  let n' := n - l in
  if n' =? 0 then Ok (data', conts)
  else match conts with
       | [] => Err E_CONT
       | c :: cs => skip_loop cs c n'
       end.
Definition skip (st : rstate) (n : N) : outcome rstate :=
  if n =? 0 then Ok st else skip_loop (snd st) (fst st) n.

(* read_dbcs: one iteration of `while len > 0` entered with len > 0; ds is the decoder the
   whole string shares (a CONTINUE record may start inside a surrogate pair) *)
Fixpoint dbcs_loop (conts : list bytes) (data : bytes) (n : N) (hb : bool) (ds : dec_state)
  (acc : list N) {struct conts} : outcome (list N * dec_state * rstate) :=
  let '(l, at_, str, ds') := decode_segment ds data n (Some hb) in
  let acc' := acc ++ str in
  let data' := drop at_ data in                (* at_ <= data.len() by construction *)
  let n' := n - l in
  if n' =? 0 then Ok (acc', ds', (data', conts))
  else match conts with
       | [] => Err E_EOS                        (* EoStream("dbcs") *)
       | c :: cs =>
         match c with
         | [] => Err E_CONT                     (* an empty CONTINUE: ContinueRecordTooShort *)
         | f :: c' => dbcs_loop cs c' n' (N.odd f) ds' acc'
         end
       end.
Definition read_dbcs (st : rstate) (n : N) (hb : bool) : outcome (list N * rstate) :=
  do r <- (if n =? 0 then Ok ([], dec_init, st)
           else dbcs_loop (snd st) (fst st) n hb dec_init []);
  let '(s, ds, st') := r in
  (* decode_segment(&mut decoder, &[], 0, &mut s, Some(high_byte), true): the flag does not
     matter for an empty stream *)
  let '(_, _, tl) := decode_segment_last ds [] 0 (Some hb) in
  Ok (s ++ tl, st').

(* read_rich_extended_string, in three pieces.
   enter_string: `r.data.is_empty() && !r.continue_record()` — the state the header is read from
   (None: the condition holds, i.e. no data and no CONTINUE record left). *)
Definition enter_string (st : rstate) : option rstate :=
  if is_nil (fst st) then
    (let (ok, st') := continue_record st in if ok then Some st' else None)
  else Some st.
(* cch, flags, then cRun when fRichSt (bit 3) and cbExtRst when fExtSt (bit 2) are set:
   (cch, fHighByte, c_run, cb_ext_rst, data after the header); a fragment that ends inside the
   cRun / cbExtRst field is an error (XlsError::Len) *)
(* `if flags & 0x8 != 0 { .. c_run = read_u16(r.data); r.data = &r.data[2..] }` *)
Definition read_c_run (flags : N) (data : bytes) : outcome (N * bytes) :=
  if N.testbit flags 3 then
    if len data <? 2 then Err E_LEN else
    do v <- read_u16 data; do d <- slice_from data 2; Ok (v, d)
  else Ok (0, data).
(* `if flags & 0x4 != 0 { .. cb_ext_rst = read_i32(r.data) as usize; r.data = &r.data[4..] }` *)
Definition read_cb_ext_rst (flags : N) (data : bytes) : outcome (N * bytes) :=
  if N.testbit flags 2 then
    if len data <? 4 then Err E_LEN else
    do v <- read_i32 data; do d <- slice_from data 4; Ok (i32_as_usize v, d)
  else Ok (0, data).
Definition read_string_header (data : bytes) : outcome (N * bool * N * N * bytes) :=
  do cch <- read_u16 data;
  let flags := nth 2 data 0 in
  let data := drop 3 data in
  do cr <- read_c_run flags data;
  let '(c_run, data) := cr in
  do ce <- read_cb_ext_rst flags data;
  let '(cb_ext_rst, data) := ce in
  Ok (cch, N.odd flags, c_run, cb_ext_rst, data).
Definition read_rich_extended_string (st : rstate) : outcome (list N * rstate) :=
  match enter_string st with
  | None => Err E_LEN
  | Some (data, conts) =>
    if len data <? 3 then Err E_LEN else
    do h <- read_string_header data;
    let '(cch, high_byte, c_run, cb_ext_rst, data) := h in
    do sr <- read_dbcs (data, conts) cch high_byte;     (* rgb *)
    let '(s, st) := sr in
    do st <- skip st (c_run * 4);                       (* rgRun: 4 bytes per FormatRun *)
    do st <- skip st cb_ext_rst;                        (* ExtRst *)
    Ok (s, st)
  end.

(* parse_sst.  The Rust loop `for _ in 0..len` runs on a count taken from the file (up to 2^31-1),
   so the model carries fuel: every successful read consumes at least 3 bytes, hence
   fuel = 1 + number of bytes in the record suffices (sst_fuel_suffices in the proofs). *)
Fixpoint sst_loop (fuel : nat) (count : N) (st : rstate) (acc : list (list N))
  : outcome (list (list N)) :=
  if count =? 0 then Ok (rev acc) else
  match fuel with
  | O => OutOfFuel
  | S f =>
    do sr <- read_rich_extended_string st;
    let '(s, st') := sr in
    sst_loop f (count - 1) st' (s :: acc)
  end.
Definition total_bytes (st : rstate) : nat :=
  length (fst st) + fold_right (fun c n => length c + n)%nat 0%nat (snd st).
Definition parse_sst (st : rstate) : outcome (list (list N)) :=
  let '(data, conts) := st in
  if len data <? 8 then Err E_LEN else
  do x <- read_i32 (drop 4 data);
  if (x <? 0)%Z then Err E_LEN                   (* usize::try_from(i32) fails: XlsError::Len *)
  else
    (* Vec::with_capacity(len.min(available / 3)): see sst_capacity_request *)
    sst_loop (S (total_bytes st)) (Z.to_N x) (drop 8 data, conts) [].
(* number of elements (24-byte Strings) parse_sst asks the allocator for before reading anything:
   the declared count, capped by a third of the bytes of the record and its CONTINUE records *)
Definition sst_capacity_request (st : rstate) : N :=
  match read_i32 (drop 4 (fst st)) with
  | Ok x => if (len (fst st) <? 8) || (x <? 0)%Z then 0
            else N.min (Z.to_N x) (N.of_nat (total_bytes st) / 3)
  | _ => 0
  end.

(* parse_short_string, Biff8 (BoundSheet8 names) *)
Definition parse_short_string (data : bytes) : outcome (list N) :=
  if len data <? 2 then Err E_LEN else
  let cch := nth 0 data 0 in
  let data := drop 1 data in
  let hb := N.odd (nth 0 data 0) in
  let data := drop 1 data in
  let '(_, _, s) := decode_to data cch (Some hb) in
  Ok s.

(* parse_string, Biff8 (LABEL and formula STRING records) *)
Definition parse_string (r : bytes) : outcome (list N) :=
  if len r <? 3 then Err E_LEN else      (* cch + flags (since fix 1abac51; it was 4) *)
  do cch <- read_u16 r;
  let hb := N.odd (nth 2 r 0) in
  let '(_, _, s) := decode_to (drop 3 r) cch (Some hb) in
  Ok s.

(* cells carrying text: ((row, col), text) *)
Definition scell := (N * N * list N)%type.

(* parse_label *)
Definition parse_label (r : bytes) : outcome (option scell) :=
  if len r <? 6 then Err E_LEN else
  do row <- read_u16 r;
  do col <- read_u16 (drop 2 r);
  do s <- parse_string (drop 6 r);
  Ok (Some (row, col, s)).

(* parse_label_sst: no cell for an index past the table and none for an empty string *)
Definition parse_label_sst (r : bytes) (strings : list (list N)) : outcome (option scell) :=
  if len r <? 10 then Err E_LEN else
  do row <- read_u16 r;
  do col <- read_u16 (drop 2 r);
  do i <- read_u32 (drop 6 r);
  match nth_error strings (N.to_nat i) with
  | Some s => if is_nil s then Ok None else Ok (Some (row, col, s))
  | None => Ok None
  end.

(* parse_sheet_metadata (BoundSheet8), Biff8: (stream position, name with NULs removed) *)
Definition parse_sheet_metadata (data : bytes) : outcome (N * list N) :=
  if len data <? 6 then Err E_LEN else
  do pos <- read_u32 data;
  do vis <- of_option (nth_error data 4);
  if 2 <? N.land vis 3 then Err E_UNREC else
  do typ <- of_option (nth_error data 5);
  if negb ((typ =? 0) || (typ =? 1) || (typ =? 2) || (typ =? 6)) then Err E_UNREC else
  do name <- parse_short_string (drop 6 data);
  Ok (pos, filter (fun c => negb (c =? 0)) name).

(** ** xls.rs RecordIter *)

Definition u16_at (s : bytes) (i : nat) : N := nth i s 0 + 256 * nth (S i) s 0.
Definition rec_item := (N * bytes * option (list bytes))%type.

(* the inner `while self.stream.len() > 4 && read_u16(self.stream) == 0x003C` *)
Fixpoint take_conts (fuel : nat) (stream : bytes) (acc : list bytes)
  : outcome (list bytes * bytes) :=
  match fuel with
  | O => OutOfFuel
  | S f =>
    if (4 <? len stream) && (u16_at stream 0 =? 60) then
      let l := u16_at stream 2 in
      if len stream <? l + 4 then Err E_EOS        (* "continue record length" *)
      else take_conts f (drop (l + 4) stream) (acc ++ [take l (drop 4 stream)])
    else Ok (acc, stream)
  end.

(* RecordIter::next: None = end of iteration *)
Definition next_record (stream : bytes) : option (outcome (rec_item * bytes)) :=
  if len stream <? 4 then
    (if is_nil stream then None else Some (Err E_EOS))
  else
    let t := u16_at stream 0 in
    let l := u16_at stream 2 in
    if len stream <? l + 4 then Some (Err E_EOS) else
    let d := take l (drop 4 stream) in
    let next := drop (l + 4) stream in
    if (4 <? len next) && (u16_at next 0 =? 60) then
      Some (do r <- take_conts (S (length next)) next [];
            let '(cs, rest) := r in Ok ((t, d, Some cs), rest))
    else Some (Ok ((t, d, None), next)).

(* the records of a stream up to and including the first error (the Rust iterator would repeat
   that error for ever; every caller stops at it) *)
Fixpoint records_fuel (fuel : nat) (stream : bytes) : list (outcome rec_item) :=
  match fuel with
  | O => [OutOfFuel]
  | S f =>
    match next_record stream with
    | None => []
    | Some (Ok (r, rest)) => Ok r :: records_fuel f rest
    | Some (Err e) => [Err e]
    | Some Panic => [Panic]
    | Some OutOfFuel => [OutOfFuel]
    end
  end.
Definition records (stream : bytes) : list (outcome rec_item) :=
  records_fuel (S (length stream)) stream.

(** ** the string-carrying part of Xls::parse_workbook (reduced)

   What decides sheet names and text cells is modelled: BoundSheet8, SST, FilePass, BOF and
   CodePage in the globals; LABELSST, LABEL, FORMULA (position only) and STRING in a sheet
   substream.  The arms that cannot change a string and fail only on a short record are modelled
   by that check (globals: Date1904, Format, XF, ExternSheet, RRTabId; sheet: Dimensions), so that
   real workbooks whose cells are all text (tests/sheet_name_parsing.xls) are inside the model.
   The remaining record kinds whose handling could fail or matter (Lbl; Number, BoolErr, RK, MulRk,
   MergeCells, a FORMULA other than the generators' stub) make the model answer
   [Err E_UNMODELLED]; the generators never emit them, and the check lists the repository fixtures
   that hit them by name.  A BOF that is not BIFF8 is E_UNMODELLED too (BIFF5 byte strings under a
   code page are outside C12). *)
Definition wb_result := (list (N * list N) * list (list N))%type.   (* sheets (pos, name), strings *)

Fixpoint wb_globals (recs : list (outcome rec_item)) (sheets : list (N * list N))
         (strings : list (list N)) : outcome wb_result :=
  match recs with
  | [] => Ok (sheets, strings)
  | Err e :: _ => Err e
  | Panic :: _ => Panic
  | OutOfFuel :: _ => OutOfFuel
  | Ok (t, d, c) :: rest =>
    if t =? 47 then Err E_PASSWORD                               (* 0x002F FilePass *)
    else if t =? 66 then                                         (* 0x0042 CodePage *)
      (* `if force_codepage.is_none() && !matches!(biff, Biff::Biff8) { encoding = .. }`: biff is
         Biff8 here (its initial value; a BOF of another version has answered E_UNMODELLED), so
         the record is length-checked and otherwise without effect, whatever its value *)
      if len d <? 2 then Err E_LEN else wb_globals rest sheets strings
    else if t =? 2057 then                                       (* 0x0809 BOF *)
      if len d <? 2 then Err E_LEN else                          (* parse_bof *)
      do v <- read_u16 (take 2 d);
      if v =? 1536 then wb_globals rest sheets strings else Err E_UNMODELLED
    else if t =? 133 then                                        (* 0x0085 BoundSheet8 *)
      do m <- parse_sheet_metadata d;
      wb_globals rest (sheets ++ [m]) strings
    else if t =? 252 then                                        (* 0x00FC SST *)
      do s <- parse_sst (d, conts_of c);
      wb_globals rest sheets s
    else if t =? 10 then Ok (sheets, strings)                    (* 0x000A EOF *)
    else if t =? 34 then                                         (* 0x0022 Date1904 *)
      if len d <? 2 then Err E_LEN else wb_globals rest sheets strings
    else if t =? 1054 then                                       (* 0x041E Format: parse_format *)
      if len d <? 5 then Err E_LEN else wb_globals rest sheets strings
    else if t =? 224 then                                        (* 0x00E0 XF: parse_xf *)
      if len d <? 4 then Err E_LEN else wb_globals rest sheets strings
    else if t =? 23 then                                         (* 0x0017 ExternSheet *)
      if len d <? 2 then Err E_LEN else wb_globals rest sheets strings
    else if t =? 24 then Err E_UNMODELLED                        (* 0x0018 Lbl: C16 / C14 *)
    (* 0x013D RRTabId only reserves; 0x00EB MsoDrawingGroup is an arm of the `picture` feature
       only (the harness builds without it) and cannot fail with it *)
    else wb_globals rest sheets strings
  end.

(* the fixed FORMULA body tail the generators use: cached value "string follows"
   (bytes 6..14 = 00 .. .. .. .. .. FF FF) and rgce = PtgInt 1 *)
Definition formula_is_string_stub (d : bytes) : bool :=
  (nth 6 d 1 =? 0) && (nth 12 d 0 =? 255) && (nth 13 d 0 =? 255) &&
  (match drop 20 d with [3; 0; 30; 1; 0] => true | _ => false end).

(* the 0x0207 (String) arm of the sheet loop: `if r.cont.is_some() && biff8 && r.data.len() >= 3`
   the cch characters are read through read_dbcs (every CONTINUE record starts with its own
   fHighByte byte); otherwise parse_string on the record's own bytes.  `c` is Record::cont as
   RecordIter hands it over: None when no CONTINUE record follows. *)
Definition string_arm (d : bytes) (c : option (list bytes)) : outcome (list N) :=
  match c with
  | Some conts =>
    if len d <? 3 then parse_string d else
    do cch <- read_u16 d;
    let hb := N.odd (nth 2 d 0) in                 (* r.data[2] & 0x1 != 0 *)
    do r <- read_dbcs (drop 3 d, conts) cch hb;    (* r.data = &r.data[3..] *)
    Ok (fst r)
  | None => parse_string d
  end.

(* [depth] = substreams open at the record (`let mut depth = 0usize`, fix of audit-2 finding XLS-2):
   the sheet's own BOF makes it 1; a BOF nested in the sheet (the chart of an embedded chart object,
   [MS-XLS] 2.1.7.20.5 OBJECTS) makes it 2 and more: there an EOF closes one substream and every
   other record is skipped; only an EOF at depth <= 1 ends the sheet.
     match r.typ { 0x0809 => { depth += 1; continue }
                   0x000A if depth > 1 => { depth -= 1; continue }
                   _ if depth > 1 => continue,  _ => () } *)
Fixpoint wb_sheet (recs : list (outcome rec_item)) (strings : list (list N)) (fmla_pos : N * N)
         (cells : list scell) (depth : N) : outcome (list scell) :=
  match recs with
  | [] => Ok cells
  | Err e :: _ => Err e
  | Panic :: _ => Panic
  | OutOfFuel :: _ => OutOfFuel
  | Ok (t, d, c) :: rest =>
    if t =? 2057 then wb_sheet rest strings fmla_pos cells (depth + 1)   (* 0x0809 BOF *)
    else if 1 <? depth then
      wb_sheet rest strings fmla_pos cells (if t =? 10 then depth - 1 else depth)
    else if t =? 253 then                                             (* 0x00FD LabelSst *)
      do c <- parse_label_sst d strings;
      wb_sheet rest strings fmla_pos (cells ++ match c with Some x => [x] | None => [] end) depth
    else if t =? 516 then                                        (* 0x0204 Label *)
      do c <- parse_label d;
      wb_sheet rest strings fmla_pos (cells ++ match c with Some x => [x] | None => [] end) depth
    else if t =? 519 then                                        (* 0x0207 String *)
      do s <- string_arm d c;
      wb_sheet rest strings fmla_pos (cells ++ [(fst fmla_pos, snd fmla_pos, s)]) depth
    else if t =? 6 then                                          (* 0x0006 Formula *)
      if len d <? 20 then Err E_LEN else
      if formula_is_string_stub d then
        do row <- read_u16 d; do col <- read_u16 (drop 2 d);
        wb_sheet rest strings (row, col) cells depth
      else Err E_UNMODELLED
    else if t =? 10 then Ok cells                                (* 0x000A EOF *)
    else if t =? 512 then                                        (* 0x0200 Dimensions *)
      (* parse_dimensions: 10 or 14 bytes, else XlsError::Len; the result only sizes a capped
         reservation *)
      if (len d =? 10) || (len d =? 14) then wb_sheet rest strings fmla_pos cells depth else Err E_LEN
    else if (t =? 515) || (t =? 517) || (t =? 638) || (t =? 189) || (t =? 229)
    then Err E_UNMODELLED        (* Number, BoolErr, RK, MulRk, MergeCells *)
    else wb_sheet rest strings fmla_pos cells depth
  end.

(* the second loop of parse_workbook: one pass per BoundSheet8 entry, from its stream position *)
Fixpoint wb_sheets (stream : bytes) (strings : list (list N)) (l : list (N * list N))
  : outcome (list (list N * list scell)) :=
  match l with
  | [] => Ok []
  | (pos, name) :: l' =>
    do sh <- get_from stream pos;                                (* stream.get(pos..).ok_or(EoStream) *)
    do cells <- wb_sheet (records sh) strings (0, 0) [] 0;
    do tl <- wb_sheets stream strings l';
    Ok ((name, cells) :: tl)
  end.
(* sheet names in file order and, per sheet, its text cells in record order *)
Definition wb_strings (stream : bytes) : outcome (list (list N * list scell)) :=
  do g <- wb_globals (records stream) [] [];
  let '(sheets, strings) := g in
  wb_sheets stream strings sheets.

(* ------------------------------------------------------------------------------------- *)
(** * Part 2 — specification                                                              *)
(* ------------------------------------------------------------------------------------- *)

(* A string is the sequence of UTF-16 code units the writer stored. *)
Definition ustring := list N.
Definition units (s : ustring) : list N := s.

(* UTF-16 decoding of a whole string; an unpaired surrogate reads as U+FFFD *)
Fixpoint utf16_decode (us : list N) : list N :=
  match us with
  | [] => []
  | u :: rest =>
    if is_high u then
      match rest with
      | v :: rest' => if is_low v then pair_scalar u v :: utf16_decode rest'
                      else FFFD :: utf16_decode rest
      | [] => [FFFD]
      end
    else if is_low u then FFFD :: utf16_decode rest
    else u :: utf16_decode rest
  end.

(* ------------------------------------------------------------------------------------- *)
(** * Part 3 — the writer                                                                 *)
(* ------------------------------------------------------------------------------------- *)

Definition le16 (u : N) : bytes := [u mod 256; u / 256].
Definition le32 (u : N) : bytes :=
  [u mod 256; (u / 256) mod 256; (u / 65536) mod 256; u / 16777216].
Definition b2n (b : bool) : N := if b then 1 else 0.

(* character data of one segment: 16-bit little endian, or one byte per character *)
Definition seg_bytes (hb : bool) (us : list N) : bytes :=
  if hb then flat_map le16 us else us.

(* what the writer emits: bytes, and the places where it closes the current record and opens a
   CONTINUE record *)
Inductive item := B (bs : bytes) | C.

(* the record bodies: first fragment (body of the SST record) and the CONTINUE bodies *)
Fixpoint frags (its : list item) : rstate :=
  match its with
  | [] => ([], [])
  | B bs :: r => let f := frags r in (bs ++ fst f, snd f)
  | C :: r => let f := frags r in ([], fst f :: snd f)
  end.

(* layout of one string *)
Record str_layout := mkSL {
  sl_cut_before : bool;              (* the string starts a new CONTINUE record *)
  sl_hb0 : bool;                     (* fHighByte of the first character segment *)
  sl_cuts : list (nat * bool);       (* per cut inside the character data: number of characters in
                                        the segment that ends there, fHighByte of the next segment *)
  sl_runs : option (list (N * N));   (* fRichSt: the formatting runs (ich, ifnt) *)
  sl_ext : option bytes;             (* fExtSt: the ExtRst block *)
  sl_tail_cuts : list nat            (* per cut inside rgRun ++ ExtRst: bytes before the cut,
                                        counted from the previous cut *)
}.
Record layout := mkLay { lay_total : N; lay_strs : list str_layout }.

Definition runs_bytes (r : option (list (N * N))) : bytes :=
  match r with Some l => flat_map (fun p => le16 (fst p) ++ le16 (snd p)) l | None => [] end.
Definition ext_bytes (e : option bytes) : bytes := match e with Some l => l | None => [] end.
Definition is_some {A} (o : option A) : bool := match o with Some _ => true | None => false end.

(* XLUnicodeRichExtendedString header: cch, flags (fHighByte | fExtSt<<2 | fRichSt<<3), cRun, cbExtRst *)
Definition str_header (us : list N) (sl : str_layout) : bytes :=
  le16 (len us)
  ++ [b2n (sl_hb0 sl) + 4 * b2n (is_some (sl_ext sl)) + 8 * b2n (is_some (sl_runs sl))]
  ++ match sl_runs sl with Some l => le16 (len l) | None => [] end
  ++ match sl_ext sl with Some l => le32 (len l) | None => [] end.

(* character data: a cut closes the record; the next one starts with the flag byte *)
Fixpoint char_items (us : list N) (hb : bool) (cuts : list (nat * bool)) : list item :=
  match cuts with
  | [] => [B (seg_bytes hb us)]
  | (n, hb') :: cs =>
    B (seg_bytes hb (firstn n us)) :: C :: B [b2n hb'] :: char_items (skipn n us) hb' cs
  end.
(* rgRun and ExtRst: a cut closes the record; nothing is inserted *)
Fixpoint chunk_items (bs : bytes) (cuts : list nat) : list item :=
  match cuts with
  | [] => [B bs]
  | n :: cs => B (firstn n bs) :: C :: chunk_items (skipn n bs) cs
  end.

Definition tail_bytes (sl : str_layout) : bytes := runs_bytes (sl_runs sl) ++ ext_bytes (sl_ext sl).

Definition string_items (us : ustring) (sl : str_layout) : list item :=
  (if sl_cut_before sl then [C] else [])
  ++ B (str_header us sl)
  :: char_items (units us) (sl_hb0 sl) (sl_cuts sl)
  ++ chunk_items (tail_bytes sl) (sl_tail_cuts sl).

Definition sst_items (strs : list ustring) (lay : layout) : list item :=
  B (le32 (lay_total lay) ++ le32 (len strs))
  :: flat_map (fun p => string_items (fst p) (snd p)) (combine strs (lay_strs lay)).

(* body of the SST record and bodies of the CONTINUE records that follow it *)
Definition sst_encode (strs : list ustring) (lay : layout) : rstate :=
  frags (sst_items strs lay).

(* a formula's string result: the STRING record holds the XLUnicodeString header (cch of the whole
   string, fHighByte of its first segment) and the first segment; every cut inside the character
   data closes the record and opens a CONTINUE record that starts with its own fHighByte byte
   ([MS-XLS] 2.1.7.20.5 Formula ... [String *Continue]).  Same cut language as the character data
   of an SST string (char_items). *)
Definition fstring_items (us : ustring) (hb : bool) (cuts : list (nat * bool)) : list item :=
  B (le16 (len us) ++ [b2n hb]) :: char_items (units us) hb cuts.
(* body of the STRING record and bodies of the CONTINUE records that follow it *)
Definition fstring_encode (us : ustring) (hb : bool) (cuts : list (nat * bool)) : rstate :=
  frags (fstring_items us hb cuts).
(* Record::cont as RecordIter builds it: None unless at least one CONTINUE record follows *)
Definition cont_opt (cs : list bytes) : option (list bytes) :=
  match cs with [] => None | _ => Some cs end.

(* XLUnicodeString (LABEL, STRING) and ShortXLUnicodeString (BoundSheet8) *)
Definition xl_string (hb : bool) (us : list N) : bytes :=
  le16 (len us) ++ [b2n hb] ++ seg_bytes hb us.
Definition short_xl_string (hb : bool) (us : list N) : bytes :=
  [len us; b2n hb] ++ seg_bytes hb us.
Definition label_body (row col ixfe : N) (hb : bool) (us : list N) : bytes :=
  le16 row ++ le16 col ++ le16 ixfe ++ xl_string hb us.
Definition labelsst_body (row col ixfe isst : N) : bytes :=
  le16 row ++ le16 col ++ le16 ixfe ++ le32 isst.
Definition boundsheet_body (pos vis typ : N) (hb : bool) (us : list N) : bytes :=
  le32 pos ++ [vis; typ] ++ short_xl_string hb us.

(* record framing *)
Definition frame (t : N) (body : bytes) : bytes := le16 t ++ le16 (len body) ++ body.
Definition frame_sst (st : rstate) : bytes :=
  frame 252 (fst st) ++ flat_map (frame 60) (snd st).
(* any record followed by its CONTINUE records *)
Definition frame_rec (t : N) (st : rstate) : bytes :=
  frame t (fst st) ++ flat_map (frame 60) (snd st).

(* a whole Workbook stream: globals (BOF, [CodePage], one BoundSheet8 per sheet, SST + CONTINUEs,
   EOF) followed by one substream per sheet (BOF, text cells, EOF).
   The CodePage record ([MS-XLS] 2.4.52) is a choice of the writer: any 16-bit value (Excel writes
   1200 into BIFF8 files, JExcelApi 1252, localised writers 932 / 936 / 949 / 950 / 125x, some
   65001; values no decoder table knows are just as legal) or no record at all (None). *)
Definition codepage_rec (cp : option N) : bytes :=
  match cp with Some v => frame 66 (le16 v) | None => [] end.
Definition legal_codepage (cp : option N) : bool :=
  match cp with Some v => v <? 65536 | None => true end.
Inductive cell_spec :=
| CSst (row col isst : N)                          (* LABELSST *)
| CLabel (row col : N) (hb : bool) (us : list N)   (* LABEL *)
| CFString (row col : N) (hb : bool) (us : list N) (cuts : list (nat * bool))
    (* FORMULA with a string result + STRING [+ one CONTINUE per cut]; hb = packing of the first
       segment, cuts = (characters in the segment that ends there, packing of the next one) *).
Record sheet_spec := mkSheet { sh_hb : bool; sh_name : list N; sh_cells : list cell_spec }.

Definition bof_body (dt : N) : bytes :=
  le16 1536 ++ le16 dt ++ le16 3515 ++ le16 1996 ++ le32 0 ++ le32 774.
(* FORMULA: cell, cached value "a string follows", options, chn, cce = 3, rgce = PtgInt 1 *)
Definition formula_stub_body (row col ixfe : N) : bytes :=
  le16 row ++ le16 col ++ le16 ixfe ++ [0; 0; 0; 0; 0; 0; 255; 255] ++ le16 0 ++ le32 0
  ++ [3; 0; 30; 1; 0].
Definition cell_records (c : cell_spec) : bytes :=
  match c with
  | CSst r c i => frame 253 (labelsst_body r c 15 i)
  | CLabel r c hb us => frame 516 (label_body r c 15 hb us)
  | CFString r c hb us cuts =>
    frame 6 (formula_stub_body r c 15) ++ frame_rec 519 (fstring_encode us hb cuts)
  end.
Definition sheet_stream (sh : sheet_spec) : bytes :=
  frame 2057 (bof_body 16) ++ flat_map cell_records (sh_cells sh) ++ frame 10 [].
Fixpoint boundsheets (pos : N) (shs : list sheet_spec) : bytes :=
  match shs with
  | [] => []
  | sh :: r =>
    frame 133 (boundsheet_body pos 0 0 (sh_hb sh) (sh_name sh))
    ++ boundsheets (pos + len (sheet_stream sh)) r
  end.
Definition globals_stream (cp : option N) (pos0 : N) (strs : list ustring) (lay : layout)
           (shs : list sheet_spec) : bytes :=
  frame 2057 (bof_body 5) ++ codepage_rec cp ++ boundsheets pos0 shs
  ++ frame_sst (sst_encode strs lay) ++ frame 10 [].
Definition workbook_stream (cp : option N) (strs : list ustring) (lay : layout)
           (shs : list sheet_spec) : bytes :=
  globals_stream cp (len (globals_stream cp 0 strs lay shs)) strs lay shs
  ++ flat_map sheet_stream shs.

(* what the workbook says: per sheet its name (NULs removed) and its text cells *)
Definition cell_text (tbl : list (list N)) (c : cell_spec) : list scell :=
  match c with
  | CSst r c i =>
    match nth_error tbl (N.to_nat i) with
    | Some s => if is_nil s then [] else [(r, c, s)]
    | None => []
    end
  | CLabel r c _ us => [(r, c, utf16_decode us)]
  | CFString r c _ us _ => [(r, c, utf16_decode us)]
  end.
Definition wb_spec (strs : list ustring) (shs : list sheet_spec) : list (list N * list scell) :=
  map (fun sh => (filter (fun c => negb (c =? 0)) (utf16_decode (sh_name sh)),
                  flat_map (cell_text (map utf16_decode strs)) (sh_cells sh))) shs.

(* ------------------------------------------------------------------------------------- *)
(** * Part 4 — legal layouts                                                              *)
(* ------------------------------------------------------------------------------------- *)

Definition all_lt (b : N) (l : list N) : bool := forallb (fun x => x <? b) l.
Definition seg_ok (hb : bool) (us : list N) : bool := hb || all_lt 256 us.

(* every cut leaves at least one character for the segments after it; 8-bit packing only for
   segments whose code units all fit a byte *)
Fixpoint cuts_legal (us : list N) (hb : bool) (cuts : list (nat * bool)) : bool :=
  match cuts with
  | [] => seg_ok hb us
  | (n, hb') :: cs =>
    (n <? length us)%nat && seg_ok hb (firstn n us) && cuts_legal (skipn n us) hb' cs
  end.
(* every cut inside rgRun/ExtRst leaves at least one byte after it *)
Fixpoint tail_cuts_legal (bs : bytes) (cuts : list nat) : bool :=
  match cuts with
  | [] => true
  | n :: cs => (n <? length bs)%nat && tail_cuts_legal (skipn n bs) cs
  end.

Definition legal_string (us : ustring) (sl : str_layout) : bool :=
  (len us <=? 65535) && all_lt 65536 us
  && cuts_legal us (sl_hb0 sl) (sl_cuts sl)
  && match sl_runs sl with
     | Some l => (len l <=? 65535) && forallb (fun p => (fst p <? 65536) && (snd p <? 65536)) l
     | None => true
     end
  && match sl_ext sl with
     | Some l => (len l <=? 2147483647) && all_lt 256 l
     | None => true
     end
  && tail_cuts_legal (tail_bytes sl) (sl_tail_cuts sl).

Definition legal_layout (strs : list ustring) (lay : layout) : bool :=
  (length strs =? length (lay_strs lay))%nat
  && (len strs <=? 2147483647) && (lay_total lay <=? 4294967295)
  && forallb (fun p => legal_string (fst p) (snd p)) (combine strs (lay_strs lay)).

(* No class of (string table, layout) is known on which the code does not return the stored text.
   (Until the fix that gave read_dbcs one decoder per string, a cut between the two halves of a
   surrogate pair — ends_high a && starts_low b for the segments a, b around it — read as two
   U+FFFD: class CutInsidePair, finding F24.) *)
Definition ends_high (us : list N) : bool := is_high (last us 0).
Definition starts_low (us : list N) : bool := match us with u :: _ => is_low u | [] => false end.

(* XLUnicodeString / ShortXLUnicodeString: one segment, never split *)
Definition legal_xl_string (hb : bool) (us : list N) : bool :=
  (len us <=? 65535) && all_lt 65536 us && seg_ok hb us.
Definition legal_short_string (hb : bool) (us : list N) : bool :=
  (len us <=? 255) && all_lt 65536 us && seg_ok hb us.

(* a formula's string result over STRING + CONTINUE records: any cuts (each leaving at least one
   character after it; empty segments allowed), any packing per segment that can hold its units *)
Definition legal_fstring (us : ustring) (hb : bool) (cuts : list (nat * bool)) : bool :=
  (len us <=? 65535) && all_lt 65536 us && cuts_legal us hb cuts.

(* every CONTINUE body and the SST body fit a record (MS-XLS: at most 8224 bytes) *)
Definition fits_records (st : rstate) : bool :=
  (len (fst st) <=? 8224) && forallb (fun c => len c <=? 8224) (snd st).

(* a workbook whose records all fit the 16-bit length field and whose stream positions fit 32 bits *)
Definition legal_cell (c : cell_spec) : bool :=
  match c with
  | CSst r c i => i <=? 4294967295
  | CLabel r c hb us => legal_xl_string hb us && (len (label_body r c 15 hb us) <=? 65535)
  | CFString r c hb us cuts =>
    legal_fstring us hb cuts
    && (len (fst (fstring_encode us hb cuts)) <=? 65535)
    && forallb (fun c => len c <=? 65535) (snd (fstring_encode us hb cuts))
  end.
Definition legal_sheet (sh : sheet_spec) : bool :=
  legal_short_string (sh_hb sh) (sh_name sh) && forallb legal_cell (sh_cells sh).
Definition legal_workbook (cp : option N) (strs : list ustring) (lay : layout)
           (shs : list sheet_spec) : bool :=
  legal_layout strs lay
  && (len (fst (sst_encode strs lay)) <=? 65535)
  && forallb (fun c => len c <=? 65535) (snd (sst_encode strs lay))
  && forallb legal_sheet shs
  && (len (workbook_stream cp strs lay shs) <=? 4294967295)
  && legal_codepage cp.
