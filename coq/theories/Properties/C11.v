(* Property C11 — serial date-times convert to the right calendar date, time and duration.
   Only property theorems (closed by [exact]), [Check] pins of the main statements, non-vacuity
   examples and [Print Assumptions].  Models: F64.v (binary64 on Flocq), Civil.v (calendar),
   Serial.v (src/datatype.rs + the chrono functions it calls); proofs: *_proofs.v.
   Expected assumptions: none for the calendar theorems; for everything that mentions doubles the
   four classical axioms that Flocq's real numbers bring in (sig_not_dec, sig_forall_dec,
   functional_extensionality_dep, classic). *)
From Calamine Require Import Prelude F64 F64_proofs Civil Civil_proofs Serial Serial_proofs.
From Coq Require Import Reals.
From Flocq Require Import Core.Core.
Open Scope Z_scope.

(* ---------- the calendar (specification side): unbounded in the year ---------- *)
Theorem C11_civil_bijection :
  (forall z, let '(y, m, d) := civil_of_days z in
             days_of_civil y m d = z /\ valid_date y m d = true) /\
  (forall y m d, valid_date y m d = true -> civil_of_days (days_of_civil y m d) = (y, m, d)).
Proof. exact (conj days_of_civil_of_days civil_of_days_of_civil). Qed.

(* … and it is the Gregorian calendar: day 0 is 1970-01-01 and z + 1 is the next date *)
Theorem C11_civil_is_the_calendar :
  civil_of_days 0 = (1970, 1, 1) /\
  forall z, civil_of_days (z + 1) = next_date (civil_of_days z).
Proof. exact (conj civil_of_days_anchor civil_of_days_succ). Qed.

(* ---------- no panic: every double, hence every 64-bit pattern incl. NaN and infinities ------- *)
Theorem C11_no_panic :
  (forall x : excel_dt,
     (exists r, edt_as_datetime x = Ok r) /\ (exists r, edt_as_duration x = Ok r)) /\
  (forall c : cell,
     (exists r, data_as_datetime c = Ok r) /\ (exists r, data_as_date c = Ok r) /\
     (exists r, data_as_time c = Ok r) /\ (exists r, data_as_duration c = Ok r)).
Proof. exact (conj edt_no_panic data_no_panic). Qed.

Corollary C11_no_panic_bits : forall bits ty sys,
  edt_as_datetime {| edt_value := f64_of_bits bits; edt_is_duration := ty; edt_is_1904 := sys |}
    <> Panic /\
  edt_as_duration {| edt_value := f64_of_bits bits; edt_is_duration := ty; edt_is_1904 := sys |}
    <> Panic.
Proof. exact no_panic_bits. Qed.

(* ---------- whole serials: the spreadsheet convention, both date systems ---------- *)
(* [int_val v d]: v is a finite double whose value is the integer d (so v = d as f64, or -0.0) *)
Theorem C11_whole_serials : forall v ty sys d,
  int_val v d -> 0 <= d <= 2958465 -> known_C11 v sys = None ->
  edt_as_datetime {| edt_value := v; edt_is_duration := ty; edt_is_1904 := sys |} =
  Ok (Some (at_midnight (spec_days sys d))).
Proof. exact whole_serials. Qed.

Theorem C11_serial_1900_anchors : forall v ty d, int_val v d ->
  let r := edt_as_datetime {| edt_value := v; edt_is_duration := ty; edt_is_1904 := false |} in
  (d = 1 -> r = Ok (Some (at_midnight (days_of_civil 1900 1 1)))) /\
  (1 <= d <= 59 -> r = Ok (Some (at_midnight (days_of_civil 1899 12 31 + d)))) /\
  (d = 61 -> r = Ok (Some (at_midnight (days_of_civil 1900 3 1)))) /\
  (61 <= d <= 2958465 -> r = Ok (Some (at_midnight (days_of_civil 1900 3 1 + (d - 61))))).
Proof. exact serial_1900_anchors. Qed.

Theorem C11_serial_1904 : forall v ty d, int_val v d -> 0 <= d <= 2958465 ->
  edt_as_datetime {| edt_value := v; edt_is_duration := ty; edt_is_1904 := true |} =
  Ok (Some (at_midnight (days_of_civil 1904 1 1 + d))).
Proof. exact serial_1904. Qed.

Theorem C11_anchor_dates :
  civil_of_days (days_of_civil 1900 1 1) = (1900, 1, 1) /\
  civil_of_days (days_of_civil 1899 12 31 + 59) = (1900, 2, 28) /\
  civil_of_days (days_of_civil 1900 3 1) = (1900, 3, 1) /\
  civil_of_days (days_of_civil 1900 3 1 + (2958465 - 61)) = (9999, 12, 31) /\
  civil_of_days (days_of_civil 1904 1 1) = (1904, 1, 1) /\
  civil_of_days EXCEL_EPOCH_DAYS = (1899, 12, 30).
Proof. exact anchor_dates. Qed.

(* the float product serial x 86 400 000 is exact on whole serials (|d| <= 104 249 991, beyond 2^26) *)
Theorem C11_whole_day_exact : forall v d, int_val v d -> Z.abs d <= 104249991 ->
  int_val (f64_mul v MS_MULTIPLIER) (d * 86400000).
Proof. exact whole_day_exact. Qed.

(* the same with the calendar limit made explicit: exact as far as 8 million days past either end
   of chrono's calendar *)
Theorem C11_whole_day_datetime : forall v ty sys d, int_val v d -> Z.abs d <= WHOLE_DAY_BOUND ->
  edt_as_datetime {| edt_value := v; edt_is_duration := ty; edt_is_1904 := sys |} =
  Ok (let days := EXCEL_EPOCH_DAYS + shim (d + offset_1904 sys) in
      if (days <? MIN_DATE_DAYS) || (MAX_DATE_DAYS <? days) then None
      else Some (at_midnight days)).
Proof. exact whole_day_datetime_gen. Qed.

(* ---------- as_date / as_time are the components of as_datetime; plain cells ---------- *)
Theorem C11_date_time_components : forall c, exists r,
  data_as_datetime c = Ok r /\
  data_as_date c = Ok (option_map dt_days r) /\ data_as_time c = Ok (option_map dt_time r).
Proof. exact date_time_components. Qed.

Theorem C11_plain_cells_are_1900 :
  (forall f ty, data_as_datetime (CFloat f) =
     data_as_datetime (CDateTime {| edt_value := f; edt_is_duration := ty; edt_is_1904 := false |})) /\
  (forall i, data_as_datetime (CInt i) = data_as_datetime (CFloat (f64_of_Z i))) /\
  (forall i, Z.abs i <= 2 ^ 53 -> int_val (f64_of_Z i) i) /\
  (forall f, data_as_duration (CFloat f) = Ok None) /\
  (forall i, data_as_duration (CInt i) = Ok None) /\
  (forall x, data_as_duration (CDateTime x) = edt_as_duration x).
Proof. exact plain_cells_are_1900. Qed.

(* ---------- what a Some result is: epoch + the rounded millisecond count, in range ---------- *)
Theorem C11_datetime_some_sound : forall v ty sys r,
  edt_as_datetime {| edt_value := v; edt_is_duration := ty; edt_is_1904 := sys |} = Ok (Some r) ->
  f64_is_finite v = true /\
  dt_millis r = EXCEL_EPOCH_DAYS * MS_PER_DAY + ms_real (B2R64 v) sys /\
  MIN_DATE_DAYS <= dt_days r <= MAX_DATE_DAYS /\
  0 <= fst (dt_time r) < 86400 /\ 0 <= snd (dt_time r) < 1000000000 /\
  snd (dt_time r) mod 1000000 = 0.
Proof. exact datetime_some_sound. Qed.

(* fractional part: nearest millisecond (ties away) of the shifted serial x 86 400 000, up to the
   2^-6 ms error of the one float multiplication (span: products below 2^48 ms = 3.2 million days) *)
Theorem C11_ms_rounding : forall v ty sys r,
  edt_as_datetime {| edt_value := v; edt_is_duration := ty; edt_is_1904 := sys |} = Ok (Some r) ->
  (Rabs (shifted_real (B2R64 v) sys * 86400000) < bpow radix2 48)%R ->
  (Rabs (IZR (dt_millis r - EXCEL_EPOCH_DAYS * MS_PER_DAY)
         - shifted_real (B2R64 v) sys * 86400000) <= /2 + bpow radix2 (-6))%R.
Proof. exact ms_rounding. Qed.

(* ---------- monotone outside the known class ---------- *)
Theorem C11_serial_monotone : forall a b ty1 ty2 sys ra rb,
  f64_le a b = true -> known_C11 b sys = None ->
  edt_as_datetime {| edt_value := a; edt_is_duration := ty1; edt_is_1904 := sys |} = Ok (Some ra) ->
  edt_as_datetime {| edt_value := b; edt_is_duration := ty2; edt_is_1904 := sys |} = Ok (Some rb) ->
  dt_le ra rb.
Proof. exact serial_monotone. Qed.

(* … and inside it the conversion really is not monotone (finding F16): 59.5 <= 60.0 but
   59.5 -> 1900-02-28T12:00 and 60.0 -> 1900-02-28T00:00 *)
Theorem C11_refuted_fictitious_leap_day :
  exists a b ra rb,
    f64_le a b = true /\ known_C11 b false = Some FICTITIOUS_LEAP_DAY /\
    edt_as_datetime (from_value_only a) = Ok (Some ra) /\
    edt_as_datetime (from_value_only b) = Ok (Some rb) /\
    ~ dt_le ra rb.
Proof. exact refuted_fictitious_leap_day. Qed.

Theorem C11_serial_60_is_feb_28 : forall v ty, int_val v 60 ->
  edt_as_datetime {| edt_value := v; edt_is_duration := ty; edt_is_1904 := false |} =
  Ok (Some (at_midnight (days_of_civil 1900 2 28))).
Proof. exact serial_60_is_feb_28. Qed.

(* ---------- durations ---------- *)
Theorem C11_duration_is_serial_times_24h : forall v ty sys r,
  edt_as_duration {| edt_value := v; edt_is_duration := ty; edt_is_1904 := sys |} = Ok (Some r) ->
  let n := ZnearestA (rnd64 (B2R64 v * 86400000)) in
  f64_is_finite v = true /\ r = td_of_ms n /\ td_num_milliseconds r = n /\ Z.abs n < 2 ^ 63 /\
  ((Rabs (B2R64 v * 86400000) < bpow radix2 48)%R ->
   (Rabs (IZR n - B2R64 v * 86400000) <= /2 + bpow radix2 (-6))%R).
Proof. exact duration_is_serial_times_24h. Qed.

Theorem C11_whole_day_duration : forall v ty sys d, int_val v d -> Z.abs d <= 104249991 ->
  edt_as_duration {| edt_value := v; edt_is_duration := ty; edt_is_1904 := sys |} =
  Ok (Some (d * 86400, 0)).
Proof. exact whole_day_duration. Qed.

Theorem C11_duration_monotone : forall a b ty1 ty2 s1 s2 ra rb,
  f64_le a b = true ->
  edt_as_duration {| edt_value := a; edt_is_duration := ty1; edt_is_1904 := s1 |} = Ok (Some ra) ->
  edt_as_duration {| edt_value := b; edt_is_duration := ty2; edt_is_1904 := s2 |} = Ok (Some rb) ->
  td_num_milliseconds ra <= td_num_milliseconds rb.
Proof. exact duration_monotone. Qed.

(* ---------- beyond the representable calendar: None, never a wrong date ---------- *)
Theorem C11_beyond_calendar_none : forall v ty sys,
  f64_is_finite v = true ->
  (let days := EXCEL_EPOCH_DAYS + ms_real (B2R64 v) sys / MS_PER_DAY in
   days < MIN_DATE_DAYS \/ MAX_DATE_DAYS < days) ->
  edt_as_datetime {| edt_value := v; edt_is_duration := ty; edt_is_1904 := sys |} = Ok None.
Proof. exact beyond_calendar_none. Qed.

Theorem C11_beyond_calendar_whole : forall v ty sys d, int_val v d -> Z.abs d <= WHOLE_DAY_BOUND ->
  (MAX_DATE_DAYS < EXCEL_EPOCH_DAYS + d + offset_1904 sys \/
   EXCEL_EPOCH_DAYS + d + offset_1904 sys + 1 < MIN_DATE_DAYS) ->
  edt_as_datetime {| edt_value := v; edt_is_duration := ty; edt_is_1904 := sys |} = Ok None.
Proof. exact beyond_calendar_whole. Qed.

Theorem C11_nonfinite_none : forall v ty sys, f64_is_finite v = false ->
  edt_as_datetime {| edt_value := v; edt_is_duration := ty; edt_is_1904 := sys |} = Ok None /\
  edt_as_duration {| edt_value := v; edt_is_duration := ty; edt_is_1904 := sys |} = Ok None.
Proof. exact nonfinite_none. Qed.

(* ---------- the serde helpers deserialize_as_{datetime,date,time,duration}_or_* ---------- *)
(* what the helpers see of calamine's own cell deserializer is the cell itself *)
Theorem C11_helper_cell_roundtrip : forall c, c <> CError -> de_roundtrip c = Ok c.
Proof. exact de_roundtrip_id. Qed.

(* a helper returns the cell's own conversion, for every cell: no known class is left
   (F34: 1904-system cells, F35: durations — both repaired) *)
Theorem C11_helpers_agree : forall c, c <> CError ->
  helper_as_datetime c = data_as_datetime c /\ helper_as_date c = data_as_date c /\
  helper_as_time c = data_as_time c /\ helper_as_duration c = data_as_duration c.
Proof. exact helpers_agree. Qed.

Theorem C11_helpers_datetime_cell : forall v ty sys,
  let x := {| edt_value := v; edt_is_duration := ty; edt_is_1904 := sys |} in
  helper_as_datetime (CDateTime x) = edt_as_datetime x /\
  helper_as_date (CDateTime x) = data_as_date (CDateTime x) /\
  helper_as_time (CDateTime x) = data_as_time (CDateTime x) /\
  helper_as_duration (CDateTime x) = edt_as_duration x.
Proof. exact helpers_datetime_cell. Qed.

Theorem C11_helpers_error_cell :
  helper_as_datetime CError = Err 1 /\ helper_as_date CError = Err 1 /\
  helper_as_time CError = Err 1 /\ helper_as_duration CError = Err 1.
Proof. exact helpers_error_cell. Qed.

Theorem C11_helpers_no_panic : forall c,
  helper_as_datetime c <> Panic /\ helper_as_date c <> Panic /\
  helper_as_time c <> Panic /\ helper_as_duration c <> Panic.
Proof. exact helpers_no_panic. Qed.

(* the former witnesses of F34 / F35: a 1904-system cell keeps its date system, a duration cell
   yields its duration *)
Theorem C11_helper_keeps_1904 :
  helper_as_datetime CELL_1904 =
    Ok (Some {| dt_days := days_of_civil 2027 3 16; dt_time := (43200, 0) |}) /\
  helper_as_datetime CELL_1904 = data_as_datetime CELL_1904.
Proof. exact helper_keeps_1904. Qed.

Theorem C11_helper_duration_some :
  helper_as_duration CELL_36H = Ok (Some (129600, 0)) /\
  helper_as_duration CELL_36H = data_as_duration CELL_36H.
Proof. exact helper_duration_some. Qed.

(* ---------- non-vacuity: concrete objects satisfy the hypotheses ---------- *)
Example C11_helpers_agree_nonvacuous :
  let c := CDateTime {| edt_value := V45000; edt_is_duration := false; edt_is_1904 := false |} in
  c <> CError /\
  helper_as_datetime c = Ok (Some (at_midnight (days_of_civil 2023 3 15))).
Proof. exact helpers_agree_nonvacuous. Qed.

Example C11_whole_serials_nonvacuous :
  int_val V45000 45000 /\ 0 <= 45000 <= 2958465 /\ known_C11 V45000 false = None /\
  known_C11 V45000 true = None /\
  edt_as_datetime (from_value_only V45000) = Ok (Some (at_midnight (days_of_civil 2023 3 15))) /\
  bits_of_f64 V45000 = 0x40E5F90000000000.
Proof. exact whole_serials_nonvacuous. Qed.

Example C11_serial_monotone_nonvacuous :
  let a := f64_of_bits 0x3FE0000000000000 in let b := f64_of_bits 0x3FF4000000000000 in
  f64_le a b = true /\ known_C11 b false = None /\
  edt_as_datetime (from_value_only a) =
    Ok (Some {| dt_days := days_of_civil 1899 12 31; dt_time := (43200, 0) |}) /\
  edt_as_datetime (from_value_only b) =
    Ok (Some {| dt_days := days_of_civil 1900 1 1; dt_time := (21600, 0) |}).
Proof. exact serial_monotone_nonvacuous. Qed.

Example C11_ms_rounding_nonvacuous :
  edt_as_datetime (from_value_only V45000) = Ok (Some (at_midnight (days_of_civil 2023 3 15))) /\
  (Rabs (shifted_real (B2R64 V45000) false * 86400000) < bpow radix2 48)%R.
Proof. exact ms_rounding_nonvacuous. Qed.

Example C11_beyond_calendar_nonvacuous :
  f64_is_finite V_BEYOND = true /\
  (let days := EXCEL_EPOCH_DAYS + ms_real (B2R64 V_BEYOND) false / MS_PER_DAY in
   days < MIN_DATE_DAYS \/ MAX_DATE_DAYS < days) /\
  civil_of_days (MAX_DATE_DAYS + 1) = (262143, 1, 1) /\
  edt_as_datetime (from_value_only (f64_of_Z 95051805)) = Ok (Some (at_midnight MAX_DATE_DAYS)).
Proof. exact beyond_calendar_nonvacuous. Qed.

Example C11_duration_nonvacuous :
  edt_as_duration {| edt_value := f64_of_bits 0x3FF8000000000000; edt_is_duration := true;
                     edt_is_1904 := false |} = Ok (Some (129600, 0)).
Proof. exact duration_nonvacuous. Qed.

Example C11_nonfinite_nonvacuous :
  f64_is_finite (f64_of_bits 0x7FF8000000000000) = false /\
  f64_is_finite (f64_of_bits 0x7FF0000000000000) = false /\
  f64_is_finite (f64_of_bits 0xFFF0000000000000) = false.
Proof. exact nonfinite_nonvacuous. Qed.

(* ---------- pins ---------- *)
Check C11_civil_bijection :
  (forall z, let '(y, m, d) := civil_of_days z in
             days_of_civil y m d = z /\ valid_date y m d = true) /\
  (forall y m d, valid_date y m d = true -> civil_of_days (days_of_civil y m d) = (y, m, d)).
Check C11_no_panic_bits : forall bits ty sys,
  edt_as_datetime {| edt_value := f64_of_bits bits; edt_is_duration := ty; edt_is_1904 := sys |}
    <> Panic /\
  edt_as_duration {| edt_value := f64_of_bits bits; edt_is_duration := ty; edt_is_1904 := sys |}
    <> Panic.
Check C11_whole_serials : forall v ty sys d,
  int_val v d -> 0 <= d <= 2958465 -> known_C11 v sys = None ->
  edt_as_datetime {| edt_value := v; edt_is_duration := ty; edt_is_1904 := sys |} =
  Ok (Some (at_midnight (spec_days sys d))).
Check C11_serial_monotone : forall a b ty1 ty2 sys ra rb,
  f64_le a b = true -> known_C11 b sys = None ->
  edt_as_datetime {| edt_value := a; edt_is_duration := ty1; edt_is_1904 := sys |} = Ok (Some ra) ->
  edt_as_datetime {| edt_value := b; edt_is_duration := ty2; edt_is_1904 := sys |} = Ok (Some rb) ->
  dt_le ra rb.
Check C11_date_time_components : forall c, exists r,
  data_as_datetime c = Ok r /\
  data_as_date c = Ok (option_map dt_days r) /\ data_as_time c = Ok (option_map dt_time r).
Check C11_beyond_calendar_none : forall v ty sys,
  f64_is_finite v = true ->
  (let days := EXCEL_EPOCH_DAYS + ms_real (B2R64 v) sys / MS_PER_DAY in
   days < MIN_DATE_DAYS \/ MAX_DATE_DAYS < days) ->
  edt_as_datetime {| edt_value := v; edt_is_duration := ty; edt_is_1904 := sys |} = Ok None.

Check C11_helpers_agree : forall c, c <> CError ->
  helper_as_datetime c = data_as_datetime c /\ helper_as_date c = data_as_date c /\
  helper_as_time c = data_as_time c /\ helper_as_duration c = data_as_duration c.

Print Assumptions C11_civil_bijection.
Print Assumptions C11_civil_is_the_calendar.
Print Assumptions C11_no_panic.
Print Assumptions C11_no_panic_bits.
Print Assumptions C11_whole_serials.
Print Assumptions C11_serial_1900_anchors.
Print Assumptions C11_serial_1904.
Print Assumptions C11_anchor_dates.
Print Assumptions C11_whole_day_exact.
Print Assumptions C11_whole_day_datetime.
Print Assumptions C11_date_time_components.
Print Assumptions C11_plain_cells_are_1900.
Print Assumptions C11_datetime_some_sound.
Print Assumptions C11_ms_rounding.
Print Assumptions C11_serial_monotone.
Print Assumptions C11_refuted_fictitious_leap_day.
Print Assumptions C11_serial_60_is_feb_28.
Print Assumptions C11_duration_is_serial_times_24h.
Print Assumptions C11_whole_day_duration.
Print Assumptions C11_duration_monotone.
Print Assumptions C11_beyond_calendar_none.
Print Assumptions C11_beyond_calendar_whole.
Print Assumptions C11_nonfinite_none.
Print Assumptions C11_helper_cell_roundtrip.
Print Assumptions C11_helpers_agree.
Print Assumptions C11_helpers_datetime_cell.
Print Assumptions C11_helpers_error_cell.
Print Assumptions C11_helpers_no_panic.
Print Assumptions C11_helper_keeps_1904.
Print Assumptions C11_helper_duration_some.
