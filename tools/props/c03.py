"""C03 — XLSB: every cell record reads back at its position with its value.

Correspondence (implementation vs extracted Coq model, same bytes):
  * hook verif_hooks::xlsb::records (RecordIter::read_type / fill_buffer on a raw part): every id
    form x every length form at the 127/128, 16383/16384 and 2097151/2097152 edges, padded
    (non-minimal) forms, continuation bits on the last id / length byte, truncations, random
    parts;
  * generated real .xlsb packages (tools/xlsbgen.py: [Content_Types].xml, rels, workbook.bin,
    styles.bin, sharedStrings.bin, worksheets/sheetN.bin) through Xlsb::new +
    worksheet_cells_reader/next_cell + worksheet_range_ref + worksheet_range, the model reading
    the very same sharedStrings.bin and sheet parts: legal layouts of random logical sheets under
    every encoding variation (record kind per value incl. RK forms vs BrtCellReal, framing
    forms, ignorable records incl. ids sharing their low byte with cell records and bodies of
    8 KiB .. 64 KiB, strings starting with U+FEFF / U+FFFE / U+BBEF, BrtWsDim
    absent / exact / wrong, header blocks, empty rows), header-row option, and malformed parts
    (truncation at every record kind and length, bad codes / indices / rows / dimensions, columns
    beyond the grid,
    missing end record, stale-buffer cases of BrtWsDim and BrtSSTItem).
Search oracle (implementation vs specification): the Coq spec range_of (logical c) printed by
the model driver, and an independent Python reading of the property (xlsbgen.expected_cells:
bounding box + dictionary, RK values by exact arithmetic / IEEE division); the Coq encoder's
bytes must equal xlsbgen's bytes for the same layout (the theorem's E is what the real reader is
fed)."""
import os, shutil, struct, sys
sys.path.insert(0, os.path.dirname(os.path.dirname(os.path.abspath(__file__))))
import vlib, xlsbgen as G
from xlsbgen import hx, frame, min_fr, rand_fr, f64_bits

ASSUMPTIONS = [
    "x / 100.0 is the Section variable fdiv100 of the Coq model, instantiated in the OCaml driver by hardware IEEE-754 division (RKFloat.v relates it to Flocq's b64_div)",
    "the zip container, the relationship part, workbook.bin (sheet names/paths, date system) and styles.bin (number-format decision, C10) are not modelled: the model is given the style table and the date system the generator wrote",
    "cell records are in non-decreasing row order (Range::from_sparse precondition; MS-XLSB requires increasing BrtRowHdr rows); out-of-order rows are exercised only as malformed input",
    "allocation (vec![0; len] in fill_buffer, cells.reserve, the dense range) is not modelled; generated bounding boxes stay small although row / column indices reach 1048575 / 16383",
    "next_formula / parse_formula (the formula text) are C14's; the tail of BrtFmla* records is opaque here",
]
TMP = os.path.join(vlib.CACHE, "tmp", "c03-%d" % os.getpid())
KEEP = os.path.join(vlib.ROOT, "replays", "C03-files")
KNOWN_NAMES = {}          # no known class left (wsdim_absent was repaired in /repo)

def hexs(s):
    return s.encode("utf-8").hex()

# ------------------------------------------------------------------ A. record framing (hook)
def run_recs(ctx):
    rng = ctx.rng
    cases = []          # (part bytes, expected [(id, len)] or None, label)
    ids = [0, 1, 2, 0x7E, 0x7F, 0x80, 0x81, 0x92, 0x94, 0x100, 0x102, 0x3FFE, 0x3FFF, 0x0491, 0x1E5]
    lens = [0, 1, 2, 126, 127, 128, 129, 255, 256, 16382, 16383, 16384, 16385]
    for rid in ids:
        for w in ((False, True) if rid < 128 else (True,)):
            for n in rng.sample(lens, 5) + [127, 128]:
                body = bytes(rng.getrandbits(8) for _ in range(n))
                kmin = min_fr(rid, body)[1]
                for k in range(kmin, 4):
                    cases.append((frame((w, k), rid, body) + frame((False, 0), 1, b"\x07"),
                                  [(rid, n), (1, 1)], "edge"))
    # both sides of every length-form boundary, minimal form, two records in a row
    for n in (16383, 16384):
        for rid in (0x05, 0x3FFF):
            body = bytes(rng.getrandbits(8) for _ in range(n))
            cases.append((frame(min_fr(rid, body), rid, body) * 2, [(rid, n), (rid, n)], "edge-16k"))
    for n in ctx.scale((2097151, 2097152), (2097150, 2097151, 2097152, 2097153, 4194304)):
        body = bytes(n)                                   # zeros: cheap for the extracted model
        cases.append((frame(min_fr(7, body), 7, body) + frame((True, 0), 0x92, b""),
                      [(7, n), (0x92, 0)], "edge-2m"))
    # bits the reader masks: continuation bit on the second id byte, on the fourth length byte
    cases.append((bytes([0x85, 0x81, 0x02, 1, 2]), None, "id-hibit"))
    cases.append((bytes([0x05, 0x83, 0x80, 0x80, 0x80, 9, 8, 7, 6]), None, "len-hibit4"))
    cases.append((bytes([0x05, 0x83, 0x80, 0x80, 0x81, 9, 8, 7, 6]), None, "len-5th"))
    cases.append((bytes([0x05, 0xFF, 0xFF, 0xFF, 0x7F, 1, 2, 3]), None, "len-max-short"))
    cases.append((b"", None, "empty"))
    for cut in range(0, 12):
        full = frame((True, 2), 0x181, bytes(range(5))) + frame((False, 0), 3, b"ab")
        cases.append((full[:cut], None, "trunc"))
    for _ in range(ctx.scale(600, 6000)):
        r = rng.random()
        if r < 0.5:
            recs, part = [], b""
            for _ in range(rng.randrange(1, 6)):
                rid = rng.choice(ids + [rng.randrange(16384)])
                body = bytes(rng.getrandbits(8) for _ in range(rng.choice([0, 1, 3, 8, 127, 128, 300])))
                part += frame(rand_fr(rng, rid, body, 0.4), rid, body)
                recs.append((rid, len(body)))
            if rng.random() < 0.3:
                part = part[:rng.randrange(len(part) + 1)]
                recs = None
            cases.append((part, recs, "random-framed"))
        else:
            part = bytes(rng.choice([0, 1, 0x7F, 0x80, 0x81, 0xFF, rng.getrandbits(8)])
                         for _ in range(rng.randrange(0, 24)))
            cases.append((part, None, "random-bytes"))
    lines = ["r%d\txlsbrec\trecs\t%s" % (i, hx(p)) for i, (p, _, _) in enumerate(cases)]
    impl, model = ctx.run_both(lines)
    for i, (part, exp, lab) in enumerate(cases):
        ctx.count("recs:" + lab)
        a, m = impl.get("r%d" % i), model.get("r%d" % i)
        ctx.traces += 1
        if a != m:
            ctx.disagreements.append({"function": "RecordIter::read_type/fill_buffer", "case": lines[i][:2000],
                                      "impl": a, "model": m})
        if exp is not None:
            ctx.nontrivial("recs:%s:%s" % (lab, exp))
            got = []
            if a and a.startswith("ok:") and a != "ok:":
                for t in a[3:].split(";"):
                    rid, s = t.split(":", 1)
                    n = int(s[1:].split(".")[0]) if s.startswith("L") else len(s) // 2
                    got.append((int(rid), n))
            if got != exp:
                ctx.violations.append({"case": lines[i][:2000], "expected": str(exp), "actual": a, "model": m,
                                       "what": "a framed record did not decode to its id / length (%s)" % lab})
    ctx.sample({"recs": lines[0][:200], "answer": impl.get("r0")})

# ------------------------------------------------------------------ generators
# first characters a decoder that sniffs byte-order marks would eat or reinterpret: U+FEFF (bytes
# FF FE), U+FFFE (FE FF), U+BBEF U+xxBF (bytes EF BB BF = the UTF-8 mark)
BOM_HEADS = ["\ufeff", "\ufffe", "\ubbef\u00bf", "\ubbef\u41bf", "\ubbef", "\ufeff\ufeff"]
def rand_text(rng, maxlen=8):
    pool = [0x41, 0x61, 0x7A, 0x20, 0xE9, 0x3A9, 0x4E2D, 0xFEFF, 0xFFFD, 0xFFFE, 0x1F600, 0x10FFFF, 0x10000, 0xD7FF, 0xE000,
            0xBBEF, 0xBF]
    t = "".join(chr(rng.choice(pool)) for _ in range(rng.randrange(0, maxlen)))
    if rng.random() < 0.15:
        t = rng.choice(BOM_HEADS) + t
    if rng.random() < 0.08:
        # text that looks like an ST_Xstring escape of the XML formats: xlsb stores raw UTF-16,
        # nothing is to be unescaped
        k = rng.randrange(len(t) + 1)
        t = t[:k] + rng.choice(["_x0031_", "_x005F_", "_x000D_", "_x000a_", "_x005F_x0041_", "_xD83D__xDE00_", "_x0041"]) + t[k:]
    return t

def gen_env(rng):
    nf = rng.choice([1, 3, 4, 6])
    fmts, xf_ids, customs = [], [], {}
    for _ in range(nf):
        f = rng.randrange(3)
        fmts.append(f)
        if f == 0:
            if rng.random() < 0.6:
                xf_ids.append(rng.choice([0, 1, 2, 9, 49]))
            else:
                customs[166] = "0.00"; xf_ids.append(166)
        elif f == 1:
            if rng.random() < 0.6:
                xf_ids.append(rng.choice([14, 15, 22]))
            else:
                customs[164] = "yyyy\\-mm\\-dd hh:mm"; xf_ids.append(164)
        else:
            if rng.random() < 0.6:
                xf_ids.append(46)
            else:
                customs[165] = "[h]:mm:ss"; xf_ids.append(165)
    return {"fmts": fmts, "xf_ids": xf_ids, "customs": sorted(customs.items()), "d1904": rng.random() < 0.3,
            "strings": [rand_text(rng, 6) for _ in range(rng.choice([0, 1, 2, 5]))]}

def env_args(env):
    return "".join(str(x) for x in env["fmts"]) or "-", "1" if env["d1904"] else "0"

INT_EDGES = [0, 1, -1, 2, 99, 100, -100, 101, 12345, -12345, 123456700, (1 << 29) - 1, -(1 << 29),
             536870900, -536870900, 44000, 45123]
def rand_val(rng, env):
    r = rng.random()
    if r < 0.22:
        if rng.random() < 0.5:
            v = rng.choice(INT_EDGES) if rng.random() < 0.5 else rng.randrange(-(1 << 29), 1 << 29)
            return ("rk", "i", v, rng.random() < 0.4)
        x100 = rng.random() < 0.4
        d = rng.choice([0.0, 1.0, -1.5, 100.0, 12.5, 1e300, 1e-300, 44000.25, 123456789.0, rng.uniform(-1e6, 1e6)])
        hi = f64_bits(d) >> 34
        if not x100 and rng.random() < 0.2:
            hi = rng.getrandbits(30)             # any pattern, NaN and infinities included
        return ("rk", "f", hi, x100)
    if r < 0.36:
        bits = rng.choice([f64_bits(rng.uniform(-1e5, 1e5)), f64_bits(float(rng.randrange(-10 ** 6, 10 ** 6)) / 100),
                           rng.getrandbits(64), f64_bits(44927.5), 0, 1 << 63])
        return (rng.choice(["real", "fnum"]), bits)
    if r < 0.46:
        return (rng.choice(["bool", "fbool"]), rng.random() < 0.5)
    if r < 0.58:
        return (rng.choice(["err", "ferr"]), rng.choice(G.ERR_CODES))
    if r < 0.74:
        return (rng.choice(["st", "fst"]), rand_text(rng))
    if r < 0.88 and env["strings"]:
        return ("isst", rng.randrange(len(env["strings"])))
    if r < 0.94:
        return ("blank",)
    return ("real", f64_bits(float(rng.randrange(100))))

FMLA_TAIL = struct.pack("<HI", 0, 3) + b"\x1e\x01\x00" + struct.pack("<I", 0)
# records outside the cell table grammar (xlsbgen.CELL_TABLE_IDS): FRT / AC blocks, BrtCellMeta 0x31,
# BrtValueMeta 0x32, BrtArrFmla 0x1AA, BrtShrFmla 0x1AB, BrtTable 0x1AC, ids sharing their low byte
# with cell records (0x100 + n, 0x80 + n), header records met again, ...
IGNORABLE = [0x13, 0x25, 0x26, 0x31, 0x32, 0x3C, 0x7F, 0x80, 0x82, 0x8C, 0x8D, 0x100, 0x101, 0x102, 0x103, 0x10C, 0x10D,
             0x112, 0x185, 0x192, 0x292, 0x1AA, 0x1AB, 0x1AC, 0x0400, 0x0491, 0x1000, 0x3FFF, 0x91, 0x94, 0x81]
def rand_body(rng, big=0.0):
    """body of an ignorable record; with probability [big] larger than the 8 KiB the BufReader over
    the zip entry holds (up to 64 KiB: BrtArrFmla / FRT blobs)"""
    if rng.random() < big:
        n = rng.choice([8191, 8192, 8193, 9000, 16384, 20000, 40000, 65535])
        seed = bytes(rng.getrandbits(8) for _ in range(61))
        return (seed * (n // 61 + 1))[:n]
    return bytes(rng.getrandbits(8) for _ in range(rng.choice([0, 0, 1, 4, 8, 12, 16, 127, 128, 200])))

def gen_layout(rng, env, dim_mode=None):
    r0 = rng.choice([0, 0, 1, rng.randrange(100), 65535, 65536, 1048575 - rng.randrange(7), rng.randrange(1 << 20)])
    c0 = rng.choice([0, 0, 1, 255, 256, 16383 - rng.randrange(9), rng.randrange(1 << 14)])
    rows = sorted(set(min(r0 + rng.randrange(7), 1048575) for _ in range(rng.randrange(0, 6))))
    items, nstyle = [], len(env["fmts"])
    # SheetJS writes a short record for every cell that directly follows another one; Excel none
    short_share = rng.choice([0.0, 0.3, 0.6, 1.0])
    def other():
        rid = rng.choice(IGNORABLE) if rng.random() < 0.8 else rng.choice(
            [x for x in [rng.randrange(16384)] if x not in G.CELL_TABLE_IDS] or [0x13])
        body = rand_body(rng, big=0.06)
        return {"fr": rand_fr(rng, rid, body), "k": "other", "id": rid, "body": body}
    for r in rows:
        if rng.random() < 0.15:
            items.append(other())
        tail = struct.pack("<IHBBBI", 0, 300, 0, 0, 0, 0) if rng.random() < 0.7 else b""
        it = {"k": "row", "row": r, "tail": tail}
        it["fr"] = rand_fr(rng, 0, G.item_body(it))
        items.append(it)
        if rng.random() < 0.2:
            continue                                # a row header for an empty row
        cols = [min(c0 + rng.randrange(9), 16383) for _ in range(rng.randrange(1, 6))]
        if rng.random() < 0.7:
            cols = sorted(set(cols))
        for c in cols:
            if rng.random() < 0.2:
                items.append(other())
            v = rand_val(rng, env)
            style = rng.choice([rng.randrange(nstyle + 1), rng.randrange(nstyle + 1), 0, 0xFFFFFF])
            tail = FMLA_TAIL if v[0].startswith("f") else (b"" if rng.random() < 0.9 else bytes(rng.getrandbits(8) for _ in range(4)))
            it = {"k": "cell", "col": c, "style": style, "fl": rng.choice([0, 0, 1, 0xFF]), "v": v, "tail": tail}
            it["fr"] = rand_fr(rng, G.item_id(it), G.item_body(it))
            items.append(it)
            # a run of short cell records (no column field: each stands right of the previous cell
            # record, blank and formula ones included), other records in between now and then
            prev = c
            if rng.random() < short_share:
                for _ in range(rng.choice([1, 1, 2, 3, 5, 9])):
                    if prev + 1 > 16383:
                        break
                    if rng.random() < 0.12:
                        items.append(other())
                    v = rand_val(rng, env)
                    while v[0] not in G.SHORTABLE:
                        v = rand_val(rng, env)
                    style = rng.choice([rng.randrange(nstyle + 1), rng.randrange(nstyle + 1), 0, 0xFFFFFF])
                    tail = b"" if rng.random() < 0.9 else bytes(rng.getrandbits(8) for _ in range(4))
                    it = {"k": "short", "style": style, "fl": rng.choice([0, 0, 1, 0xFF]), "v": v, "tail": tail}
                    it["fr"] = rand_fr(rng, G.item_id(it), G.item_body(it))
                    items.append(it)
                    prev += 1
    if rng.random() < 0.3:
        items.append(other())
    if not rows:
        items = [x for x in items if x["k"] not in ("cell", "short")]
    # a cell table starts with a row header: leading ignorable records are fine, cells are not
    def raw(rid, body, p=0.25):
        return {"fr": rand_fr(rng, rid, body, p), "id": rid, "body": body}
    pre1 = [("R", raw(0x81, b""))]
    if rng.random() < 0.7:
        pre1.append(("R", raw(0x93, bytes(rng.getrandbits(8) for _ in range(23)))))
    if rng.random() < 0.2:
        # anything but BrtWsDim / BrtBeginSheetData / a block opener (a block has to be closed)
        pre1.insert(rng.randrange(len(pre1) + 1), ("R", raw(rng.choice([0x00, 0x02, 0x92, 0x1FF, 0x86, 0x1E5]), rand_body(rng))))
    if rng.random() < 0.1:
        pre1.append(("B", raw(0x25, bytes(6)), [raw(rng.choice([0x0400, 0x94, 0x91]), rand_body(rng))], (rand_fr(rng, 0x26, b""), b"")))
    exp = G.expected_cells({"items": items}, env)
    mode = dim_mode or rng.choice(["exact", "exact", "exact", "wrong", "zero", "big", "absent"])
    if mode == "absent":
        dim = None
    else:
        if mode == "exact" and exp:
            d = (min(p[0] for p in exp), min(p[1] for p in exp), max(p[0] for p in exp), max(p[1] for p in exp))
        elif mode == "big":
            d = (0, 0, 1048575, 16383)
        elif mode == "wrong":
            a, b = sorted([rng.randrange(1 << 20), rng.randrange(1 << 20)])
            c, e = sorted([rng.randrange(1 << 14), rng.randrange(1 << 14)])
            d = (a, c, b, e)
        else:
            d = (0, 0, 0, 0)
        tail = b"" if rng.random() < 0.85 else bytes(rng.getrandbits(8) for _ in range(rng.randrange(1, 9)))
        body = struct.pack("<IIII", d[0], d[2], d[1], d[3]) + tail
        dim = {"fr": rand_fr(rng, 0x94, body), "d": d, "tail": tail}
    pre2 = []
    if rng.random() < 0.6:
        inner = [raw(0x89, bytes(rng.getrandbits(8) for _ in range(30))), raw(0x98, bytes(36)), raw(0x8A, b"")]
        if rng.random() < 0.3:
            inner.insert(1, raw(rng.choice([0x91, 0x94, 0x00, 0x186]), rand_body(rng)))
        eb = b""
        pre2.append(("B", raw(0x85, b""), inner, (rand_fr(rng, 0x86, eb), eb)))
    if rng.random() < 0.6:
        pre2.append(("R", raw(0x1E5, bytes(rng.getrandbits(8) for _ in range(12)))))
    if rng.random() < 0.4:
        inner = [raw(0x3C, bytes(rng.getrandbits(8) for _ in range(18))) for _ in range(rng.randrange(0, 4))]
        pre2.append(("B", raw(0x186, b""), inner, (rand_fr(rng, 0x187, b""), b"")))
    if rng.random() < 0.2:
        inner = [raw(0x0400, bytes(2))]
        pre2.append(("B", raw(0x25, bytes(6)), inner, (rand_fr(rng, 0x26, b""), b"")))
    if rng.random() < 0.25:
        # a second BrtWsDim after the first is ignored; without a first one it would be the first
        banned = (0x91, 0x85, 0x25, 0x186) + ((0x94,) if dim is None else ())
        rid = rng.choice([x for x in IGNORABLE + [0x00, 0x02, 0x92, 0x86, 0x187] if x not in banned])
        pre2.insert(rng.randrange(len(pre2) + 1), ("R", raw(rid, rand_body(rng))))
    bb = b""
    trailer = frame(min_fr(0x97, b""), 0x97, b"") + frame((True, 0), 0x82, b"") if rng.random() < 0.8 else \
        bytes(rng.getrandbits(8) for _ in range(rng.randrange(0, 9)))
    L = {"pre1": pre1, "dim": dim, "pre2": pre2, "begin": (rand_fr(rng, 0x91, bb), bb), "items": items,
         "end": (rand_fr(rng, 0x92, b""), b""), "trailer": trailer}
    return L, exp

def corpus_short_layout():
    """witness of the former defect XLSB-3 (notes/AUDIT2.md, repro xlsb_4): one row written the way
    SheetJS writes it — a full cell record, then a short record for every cell that directly follows
    another one: A1 = 1.5 (BrtCellReal), B1 = 2.5 (BrtShortReal), C1 = 3 (BrtShortRk), D1 shared string
    (BrtShortIsst), E1 inline string (BrtShortSt), F1 TRUE (BrtShortBool), G1 #DIV/0! (BrtShortError),
    H1 blank (BrtShortBlank), I1 = 9 (BrtShortReal); a second row: a formula cell, then shorts.
    Before the fix next_cell returned A1 (and A2) only."""
    env = {"fmts": [0, 1], "xf_ids": [0, 14], "customs": [], "d1904": False, "strings": ["shared"]}
    vals = [("real", f64_bits(2.5)), ("rk", "i", 3, False), ("isst", 0), ("st", "inline"), ("bool", True),
            ("err", 0x07), ("blank",), ("real", f64_bits(9.0))]
    def mk(it):
        it["fr"] = min_fr(G.item_id(it), G.item_body(it))
        return it
    items = [mk({"k": "row", "row": 0, "tail": struct.pack("<IHBBBI", 0, 300, 0, 0, 0, 0)}),
             mk({"k": "cell", "col": 0, "style": 0, "fl": 0, "v": ("real", f64_bits(1.5)), "tail": b""})]
    items += [mk({"k": "short", "style": 0, "fl": 0, "v": v, "tail": b""}) for v in vals]
    items += [mk({"k": "row", "row": 1, "tail": b""}),
              mk({"k": "cell", "col": 2, "style": 0, "fl": 0, "v": ("fnum", f64_bits(4.0)), "tail": FMLA_TAIL}),
              mk({"k": "short", "style": 1, "fl": 0, "v": ("real", f64_bits(45000.0)), "tail": b""}),
              mk({"k": "short", "style": 1, "fl": 1, "v": ("rk", "i", 45001, False), "tail": b""})]
    dim = struct.pack("<IIII", 0, 1, 0, 8)
    L = {"pre1": [("R", {"fr": (True, 0), "id": 0x81, "body": b""})],
         "dim": {"fr": (True, 0), "d": (0, 0, 1, 8), "tail": b""}, "pre2": [],
         "begin": ((True, 0), b""), "items": items, "end": ((True, 0), b""),
         "trailer": frame((True, 0), 0x82, b"")}
    return env, L, G.expected_cells(L, env)

def gen_sst(rng, env):
    """sharedStrings.bin realising env['strings'] (None: part absent when there are no strings)"""
    if not env["strings"] and rng.random() < 0.5:
        return None, None
    items = []
    for s in env["strings"]:
        tail = b"" if rng.random() < 0.8 else bytes(rng.getrandbits(8) for _ in range(rng.randrange(1, 12)))
        body = b"\x00" + G.wide(s) + tail
        items.append((rand_fr(rng, 0x13, body), s, tail))
    total = len(items) + rng.randrange(0, 50)
    trailer = frame((True, 0), 0xA0, b"") if rng.random() < 0.8 else b""
    return G.sst_part(total, items, trailer), (total, items, trailer)

# ------------------------------------------------------------------ comparison helpers
def parse_range(txt):
    """R[sr,sc,er,ec|h,w|i:j:V,...] -> (bounds, {(abs r, abs c): V}); R[-] -> (None, {})"""
    if txt == "R[-]":
        return None, {}
    if not txt or not txt.startswith("R["):
        return txt, None
    b, hw, cells = txt[2:-1].split("|", 2)
    sr, sc, er, ec = [int(x) for x in b.split(",")]
    h, w = [int(x) for x in hw.split(",")]
    d = {}
    if cells:
        for t in cells.split(","):
            i, j, v = t.split(":", 2)
            d[(sr + int(i), sc + int(j))] = v
    if (h, w) != (er - sr + 1, ec - sc + 1):
        return "bad-size", None
    return (sr, sc, er, ec), d

def is_nan_bits(b):
    return (b >> 52) & 0x7FF == 0x7FF and b & ((1 << 52) - 1) != 0

def same_value(a, b):
    if a == b:
        return True
    if a and b and a[0] == b[0] and a[0] in "FD":
        fa, fb = a[1:].split(":"), b[1:].split(":")
        return fa[1:] == fb[1:] and is_nan_bits(int(fa[0])) and is_nan_bits(int(fb[0]))
    return False

def check_range_against(exp, txt, level):
    """None when the range text is the tight bounding box of exp with every value in place"""
    bounds, got = parse_range(txt)
    if got is None:
        return "no range: %s" % txt
    if not exp:
        return None if bounds is None else "expected an empty range"
    rs, cs = [p[0] for p in exp], [p[1] for p in exp]
    want = (min(rs), min(cs), max(rs), max(cs))
    if bounds != want:
        return "bounds %s, expected %s" % (bounds, want)
    for p, v in exp.items():
        if not same_value(v[level], got.get(p)):
            return "cell %s: expected %s, got %s" % (p, v[level], got.get(p))
    extra = [p for p in got if p not in exp]
    if extra:
        return "unexpected non-empty cell %s = %s" % (extra[0], got[extra[0]])
    return None

def split3(txt):
    """cells=..#ref=..#data=.. -> dict (or the whole text under key 'all')"""
    if txt and txt.startswith("cells="):
        parts = txt.split("#")
        if len(parts) == 3:
            return {p.split("=", 1)[0]: p.split("=", 1)[1] for p in parts}
    return {"all": txt}

def same_reading(a, b):
    if a == b:
        return True
    da, db = split3(a), split3(b)
    if set(da) != set(db) or "all" in da:
        return False
    for k in da:
        if da[k] == db[k]:
            continue
        if k == "cells":
            return False
        ba, ga = parse_range(da[k]); bb, gb = parse_range(db[k])
        if ba != bb or ga is None or gb is None or set(ga) != set(gb):
            return False
        if not all(same_value(ga[p], gb[p]) for p in ga):
            return False
    return True

def same_cells(a, b):
    """two `ok:r,c=V;...` cell lists equal up to NaN payloads"""
    if not (a.startswith("ok:") and b.startswith("ok:")):
        return False
    la, lb = a[3:].split(";"), b[3:].split(";")
    if len(la) != len(lb):
        return False
    for x, y in zip(la, lb):
        if x == y:
            continue
        px, vx = x.split("=", 1) if "=" in x else (x, "")
        py, vy = y.split("=", 1) if "=" in y else (y, "")
        if px != py or not same_value(vx, vy):
            return False
    return True

def keep_file(path):
    os.makedirs(KEEP, exist_ok=True)
    if len(os.listdir(KEEP)) < 8 and os.path.exists(path):
        dst = os.path.join(KEEP, os.path.basename(path))
        shutil.copy(path, dst)
        return dst
    return path

# ------------------------------------------------------------------ B. legal layouts through real files
def run_files(ctx, n_files, tag, hdr_share=0.0):
    rng = ctx.rng
    os.makedirs(TMP, exist_ok=True)
    enc_lines, sheet_lines, file_lines, meta = [], [], [], []
    for k in range(n_files):
        env = gen_env(rng)
        sst_bytes, sst_desc = gen_sst(rng, env)
        nsheets = rng.choice([1, 1, 1, 2])
        sheets, descr = [], []
        if k == 0:
            # corpus: the witness of the former defect XLSB-3 (short cell records)
            env, L, exp = corpus_short_layout()
            sst_bytes, sst_desc = gen_sst(rng, env)
            nsheets = 0
            sheets.append(("S0", G.enc_layout(L)))
            descr.append((L, exp))
            ctx.count("corpus:short-cell-run")
        for si in range(nsheets):
            L, exp = gen_layout(rng, env)
            sheets.append(("S%d" % si, G.enc_layout(L)))
            descr.append((L, exp))
        path = os.path.join(TMP, "%s%d.xlsb" % (tag, k))
        G.write_package(path, sheets, env, sst_bytes, compress=rng.random() < 0.7)
        fm, d19 = env_args(env)
        st = ",".join("s" + hexs(s) for s in env["strings"]) or "-"
        for si, (L, exp) in enumerate(descr):
            cid = "%s%d_%d" % (tag, k, si)
            hdr = "-"
            if exp and rng.random() < hdr_share:
                rs = sorted(p[0] for p in exp)
                hdr = str(max(0, rng.choice([rs[0] - 1, rs[0], rs[0] + 1, rs[-1], rs[-1] + 1])))
            enc_lines.append("%s\txlsbrec\tenc\t%s\t%s\t%s\t%s" % (cid, fm, d19, st, G.layout_text(L)))
            sheet_lines.append("%s\txlsbrec\tsheet\t%s\t%s\t%s\t%s\t%s" % (
                cid, "none" if sst_bytes is None else hx(sst_bytes), hx(sheets[si][1]), fm, d19, hdr))
            file_lines.append("%s\txlsbrec\tfile\t%s\t%s\t%s" % (cid, path, hexs(sheets[si][0]), hdr))
            meta.append((cid, env, L, exp, sheets[si][1], path, hdr))
    encs = ctx.run_model(enc_lines)
    models = ctx.run_model(sheet_lines)
    impls = ctx.run_impl(file_lines)
    for i, (cid, env, L, exp, part, path, hdr) in enumerate(meta):
        e, m, a = encs.get(cid, ""), models.get(cid), impls.get(cid)
        ctx.traces += 1
        ctx.count("file:dim-" + ("absent" if L["dim"] is None else "present"))
        for it in L["items"]:
            ctx.count("item:" + (it["v"][0] if it["k"] == "cell" else "short-" + it["v"][0] if it["k"] == "short" else it["k"]))
        case = file_lines[i] + "\t#model: " + sheet_lines[i][:4000]
        ef = e.split("#")
        if len(ef) != 10:
            ctx.disagreements.append({"function": "xlsbrec enc", "case": enc_lines[i][:3000], "impl": "-", "model": e[:500]})
            continue
        ehex, wf, srt, known, specref, specdata = ef[0], ef[1], ef[2], ef[3], ef[4][8:], ef[5][9:]
        if ehex != part.hex():
            ctx.disagreements.append({"function": "encoder (Coq encode_sheet vs tools/xlsbgen.py)",
                                      "case": enc_lines[i][:3000], "impl": part.hex()[:400], "model": ehex[:400]})
            continue
        if wf != "1" or srt != "1":
            ctx.disagreements.append({"function": "generator produced a layout the Coq side calls illegal",
                                      "case": enc_lines[i][:3000], "impl": "wf=1 sorted=1", "model": "wf=%s sorted=%s" % (wf, srt)})
            continue
        # model (same bytes through the sheet command, shared strings read from their part) vs code
        if not same_reading(a, m):
            ctx.disagreements.append({"function": "Xlsb::new + next_cell / worksheet_range_ref / worksheet_range",
                                      "case": case, "impl": a, "model": m, "file": keep_file(path)})
        if hdr != "-":
            ctx.count("file:header-row")
            ctx.nontrivial("hdr:" + cid + sheet_lines[i][-60:])
            continue
        ctx.nontrivial(enc_lines[i][-400:])
        # implementation vs specification: Coq range_of (logical c), and the Python reading
        parts = split3(a)
        bad = None
        if "all" in parts:
            bad = "no reading: %s" % a
        else:
            if not same_reading("cells=x#ref=%s#data=%s" % (parts["ref"], parts["data"]),
                                "cells=x#ref=%s#data=%s" % (specref, specdata)):
                bad = "range differs from range_of (logical c): ref=%s data=%s" % (parts["ref"][:300], parts["data"][:300])
            else:
                bad = check_range_against(exp, parts["ref"], 0) or check_range_against(exp, parts["data"], 1)
                if bad:
                    bad = "python oracle: " + bad
                elif parts["cells"] != ef[6][10:] and not same_cells(parts["cells"], ef[6][10:]):
                    bad = "next_cell sequence differs from the logical cells: %s" % parts["cells"][:300]
        if known != "-":
            name = KNOWN_NAMES.get(known, "class%s" % known)
            if bad:
                ctx.known_hits.setdefault(name, {"case": case[:1500], "actual": a, "expected": "ref=" + specref})
            else:
                ctx.notes.append("known class %s: the implementation now satisfies the property on %s" % (name, cid))
            continue
        if bad:
            ctx.violations.append({"case": case, "expected": "ref=%s#data=%s" % (specref, specdata), "actual": a,
                                   "model": m, "what": bad, "file": keep_file(path)})
    if meta:
        ctx.sample({"file case": file_lines[0], "layout": enc_lines[0].split("\t")[-1][:300], "impl": impls.get(meta[0][0], "")[:300]})

# ------------------------------------------------------------------ C. malformed parts
def flat_records(L):
    """[(fr, id, body, role)] of a layout, in stream order (trailer excluded)"""
    out = []
    def hrecs(hs, role):
        for h in hs:
            out.append((h[1]["fr"], h[1]["id"], h[1]["body"], role))
            if h[0] == "B":
                out.extend((r["fr"], r["id"], r["body"], "inner") for r in h[2])
                out.append((h[3][0], G.BLOCK_END[h[1]["id"]], h[3][1], role))
    hrecs(L["pre1"], "pre1")
    if L["dim"] is not None:
        r0, c0, r1, c1 = L["dim"]["d"]
        out.append((L["dim"]["fr"], 0x94, struct.pack("<IIII", r0, r1, c0, c1) + L["dim"]["tail"], "dim"))
    hrecs(L["pre2"], "pre2")
    out.append((L["begin"][0], 0x91, L["begin"][1], "begin"))
    for it in L["items"]:
        out.append((it["fr"], G.item_id(it), G.item_body(it), it["k"]))
    out.append((L["end"][0], 0x92, L["end"][1], "end"))
    return out

def reframe(rid, body, rng):
    return frame(min_fr(rid, body), rid, body)

def mutate_sheet(rng, L, env):
    """(sheet bytes, label) — one fault injected into a legal layout"""
    recs = flat_records(L)
    def build(rs):
        return b"".join(frame(fr, rid, body) if G.fr_ok(fr, rid, body) else reframe(rid, body, rng)
                        for fr, rid, body, _ in rs) + L["trailer"]
    kind = rng.choice(["trunc", "cellcut", "cellcut", "rowcut", "errcode", "isst", "bigrow", "rowswap", "dims",
                       "dimshort", "noend", "widelen", "hibits", "nobegin", "cellfirst", "coloffset",
                       "shortcut", "shortfirst", "shortedge", "shortfmla", "blankcut"])
    cells = [i for i, r in enumerate(recs) if r[3] == "cell"]
    rows = [i for i, r in enumerate(recs) if r[3] == "row"]
    lo_row = min([it["row"] for it in L["items"] if it["k"] == "row"] or [0])
    hi_row = max([it["row"] for it in L["items"] if it["k"] == "row"] or [0])
    if kind in ("cellfirst", "nobegin") and hi_row > 2000:
        kind = "trunc"                      # keep the dense range small
    shorts = [i for i, r in enumerate(recs) if r[3] == "short"]
    def short_rec():
        v = rng.choice([("real", f64_bits(2.5)), ("bool", True), ("rk", "i", 7, False), ("st", "s"), ("err", 0x07), ("blank",)])
        it = {"k": "short", "style": 0, "fl": 0, "v": v, "tail": b""}
        return ((False, 0), G.item_id(it), G.item_body(it), "short")
    if kind == "shortcut" and shorts:
        # a short record cut anywhere (its fixed fields are 4 bytes shorter than its long twin's)
        i = rng.choice(shorts)
        fr, rid, body, role = recs[i]
        recs[i] = (fr, rid, body[:rng.randrange(len(body) + 1)], role)
        return build(recs), kind
    if kind == "shortfirst" and rows:
        # a short record with no cell before it in its row (first of the row, or of the table)
        # (straight after BrtBeginSheetData it lands in row 0: only when the rows are small, to keep
        # the dense range small)
        i = rng.choice(rows + ([j for j, r in enumerate(recs) if r[3] == "begin"] if hi_row <= 2000 else []))
        recs.insert(i + 1, short_rec())
        return build(recs), kind
    if kind == "shortedge" and cells:
        # a cell in the last column(s) followed by short records: columns 16384, 16385 ...
        i = rng.choice(cells)
        fr, rid, body, role = recs[i]
        if len(body) >= 4:
            recs[i] = (fr, rid, struct.pack("<I", rng.choice([16383, 16382, 65535])) + body[4:], role)
            for _ in range(rng.randrange(1, 4)):
                recs.insert(i + 1, short_rec())
        return build(recs), kind
    if kind == "shortfmla" and cells:
        # ids 19.. are not short records: a formula body under id 8 + 11 etc. is skipped
        i = rng.choice(cells)
        fr, rid, body, role = recs[i]
        recs.insert(i + 1, ((False, 0) if len(body) < 124 else (False, 1), rng.choice([19, 20, 21, 22]), body[4:], "other"))
        return build(recs), kind
    if kind == "blankcut":
        # BrtCellBlank / BrtShortBlank shorter than their fixed fields, then a short record
        j = rng.choice(cells + rows) if (cells + rows) else 0
        recs.insert(j + 1, ((False, 0), rng.choice([1, 12]), bytes(rng.randrange(0, 8)), "cell"))
        recs.insert(j + 2, short_rec())
        return build(recs), kind
    if kind == "trunc":
        b = build(recs)[:-len(L["trailer"])] if L["trailer"] else build(recs)
        return b[:rng.randrange(len(b) + 1)], kind
    if kind == "cellcut" and cells:
        i = rng.choice(cells)
        fr, rid, body, role = recs[i]
        recs[i] = (fr, rid, body[:rng.randrange(len(body) + 1)], role)
        return build(recs), kind
    if kind == "rowcut" and rows:
        i = rng.choice(rows)
        fr, rid, body, role = recs[i]
        recs[i] = (fr, rid, body[:rng.randrange(0, 5)], role)
        return build(recs), kind
    if kind == "errcode" and cells:
        i = rng.choice(cells)
        fr, rid, body, role = recs[i]
        if rid in (3, 11) and len(body) > 8:
            recs[i] = (fr, rid, body[:8] + bytes([rng.choice([1, 8, 0x2C, 0xFF])]) + body[9:], role)
        else:
            recs[i] = (fr, rng.choice([3, 11]), body[:8] + bytes([rng.getrandbits(8)]) + body[9:], role)
        return build(recs), kind
    if kind == "isst" and cells:
        i = rng.choice(cells)
        fr, rid, body, role = recs[i]
        idx = rng.choice([len(env["strings"]), len(env["strings"]) + 1, 0xFFFFFFFF, 0x7FFFFFFF])
        recs[i] = (fr, 7, body[:8] + struct.pack("<I", idx), role)
        return build(recs), kind
    if kind == "bigrow" and rows:
        i = rng.choice(rows)
        fr, rid, body, role = recs[i]
        big = [0x100001, 0xFFFFFFFF, 0x7FFFFFFF] + ([0x100000] if lo_row > 1048000 else [])
        recs[i] = (fr, rid, struct.pack("<I", rng.choice(big)) + body[4:], role)
        return build(recs), kind
    if kind == "rowswap" and len(rows) >= 2:
        i, j = rng.sample(rows, 2)
        (fi, ri, bi, oi), (fj, rj, bj, oj) = recs[i], recs[j]
        recs[i], recs[j] = (fi, ri, bj[:4] + bi[4:], oi), (fj, rj, bi[:4] + bj[4:], oj)
        return build(recs), kind
    dims = [i for i, r in enumerate(recs) if r[3] == "dim"]
    if kind == "dims" and dims:
        i = dims[0]
        fr, rid, body, role = recs[i]
        d = rng.choice([(5, 0, 2, 0), (0, 7, 0, 3), (0, 0, 0xFFFFFFFF, 0), (0, 0, 0, 0xFFFFFFFF), (1, 1, 0xFFFFFFFF, 0xFFFFFFFF),
                        (0xFFFFFFFF, 0, 0xFFFFFFFF, 0), (3, 3, 2, 3)])
        recs[i] = (fr, rid, struct.pack("<IIII", d[0], d[2], d[1], d[3]) + body[16:], role)
        return build(recs), kind
    if kind == "dimshort" and dims:
        i = dims[0]
        fr, rid, body, role = recs[i]
        recs[i] = (fr, rid, body[:rng.choice([0, 4, 8, 15])], role)
        if rng.random() < 0.6:             # a longer record before it leaves its tail in the buffer
            stale = struct.pack("<IIII", *rng.choice([(0, 3, 0, 3), (9, 1, 0, 0), (0, 0, 7, 2)])) + bytes(4)
            recs.insert(i, ((True, 0), 0x93, stale, "pre1"))
        return build(recs), kind
    if kind == "noend":
        recs = [r for r in recs if r[3] != "end"]
        return b"".join(frame(fr, rid, body) for fr, rid, body, _ in recs), kind
    if kind == "widelen" and cells:
        i = rng.choice(cells)
        fr, rid, body, role = recs[i]
        cch = rng.choice([1, 2, 100, 0x7FFFFFFF, 0xFFFFFFFF])
        recs[i] = (fr, rng.choice([6, 8]), body[:8] + struct.pack("<I", cch) + body[12:14], role)
        return build(recs), kind
    if kind == "hibits":
        out = b""
        for fr, rid, body, _ in recs:
            f = bytearray(frame((True, 3), rid, body))
            if rng.random() < 0.5:
                f[1] |= 0x80                # second id byte
            if rng.random() < 0.5:
                f[5] |= 0x80                # fourth length byte
            out += bytes(f)
        return out + L["trailer"], kind
    if kind == "coloffset" and cells:
        # columns beyond the grid, the same offset everywhere (the bounding box stays small)
        off = rng.choice([0x10000, 0x20000, 0x12340000, 0xFFFF0000, 0x4000])
        for i in cells:
            fr, rid, body, role = recs[i]
            if len(body) >= 4:
                col = (struct.unpack("<I", body[:4])[0] + off) & 0xFFFFFFFF
                recs[i] = (fr, rid, struct.pack("<I", col) + body[4:], role)
        return build(recs), kind
    if kind == "nobegin":
        recs = [r for r in recs if r[3] != "begin"]
        return build(recs), kind
    if kind == "cellfirst" and cells:
        i = recs.index([r for r in recs if r[3] == "begin"][0])
        recs.insert(i + 1, recs[rng.choice(cells)])
        return build(recs), kind
    b = build(recs)
    return b[:rng.randrange(len(b) + 1)], "trunc"

def mutate_sst(rng, env):
    """(sharedStrings.bin bytes, label) with one fault"""
    strings = env["strings"] or ["x"]
    items = [((False, 0) if len(s.encode("utf-16le")) < 120 else (False, 1), s, b"") for s in strings]
    kind = rng.choice(["count+", "count-", "short", "stale", "empty", "trunc", "nobegin", "shortbegin", "future"])
    if kind == "count+":
        return G.sst_part(5, items)[:0] + frame((True, 0), 0x9F, struct.pack("<II", 5, len(items) + rng.randrange(1, 4))) + \
            b"".join(frame(fr, 0x13, b"\x00" + G.wide(t) + tl) for fr, t, tl in items), kind
    if kind == "count-":
        return frame((True, 0), 0x9F, struct.pack("<II", 5, max(0, len(items) - 1))) + \
            b"".join(frame(fr, 0x13, b"\x00" + G.wide(t) + tl) for fr, t, tl in items), kind
    if kind == "short":
        body = b"\x00" + G.wide("abcdef")
        return frame((True, 0), 0x9F, struct.pack("<II", 1, 1)) + frame((False, 0), 0x13, body[:rng.randrange(len(body))]), kind
    if kind == "stale":
        long_body = b"\x00" + G.wide("long string here")
        short = b"\x00" + struct.pack("<I", rng.choice([3, 5, 8])) + "ab".encode("utf-16le")
        return frame((True, 0), 0x9F, struct.pack("<II", 2, 2)) + frame((False, 0), 0x13, long_body) + \
            frame((False, 0), 0x13, short), kind
    if kind == "empty":
        first = rng.random() < 0.5
        parts = [frame((False, 0), 0x13, b"")] if first else [frame((False, 0), 0x13, b"\x00" + G.wide("q")), frame((False, 0), 0x13, b"")]
        return frame((True, 0), 0x9F, struct.pack("<II", len(parts), len(parts))) + b"".join(parts), kind
    if kind == "trunc":
        b = G.sst_part(len(items), items)
        return b[:rng.randrange(len(b))], kind
    if kind == "nobegin":
        return b"".join(frame(fr, 0x13, b"\x00" + G.wide(t)) for fr, t, _ in items), kind
    if kind == "shortbegin":
        pre = frame((True, 0), 0x11, bytes(12)) if rng.random() < 0.5 else b""
        return pre + frame((True, 0), 0x9F, bytes(rng.choice([0, 4, 7]))) + b"".join(
            frame(fr, 0x13, b"\x00" + G.wide(t)) for fr, t, _ in items), kind
    # a "future" block between items, and a record that is not an item
    out = frame((True, 0), 0x9F, struct.pack("<II", len(items), len(items)))
    for fr, t, tl in items:
        if rng.random() < 0.5:
            out += frame((False, 0), 0x23, bytes(4)) + frame((False, 0), 0x13, b"\x00" + G.wide("inside")) + frame((False, 0), 0x24, b"")
        if rng.random() < 0.3:
            out += frame((False, 0), 0x55, bytes(3))
        out += frame(fr, 0x13, b"\x00" + G.wide(t) + tl)
    return out, "future"

def run_malformed(ctx, n, tag):
    rng = ctx.rng
    os.makedirs(TMP, exist_ok=True)
    sheet_lines, file_lines, meta = [], [], []
    for k in range(n):
        env = gen_env(rng)
        L, _ = gen_layout(rng, env, dim_mode=rng.choice(["exact", "zero", "exact"]))
        sst_bytes, _ = gen_sst(rng, env)
        if rng.random() < 0.25:
            sst_bytes, lab = mutate_sst(rng, env)
            part, lab = G.enc_layout(L), "sst-" + lab
        else:
            part, lab = mutate_sheet(rng, L, env)
        top = max([it["row"] for it in L["items"] if it["k"] == "row"] or [0])
        hdr = "-" if rng.random() < 0.85 or top > 2000 else str(rng.randrange(0, 12))
        path = os.path.join(TMP, "%s%d.xlsb" % (tag, k))
        G.write_package(path, [("S", part)], env, sst_bytes, compress=False)
        fm, d19 = env_args(env)
        cid = "%s%d" % (tag, k)
        sheet_lines.append("%s\txlsbrec\tsheet\t%s\t%s\t%s\t%s\t%s" % (
            cid, "none" if sst_bytes is None else hx(sst_bytes), hx(part), fm, d19, hdr))
        file_lines.append("%s\txlsbrec\tfile\t%s\t%s\t%s" % (cid, path, hexs("S"), hdr))
        meta.append((cid, lab, path))
    impls = ctx.run_impl(file_lines)
    # a fault can blow the bounding box up to millions of cells (the real code copes, the
    # unary-nat sizes of the extracted model do not): such cases are counted and left out
    def too_big(a):
        d = split3(a or "")
        if "ref" in d and d["ref"].startswith("R[") and d["ref"] != "R[-]":
            h, w = d["ref"][2:].split("|")[1].split(",")
            return int(h) * int(w) > 300000
        return False
    big = set(cid for cid, _, _ in meta if too_big(impls.get(cid)))
    models = ctx.run_model([l for l in sheet_lines if l.split("\t", 1)[0] not in big], timeout=300)
    for i, (cid, lab, path) in enumerate(meta):
        a, m = impls.get(cid), models.get(cid)
        if cid in big:
            ctx.count("malformed-skipped:huge-range")
            continue
        ctx.traces += 1
        ctx.count("malformed:" + lab)
        cls = (a or "")[:40]
        ctx.nontrivial("mal:%s:%s" % (lab, sheet_lines[i][-200:]))
        ctx.count("malformed-outcome:" + ("panic" if "panic" in cls else "err" if "err" in cls else "ok"))
        if not same_reading(a, m):
            ctx.disagreements.append({"function": "malformed part (%s)" % lab,
                                      "case": file_lines[i] + "\t#model: " + sheet_lines[i][:4000],
                                      "impl": a, "model": m, "file": keep_file(path)})

def cleanup(ctx=None):
    if os.path.isdir(TMP):
        shutil.rmtree(TMP, ignore_errors=True)

def run(ctx):
    if ctx.hooks:
        run_recs(ctx)
    else:
        ctx.notes.append("hooks unavailable: the framing sweep through verif_hooks::xlsb::records did not run")
    run_files(ctx, ctx.scale(2500, 20000), "f")
    run_files(ctx, ctx.scale(300, 3000), "h", hdr_share=0.8)
    run_malformed(ctx, ctx.scale(2500, 20000), "m")
    cleanup(ctx)

def search(ctx):
    run_files(ctx, ctx.scale(6000, 30000), "sf")
    run_malformed(ctx, ctx.scale(4000, 20000), "sm")
    cleanup(ctx)

def replay(ctx, rep):
    case = rep.get("case")
    if isinstance(case, list):
        case = case[0]
    impl_line = case.split("\t#model: ")[0]
    model_line = case.split("\t#model: ")[1] if "\t#model: " in case else impl_line
    lid = impl_line.split("\t", 1)[0]
    f = impl_line.split("\t")
    if len(f) > 3 and f[2] == "file":
        path = rep.get("file") or f[3]
        if not os.path.exists(path):
            print("the generated package is gone; re-run ./check C03 with the same VERIF_SEED to regenerate it")
            return 2
        f[3] = path
        impl_line = "\t".join(f)
    print("replaying:", impl_line[:300])
    impl = ctx.run_impl([impl_line]).get(lid)
    model = ctx.run_model([model_line]).get(lid)
    print("impl    :", impl)
    print("model   :", model)
    print("expected:", rep.get("expected"))
    exp = rep.get("expected") or model
    if exp and exp.startswith("ref="):
        return 0 if same_reading("cells=x#" + exp, "cells=x#" + "#".join((impl or "").split("#")[1:])) else 1
    return 0 if same_reading(impl, model) else 1
