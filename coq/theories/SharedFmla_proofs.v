(* SharedFmla_proofs — proofs for property C15 (xlsx shared formulas).
   Model / spec / known classes: SharedFmla.v.  A1 text lemmas: Col26_proofs.v (agent c14).
   Everything is proved for an arbitrary oracle [is_alnum] (char::is_alphanumeric) that agrees
   with the ASCII definition on ASCII. *)
From Calamine Require Import Prelude Col26 Col26_proofs SharedFmla.
Open Scope N_scope.

(* ------------------------------------------------------------------ lists *)
Lemma span_eq : forall p l, fst (span p l) ++ snd (span p l) = l.
Proof.
  induction l as [|c t IH]; [reflexivity|]. cbn [span]. destruct (p c); cbn [fst snd app].
  - f_equal. exact IH.
  - reflexivity.
Qed.

Lemma span_fst_all : forall p l, forallb p (fst (span p l)) = true.
Proof.
  induction l as [|c t IH]; [reflexivity|]. cbn [span]. destruct (p c) eqn:E; cbn [fst forallb].
  - rewrite E, IH. reflexivity.
  - reflexivity.
Qed.

Definition head_fails (p : N -> bool) (r : list N) : Prop :=
  match r with c :: _ => p c = false | [] => True end.

Lemma span_snd_head : forall p l, head_fails p (snd (span p l)).
Proof.
  induction l as [|c t IH]; [exact I|]. cbn [span]. destruct (p c) eqn:E; cbn [snd].
  - exact IH.
  - exact E.
Qed.

Lemma span_app : forall p a r, forallb p a = true -> head_fails p r -> span p (a ++ r) = (a, r).
Proof.
  induction a as [|c a IH]; intros r Ha Hr.
  - destruct r as [|x r]; [reflexivity|]. cbn in Hr. cbn [app span]. rewrite Hr. reflexivity.
  - cbn [forallb] in Ha. apply andb_prop in Ha as [Hc Ha]. cbn [app span]. rewrite Hc.
    rewrite (IH r Ha Hr). reflexivity.
Qed.

Lemma span_all : forall p l, forallb p l = true -> span p l = (l, []).
Proof. intros p l H. rewrite <- (app_nil_r l) at 1. apply span_app; [exact H|exact I]. Qed.

Lemma span_snd_nil_all : forall p l, snd (span p l) = [] -> forallb p l = true.
Proof.
  intros p l H. pose proof (span_eq p l) as E. rewrite H, app_nil_r in E.
  rewrite <- E. apply span_fst_all.
Qed.

Lemma span_snd_len : forall p l, (length (snd (span p l)) <= length l)%nat.
Proof.
  intros p l. rewrite <- (span_eq p l) at 2. rewrite app_length. lia.
Qed.

Lemma forallb_app_l : forall (p : N -> bool) a b, forallb p (a ++ b) = forallb p a && forallb p b.
Proof. intros. apply forallb_app. Qed.

Lemma Forall_forallb : forall (p : N -> bool) l, Forall (fun x => p x = true) l -> forallb p l = true.
Proof. intros p l H. apply forallb_forall. rewrite Forall_forall in H. exact H. Qed.

Lemma forallb_impl : forall (p q : N -> bool) l,
  (forall c, p c = true -> q c = true) -> forallb p l = true -> forallb q l = true.
Proof.
  intros p q l H Hl. rewrite forallb_forall in *. intros x Hx. apply H, Hl, Hx.
Qed.

Lemma obind_ok : forall A B (a : A) (f : A -> outcome B), (do x <- Ok a; f x) = f a.
Proof. reflexivity. Qed.

(* ------------------------------------------------------------------ ASCII character facts *)
Definition ascii_wordch (c : N) : bool :=
  ascii_alnum c || (c =? ch_uscore) || (c =? ch_dot) || (c =? ch_dollar) || (c =? ch_bslash) ||
  (c =? ch_qmark).

Lemma upper_lt128 : forall c, is_upper c = true -> c < 128.
Proof. intros c H. unfold is_upper, ch_A, ch_Z in H. lia. Qed.
Lemma digit_lt128 : forall c, is_digit c = true -> c < 128.
Proof. intros c H. unfold is_digit, ch_0, ch_9 in H. lia. Qed.
Lemma upper_is_alpha : forall c, is_upper c = true -> is_alpha c = true.
Proof. intros c H. unfold is_alpha. rewrite H. reflexivity. Qed.
Lemma digit_not_alpha : forall c, is_digit c = true -> is_alpha c = false.
Proof. intros c H. unfold is_alpha, is_digit, is_upper, is_lower, ch_0, ch_9, ch_A, ch_Z, ch_a, ch_z in *. lia. Qed.
Lemma to_upper_upper : forall c, is_upper c = true -> to_upper c = c.
Proof.
  intros c H. unfold to_upper. destruct (is_lower c) eqn:L; [|reflexivity].
  unfold is_upper, is_lower, ch_A, ch_Z, ch_a, ch_z in *. lia.
Qed.
Lemma to_upper_is_upper : forall c, is_alpha c = true -> is_upper (to_upper c) = true.
Proof.
  intros c H. unfold to_upper, is_alpha in *. destruct (is_lower c) eqn:L.
  - unfold is_lower, is_upper, ch_a, ch_z, ch_A, ch_Z in *. lia.
  - rewrite orb_false_r in H. exact H.
Qed.

(* ------------------------------------------------------------------ offset_cell_name: the scanners *)
Definition zf26 (acc : Z) (ch : N) : Z := (acc * 26 + (Z.of_N (to_upper ch) - 65 + 1))%Z.
Definition zf10 (acc : Z) (ch : N) : Z := (acc * 10 + (Z.of_N ch - 48))%Z.

Lemma ocn_letters_span : forall l k col, (k <= 3)%nat ->
  ocn_letters l k col =
  if (k + length (fst (span is_alpha l)) <=? 3)%nat
  then Some ((k + length (fst (span is_alpha l)))%nat,
             fold_left zf26 (fst (span is_alpha l)) col, snd (span is_alpha l))
  else None.
Proof.
  induction l as [|c t IH]; intros k col Hk.
  - cbn [ocn_letters span fst snd length fold_left]. rewrite Nat.add_0_r.
    apply Nat.leb_le in Hk. rewrite Hk. reflexivity.
  - cbn [ocn_letters span]. destruct (is_alpha c) eqn:A; cbn [fst snd length fold_left].
    + destruct (3 <=? k)%nat eqn:E.
      * apply Nat.leb_le in E.
        destruct (k + S (length (fst (span is_alpha t))) <=? 3)%nat eqn:E2;
          [apply Nat.leb_le in E2; lia|reflexivity].
      * apply Nat.leb_gt in E. rewrite IH by lia.
        replace (k + S (length (fst (span is_alpha t))))%nat
          with (S k + length (fst (span is_alpha t)))%nat by lia.
        reflexivity.
    + rewrite Nat.add_0_r. apply Nat.leb_le in Hk. rewrite Hk. reflexivity.
Qed.

Lemma ocn_digits_span : forall l k row, (k <= 7)%nat ->
  ocn_digits l k row =
  if (k + length (fst (span is_digit l)) <=? 7)%nat
  then Some ((k + length (fst (span is_digit l)))%nat,
             fold_left zf10 (fst (span is_digit l)) row, snd (span is_digit l))
  else None.
Proof.
  induction l as [|c t IH]; intros k row Hk.
  - cbn [ocn_digits span fst snd length fold_left]. rewrite Nat.add_0_r.
    apply Nat.leb_le in Hk. rewrite Hk. reflexivity.
  - cbn [ocn_digits span]. destruct (is_digit c) eqn:A; cbn [fst snd length fold_left].
    + destruct (7 <=? k)%nat eqn:E.
      * apply Nat.leb_le in E.
        destruct (k + S (length (fst (span is_digit t))) <=? 7)%nat eqn:E2;
          [apply Nat.leb_le in E2; lia|reflexivity].
      * apply Nat.leb_gt in E. rewrite IH by lia.
        replace (k + S (length (fst (span is_digit t))))%nat
          with (S k + length (fst (span is_digit t)))%nat by lia.
        reflexivity.
    + rewrite Nat.add_0_r. apply Nat.leb_le in Hk. rewrite Hk. reflexivity.
Qed.

(* the i64 accumulators are the N readings of Col26 *)
Lemma zfold26 : forall a x, forallb is_alpha a = true ->
  fold_left zf26 a (Z.of_N x)
  = Z.of_N (fold_left (fun acc ch => acc * 26 + letter_val ch) (map to_upper a) x).
Proof.
  induction a as [|c a IH]; intros x H; [reflexivity|].
  cbn [forallb] in H. apply andb_prop in H as [Hc Ha]. cbn [map fold_left].
  rewrite <- IH by exact Ha. f_equal. unfold zf26, letter_val.
  pose proof (to_upper_is_upper c Hc) as U. unfold is_upper, ch_A, ch_Z in U. unfold ch_A. lia.
Qed.

Lemma zfold10 : forall a x, forallb is_digit a = true ->
  fold_left zf10 a (Z.of_N x) = Z.of_N (fold_left (fun acc ch => acc * 10 + (ch - ch_0)) a x).
Proof.
  induction a as [|c a IH]; intros x H; [reflexivity|].
  cbn [forallb] in H. apply andb_prop in H as [Hc Ha]. cbn [fold_left].
  rewrite <- IH by exact Ha. f_equal. unfold zf10.
  unfold is_digit, ch_0, ch_9 in Hc. unfold ch_0. lia.
Qed.

Lemma zcol_of : forall a, forallb is_alpha a = true ->
  fold_left zf26 a 0%Z = Z.of_N (col1_of_letters (map to_upper a)).
Proof. intros a H. exact (zfold26 a 0 H). Qed.
Lemma zrow_of : forall a, forallb is_digit a = true -> fold_left zf10 a 0%Z = Z.of_N (undec a).
Proof. intros a H. exact (zfold10 a 0 H). Qed.

Lemma starts_dollar_notin : forall l, ~ In ch_dollar l -> starts_dollar l = false.
Proof.
  intros [|c l] H; [reflexivity|]. cbn. apply N.eqb_neq. intros E. apply H. left. exact E.
Qed.

(* a name without '$' that is not a cell name is never translated *)
Lemma ocn_parse_not_cell : forall n,
  ~ In ch_dollar n -> is_cell_name n = false -> ocn_parse n = None.
Proof.
  intros n Hd Hc. unfold ocn_parse. rewrite (starts_dollar_notin n Hd). cbn iota.
  rewrite ocn_letters_span by lia. cbn [Nat.add].
  unfold is_cell_name in Hc. cbv zeta in Hc.
  pose proof (span_eq is_alpha n) as En. pose proof (span_fst_all is_alpha n) as Ha.
  revert Hc En Ha. destruct (span is_alpha n) as [a r]. cbn [fst snd]. intros Hc En Ha.
  destruct (length a <=? 3)%nat eqn:L3; [|reflexivity].
  destruct (length a =? 0)%nat eqn:L0; [reflexivity|].
  assert (Hr : ~ In ch_dollar r).
  { intros C. apply Hd. rewrite <- En. apply in_or_app. right. exact C. }
  rewrite (starts_dollar_notin r Hr). cbn iota.
  rewrite ocn_digits_span by lia. cbn [Nat.add].
  pose proof (span_eq is_digit r) as Er. pose proof (span_fst_all is_digit r) as Hds.
  revert Er Hds. destruct (span is_digit r) as [ds r3]. cbn [fst snd]. intros Er Hds.
  destruct (length ds <=? 7)%nat eqn:L7; [|reflexivity].
  destruct (length ds =? 0)%nat eqn:D0; [reflexivity|]. cbn [orb].
  destruct r3 as [|x r3']; [|reflexivity]. cbn [is_nil negb orb].
  rewrite app_nil_r in Er. subst ds.
  destruct (hd 0 r =? ch_0) eqn:H0; [reflexivity|].
  rewrite zcol_of by exact Ha. rewrite zrow_of by exact Hds.
  assert (Na : nonempty a = true).
  { destruct a; [discriminate L0|reflexivity]. }
  assert (Nr : nonempty r = true).
  { destruct r; [discriminate D0|reflexivity]. }
  rewrite ?Na, ?L3, ?Nr, ?Hds, ?L7, ?H0 in Hc. cbn [andb negb] in Hc.
  unfold ZROWS, ZCOLS. unfold MAX_COLUMNS, MAX_ROWS in Hc.
  destruct ((1048576 <=? Z.of_N (undec r) - 1)%Z || (16384 <=? Z.of_N (col1_of_letters (map to_upper a)) - 1)%Z) eqn:E;
    [reflexivity|].
  exfalso. lia.
Qed.

(* words that start with a digit, or consist of [$]letters only, or of [$]digits only *)
Lemma ocn_parse_digit_start : forall d l, is_digit d = true -> ocn_parse (d :: l) = None.
Proof.
  intros d l H. unfold ocn_parse.
  assert (E : starts_dollar (d :: l) = false).
  { cbn. apply N.eqb_neq. unfold is_digit, ch_0, ch_9 in H. unfold ch_dollar. lia. }
  rewrite E. cbn iota. cbn [ocn_letters]. rewrite (digit_not_alpha d H). reflexivity.
Qed.

Lemma ocn_parse_dollar_digit : forall d l, is_digit d = true -> ocn_parse (ch_dollar :: d :: l) = None.
Proof.
  intros d l H. unfold ocn_parse. cbn [starts_dollar]. rewrite N.eqb_refl. cbn [tl ocn_letters].
  rewrite (digit_not_alpha d H). reflexivity.
Qed.

Lemma letters_all_alpha : forall c, forallb is_alpha (letters c) = true.
Proof.
  intros c. apply Forall_forallb. eapply Forall_impl; [|apply letters_upper].
  intros x Hx. apply upper_is_alpha. exact Hx.
Qed.
Lemma letters_map_upper : forall c, map to_upper (letters c) = letters c.
Proof.
  intros c. pose proof (letters_upper c) as F. induction F as [|x l Hx F IH]; [reflexivity|].
  cbn [map]. rewrite to_upper_upper by exact Hx. rewrite IH. reflexivity.
Qed.
Lemma letters_head_not_dollar : forall c, starts_dollar (letters c) = false.
Proof.
  intros c. pose proof (letters_upper c) as F. destruct (letters c) as [|x l]; [reflexivity|].
  inversion F; subst. cbn. apply N.eqb_neq. unfold is_upper, ch_A, ch_Z in *. unfold ch_dollar. lia.
Qed.
Lemma dec_all_digit : forall n, forallb is_digit (dec n) = true.
Proof. intros n. apply Forall_forallb. apply dec_digits. Qed.
Lemma dec_head : forall n, exists d l, dec n = d :: l /\ is_digit d = true.
Proof.
  intros n. pose proof (dec_digits n) as F. pose proof (dec_nonempty n) as Ne.
  destruct (dec n) as [|d l]; [contradiction|]. inversion F; subst. eauto.
Qed.
Lemma letters_len3 : forall c, c < 16384 -> (length (letters c) <= 3)%nat.
Proof.
  intros c H. apply letters_length_le with (k := 2%nat). change (26 ^ N.of_nat 3) with 17576. lia.
Qed.
Lemma dec_len7 : forall n, n <= 1048576 -> (length (dec n) <= 7)%nat.
Proof.
  intros n H. apply dec_length_le with (k := 6%nat). change (10 ^ N.of_nat 7) with 10000000. lia.
Qed.

(* the decimal text of a positive number has no leading zero *)
Lemma dec_head_nonzero : forall n, 0 < n -> hd 0 (dec n) <> ch_0.
Proof.
  intros n. pattern n. apply dec_ind; clear n.
  - intros n Hn H0. rewrite dec_eq. apply N.ltb_lt in Hn. rewrite Hn. cbn [hd]. unfold ch_0. lia.
  - intros n Hn IH H0. rewrite dec_eq. apply N.ltb_ge in Hn as Hn'. rewrite Hn'.
    destruct (dec_head (n / 10)) as (d & l & E & _). rewrite E in *. cbn [app hd] in *.
    apply IH. lia.
Qed.

Lemma ocn_parse_letters_only : forall a c, ocn_parse (dollar a ++ letters c) = None.
Proof.
  intros a c. unfold ocn_parse.
  assert (E : (if starts_dollar (dollar a ++ letters c) then tl (dollar a ++ letters c)
               else dollar a ++ letters c) = letters c).
  { destruct a; cbn [dollar app].
    - cbn [starts_dollar]. rewrite N.eqb_refl. reflexivity.
    - rewrite letters_head_not_dollar. reflexivity. }
  rewrite E. rewrite ocn_letters_span by lia. cbn [Nat.add].
  rewrite (span_all is_alpha (letters c) (letters_all_alpha c)). cbn [fst snd].
  destruct (length (letters c) <=? 3)%nat; [|reflexivity].
  destruct (length (letters c) =? 0)%nat; [reflexivity|].
  cbn [starts_dollar ocn_digits]. reflexivity.
Qed.

Lemma ocn_parse_digits_only : forall a n, ocn_parse (dollar a ++ dec n) = None.
Proof.
  intros a n. destruct (dec_head n) as (d & l & E & Hd). rewrite E.
  destruct a; cbn [dollar app].
  - apply ocn_parse_dollar_digit. exact Hd.
  - apply ocn_parse_digit_start. exact Hd.
Qed.

(* a rendered reference parses to its position *)
Lemma ocn_parse_ref : forall ca c ra r, c < 16384 -> r < 1048576 ->
  ocn_parse (render_ref ca c ra r) = Some (ca, Z.of_N c, ra, Z.of_N r).
Proof.
  intros ca c ra r Hc Hr. unfold ocn_parse, render_ref, a1_ref.
  set (rest := (if negb ra then [] else [ch_dollar]) ++ dec (r + 1)).
  assert (E0 : starts_dollar ((if negb ca then [] else [ch_dollar]) ++ letters c ++ rest) = ca).
  { destruct ca; cbn [negb app].
    - cbn [starts_dollar]. apply N.eqb_refl.
    - destruct (letters c) as [|x l] eqn:El; [exfalso; exact (letters_nonempty c El)|].
      pose proof (letters_head_not_dollar c) as H. rewrite El in H. exact H. }
  rewrite E0.
  assert (E1 : (if ca then tl ((if negb ca then [] else [ch_dollar]) ++ letters c ++ rest)
                else (if negb ca then [] else [ch_dollar]) ++ letters c ++ rest) = letters c ++ rest).
  { destruct ca; reflexivity. }
  rewrite E1. clear E0 E1.
  destruct (dec_head (r + 1)) as (d & dl & Ed & Hd).
  assert (Hrest : head_fails is_alpha rest).
  { unfold rest. destruct ra; cbn [negb app]; [reflexivity|]. rewrite Ed. cbn.
    apply digit_not_alpha. exact Hd. }
  rewrite ocn_letters_span by lia. cbn [Nat.add].
  rewrite (span_app is_alpha (letters c) rest (letters_all_alpha c) Hrest). cbn [fst snd].
  pose proof (letters_len3 c Hc) as L3. apply Nat.leb_le in L3. rewrite L3.
  destruct (length (letters c) =? 0)%nat eqn:L0.
  { apply Nat.eqb_eq in L0. destruct (letters c) eqn:El; [exfalso; exact (letters_nonempty c El)|discriminate L0]. }
  assert (E2 : starts_dollar rest = ra).
  { unfold rest. destruct ra; cbn [negb app].
    - cbn. apply N.eqb_refl.
    - rewrite Ed. cbn. apply N.eqb_neq. unfold is_digit, ch_0, ch_9 in Hd. unfold ch_dollar. lia. }
  rewrite E2.
  assert (E3 : (if ra then tl rest else rest) = dec (r + 1)).
  { unfold rest. destruct ra; reflexivity. }
  rewrite E3. rewrite ocn_digits_span by lia. cbn [Nat.add].
  rewrite (span_all is_digit (dec (r + 1)) (dec_all_digit (r + 1))). cbn [fst snd].
  pose proof (@dec_len7 (r + 1) ltac:(lia)) as L7. apply Nat.leb_le in L7. rewrite L7.
  destruct (length (dec (r + 1)) =? 0)%nat eqn:D0.
  { apply Nat.eqb_eq in D0. rewrite Ed in D0. discriminate D0. }
  cbn [is_nil negb orb].
  destruct (hd 0 (dec (r + 1)) =? ch_0) eqn:H0.
  { apply N.eqb_eq in H0. exfalso. apply (@dec_head_nonzero (r + 1)); [lia|exact H0]. }
  rewrite zcol_of by apply letters_all_alpha. rewrite zrow_of by apply dec_all_digit.
  rewrite letters_map_upper, col1_of_letters_letters, undec_dec.
  unfold ZROWS, ZCOLS.
  destruct ((1048576 <=? Z.of_N (r + 1) - 1)%Z || (16384 <=? Z.of_N (c + 1) - 1)%Z) eqn:E; [exfalso; lia|].
  replace (Z.of_N (c + 1) - 1)%Z with (Z.of_N c) by lia.
  replace (Z.of_N (r + 1) - 1)%Z with (Z.of_N r) by lia. reflexivity.
Qed.

(* ------------------------------------------------------------------ the A1 scanner of HEAD (Col26) *)
Definition no_panic {A} (o : outcome A) : Prop :=
  match o with Ok _ => True | Err _ => True | Panic => False | OutOfFuel => False end.

Lemma ne_no_panic : forall A (o : outcome A), o <> Panic /\ o <> OutOfFuel -> no_panic o.
Proof. intros A [a|e| |] [H1 H2]; cbn; auto. Qed.

(* from Col26_proofs (the totality theorems behind C14_no_panic_a1) *)
Theorem get_row_column_np : forall range, no_panic (get_row_column range).
Proof. intros range. apply ne_no_panic, get_row_column_total. Qed.
(* get_dimension never panics, whatever the attribute holds (reversed, huge, empty, garbage) *)
Theorem get_dimension_np : forall d, no_panic (get_dimension d).
Proof. intros d. apply ne_no_panic, get_dimension_total. Qed.

(* results are u32 *)
Theorem get_row_column_u32 : forall range r c,
  get_row_column range = Ok (r, c) -> r <= U32MAX /\ c <= U32MAX.
Proof.
  intros range r c H. unfold get_row_column, get_row_and_optional_column in H.
  destruct (scan_loop (rev range) scan_init) as [s| | |]; cbn [obind] in H; try discriminate H.
  destruct (s_row s =? 0); [discriminate H|].
  destruct (U32MAX <? s_row s - 1) eqn:E1; [discriminate H|].
  destruct (s_col s =? 0); cbn [negb andb obind snd fst] in H; [discriminate H|].
  destruct (U32MAX <? s_col s - 1) eqn:E2; cbn [obind snd fst] in H; [discriminate H|].
  inversion H; subst. apply N.ltb_ge in E1, E2. split; assumption.
Qed.

(* an inverted ref is now accepted and kept as it stands (it used to panic) *)
Example get_dimension_examples :
  get_dimension [66;50;58;65;49] = Ok ((1, 1), (0, 0)) /\                (* B2:A1 *)
  get_row_column [70;65;66;68;97;68;122;57] = Ok (8, 1866361093) /\      (* FABDaDz9 *)
  get_row_column [65;52;50;57;52;57;54;55;50;57;55] = Err E_RANGE /\     (* A4294967297 *)
  get_row_column [65;52;50;57;52;57;54;55;50;57;54] = Ok (4294967295, 0).  (* A4294967296 *)
Proof. vm_compute. repeat split. Qed.

Section Run.
(* no assumption on the oracle here: totality holds for ANY is_alnum *)
Variable is_alnum : N -> bool.
Local Notation wordch := (is_formula_word_char is_alnum).
Local Notation rcn := (replace_cell_names is_alnum).

(* ------------------------------------------------------------------ fuel *)
Lemma scan_quote_len : forall q l, (length (snd (scan_quote q l)) <= length l)%nat.
Proof.
  induction l as [|x t IH]; [cbn; lia|]. cbn [scan_quote]. destruct (x =? q); cbn [snd length]; lia.
Qed.

Lemma scan_bracket_len : forall l d e r,
  scan_bracket l d = Ok (e, r) -> (length r <= length l)%nat /\ (l <> [] -> length r < length l)%nat.
Proof.
  induction l as [|x t IH]; intros d e r H.
  - cbn in H. inversion H. subst. split; [cbn; lia|]. intros C. contradiction.
  - cbn [scan_bracket] in H.
    destruct (if x =? ch_lbrack then Ok (d + 1)
              else if x =? ch_rbrack then (if d =? 0 then Panic else Ok (d - 1)) else Ok d)
      as [d'| | |] eqn:Ed; cbn [obind] in H; try discriminate H.
    destruct (d' =? 0).
    + inversion H. subst. cbn [length]. split; [lia|intros _; lia].
    + destruct (scan_bracket t d') as [[e' r']| | |] eqn:Er; cbn [obind] in H; try discriminate H.
      cbn [fst snd] in H. inversion H. subst. destruct (IH _ _ _ Er) as [L _].
      cbn [length]. split; [lia|intros _; lia].
Qed.

Lemma rcn_step_len : forall off c t e r,
  rcn_step is_alnum off c t = Ok (e, r) -> (length r <= length t)%nat.
Proof.
  intros off c t e r H. unfold rcn_step in H.
  destruct ((c =? ch_dquote) || (c =? ch_apos)).
  { inversion H. subst. apply scan_quote_len. }
  destruct (c =? ch_lbrack).
  { apply scan_bracket_len in H as [_ H]. specialize (H ltac:(discriminate)). cbn [length] in H. lia. }
  destruct (wordch c) eqn:W.
  - cbn [span] in H. rewrite W in H. cbn [fst snd] in H.
    match type of H with (do _ <- ?X; _) = _ => destruct X as [tr| | |] end;
      cbn [obind] in H; try discriminate H.
    inversion H. subst. apply span_snd_len.
  - inversion H. subst. lia.
Qed.

Lemma rcn_loop_fuel : forall off n f1 f2 l res,
  (length l <= n)%nat -> (length l < f1)%nat -> (length l < f2)%nat ->
  rcn_loop is_alnum f1 off l res = rcn_loop is_alnum f2 off l res.
Proof.
  induction n as [|n IH]; intros f1 f2 l res Hn H1 H2.
  - destruct l; [|cbn in Hn; lia]. destruct f1, f2; try lia. reflexivity.
  - destruct f1 as [|f1]; [lia|]. destruct f2 as [|f2]; [lia|].
    destruct l as [|c t]; [reflexivity|]. cbn [rcn_loop].
    destruct (rcn_step is_alnum off c t) as [[e r]| | |] eqn:E; cbn [obind]; try reflexivity.
    apply rcn_step_len in E. cbn [length] in *. cbn [fst snd]. apply IH; lia.
Qed.

(* the loop with the fuel of the model: fuel-free unfolding equations *)
Definition run_with (off : Z * Z) (l res : list N) : outcome (list N) :=
  rcn_loop is_alnum (S (length l)) off l res.

Lemma rcn_run : forall s off, rcn s off = run_with off s [].
Proof. reflexivity. Qed.
Lemma run_nil : forall off res, run_with off [] res = Ok res.
Proof. reflexivity. Qed.
Lemma run_cons : forall off c t res,
  run_with off (c :: t) res = do er <- rcn_step is_alnum off c t; run_with off (snd er) (res ++ fst er).
Proof.
  intros off c t res. unfold run_with. cbn [length].
  change (rcn_loop is_alnum (S (S (length t))) off (c :: t) res)
    with (do er <- rcn_step is_alnum off c t;
          rcn_loop is_alnum (S (length t)) off (snd er) (res ++ fst er)).
  destruct (rcn_step is_alnum off c t) as [[e r]| | |] eqn:E; cbn [obind]; try reflexivity.
  cbn [fst snd]. apply rcn_step_len in E.
  apply rcn_loop_fuel with (n := length r); lia.
Qed.

(* ------------------------------------------------------------------ no panic, no error, enough fuel *)
(* offsets far beyond any sheet: |d| <= 2^62 *)
Definition off_small (off : Z * Z) : Prop :=
  (- 4611686018427387904 <= fst off <= 4611686018427387904 /\
   - 4611686018427387904 <= snd off <= 4611686018427387904)%Z.

Lemma scan_bracket_ok : forall l d, 0 < d -> exists er, scan_bracket l d = Ok er.
Proof.
  induction l as [|x t IH]; intros d Hd; [eexists; reflexivity|]. cbn [scan_bracket].
  destruct (x =? ch_lbrack).
  - cbn [obind]. destruct (d + 1 =? 0) eqn:E; [eexists; reflexivity|].
    destruct (IH (d + 1) ltac:(lia)) as (er & Her). rewrite Her. eexists; reflexivity.
  - destruct (x =? ch_rbrack).
    + destruct (d =? 0) eqn:E0; [apply N.eqb_eq in E0; lia|]. cbn [obind].
      destruct (d - 1 =? 0) eqn:E; [eexists; reflexivity|].
      apply N.eqb_neq in E. destruct (IH (d - 1) ltac:(lia)) as (er & Her). rewrite Her.
      eexists; reflexivity.
    + cbn [obind]. destruct (d =? 0) eqn:E; [eexists; reflexivity|].
      destruct (IH d Hd) as (er & Her). rewrite Her. eexists; reflexivity.
Qed.

Lemma fold26_nonneg_alpha : forall a x, forallb is_alpha a = true -> (0 <= x)%Z ->
  (0 <= fold_left zf26 a x)%Z.
Proof.
  induction a as [|c a IH]; intros x Ha Hx; [exact Hx|]. cbn [fold_left forallb] in *.
  apply andb_prop in Ha as [Hc Ha]. apply IH; [exact Ha|].
  unfold zf26. pose proof (to_upper_is_upper c Hc) as U. unfold is_upper, ch_A, ch_Z in U. lia.
Qed.
Lemma fold10_nonneg : forall a x, forallb is_digit a = true -> (0 <= x)%Z ->
  (0 <= fold_left zf10 a x)%Z.
Proof.
  induction a as [|c a IH]; intros x Ha Hx; [exact Hx|]. cbn [fold_left forallb] in *.
  apply andb_prop in Ha as [Hc Ha]. apply IH; [exact Ha|].
  unfold zf10. unfold is_digit, ch_0, ch_9 in Hc. lia.
Qed.

Lemma ocn_parse_bounds : forall name ca col ra row,
  ocn_parse name = Some (ca, col, ra, row) -> (-1 <= row < 1048576 /\ -1 <= col < 16384)%Z.
Proof.
  intros name ca col ra row H. unfold ocn_parse in H.
  rewrite ocn_letters_span in H by lia. cbn [Nat.add] in H.
  set (l0 := if starts_dollar name then tl name else name) in *.
  pose proof (span_fst_all is_alpha l0) as Ha.
  destruct (span is_alpha l0) as [a l1]. cbn [fst snd] in *.
  destruct (length a <=? 3)%nat; [|discriminate H].
  destruct (length a =? 0)%nat; [discriminate H|].
  rewrite ocn_digits_span in H by lia. cbn [Nat.add] in H.
  set (l2 := if starts_dollar l1 then tl l1 else l1) in *.
  pose proof (span_fst_all is_digit l2) as Hd.
  destruct (span is_digit l2) as [ds l3]. cbn [fst snd] in *.
  destruct (length ds <=? 7)%nat; [|discriminate H].
  destruct ((length ds =? 0)%nat || negb (is_nil l3) || (hd 0 l2 =? ch_0)); [discriminate H|].
  pose proof (fold26_nonneg_alpha a 0%Z Ha ltac:(lia)) as P1.
  pose proof (fold10_nonneg ds 0%Z Hd ltac:(lia)) as P2.
  unfold ZROWS, ZCOLS in H.
  destruct ((1048576 <=? fold_left zf10 ds 0 - 1)%Z || (16384 <=? fold_left zf26 a 0 - 1)%Z) eqn:E;
    [discriminate H|].
  inversion H; subst. lia.
Qed.

Lemma ocn_total : forall w off, off_small off -> exists o, offset_cell_name w off = Ok o.
Proof.
  intros w [dr dc] [Hr Hc]. cbn [fst snd] in *. unfold offset_cell_name.
  destruct (ocn_parse w) as [[[[ca col] ra] row]|] eqn:P; [|eexists; reflexivity].
  apply ocn_parse_bounds in P. unfold ocn_apply. cbn [fst snd].
  assert (E1 : exists row', (if ra then Ok row else add_i64 row dr) = Ok row').
  { destruct ra; [eexists; reflexivity|]. unfold add_i64, I64MIN, I64MAX.
    destruct ((-9223372036854775808 <=? row + dr)%Z && (row + dr <=? 9223372036854775807)%Z) eqn:E;
      [eexists; reflexivity|lia]. }
  assert (E2 : exists col', (if ca then Ok col else add_i64 col dc) = Ok col').
  { destruct ca; [eexists; reflexivity|]. unfold add_i64, I64MIN, I64MAX.
    destruct ((-9223372036854775808 <=? col + dc)%Z && (col + dc <=? 9223372036854775807)%Z) eqn:E;
      [eexists; reflexivity|lia]. }
  destruct E1 as (row' & E1). destruct E2 as (col' & E2). rewrite E1, E2. cbn [obind].
  destruct (in_sheet row' col') eqn:S; cbn [negb]; [|eexists; reflexivity].
  unfold in_sheet, ZROWS, ZCOLS in S.
  assert (E4 : as_u32 col' = Z.to_N col').
  { unfold as_u32. rewrite Z.mod_small by lia. reflexivity. }
  rewrite E4. rewrite column_number_to_name_is_letters by lia. eexists; reflexivity.
Qed.

Lemma rcn_step_total : forall off c t, off_small off ->
  exists er, rcn_step is_alnum off c t = Ok er.
Proof.
  intros off c t Hoff. unfold rcn_step.
  destruct ((c =? ch_dquote) || (c =? ch_apos)); [eexists; reflexivity|].
  destruct (c =? ch_lbrack) eqn:B.
  { cbn [scan_bracket]. rewrite B. cbn [obind]. change (0 + 1 =? 0) with false. cbn iota.
    destruct (scan_bracket_ok t (0 + 1) ltac:(lia)) as (er & Her). rewrite Her.
    eexists; reflexivity. }
  destruct (wordch c); [|eexists; reflexivity].
  set (wr := span wordch (c :: t)).
  destruct (ocn_total (fst wr) off Hoff) as (o & Ho).
  destruct (snd wr) as [|x r'].
  - rewrite Ho. eexists; reflexivity.
  - destruct ((x =? ch_lparen) || (x =? ch_bang)); [eexists; reflexivity|].
    rewrite Ho. eexists; reflexivity.
Qed.

Lemma run_total : forall off, off_small off ->
  forall n l res, (length l <= n)%nat -> exists r, run_with off l res = Ok r.
Proof.
  intros off Hoff. induction n as [|n IH]; intros l res Hl.
  - destruct l; [eexists; apply run_nil|cbn in Hl; lia].
  - destruct l as [|c t]; [eexists; apply run_nil|]. rewrite run_cons.
    destruct (rcn_step_total off c t Hoff) as ([e r] & Hs). rewrite Hs. cbn [obind fst snd].
    apply IH. apply rcn_step_len in Hs. cbn [length] in Hl. lia.
Qed.

(* replace_cell_names is total on every text: never a panic (bracket depth, i64), never an
   error, the fuel of the model suffices *)
Theorem rcn_total : forall s off, off_small off -> exists r, rcn s off = Ok r.
Proof. intros s off Hoff. rewrite rcn_run. apply (run_total off Hoff (length s)). lia. Qed.

Lemma off_ok_small : forall off, off_ok off = true -> off_small off.
Proof.
  intros [dr dc] H. unfold off_ok, MAX_ROWS, MAX_COLUMNS in H. unfold off_small. cbn [fst snd] in *. lia.
Qed.

(* ------------------------------------------------------------------ next_formula never panics *)
(* positions are u32 in the Rust code (a typing constraint, not a well-formedness condition) *)
Definition u32_pos (p : N * N) : Prop := fst p <= U32MAX /\ snd p <= U32MAX.
Definition fs_u32 (fs : fmap) : Prop :=
  forall si f d m, fm_get fs si = Some (f, (d, m)) -> u32_pos m.

Lemma diff_small : forall p m, u32_pos p -> u32_pos m ->
  off_small ((Z.of_N (fst p) - Z.of_N (fst m))%Z, (Z.of_N (snd p) - Z.of_N (snd m))%Z).
Proof.
  intros p m [P1 P2] [M1 M2]. unfold off_small, U32MAX in *. cbn [fst snd]. lia.
Qed.

Lemma cell_step_np : forall fs pos k, fs_u32 fs -> u32_pos pos ->
  match cell_step is_alnum fs pos k with
  | Ok r => fs_u32 (fst r) | Err _ => True | Panic => False | OutOfFuel => False
  end.
Proof.
  intros fs pos k Hfs Hp. destruct k as [|f|si ref f|si own|]; cbn [cell_step fst]; try exact Hfs; try exact I.
  - pose proof (get_dimension_np ref) as D.
    destruct (get_dimension ref) as [d| | |]; cbn [obind]; try exact D.
    cbn [fst]. intros si' f' d' m' G. unfold fm_insert in G. cbn [fm_get] in G.
    destruct (si =? si').
    + inversion G; subst. exact Hp.
    + exact (Hfs _ _ _ _ G).
  - destruct (fm_get fs si) as [[f [dims master]]|] eqn:G; [|exact Hfs].
    destruct (contains dims pos); [|exact Hfs].
    destruct (rcn_total f _ (diff_small pos master Hp (Hfs _ _ _ _ G))) as (r & Hr).
    rewrite Hr. cbn [obind fst]. exact Hfs.
Qed.

Lemma run_cells_np : forall cells fs, fs_u32 fs -> Forall (fun c : fcell => u32_pos (fst c)) cells ->
  no_panic (run_cells is_alnum fs cells).
Proof.
  induction cells as [|[pos k] cells IH]; intros fs Hfs Hc; [exact I|].
  inversion Hc as [|x l Hp Hc']; subst. cbn [fst] in Hp. cbn [run_cells].
  pose proof (cell_step_np fs pos k Hfs Hp) as S.
  destruct (cell_step is_alnum fs pos k) as [r| | |]; cbn [obind]; try exact S.
  pose proof (IH (fst r) S Hc') as R.
  destruct (run_cells is_alnum (fst r) cells) as [rest| | |]; cbn [obind]; first [exact R | exact I].
Qed.

(* the shared-formula part of next_formula / worksheet_formula on ANY sequence of cells (any ref
   attribute, any text, any order): an error at worst, never a panic, never out of fuel *)
Theorem next_formula_np : forall cells, Forall (fun c : fcell => u32_pos (fst c)) cells ->
  no_panic (run_cells is_alnum [] cells) /\ no_panic (sheet_formulas is_alnum cells).
Proof.
  intros cells Hc.
  assert (H0 : fs_u32 []) by (intros si f d m G; discriminate G).
  pose proof (run_cells_np cells [] H0 Hc) as R. split; [exact R|].
  unfold sheet_formulas. destruct (run_cells is_alnum [] cells); cbn [obind]; first [exact R | exact I].
Qed.

End Run.

Section Proofs.
Variable is_alnum : N -> bool.
Hypothesis is_alnum_ascii : forall c, c < 128 -> is_alnum c = ascii_alnum c.

Local Notation wordch := (is_formula_word_char is_alnum).
Local Notation rcn := (replace_cell_names is_alnum).
Local Notation run := (run_with is_alnum).

Lemma wordch_ascii : forall c, c < 128 -> wordch c = ascii_wordch c.
Proof.
  intros c H. unfold is_formula_word_char, ascii_wordch. rewrite is_alnum_ascii by exact H.
  reflexivity.
Qed.

Lemma word_char_eq : forall c, word_char is_alnum c = wordch c.
Proof.
  intros c. unfold word_char, dname_char, uname_char, is_formula_word_char.
  destruct (is_alnum c), (c =? ch_uscore), (c =? ch_dot), (c =? ch_dollar), (c =? ch_bslash),
    (c =? ch_qmark); reflexivity.
Qed.

Lemma wordch_upper : forall c, is_upper c = true -> wordch c = true.
Proof.
  intros c H. rewrite wordch_ascii by (apply upper_lt128; exact H).
  unfold ascii_wordch, ascii_alnum, is_alpha. rewrite H. reflexivity.
Qed.
Lemma wordch_digit : forall c, is_digit c = true -> wordch c = true.
Proof.
  intros c H. rewrite wordch_ascii by (apply digit_lt128; exact H).
  unfold ascii_wordch, ascii_alnum. rewrite H, orb_true_r. reflexivity.
Qed.
Lemma wordch_dollar : wordch ch_dollar = true.
Proof. rewrite wordch_ascii by reflexivity. reflexivity. Qed.
Lemma wordch_uname : forall c, uname_char is_alnum c = true -> wordch c = true.
Proof.
  intros c H. rewrite <- word_char_eq. unfold word_char, dname_char. rewrite H. reflexivity.
Qed.
Lemma wordch_dname : forall c, dname_char is_alnum c = true -> wordch c = true.
Proof.
  intros c H. rewrite <- word_char_eq. unfold word_char. rewrite H. reflexivity.
Qed.
(* a word character is none of the characters the scanner treats specially *)
Lemma wordch_not_special : forall c, wordch c = true ->
  (c =? ch_dquote) = false /\ (c =? ch_apos) = false /\ (c =? ch_lbrack) = false.
Proof.
  intros c H. repeat split.
  - destruct (c =? ch_dquote) eqn:E; [|reflexivity]. apply N.eqb_eq in E. subst c.
    rewrite wordch_ascii in H by reflexivity. discriminate H.
  - destruct (c =? ch_apos) eqn:E; [|reflexivity]. apply N.eqb_eq in E. subst c.
    rewrite wordch_ascii in H by reflexivity. discriminate H.
  - destruct (c =? ch_lbrack) eqn:E; [|reflexivity]. apply N.eqb_eq in E. subst c.
    rewrite wordch_ascii in H by reflexivity. discriminate H.
Qed.
Lemma dname_not_dollar : forall c, dname_char is_alnum c = true -> c <> ch_dollar.
Proof.
  intros c H E. subst c. unfold dname_char, uname_char in H.
  rewrite is_alnum_ascii in H by reflexivity. discriminate H.
Qed.

(* ------------------------------------------------------------------ one step, by kind of first char *)
Definition plain_char (c : N) : Prop :=
  wordch c = false /\ c <> ch_dquote /\ c <> ch_apos /\ c <> ch_lbrack.

Lemma run_other : forall off c s res, plain_char c -> run off (c :: s) res = run off s (res ++ [c]).
Proof.
  intros off c s res (W & H1 & H2 & H3). rewrite run_cons. unfold rcn_step.
  apply N.eqb_neq in H1, H2, H3. rewrite H1, H2, H3, W. reflexivity.
Qed.

(* the separator condition for the text after a word *)
Definition sep_start (s : list N) : Prop :=
  match s with [] => True | c :: _ => wordch c = false /\ c <> ch_lparen /\ c <> ch_bang end.
Definition next_call (s : list N) : bool :=
  match s with x :: _ => (x =? ch_lparen) || (x =? ch_bang) | [] => false end.

Lemma run_word : forall off w s res,
  w <> [] -> forallb wordch w = true -> head_fails wordch s ->
  run off (w ++ s) res =
  do tr <- (if next_call s then Ok None else offset_cell_name w off);
  run off s (res ++ match tr with Some nm => nm | None => w end).
Proof.
  intros off w s res Hne Hw Hs. destruct w as [|c w']; [contradiction|].
  cbn [app]. rewrite run_cons. unfold rcn_step.
  cbn [forallb] in Hw. apply andb_prop in Hw as [Hc Hw'].
  destruct (wordch_not_special c Hc) as (E1 & E2 & E3). rewrite E1, E2, E3, Hc. cbn [orb].
  change (c :: w' ++ s) with ((c :: w') ++ s).
  rewrite span_app; [|cbn [forallb]; rewrite Hc, Hw'; reflexivity|exact Hs]. cbn [fst snd].
  unfold next_call. destruct s as [|x s'].
  - destruct (offset_cell_name (c :: w') off) as [tr| | |]; reflexivity.
  - destruct ((x =? ch_lparen) || (x =? ch_bang)); [reflexivity|].
    destruct (offset_cell_name (c :: w') off) as [tr| | |]; reflexivity.
Qed.

(* a word that is reproduced unchanged *)
Lemma run_word_inert : forall off w s res,
  w <> [] -> forallb wordch w = true -> head_fails wordch s ->
  (next_call s = true \/ ocn_parse w = None) ->
  run off (w ++ s) res = run off s (res ++ w).
Proof.
  intros off w s res Hne Hw Hs H. rewrite run_word by assumption.
  destruct (next_call s); [reflexivity|]. destruct H as [H|H]; [discriminate H|].
  unfold offset_cell_name. rewrite H. reflexivity.
Qed.

Lemma sep_start_head_fails : forall s, sep_start s -> head_fails wordch s.
Proof. intros [|c s] H; [exact I|]. exact (proj1 H). Qed.
Lemma sep_start_next_call : forall s, sep_start s -> next_call s = false.
Proof.
  intros [|c s] H; [reflexivity|]. destruct H as (_ & H1 & H2). cbn.
  apply N.eqb_neq in H1, H2. rewrite H1, H2. reflexivity.
Qed.

(* quoted items: copied verbatim up to the closing quote *)
Lemma scan_quote_app : forall q a s, ~ In q a -> scan_quote q (a ++ q :: s) = (a ++ [q], s).
Proof.
  induction a as [|x a IH]; intros s H.
  - cbn. rewrite N.eqb_refl. reflexivity.
  - cbn [app scan_quote]. destruct (x =? q) eqn:E.
    + apply N.eqb_eq in E. subst. exfalso. apply H. left. reflexivity.
    + rewrite IH by (intros C; apply H; right; exact C). reflexivity.
Qed.

Lemma run_quote : forall off q a s res,
  q = ch_dquote \/ q = ch_apos -> ~ In q a ->
  run off (q :: a ++ q :: s) res = run off s (res ++ q :: a ++ [q]).
Proof.
  intros off q a s res Hq Ha. rewrite run_cons. unfold rcn_step.
  replace ((q =? ch_dquote) || (q =? ch_apos)) with true
    by (destruct Hq; subst q; reflexivity).
  rewrite scan_quote_app by exact Ha. reflexivity.
Qed.

(* with doubled quotes inside: a sequence of quoted blocks *)
Lemma run_quoted_gen : forall off q, q = ch_dquote \/ q = ch_apos ->
  forall body a s res, ~ In q a ->
  run off (q :: a ++ double_ch q body ++ q :: s) res
  = run off s (res ++ q :: a ++ double_ch q body ++ [q]).
Proof.
  intros off q Hq. induction body as [|c body IH]; intros a s res Ha.
  - cbn [double_ch app]. apply run_quote; assumption.
  - cbn [double_ch]. destruct (c =? q) eqn:E.
    + apply N.eqb_eq in E. subst c.
      change (q :: a ++ (q :: q :: double_ch q body) ++ q :: s)
        with (q :: a ++ q :: (q :: [] ++ double_ch q body ++ q :: s)).
      rewrite run_quote by assumption. rewrite IH by (intros C; exact C).
      f_equal. cbn [app]. rewrite <- !app_assoc. cbn [app]. rewrite <- !app_assoc. reflexivity.
    + change (q :: a ++ (c :: double_ch q body) ++ q :: s)
        with (q :: a ++ [c] ++ double_ch q body ++ q :: s).
      rewrite (app_assoc a [c]). rewrite IH.
      * f_equal. rewrite <- !app_assoc. reflexivity.
      * intros C. apply in_app_or in C as [C|[C|[]]]; [exact (Ha C)|].
        subst c. rewrite N.eqb_refl in E. discriminate E.
Qed.

Lemma run_quoted : forall off q body s res, q = ch_dquote \/ q = ch_apos ->
  run off ([q] ++ double_ch q body ++ q :: s) res = run off s (res ++ [q] ++ double_ch q body ++ [q]).
Proof.
  intros off q body s res Hq.
  exact (run_quoted_gen off q Hq body [] s res (fun C => C)).
Qed.

(* bracketed items *)
Lemma scan_bracket_span : forall s d rest,
  brack_span s d = true -> scan_bracket (s ++ rest) d = Ok (s, rest).
Proof.
  induction s as [|x t IH]; intros d rest H; [discriminate H|].
  cbn [brack_span] in H. cbn [app scan_bracket].
  destruct (x =? ch_lbrack) eqn:E1.
  - replace ((x =? ch_rbrack) && (d =? 0)) with false in H
      by (apply N.eqb_eq in E1; subst x; reflexivity).
    cbn [obind]. destruct (d + 1 =? 0) eqn:E0; [apply N.eqb_eq in E0; lia|].
    rewrite (IH _ rest H). reflexivity.
  - destruct (x =? ch_rbrack) eqn:E2.
    + destruct (d =? 0) eqn:E3; [discriminate H|]. cbn [andb] in H. cbn [obind].
      destruct (d - 1 =? 0) eqn:E0.
      * destruct t; [reflexivity|discriminate H].
      * rewrite (IH _ rest H). reflexivity.
    + cbn [andb] in H. cbn [obind]. destruct (d =? 0) eqn:E0.
      * destruct t; [reflexivity|discriminate H].
      * rewrite (IH _ rest H). reflexivity.
Qed.

Lemma run_brack : forall off s rest res,
  brack_ok s = true -> run off (s ++ rest) res = run off rest (res ++ s).
Proof.
  intros off s rest res H. unfold brack_ok in H. destruct s as [|c t]; [discriminate H|].
  apply andb_prop in H as [Hc Hs]. cbn [app]. rewrite run_cons. unfold rcn_step.
  apply N.eqb_eq in Hc. subst c. change ((ch_lbrack =? ch_dquote) || (ch_lbrack =? ch_apos)) with false.
  cbn iota. rewrite N.eqb_refl.
  change (ch_lbrack :: t ++ rest) with ((ch_lbrack :: t) ++ rest).
  rewrite (scan_bracket_span _ _ rest Hs). reflexivity.
Qed.

(* ------------------------------------------------------------------ concrete ASCII characters *)
Lemma plain_ascii : forall c, c < 128 -> ascii_wordch c = false ->
  c <> ch_dquote -> c <> ch_apos -> c <> ch_lbrack -> plain_char c.
Proof.
  intros c H W H1 H2 H3. repeat split; try assumption. rewrite wordch_ascii by exact H. exact W.
Qed.
Ltac plain_tac := apply plain_ascii; [reflexivity|reflexivity|discriminate|discriminate|discriminate].

Lemma wordch_ascii_all : forall w,
  forallb (fun c => c <? 128) w = true -> forallb ascii_wordch w = true -> forallb wordch w = true.
Proof.
  induction w as [|c w IH]; intros H1 H2; [reflexivity|]. cbn [forallb] in *.
  apply andb_prop in H1 as [A1 B1]. apply andb_prop in H2 as [A2 B2].
  rewrite wordch_ascii by (apply N.ltb_lt; exact A1). rewrite A2. exact (IH B1 B2).
Qed.
Ltac word_tac := apply wordch_ascii_all; reflexivity.

Lemma wordch_false_ascii : forall c, c < 128 -> ascii_wordch c = false -> wordch c = false.
Proof. intros c H W. rewrite wordch_ascii by exact H. exact W. Qed.

Lemma sym_plain : forall c, existsb (N.eqb c) sym_chars = true -> plain_char c.
Proof.
  intros c H. unfold sym_chars in H. cbn [existsb] in H.
  repeat (apply orb_prop in H as [H|H]; [apply N.eqb_eq in H; subst c; plain_tac|]).
  discriminate H.
Qed.

(* ------------------------------------------------------------------ offset_cell_name: applying the offset *)
Lemma ocn_apply_ref : forall ca c ra r off, c < 16384 -> r < 1048576 -> off_ok off = true ->
  ocn_apply (ca, Z.of_N c, ra, Z.of_N r) off
  = Ok (if tok_in_range off (TRef ca c ra r)
        then Some (render (translate off (TRef ca c ra r))) else None).
Proof.
  intros ca c ra r [dr dc] Hc Hr Hoff. unfold ocn_apply.
  unfold off_ok, MAX_ROWS, MAX_COLUMNS in Hoff. cbn [fst snd] in *.
  set (row' := if ra then Z.of_N r else (Z.of_N r + dr)%Z).
  set (col' := if ca then Z.of_N c else (Z.of_N c + dc)%Z).
  assert (E1 : (if ra then Ok (Z.of_N r) else add_i64 (Z.of_N r) dr) = Ok row').
  { unfold row'. destruct ra; [reflexivity|]. unfold add_i64, I64MIN, I64MAX.
    destruct ((-9223372036854775808 <=? Z.of_N r + dr)%Z && (Z.of_N r + dr <=? 9223372036854775807)%Z) eqn:E;
      [reflexivity|lia]. }
  assert (E2 : (if ca then Ok (Z.of_N c) else add_i64 (Z.of_N c) dc) = Ok col').
  { unfold col'. destruct ca; [reflexivity|]. unfold add_i64, I64MIN, I64MAX.
    destruct ((-9223372036854775808 <=? Z.of_N c + dc)%Z && (Z.of_N c + dc <=? 9223372036854775807)%Z) eqn:E;
      [reflexivity|lia]. }
  rewrite E1, E2. cbn [obind].
  assert (E3 : in_sheet row' col' = tok_in_range (dr, dc) (TRef ca c ra r)).
  { unfold in_sheet, tok_in_range, comp_in_range, ZROWS, ZCOLS, MAX_ROWS, MAX_COLUMNS, row', col'.
    cbn [fst snd]. destruct ca, ra; cbn [orb]; lia. }
  rewrite E3. destruct (tok_in_range (dr, dc) (TRef ca c ra r)) eqn:T; [|reflexivity].
  cbn [negb].
  assert (Hb : (0 <= row' < 1048576 /\ 0 <= col' < 16384)%Z).
  { assert (T' : in_sheet row' col' = true) by (rewrite E3; try exact T; reflexivity).
    unfold in_sheet, ZROWS, ZCOLS in T'. lia. }
  assert (E4 : as_u32 col' = Z.to_N col').
  { unfold as_u32. rewrite Z.mod_small by lia. reflexivity. }
  rewrite E4. rewrite column_number_to_name_is_letters by lia.
  unfold i64_to_string. destruct (row' + 1 <? 0)%Z eqn:E5; [lia|].
  do 2 f_equal. cbn [translate render fst snd]. unfold render_ref, a1_ref.
  assert (M1 : move ca c dc = Z.to_N col').
  { unfold move, col'. destruct ca; lia. }
  assert (M2 : move ra r dr + 1 = Z.to_N (row' + 1)).
  { unfold move, row'. destruct ra; lia. }
  rewrite M1, M2. destruct ca, ra; reflexivity.
Qed.

(* ------------------------------------------------------------------ words of the grammar *)
Lemma letters_word : forall c, forallb wordch (letters c) = true.
Proof.
  intros c. apply Forall_forallb. eapply Forall_impl; [|apply letters_upper].
  intros x Hx. apply wordch_upper. exact Hx.
Qed.
Lemma dec_word : forall n, forallb wordch (dec n) = true.
Proof.
  intros n. apply Forall_forallb. eapply Forall_impl; [|apply dec_digits].
  intros x Hx. apply wordch_digit. exact Hx.
Qed.
Lemma dollar_word : forall a, forallb wordch (dollar a) = true.
Proof. intros [|]; cbn [dollar forallb]; [rewrite wordch_dollar|]; reflexivity. Qed.
Lemma digits_word : forall l, forallb is_digit l = true -> forallb wordch l = true.
Proof. intros l. apply forallb_impl. exact wordch_digit. Qed.

Lemma render_ref_eq : forall ca c ra r,
  render_ref ca c ra r = dollar ca ++ letters c ++ dollar ra ++ dec (r + 1).
Proof. intros [|] c [|] r; reflexivity. Qed.

Lemma ends_word_app : forall v u,
  u <> [] -> forallb wordch u = true -> ends_word is_alnum (v ++ u) = true.
Proof.
  intros v u Hne Hu. destruct (exists_last Hne) as (u' & c & E). subst u.
  unfold ends_word. rewrite app_assoc, rev_app_distr. cbn [rev app].
  rewrite word_char_eq. rewrite forallb_app in Hu. apply andb_prop in Hu as [_ Hc].
  cbn [forallb] in Hc. rewrite andb_true_r in Hc. exact Hc.
Qed.

Lemma app_nonempty_r : forall (a b : list N), b <> [] -> a ++ b <> [].
Proof. intros a b H E. apply app_eq_nil in E as [_ E]. exact (H E). Qed.
Lemma app_nonempty_l : forall (a b : list N), a <> [] -> a ++ b <> [].
Proof. intros a b H E. apply app_eq_nil in E as [E _]. exact (H E). Qed.
Lemma nonempty_ne : forall l, nonempty l = true -> l <> [].
Proof. intros [|x l] H; [discriminate H|discriminate]. Qed.

Ltac lnorm := repeat (progress (rewrite <- ?app_assoc; cbn [app])); reflexivity.

(* ------------------------------------------------------------------ one token *)
Definition no3d (t : token) : bool :=
  match t with TSheetRange n1 _ => negb (is_cell_name n1) | _ => true end.

Section Token.
Variable off : Z * Z.
Hypothesis Hoff : off_ok off = true.

Lemma tok_ref : forall ca c ra r s res,
  tok_valid is_alnum (TRef ca c ra r) = true ->
  (ends_word is_alnum (render (TRef ca c ra r)) = true -> sep_start s) ->
  run off (render (TRef ca c ra r) ++ s) res
  = run off s (res ++ render (translate_clip off (TRef ca c ra r))).
Proof.
  intros ca c ra r s res Hv Hs. cbn [tok_valid] in Hv. apply andb_prop in Hv as [Hc Hr].
  unfold MAX_COLUMNS in Hc. unfold MAX_ROWS in Hr. apply N.ltb_lt in Hc, Hr.
  cbn [render] in *.
  assert (Hw : forallb wordch (render_ref ca c ra r) = true).
  { rewrite render_ref_eq, !forallb_app, dollar_word, letters_word, dollar_word, dec_word. reflexivity. }
  assert (Hne : render_ref ca c ra r <> []).
  { rewrite render_ref_eq. do 3 apply app_nonempty_r. apply dec_nonempty. }
  assert (Hsep : sep_start s).
  { apply Hs. rewrite render_ref_eq, !app_assoc. apply ends_word_app; [apply dec_nonempty|apply dec_word]. }
  rewrite run_word by (try assumption; apply sep_start_head_fails; exact Hsep).
  rewrite (sep_start_next_call s Hsep). unfold offset_cell_name.
  rewrite ocn_parse_ref by assumption. rewrite ocn_apply_ref by assumption. cbn [obind].
  unfold translate_clip. destruct (tok_in_range off (TRef ca c ra r)); reflexivity.
Qed.

(* a token whose text is: inert word, separator char, inert word *)
Lemma tok_word_sep_word : forall w1 x w2 s res,
  w1 <> [] -> forallb wordch w1 = true -> ocn_parse w1 = None ->
  plain_char x -> x <> ch_lparen -> x <> ch_bang ->
  w2 <> [] -> forallb wordch w2 = true -> ocn_parse w2 = None ->
  sep_start s ->
  run off (w1 ++ [x] ++ w2 ++ s) res = run off s (res ++ w1 ++ [x] ++ w2).
Proof.
  intros w1 x w2 s res N1 W1 P1 Hx Hx1 Hx2 N2 W2 P2 Hs.
  rewrite run_word_inert; try assumption.
  - cbn [app]. rewrite run_other by exact Hx.
    rewrite run_word_inert; try assumption.
    + f_equal. rewrite <- !app_assoc. reflexivity.
    + apply sep_start_head_fails. exact Hs.
    + right. exact P2.
  - cbn. exact (proj1 Hx).
  - right. exact P1.
Qed.

Lemma tok_colrange : forall a1 c1 a2 c2 s res,
  (ends_word is_alnum (render (TColRange a1 c1 a2 c2)) = true -> sep_start s) ->
  run off (render (TColRange a1 c1 a2 c2) ++ s) res
  = run off s (res ++ render (TColRange a1 c1 a2 c2)).
Proof.
  intros a1 c1 a2 c2 s res Hs. cbn [render] in *.
  assert (Hsep : sep_start s).
  { apply Hs. rewrite !app_assoc. apply ends_word_app; [apply letters_nonempty|apply letters_word]. }
  replace ((dollar a1 ++ letters c1 ++ [ch_colon] ++ dollar a2 ++ letters c2) ++ s)
    with ((dollar a1 ++ letters c1) ++ [ch_colon] ++ (dollar a2 ++ letters c2) ++ s)
    by (rewrite <- !app_assoc; reflexivity).
  rewrite tok_word_sep_word; try assumption.
  - f_equal. rewrite <- !app_assoc. reflexivity.
  - apply app_nonempty_r, letters_nonempty.
  - rewrite forallb_app, dollar_word, letters_word. reflexivity.
  - apply ocn_parse_letters_only.
  - plain_tac.
  - discriminate.
  - discriminate.
  - apply app_nonempty_r, letters_nonempty.
  - rewrite forallb_app, dollar_word, letters_word. reflexivity.
  - apply ocn_parse_letters_only.
Qed.

Lemma tok_rowrange : forall a1 r1 a2 r2 s res,
  (ends_word is_alnum (render (TRowRange a1 r1 a2 r2)) = true -> sep_start s) ->
  run off (render (TRowRange a1 r1 a2 r2) ++ s) res
  = run off s (res ++ render (TRowRange a1 r1 a2 r2)).
Proof.
  intros a1 r1 a2 r2 s res Hs. cbn [render] in *.
  assert (Hsep : sep_start s).
  { apply Hs. rewrite !app_assoc. apply ends_word_app; [apply dec_nonempty|apply dec_word]. }
  replace ((dollar a1 ++ dec (r1 + 1) ++ [ch_colon] ++ dollar a2 ++ dec (r2 + 1)) ++ s)
    with ((dollar a1 ++ dec (r1 + 1)) ++ [ch_colon] ++ (dollar a2 ++ dec (r2 + 1)) ++ s)
    by (rewrite <- !app_assoc; reflexivity).
  rewrite tok_word_sep_word; try assumption.
  - f_equal. rewrite <- !app_assoc. reflexivity.
  - apply app_nonempty_r, dec_nonempty.
  - rewrite forallb_app, dollar_word, dec_word. reflexivity.
  - apply ocn_parse_digits_only.
  - plain_tac.
  - discriminate.
  - discriminate.
  - apply app_nonempty_r, dec_nonempty.
  - rewrite forallb_app, dollar_word, dec_word. reflexivity.
  - apply ocn_parse_digits_only.
Qed.

(* word followed by '!' or '(' : never translated, whatever it looks like *)
Lemma tok_word_call : forall w x s res,
  w <> [] -> forallb wordch w = true -> (x = ch_lparen \/ x = ch_bang) ->
  run off (w ++ x :: s) res = run off s (res ++ w ++ [x]).
Proof.
  intros w x s res Hne Hw Hx.
  assert (Px : plain_char x) by (destruct Hx; subst x; plain_tac).
  rewrite run_word_inert; try assumption.
  - rewrite run_other by exact Px. f_equal. rewrite <- app_assoc. reflexivity.
  - cbn. exact (proj1 Px).
  - left. cbn. destruct Hx; subst x; reflexivity.
Qed.

Lemma uname_word : forall n, forallb (uname_char is_alnum) n = true -> forallb wordch n = true.
Proof. intros n. apply forallb_impl. exact wordch_uname. Qed.
Lemma dname_word : forall n, forallb (dname_char is_alnum) n = true -> forallb wordch n = true.
Proof. intros n. apply forallb_impl. exact wordch_dname. Qed.
Lemma dname_no_dollar : forall n, forallb (dname_char is_alnum) n = true -> ~ In ch_dollar n.
Proof.
  intros n H C. rewrite forallb_forall in H. exact (dname_not_dollar _ (H _ C) eq_refl).
Qed.
Lemma uname_no_dollar : forall n, forallb (uname_char is_alnum) n = true -> ~ In ch_dollar n.
Proof.
  intros n H. apply dname_no_dollar. revert H. apply forallb_impl.
  intros c Hc. unfold dname_char. rewrite Hc. reflexivity.
Qed.

Lemma tok_sheetrange : forall n1 n2 s res,
  tok_valid is_alnum (TSheetRange n1 n2) = true -> is_cell_name n1 = false ->
  run off (render (TSheetRange n1 n2) ++ s) res = run off s (res ++ render (TSheetRange n1 n2)).
Proof.
  intros n1 n2 s res Hv H3. cbn [tok_valid] in Hv.
  apply andb_prop in Hv as [Hv U2]. apply andb_prop in Hv as [Hv N2].
  apply andb_prop in Hv as [N1 U1]. cbn [render].
  replace ((n1 ++ [ch_colon] ++ n2 ++ [ch_bang]) ++ s) with (n1 ++ [ch_colon] ++ (n2 ++ [ch_bang] ++ s))
    by (rewrite <- !app_assoc; reflexivity).
  rewrite run_word_inert.
  - cbn [app]. rewrite run_other by plain_tac.
    rewrite tok_word_call; [|apply nonempty_ne; exact N2|apply uname_word; exact U2|right; reflexivity].
    f_equal. rewrite <- !app_assoc. reflexivity.
  - apply nonempty_ne. exact N1.
  - apply uname_word. exact U1.
  - cbn. apply wordch_false_ascii; reflexivity.
  - right. apply ocn_parse_not_cell; [apply uname_no_dollar; exact U1|exact H3].
Qed.

Lemma tok_name : forall n s res,
  tok_valid is_alnum (TName n) = true ->
  (ends_word is_alnum (render (TName n)) = true -> sep_start s) ->
  run off (render (TName n) ++ s) res = run off s (res ++ render (TName n)).
Proof.
  intros n s res Hv Hs. cbn [tok_valid] in Hv. apply andb_prop in Hv as [Hv C].
  apply andb_prop in Hv as [Ne D]. apply negb_true_iff in C. cbn [render] in *.
  assert (Hsep : sep_start s).
  { apply Hs. apply (ends_word_app []); [apply nonempty_ne; exact Ne|apply dname_word; exact D]. }
  apply run_word_inert.
  - apply nonempty_ne. exact Ne.
  - apply dname_word. exact D.
  - apply sep_start_head_fails. exact Hsep.
  - right. apply ocn_parse_not_cell; [apply dname_no_dollar; exact D|exact C].
Qed.

Lemma digits_ok_inv : forall l, digits_ok l = true ->
  exists d t, l = d :: t /\ is_digit d = true /\ forallb is_digit l = true.
Proof.
  intros l H. unfold digits_ok in H. apply andb_prop in H as [Ne D].
  destruct l as [|d t]; [discriminate Ne|]. exists d, t. repeat split; [|exact D].
  cbn [forallb] in D. apply andb_prop in D as [D _]. exact D.
Qed.

Lemma tok_num : forall ip fp ex s res,
  tok_valid is_alnum (TNum ip fp ex) = true ->
  (ends_word is_alnum (render (TNum ip fp ex)) = true -> sep_start s) ->
  run off (render (TNum ip fp ex) ++ s) res = run off s (res ++ render (TNum ip fp ex)).
Proof.
  intros ip fp ex s res Hv Hs. cbn [tok_valid] in Hv.
  apply andb_prop in Hv as [Hv Hex]. apply andb_prop in Hv as [Hip Hfp].
  destruct (digits_ok_inv _ Hip) as (d & ipt & Eip & Hd & Dip).
  set (fpp := match fp with Some f => ch_dot :: f | None => [] end).
  assert (Wfp : forallb wordch fpp = true).
  { unfold fpp. destruct fp as [f|]; [|reflexivity].
    destruct (digits_ok_inv _ Hfp) as (_ & _ & _ & _ & Df). cbn [forallb].
    rewrite (digits_word _ Df). rewrite wordch_ascii by reflexivity. reflexivity. }
  (* the first word: ip ++ fpp ++ (E, or E followed by the unsigned exponent) *)
  assert (Hw1 : forall tail, forallb wordch tail = true ->
            (ip ++ fpp ++ tail) <> [] /\ forallb wordch (ip ++ fpp ++ tail) = true /\
            ocn_parse (ip ++ fpp ++ tail) = None).
  { intros tail Wt. repeat split.
    - rewrite Eip. discriminate.
    - rewrite !forallb_app, (digits_word _ Dip), Wfp, Wt. reflexivity.
    - rewrite Eip. cbn [app]. apply ocn_parse_digit_start. exact Hd. }
  cbn [render] in *. fold fpp in Hs. fold fpp.
  destruct ex as [[[neg|] e]|].
  - (* signed exponent: ip.fpE  sign  digits *)
    destruct (digits_ok_inv _ Hex) as (de & et & Ee & Hde & De).
    assert (Hsep : sep_start s).
    { apply Hs. change (ch_E :: (if neg then ch_minus else ch_plus) :: e)
        with ([ch_E; if neg then ch_minus else ch_plus] ++ e).
      rewrite !app_assoc. apply ends_word_app; [rewrite Ee; discriminate|apply digits_word; exact De]. }
    destruct (Hw1 [ch_E]) as (A1 & A2 & A3); [word_tac|].
    set (sg := if neg then ch_minus else ch_plus).
    assert (Psg : plain_char sg) by (unfold sg; destruct neg; plain_tac).
    replace ((ip ++ fpp ++ ch_E :: sg :: e) ++ s) with ((ip ++ fpp ++ [ch_E]) ++ sg :: (e ++ s))
      by (rewrite <- !app_assoc; reflexivity).
    rewrite run_word_inert; [|exact A1|exact A2|cbn; exact (proj1 Psg)|right; exact A3].
    rewrite run_other by exact Psg.
    rewrite run_word_inert.
    + f_equal. rewrite <- !app_assoc. reflexivity.
    + rewrite Ee. discriminate.
    + apply digits_word. exact De.
    + apply sep_start_head_fails. exact Hsep.
    + right. rewrite Ee. apply ocn_parse_digit_start. exact Hde.
  - (* unsigned exponent: one word *)
    destruct (digits_ok_inv _ Hex) as (de & et & Ee & Hde & De).
    assert (We : forallb wordch (ch_E :: e) = true).
    { cbn [forallb]. rewrite (digits_word _ De). rewrite wordch_ascii by reflexivity. reflexivity. }
    destruct (Hw1 (ch_E :: e) We) as (A1 & A2 & A3).
    assert (Hsep : sep_start s).
    { apply Hs. apply (ends_word_app []); assumption. }
    apply run_word_inert; [exact A1|exact A2|apply sep_start_head_fails; exact Hsep|right; exact A3].
  - destruct (Hw1 [] eq_refl) as (A1 & A2 & A3).
    assert (Hsep : sep_start s).
    { apply Hs. apply (ends_word_app []); assumption. }
    apply run_word_inert; [exact A1|exact A2|apply sep_start_head_fails; exact Hsep|right; exact A3].
Qed.

(* error literals *)
Lemma tok_err_bang : forall w s res,
  w <> [] -> forallb (fun c => c <? 128) w = true -> forallb ascii_wordch w = true ->
  run off (35 :: w ++ ch_bang :: s) res = run off s (res ++ 35 :: w ++ [ch_bang]).
Proof.
  intros w s res Hne H1 H2. rewrite run_other by plain_tac.
  rewrite tok_word_call; [|exact Hne|apply wordch_ascii_all; assumption|right; reflexivity].
  f_equal. rewrite <- !app_assoc. reflexivity.
Qed.

Lemma tok_err : forall k s res,
  tok_valid is_alnum (TErr k) = true ->
  (ends_word is_alnum (render (TErr k)) = true -> sep_start s) ->
  run off (render (TErr k) ++ s) res = run off s (res ++ render (TErr k)).
Proof.
  intros k s res Hv Hs. cbn [tok_valid] in Hv. apply N.ltb_lt in Hv.
  assert (K : k = 0 \/ k = 1 \/ k = 2 \/ k = 3 \/ k = 4 \/ k = 5 \/ k = 6) by lia.
  destruct K as [K|[K|[K|[K|[K|[K|K]]]]]]; subst k.
  - change (render (TErr 0)) with (35 :: [78;85;76;76] ++ [ch_bang]).
    change ((35 :: [78;85;76;76] ++ [ch_bang]) ++ s) with (35 :: [78;85;76;76] ++ ch_bang :: s).
    apply tok_err_bang; [discriminate|reflexivity|reflexivity].
  - (* #DIV/0! *)
    change (render (TErr 1)) with [35;68;73;86;47;48;33].
    change ([35;68;73;86;47;48;33] ++ s) with (35 :: [68;73;86] ++ 47 :: ([48] ++ ch_bang :: s)).
    rewrite run_other by plain_tac.
    rewrite run_word_inert; [|discriminate|word_tac|cbn; apply wordch_false_ascii; reflexivity|right; reflexivity].
    rewrite run_other by plain_tac.
    rewrite tok_word_call; [|discriminate|word_tac|right; reflexivity].
    f_equal. rewrite <- !app_assoc. reflexivity.
  - change (render (TErr 2)) with (35 :: [86;65;76;85;69] ++ [ch_bang]).
    change ((35 :: [86;65;76;85;69] ++ [ch_bang]) ++ s) with (35 :: [86;65;76;85;69] ++ ch_bang :: s).
    apply tok_err_bang; [discriminate|reflexivity|reflexivity].
  - change (render (TErr 3)) with (35 :: [82;69;70] ++ [ch_bang]).
    change ((35 :: [82;69;70] ++ [ch_bang]) ++ s) with (35 :: [82;69;70] ++ ch_bang :: s).
    apply tok_err_bang; [discriminate|reflexivity|reflexivity].
  - (* #NAME? *)
    change (render (TErr 4)) with ([35] ++ [78;65;77;69;63]) in *.
    assert (Hsep : sep_start s).
    { apply Hs. apply ends_word_app; [discriminate|word_tac]. }
    change (([35] ++ [78;65;77;69;63]) ++ s) with (35 :: [78;65;77;69;63] ++ s).
    rewrite run_other by plain_tac.
    rewrite run_word_inert; [|discriminate|word_tac|apply sep_start_head_fails; exact Hsep|right; reflexivity].
    f_equal. rewrite <- !app_assoc. reflexivity.
  - change (render (TErr 5)) with (35 :: [78;85;77] ++ [ch_bang]).
    change ((35 :: [78;85;77] ++ [ch_bang]) ++ s) with (35 :: [78;85;77] ++ ch_bang :: s).
    apply tok_err_bang; [discriminate|reflexivity|reflexivity].
  - (* #N/A *)
    change (render (TErr 6)) with ([35;78;47] ++ [65]) in *.
    assert (Hsep : sep_start s).
    { apply Hs. apply ends_word_app; [discriminate|word_tac]. }
    change (([35;78;47] ++ [65]) ++ s) with (35 :: [78] ++ 47 :: ([65] ++ s)).
    rewrite run_other by plain_tac.
    rewrite run_word_inert; [|discriminate|word_tac|cbn; apply wordch_false_ascii; reflexivity|right; reflexivity].
    rewrite run_other by plain_tac.
    rewrite run_word_inert; [|discriminate|word_tac|apply sep_start_head_fails; exact Hsep|right; reflexivity].
    f_equal. rewrite <- !app_assoc. reflexivity.
Qed.

(* every token of the grammar: the scanner consumes exactly its text and emits the text of
   the token translated (references that stay on the sheet) or unchanged (everything else) *)
Lemma token_run : forall t s res,
  tok_valid is_alnum t = true -> no3d t = true ->
  (ends_word is_alnum (render t) = true -> sep_start s) ->
  run off (render t ++ s) res = run off s (res ++ render (translate_clip off t)).
Proof.
  intros t s res Hv H3 Hs. destruct t as [ca c ra r|a1 c1 a2 c2|a1 r1 a2 r2|q n|n1 n2|n|n|ip fp ex|str|b|c|k].
  - apply tok_ref; assumption.
  - apply tok_colrange; assumption.
  - apply tok_rowrange; assumption.
  - cbn [translate_clip]. destruct q; cbn [tok_valid] in Hv; apply andb_prop in Hv as [Ne Hn]; cbn [render].
    + (* quoted *)
      change (([ch_apos] ++ double_ch ch_apos n ++ [ch_apos; ch_bang]) ++ s)
        with ([ch_apos] ++ (double_ch ch_apos n ++ [ch_apos; ch_bang]) ++ s).
      rewrite <- (app_assoc (double_ch ch_apos n)). cbn [app].
      change (ch_apos :: double_ch ch_apos n ++ ch_apos :: ch_bang :: s)
        with ([ch_apos] ++ double_ch ch_apos n ++ ch_apos :: (ch_bang :: s)).
      rewrite run_quoted by (right; reflexivity).
      rewrite run_other by plain_tac. f_equal. lnorm.
    + rewrite <- app_assoc. cbn [app]. rewrite tok_word_call; [reflexivity|apply nonempty_ne; exact Ne|
        apply uname_word; exact Hn|right; reflexivity].
  - cbn [translate_clip]. apply tok_sheetrange; [exact Hv|]. cbn [no3d] in H3.
    apply negb_true_iff in H3. exact H3.
  - cbn [translate_clip]. cbn [tok_valid] in Hv. apply andb_prop in Hv as [Ne Hn]. cbn [render].
    rewrite <- app_assoc. cbn [app]. rewrite tok_word_call; [reflexivity|apply nonempty_ne; exact Ne|
      apply uname_word; exact Hn|left; reflexivity].
  - apply tok_name; assumption.
  - apply tok_num; assumption.
  - cbn [translate_clip render].
    change (([ch_dquote] ++ double_ch ch_dquote str ++ [ch_dquote]) ++ s)
      with ([ch_dquote] ++ (double_ch ch_dquote str ++ [ch_dquote]) ++ s).
    rewrite <- (app_assoc (double_ch ch_dquote str)). cbn [app].
    change (ch_dquote :: double_ch ch_dquote str ++ ch_dquote :: s)
      with ([ch_dquote] ++ double_ch ch_dquote str ++ ch_dquote :: s).
    rewrite run_quoted by (left; reflexivity). reflexivity.
  - cbn [translate_clip render]. cbn [tok_valid] in Hv. apply run_brack. exact Hv.
  - cbn [translate_clip render]. cbn [tok_valid] in Hv. cbn [app]. apply run_other.
    apply sym_plain. exact Hv.
  - apply tok_err; assumption.
Qed.

(* ------------------------------------------------------------------ a whole formula *)
Lemma render_nonempty : forall t, tok_valid is_alnum t = true -> render t <> [].
Proof.
  intros t Hv. destruct t as [ca c ra r|a1 c1 a2 c2|a1 r1 a2 r2|q n|n1 n2|n|n|ip fp ex|str|b|c|k];
    cbn [render].
  - rewrite render_ref_eq. do 3 apply app_nonempty_r. apply dec_nonempty.
  - do 4 apply app_nonempty_r. apply letters_nonempty.
  - do 4 apply app_nonempty_r. apply dec_nonempty.
  - destruct q; [discriminate|apply app_nonempty_r; discriminate].
  - do 3 apply app_nonempty_r. discriminate.
  - apply app_nonempty_r. discriminate.
  - cbn [tok_valid] in Hv. apply andb_prop in Hv as [Hv _]. apply andb_prop in Hv as [Ne _].
    apply nonempty_ne. exact Ne.
  - cbn [tok_valid] in Hv. apply andb_prop in Hv as [Hv _]. apply andb_prop in Hv as [Hip _].
    destruct (digits_ok_inv _ Hip) as (d & t & E & _). rewrite E. discriminate.
  - discriminate.
  - cbn [tok_valid] in Hv. unfold brack_ok in Hv. destruct b; [discriminate Hv|discriminate].
  - discriminate.
  - cbn [tok_valid] in Hv. apply N.ltb_lt in Hv.
    assert (K : k = 0 \/ k = 1 \/ k = 2 \/ k = 3 \/ k = 4 \/ k = 5 \/ k = 6) by lia.
    destruct K as [K|[K|[K|[K|[K|[K|K]]]]]]; subst k; discriminate.
Qed.

Lemma starts_sep_start : forall u s, starts_sep is_alnum u = true -> sep_start (u ++ s).
Proof.
  intros [|c u] s H; [discriminate H|]. cbn [starts_sep] in H. cbn [app sep_start].
  apply andb_prop in H as [H H2]. apply andb_prop in H as [H0 H1].
  rewrite word_char_eq in H0. apply negb_true_iff in H0, H1, H2.
  apply N.eqb_neq in H1, H2. auto.
Qed.

Lemma formula_run : forall ts res,
  forallb (tok_valid is_alnum) ts = true -> adjacent_ok is_alnum ts = true ->
  forallb no3d ts = true ->
  run off (render_all ts) res = Ok (res ++ render_all (map (translate_clip off) ts)).
Proof.
  induction ts as [|t ts IH]; intros res Hv Ha H3.
  - cbn. rewrite app_nil_r. reflexivity.
  - cbn [forallb] in Hv, H3. apply andb_prop in Hv as [Hv Hvs]. apply andb_prop in H3 as [H3 H3s].
    unfold render_all. cbn [map concat]. fold (render_all ts).
    fold (render_all (map (translate_clip off) ts)).
    rewrite token_run; [| exact Hv | exact H3 |].
    + rewrite IH; [rewrite app_assoc; reflexivity|exact Hvs| |exact H3s].
      destruct ts as [|b ts']; [reflexivity|]. cbn [adjacent_ok] in Ha.
      apply andb_prop in Ha as [_ Ha]. exact Ha.
    + intros He. destruct ts as [|b ts']; [exact I|].
      cbn [adjacent_ok] in Ha. apply andb_prop in Ha as [Ha _]. rewrite He in Ha.
      unfold render_all. cbn [map concat]. apply starts_sep_start. exact Ha.
Qed.
End Token.

Lemma no3d_of_known : forall off ts, known_at off ts = None -> forallb no3d ts = true.
Proof.
  induction ts as [|t ts IH]; intros H; [reflexivity|]. cbn [known_at] in H. cbn [forallb].
  destruct (known_token_at off t) eqn:K; [discriminate H|]. rewrite (IH H), andb_true_r.
  destruct t; try reflexivity. cbn [known_token_at known_token] in K. cbn [no3d].
  destruct (is_cell_name n1); [discriminate K|reflexivity].
Qed.

Lemma known_at_of_known : forall off ts, known_C15 ts = None -> known_at off ts = None.
Proof.
  induction ts as [|t ts IH]; intros H; [reflexivity|]. cbn [known_C15] in H. cbn [known_at].
  destruct (known_token t) eqn:K; [discriminate H|]. rewrite (IH H).
  destruct t; cbn [known_token_at]; try (rewrite K; reflexivity);
    cbn [known_token] in K; destruct (a1 && a2); try discriminate K; reflexivity.
Qed.

Lemma move_zero : forall a x, move a x 0 = x.
Proof. intros a x. unfold move. destruct a; lia. Qed.

(* inside in_range and outside the known classes, what the code does is the translation *)
Lemma clip_is_translate : forall off ts,
  forallb (tok_in_range off) ts = true -> known_at off ts = None ->
  map (translate_clip off) ts = map (translate off) ts.
Proof.
  induction ts as [|t ts IH]; intros Hr Hk; [reflexivity|].
  cbn [forallb] in Hr. apply andb_prop in Hr as [Hr Hrs]. cbn [known_at] in Hk.
  destruct (known_token_at off t) eqn:K; [discriminate Hk|]. cbn [map]. rewrite (IH Hrs Hk).
  f_equal. destruct t; try reflexivity.
  - cbn [translate_clip]. rewrite Hr. reflexivity.
  - cbn [known_token_at] in K. cbn [translate_clip translate].
    destruct ((a1 && a2) || (snd off =? 0)%Z) eqn:E; [|discriminate K].
    apply orb_prop in E as [E|E].
    + apply andb_prop in E as [E1 E2]. subst. reflexivity.
    + apply Z.eqb_eq in E. rewrite E, !move_zero. reflexivity.
  - cbn [known_token_at] in K. cbn [translate_clip translate].
    destruct ((a1 && a2) || (fst off =? 0)%Z) eqn:E; [|discriminate K].
    apply orb_prop in E as [E|E].
    + apply andb_prop in E as [E1 E2]. subst. reflexivity.
    + apply Z.eqb_eq in E. rewrite E, !move_zero. reflexivity.
Qed.

(* MAIN (total form): every formula of the grammar, every offset between two cells of the sheet *)
Theorem translate_total : forall ts off,
  wf_formula is_alnum ts = true -> off_ok off = true -> forallb no3d ts = true ->
  rcn (render_all ts) off = Ok (render_all (map (translate_clip off) ts)).
Proof.
  intros ts off Hwf Hoff H3. unfold wf_formula in Hwf. apply andb_prop in Hwf as [Hv Ha].
  rewrite rcn_run. rewrite (formula_run off Hoff ts [] Hv Ha H3). reflexivity.
Qed.

(* MAIN: the quantifier of the property over formulas x offsets *)
Theorem translate_correct_at : forall ts off,
  wf_formula is_alnum ts = true -> in_range ts off -> known_at off ts = None ->
  rcn (render_all ts) off = Ok (render_all (map (translate off) ts)).
Proof.
  intros ts off Hwf Hr Hk. unfold in_range, in_rangeb in Hr. apply andb_prop in Hr as [Hoff Hr].
  rewrite translate_total; [|exact Hwf|exact Hoff|exact (no3d_of_known off ts Hk)].
  rewrite (clip_is_translate off ts Hr Hk). reflexivity.
Qed.

Theorem translate_correct : forall ts off,
  wf_formula is_alnum ts = true -> in_range ts off -> known_C15 ts = None ->
  rcn (render_all ts) off = Ok (render_all (map (translate off) ts)).
Proof.
  intros ts off Hwf Hr Hk. apply translate_correct_at; [exact Hwf|exact Hr|].
  apply known_at_of_known. exact Hk.
Qed.

(* ------------------------------------------------------------------ groups *)
Definition enc_group (g : group) : N * group_entry :=
  (g_si g, (render_all (g_tokens g), ((g_start g, g_end g), g_master g))).

Lemma fm_get_enc : forall seen si,
  fm_get (map enc_group seen) si
  = match find_group seen si with Some g => Some (snd (enc_group g)) | None => None end.
Proof.
  induction seen as [|g seen IH]; intros si; [reflexivity|].
  cbn [map fm_get enc_group find_group find fst snd]. destruct (g_si g =? si); [reflexivity|].
  apply IH.
Qed.

Lemma ref_text_dimension : forall g, group_okb g = true ->
  get_dimension (ref_text (g_start g) (g_end g)) = Ok (g_start g, g_end g).
Proof.
  intros g H. unfold group_okb, MAX_ROWS, MAX_COLUMNS in H.
  destruct (g_start g) as [r0 c0], (g_end g) as [r1 c1]. cbn [fst snd] in *. unfold ref_text. cbn [fst snd].
  apply get_dimension_pair; unfold ROW_TEXT_LIMIT, COL_TEXT_LIMIT; lia.
Qed.

Definition cell_okb (seen : list group) (c : scell) : bool :=
  match c with
  | SMaster g => group_okb g
  | SMember p si _ =>
      match find_group seen si with
      | Some g => if in_box (g_start g) (g_end g) p then member_okb is_alnum g p else true
      | None => true
      end
  | _ => true
  end.

Lemma cell_step_spec : forall seen c, cell_okb seen c = true ->
  cell_step is_alnum (map enc_group seen) (fst (encode_cell c)) (snd (encode_cell c))
  = Ok (map enc_group (seen_after seen c), spec_value seen c).
Proof.
  intros seen c H. destruct c as [p|p f|g|p si own]; cbn [encode_cell fst snd cell_step seen_after spec_value].
  - reflexivity.
  - reflexivity.
  - cbn [cell_okb] in H. rewrite (ref_text_dimension g H). reflexivity.
  - cbn [cell_okb] in H. rewrite fm_get_enc. destruct (find_group seen si) as [g|]; [|reflexivity].
    cbn [enc_group snd]. change (contains (g_start g, g_end g) p) with (in_box (g_start g) (g_end g) p).
    destruct (in_box (g_start g) (g_end g) p); [|reflexivity].
    unfold member_okb in H. apply andb_prop in H as [H Hk]. apply andb_prop in H as [Hwf Hr].
    destruct (known_at (member_offset g p) (g_tokens g)) eqn:K; [discriminate Hk|].
    change (Z.of_N (fst p) - Z.of_N (fst (g_master g)), Z.of_N (snd p) - Z.of_N (snd (g_master g)))%Z
      with (member_offset g p).
    rewrite (translate_correct_at (g_tokens g) (member_offset g p) Hwf Hr K). reflexivity.
Qed.

Lemma run_cells_spec : forall cs seen, sheet_okb is_alnum seen cs = true ->
  run_cells is_alnum (map enc_group seen) (map encode_cell cs) = Ok (spec_cells seen cs).
Proof.
  induction cs as [|c cs IH]; intros seen H; [reflexivity|].
  cbn [sheet_okb] in H. apply andb_prop in H as [Hc Hs].
  cbn [map run_cells spec_cells]. destruct (encode_cell c) as [pos k] eqn:E.
  pose proof (cell_step_spec seen c Hc) as S. rewrite E in S. cbn [fst snd] in S. rewrite S.
  cbn [obind fst snd]. rewrite (IH _ Hs). reflexivity.
Qed.

(* MAIN: every cell of every declared ref, in one or two dimensions, whatever the master
   position and the order of the shared indices *)
Theorem group_covers_range : forall cs,
  sheet_okb is_alnum [] cs = true ->
  run_cells is_alnum [] (map encode_cell cs) = Ok (spec_cells [] cs) /\
  sheet_formulas is_alnum (map encode_cell cs)
    = Ok (filter (fun pv => nonempty (snd pv)) (spec_cells [] cs)).
Proof.
  intros cs H. pose proof (run_cells_spec cs [] H) as R. cbn [map] in R. split; [exact R|].
  unfold sheet_formulas. rewrite R. reflexivity.
Qed.

End Proofs.



Lemma no_panic_ne : forall A (o : outcome A), no_panic o -> o <> Panic /\ o <> OutOfFuel.
Proof. intros A o H. destruct o; try contradiction; split; discriminate. Qed.

(* the C06-style statements: no hypothesis on the input *)
Theorem no_panic_get_row_column : forall range,
  get_row_column range <> Panic /\ get_row_column range <> OutOfFuel.
Proof. intros range. apply no_panic_ne, get_row_column_np. Qed.
Theorem no_panic_get_dimension : forall d,
  get_dimension d <> Panic /\ get_dimension d <> OutOfFuel.
Proof. intros d. apply no_panic_ne, get_dimension_np. Qed.
Theorem no_panic_next_formula : forall is_alnum cells,
  Forall (fun c : fcell => u32_pos (fst c)) cells ->
  (run_cells is_alnum [] cells <> Panic /\ run_cells is_alnum [] cells <> OutOfFuel) /\
  (sheet_formulas is_alnum cells <> Panic /\ sheet_formulas is_alnum cells <> OutOfFuel).
Proof.
  intros is_alnum cells H. destruct (next_formula_np is_alnum cells H) as [A B].
  split; apply no_panic_ne; assumption.
Qed.
(* a group declared with an inverted ref (it used to panic in get_dimension) serves no cell *)
Example inverted_ref_serves_nobody :
  run_cells ascii_alnum [] [((1, 1), FMaster 0 [66;51;58;66;50] [65;49]); ((2, 1), FMember 0 [75])]
  = Ok [((1, 1), [65;49]); ((2, 1), [75])].
Proof. vm_compute. reflexivity. Qed.

Theorem no_panic_replace_cell_names : forall is_alnum s off, off_small off ->
  replace_cell_names is_alnum s off <> Panic /\ replace_cell_names is_alnum s off <> OutOfFuel.
Proof.
  intros is_alnum s off H. destruct (rcn_total is_alnum s off H) as (r & E). rewrite E.
  split; discriminate.
Qed.
Example no_panic_next_formula_nonvacuous :
  Forall (fun c : fcell => u32_pos (fst c))
    [((1, 1), FMaster 0 [66;51;58;66;50] [65;49]); ((2, 1), FMember 0 [75])] /\
  run_cells ascii_alnum [] [((1, 1), FMaster 0 [66;51;58;66;50] [65;49]); ((2, 1), FMember 0 [75])]
  = Ok [((1, 1), [65;49]); ((2, 1), [75])].
Proof.
  split; [|exact inverted_ref_serves_nobody].
  repeat constructor; vm_compute; discriminate.
Qed.

(* ------------------------------------------------------------------ examples, witnesses *)
Lemma ascii_oracle : forall c, c < 128 -> ascii_alnum c = ascii_alnum c.
Proof. reflexivity. Qed.

(* 'Données Q1'!$A1+B$2*LOG10(C3)&<string: é dq x dq A1>+Table1[[#This Row],[Col A1]]+1.5E-3+1E5
   +Q1!D4:E5+rate+#N/A+[1]Sheet1!A1+SUM($A:$B)+Jan:Dec!F6 *)
Definition ex_tokens : list token :=
  [ TSheet true [68;111;110;110;233;101;115;32;81;49]; TRef true 0 false 0; TSym 43;
    TRef false 1 true 1; TSym 42; TFunc [76;79;71;49;48]; TRef false 2 false 2; TSym 41; TSym 38;
    TStr [233;32;34;120;34;32;65;49]; TSym 43;
    TName [84;97;98;108;101;49];
    TBrack [91;91;35;84;104;105;115;32;82;111;119;93;44;91;67;111;108;32;65;49;93;93]; TSym 43;
    TNum [49] (Some [53]) (Some (Some true, [51])); TSym 43; TNum [49] None (Some (None, [53])); TSym 43;
    TSheet false [81;49]; TRef false 3 false 3; TSym 58; TRef false 4 false 4; TSym 43;
    TName [114;97;116;101]; TSym 43; TErr 6; TSym 43;
    TBrack [91;49;93]; TSheet false [83;104;101;101;116;49]; TRef false 0 false 0; TSym 43;
    TFunc [83;85;77]; TColRange true 0 true 1; TSym 41; TSym 43;
    TSheetRange [74;97;110] [68;101;99]; TRef false 5 false 5 ].

Example translate_correct_nonvacuous :
  wf_formula ascii_alnum ex_tokens = true /\ in_range ex_tokens (5, 2)%Z /\
  known_C15 ex_tokens = None /\
  render_all (map (translate (5, 2)%Z) ex_tokens) <> render_all ex_tokens /\
  replace_cell_names ascii_alnum (render_all ex_tokens) (5, 2)%Z
    = Ok (render_all (map (translate (5, 2)%Z) ex_tokens)).
Proof. vm_compute. repeat split; discriminate. Qed.

(* the former classes, now translated as specified (model level; the harness confirms the
   real code): $A1+A$1 along a row, LOG10(A1) down, a string literal with e-acute, a quoted
   sheet name containing a double quote, Revenue2024!A1*1000000000 *)
Example former_classes_fixed :
  replace_cell_names ascii_alnum [36;65;49;43;65;36;49] (0, 1)%Z = Ok [36;65;49;43;66;36;49] /\
  replace_cell_names ascii_alnum [76;79;71;49;48;40;65;49;41] (1, 0)%Z = Ok [76;79;71;49;48;40;65;50;41] /\
  replace_cell_names ascii_alnum [34;233;34;38;65;49] (1, 0)%Z = Ok [34;233;34;38;65;50] /\
  replace_cell_names ascii_alnum [39;97;34;98;39;33;65;49] (1, 0)%Z = Ok [39;97;34;98;39;33;65;50] /\
  replace_cell_names ascii_alnum
    [82;101;118;101;110;117;101;50;48;50;52;33;65;49;42;49;48;48;48;48;48;48;48;48;48] (1, 0)%Z
  = Ok [82;101;118;101;110;117;101;50;48;50;52;33;65;50;42;49;48;48;48;48;48;48;48;48;48].
Proof. vm_compute. repeat split. Qed.

(* outside in_range: a reference that would leave the sheet stays (A1 up / left, A1048576 down,
   XFD1 right); the mixed reference $A1 one row up and one column left stays as a whole *)
Example edge_behaviour :
  replace_cell_names ascii_alnum [65;49] (-1, 0)%Z = Ok [65;49] /\
  replace_cell_names ascii_alnum [65;49] (0, -1)%Z = Ok [65;49] /\
  replace_cell_names ascii_alnum [65;49;48;52;56;53;55;54] (1, 0)%Z = Ok [65;49;48;52;56;53;55;54] /\
  replace_cell_names ascii_alnum [88;70;68;49] (0, 1)%Z = Ok [88;70;68;49] /\
  replace_cell_names ascii_alnum [36;65;49] (-1, -1)%Z = Ok [36;65;49] /\
  replace_cell_names ascii_alnum [65;50] (9223372036854775807, 0)%Z = Panic.
Proof. vm_compute. repeat split. Qed.

(* remaining known classes *)
Definition wt_whole_cols : list token := [TFunc [83;85;77]; TColRange false 0 false 0; TSym 41].  (* SUM(A:A) *)
Definition wt_whole_rows : list token := [TFunc [83;85;77]; TRowRange false 0 false 2; TSym 41].  (* SUM(1:3) *)
Definition wt_sheet3d : list token := [TSheetRange [81;49] [81;51]; TRef false 0 false 0].        (* Q1:Q3!A1 *)

Theorem refuted_whole_range :
  exists ts off, wf_formula ascii_alnum ts = true /\ in_range ts off /\
    known_C15 ts = Some CL_WHOLE /\ known_at off ts = Some CL_WHOLE /\
    replace_cell_names ascii_alnum (render_all ts) off = Ok (render_all ts) /\
    render_all ts <> render_all (map (translate off) ts).
Proof. exists wt_whole_cols, (0, 1)%Z. vm_compute. repeat split; discriminate. Qed.

Theorem refuted_whole_range_rows :
  exists ts off, wf_formula ascii_alnum ts = true /\ in_range ts off /\
    known_C15 ts = Some CL_WHOLE /\ known_at off ts = Some CL_WHOLE /\
    replace_cell_names ascii_alnum (render_all ts) off = Ok (render_all ts) /\
    render_all ts <> render_all (map (translate off) ts).
Proof. exists wt_whole_rows, (2, 0)%Z. vm_compute. repeat split; discriminate. Qed.

(* … but not in the other direction (proved in general: translate_correct_at) *)
Example whole_range_vertical_ok :
  known_at (3, 0)%Z wt_whole_cols = None /\ known_at (0, 3)%Z wt_whole_rows = None.
Proof. vm_compute. split; reflexivity. Qed.

Theorem refuted_sheet3d :
  exists ts off, wf_formula ascii_alnum ts = true /\ in_range ts off /\
    known_C15 ts = Some CL_SHEET3D /\
    replace_cell_names ascii_alnum (render_all ts) off = Ok [81;50;58;81;51;33;65;50] /\   (* Q2:Q3!A2 *)
    render_all (map (translate off) ts) = [81;49;58;81;51;33;65;50].                         (* Q1:Q3!A2 *)
Proof. exists wt_sheet3d, (1, 0)%Z. vm_compute. repeat split. Qed.

(* a sheet: block B2:D4 declared by C3 (the master in the middle, si 1), then a row B6:E6 (si 0,
   i.e. indices in decreasing document order); a member before its master, one outside its ref,
   one of an undeclared index *)
Definition ex_f1 : list token :=      (* $A21+F$1*LOG10(H22) *)
  [TRef true 0 false 20; TSym 43; TRef false 5 true 0; TSym 42; TFunc [76;79;71;49;48];
   TRef false 7 false 21; TSym 41].
Definition ex_g1 : group := mkGroup 1 (2, 2) (1, 1) (3, 3) ex_f1.
Definition ex_g0 : group := mkGroup 0 (5, 1) (5, 1) (5, 4) [TRef false 0 false 0; TSym 43; TNum [49] None None].
Definition ex_sheet : list scell :=
  [ SPlain (0, 0) [66;50]; SMember (1, 1) 1 [];
    SMaster ex_g1; SMember (2, 3) 1 []; SMember (3, 1) 1 []; SMember (3, 3) 1 [];
    SMaster ex_g0; SMember (5, 2) 0 []; SMember (5, 4) 0 [];
    SMember (6, 0) 0 [75]; SMember (7, 7) 9 [76]; SNone (8, 8) ].

Example group_covers_range_nonvacuous :
  sheet_okb ascii_alnum [] ex_sheet = true /\
  nth_error (spec_cells [] ex_sheet) 1 = Some ((1, 1), []) /\
  nth_error (spec_cells [] ex_sheet) 3
    = Some ((2, 3), render_all [TRef true 0 false 20; TSym 43; TRef false 6 true 0; TSym 42;
                                TFunc [76;79;71;49;48]; TRef false 8 false 21; TSym 41]) /\
  nth_error (spec_cells [] ex_sheet) 4
    = Some ((3, 1), render_all [TRef true 0 false 21; TSym 43; TRef false 4 true 0; TSym 42;
                                TFunc [76;79;71;49;48]; TRef false 6 false 22; TSym 41]) /\
  nth_error (spec_cells [] ex_sheet) 8
    = Some ((5, 4), render_all [TRef false 3 false 0; TSym 43; TNum [49] None None]) /\
  nth_error (spec_cells [] ex_sheet) 9 = Some ((6, 0), [75]).
Proof. vm_compute. repeat split. Qed.

(* the whole-range class at group level: SUM(A:A) shared along a row *)
Theorem refuted_group_whole_range :
  exists cs, sheet_okb ascii_alnum [] cs = false /\
    run_cells ascii_alnum [] (map encode_cell cs) <> Ok (spec_cells [] cs).
Proof.
  exists [SMaster (mkGroup 0 (1, 1) (1, 1) (1, 3) wt_whole_cols); SMember (1, 2) 0 []].
  vm_compute. split; [reflexivity|discriminate].
Qed.
