#!/bin/sh
# emits a module that references every cmd_*.ml so that dune links them (they self-register)
echo "let force () ="
for f in cmd_*.ml; do
  m=$(basename "$f" .ml)
  M=$(echo "$m" | cut -c1 | tr a-z A-Z)$(echo "$m" | cut -c2-)
  echo "  $M.init ();"
done
echo "  ()"
