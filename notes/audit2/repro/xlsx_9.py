# P9..: XML-level and package-level variants real producers write
from xlsx_base import *
import zipfile, io, codecs
S1 = '<row r="1"><c r="A1" t="s"><v>0</v></c><c r="B1" s="1"><v>44000</v></c></row>'
sst = DECL + '<sst xmlns="%s" count="1" uniqueCount="1"><si><t>hello</t></si></sst>' % NS
sty = styles('<numFmt numFmtId="164" formatCode="yyyy\\-mm\\-dd"/>', '<xf numFmtId="0"/><xf numFmtId="164" applyNumberFormat="1"/>')
print('-- baseline'); run(build('xlsx_9_base.xlsx', sheet(S1), sst=sst, sty=sty), ['range ' + hx('Sheet1')])
# (a) UTF-8 BOM on every part
bom = '\ufeff'
print('-- BOM on all parts'); run(build('xlsx_9a_bom.xlsx', bom + sheet(S1), wb=bom + workbook(), rels=bom + wbrels(), sst=bom + sst, sty=bom + sty), ['sheets', 'range ' + hx('Sheet1')])
# (b) UTF-16LE encoded sheet + sharedStrings (with BOM, encoding="UTF-16")
def u16(x): return codecs.BOM_UTF16_LE + x.replace('encoding="UTF-8"', 'encoding="UTF-16"').encode('utf-16-le')
print('-- UTF-16 sheet and sst'); run(build('xlsx_9b_utf16.xlsx', u16(sheet(S1)), sst=u16(sst), sty=sty), ['sheets', 'range ' + hx('Sheet1')])
print('-- UTF-16 workbook.xml'); run(build('xlsx_9b2_utf16wb.xlsx', sheet(S1), wb=u16(workbook()), sst=sst, sty=sty), ['sheets', 'range ' + hx('Sheet1')])
# (c) comment / PI / doctype-less prolog before root, no XML declaration
pro = '<!-- generated --><?mso-application progid="Excel.Sheet"?>\n'
print('-- prolog junk, no decl'); run(build('xlsx_9c_prolog.xlsx', pro + sheet(S1).replace(DECL, ''), wb=pro + workbook().replace(DECL, ''), sst=pro + sst.replace(DECL, ''), sty=sty), ['sheets', 'range ' + hx('Sheet1')])
# (d) every element prefixed (x:), relationships namespace bound to another prefix, Strict namespaces
SNS = 'http://purl.oclc.org/ooxml/spreadsheetml/main'; SR = 'http://purl.oclc.org/ooxml/officeDocument/relationships'
wbs = DECL + '<x:workbook xmlns:x="%s" xmlns:rel="%s" conformance="strict"><x:workbookPr date1904="true"/><x:sheets><x:sheet name="Sheet1" sheetId="1" rel:id="rId1"/></x:sheets></x:workbook>' % (SNS, SR)
rl = DECL + '<Relationships xmlns="%s"><Relationship Id="rId1" Type="%s/worksheet" Target="worksheets/sheet1.xml"/></Relationships>' % (PR, SR)
shs = DECL + '<x:worksheet xmlns:x="%s"><x:sheetData><x:row r="1"><x:c r="A1" t="s"><x:v>0</x:v></x:c><x:c r="B1" s="1"><x:v>44000</x:v></x:c><x:c r="C1" t="d"><x:v>2020-01-02T03:04:05Z</x:v></x:c></x:row></x:sheetData></x:worksheet>' % SNS
ssts = DECL + '<x:sst xmlns:x="%s"><x:si><x:t>hello</x:t></x:si></x:sst>' % SNS
stys = sty.replace(NS, SNS)
print('-- strict + prefixes'); run(build('xlsx_9d_strict.xlsx', shs, wb=wbs, rels=rl, sst=ssts, sty=stys), ['sheets', 'meta', 'range ' + hx('Sheet1')])
# (e) zip variants: stored, data descriptors (streamed writer), zip64 entries
def zipstream(path, parts, zip64=False):
    class NoSeek(io.RawIOBase):
        def __init__(s, f): s.f = f
        def writable(s): return True
        def write(s, b): return s.f.write(b)
        def flush(s): s.f.flush()
    with open(path, 'wb') as f:
        with zipfile.ZipFile(NoSeek(f), 'w', zipfile.ZIP_DEFLATED) as z:
            for n, c in parts:
                with z.open(zipfile.ZipInfo(n), 'w', force_zip64=zip64) as w:
                    w.write(c.encode() if isinstance(c, str) else c)
parts = [('[Content_Types].xml', CT), ('_rels/.rels', ROOTRELS), ('xl/workbook.xml', workbook()), ('xl/_rels/workbook.xml.rels', wbrels()),
         ('xl/worksheets/sheet1.xml', sheet(S1)), ('xl/sharedStrings.xml', sst), ('xl/styles.xml', sty)]
zipstream(OUT + 'xlsx_9e_datadesc.xlsx', parts); print('-- data descriptors'); run(OUT + 'xlsx_9e_datadesc.xlsx', ['sheets', 'range ' + hx('Sheet1')])
zipstream(OUT + 'xlsx_9e_zip64.xlsx', parts, True); print('-- zip64 + data descriptors'); run(OUT + 'xlsx_9e_zip64.xlsx', ['sheets', 'range ' + hx('Sheet1')])
mkzip(OUT + 'xlsx_9e_stored.xlsx', parts, zipfile.ZIP_STORED); print('-- stored'); run(OUT + 'xlsx_9e_stored.xlsx', ['sheets', 'range ' + hx('Sheet1')])
# directory entries + mimetype-like extra first entry
mkzip(OUT + 'xlsx_9e_dirs.xlsx', [('xl/', b''), ('xl/worksheets/', b'')] + parts); print('-- directory entries'); run(OUT + 'xlsx_9e_dirs.xlsx', ['sheets', 'range ' + hx('Sheet1')])
# (f) Excel-style workbook.xml with everything around
wbx = DECL + ('<workbook xmlns="%s" xmlns:r="%s" xmlns:mc="http://schemas.openxmlformats.org/markup-compatibility/2006" mc:Ignorable="x15 xr xr6 xr10 xr2" xmlns:x15="http://schemas.microsoft.com/office/spreadsheetml/2010/11/main">' % (NS, RNS)
 + '<fileVersion appName="xl" lastEdited="7" lowestEdited="7" rupBuild="22228"/><workbookPr date1904="1" defaultThemeVersion="166925"/>'
 + '<mc:AlternateContent><mc:Choice Requires="x15"><x15ac:absPath url="C:\\x\\" xmlns:x15ac="http://schemas.microsoft.com/office/spreadsheetml/2010/11/ac"/></mc:Choice></mc:AlternateContent>'
 + '<bookViews><workbookView xWindow="0" yWindow="0"/></bookViews><sheets><sheet name="Sheet1" sheetId="1" state="hidden" r:id="rId1"/></sheets>'
 + '<definedNames><definedName name="_xlnm.Print_Area" localSheetId="0" hidden="1">Sheet1!$A$1:$B$2</definedName><definedName function="false" hidden="false" name="n2" vbProcedure="false">Sheet1!$A$1&amp;"x"</definedName></definedNames>'
 + '<calcPr calcId="191029"/><extLst><ext uri="{140A7094-0E35-4892-8432-C4D2E57EDEB5}"><x15:workbookPr chartTrackingRefBase="1"/></ext></extLst></workbook>')
print('-- Excel-style workbook.xml'); run(build('xlsx_9f_wb.xlsx', sheet(S1), wb=wbx, sst=sst, sty=sty), ['sheets', 'meta', 'names', 'range ' + hx('Sheet1')])
# (g) sheet / defined-name text with _xHHHH_ (ST_Xstring in attributes / definedName)
wbg = workbook(sheets=(('_x0041_b', 'rId1'),), names='<definedNames><definedName name="_x0042_n">"_x0043_"</definedName></definedNames>')
print('-- xstring in sheet name / defined name'); run(build('xlsx_9g_names.xlsx', sheet(S1), wb=wbg, sst=sst, sty=sty), ['sheets', 'names'])
