#!/usr/bin/env python3
"""usage: tools/resolve_text_conflicts.py <file> [ours|theirs|both]   — resolves the conflict blocks of
a prose file: both (default) keeps ours then theirs; lines that start with 'Total `fix:` entries'
or that are table rows of the generated status table keep ours (regenerated afterwards)."""
import re, sys
f = sys.argv[1]; mode = sys.argv[2] if len(sys.argv) > 2 else "both"
s = open(f).read()
def rep(m):
    o, t = m.group(1), m.group(2)
    if mode == "ours" or o.startswith("Total `fix:`") or o.startswith("| C"):
        return o
    if mode == "theirs":
        return t
    return o + t
s = re.sub(r"<<<<<<< [^\n]*\n(.*?)=======\n(.*?)>>>>>>> [^\n]*\n", rep, s, flags=re.S)
open(f, "w").write(s)
