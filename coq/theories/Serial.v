(* Serial: model of the serial date-time conversions of src/datatype.rs (feature "dates"),
   with the part of chrono 0.4.45 they call, plus the specification vocabulary of property C11.
   Definitions only (proofs: Serial_proofs.v); executable and extracted (coq/extract/serial.list).

   Rust (src/datatype.rs, current tree)                         here
   -----------------------------------------------------------  -------------------------------
   const EXCEL_1900_1904_DIFF: f64 = 1462.                      DIFF_1904
   const MS_MULTIPLIER: f64 = 24.*60.*60.*1e3                   MS_MULTIPLIER
   EXCEL_EPOCH = 1899-12-30T00:00:00                            EXCEL_EPOCH_DAYS, midnight
   ExcelDateTime { value, datetime_type, is_1904 }              excel_dt
   ExcelDateTime::as_duration                                   edt_as_duration
   ExcelDateTime::as_datetime                                   edt_as_datetime
   DataType::{as_datetime,as_date,as_time,as_duration}          data_as_datetime … data_as_duration
     for Data::{Int,Float,DateTime} and the non-ISO others        on [cell]
   chrono::Duration::milliseconds (panics below -i64::MAX)      duration_milliseconds
   NaiveDateTime::checked_add_signed                            naive_checked_add
     (NaiveTime::overflowing_add_signed, TimeDelta::try_seconds,
      NaiveDate::checked_add_signed / add_days)

   Not modelled: Data::DateTimeIso / DurationIso cells (they go through chrono's string parser,
   which is external), DataRef (same trait default methods, same accessors).

   A chrono NaiveDate is represented by its day number (days since 1970-01-01, see Civil.v); what
   chrono stores is (year, ordinal, flags) and its [add_days] goes through 400-year cycles.  The
   model keeps exactly what is observable: the resulting date when it lies in
   NaiveDate::MIN ..= NaiveDate::MAX (years -262143 ..= 262142), None otherwise.  The harness prints
   year, month and day as chrono reports them next to the day number, so that this identification
   (and Civil.civil_of_days itself) is part of the correspondence check. *)
From Calamine Require Import Prelude F64 Civil.
Open Scope Z_scope.
Set Implicit Arguments.

(* ---------- constants ---------- *)
Definition DIFF_1904 : f64 := f64_of_Z 1462.
Definition MS_MULTIPLIER : f64 := f64_of_Z 86400000.
Definition F60 : f64 := f64_of_Z 60.
Definition F1 : f64 := f64_of_Z 1.
Definition I64_MAX_F : f64 := f64_of_Z I64MAX.        (* [i64::MAX as f64] = 2^63 *)

Definition MS_PER_DAY : Z := 86400000.
Definition EXCEL_EPOCH_DAYS : Z := days_of_civil 1899 12 30.

(* ---------- chrono 0.4.45 ---------- *)
(* TimeDelta { secs: i64, nanos: i32 (0 <= nanos < 10^9) } *)
Definition timedelta : Type := (Z * Z)%type.
Definition TD_MIN_SECS : Z := - (I64MAX / 1000) - 1.           (* -i64::MAX / 1000 - 1 *)
Definition TD_MAX_SECS : Z := I64MAX / 1000.
Definition TD_MIN_NANOS : Z := 1000000000 - (I64MAX mod 1000) * 1000000.
Definition TD_MAX_NANOS : Z := (I64MAX mod 1000) * 1000000.

(* TimeDelta::milliseconds(n) = expect(try_milliseconds(n)): panics iff n < -i64::MAX;
   otherwise { secs: n.div_euclid(1000), nanos: n.rem_euclid(1000) * 1_000_000 } *)
Definition duration_milliseconds (n : Z) : outcome timedelta :=
  if n <? - I64MAX then Panic else Ok (n / 1000, (n mod 1000) * 1000000).

(* TimeDelta::num_milliseconds, used only to print a duration: secs * 1000 + nanos / 10^6 *)
Definition td_num_milliseconds (t : timedelta) : Z := fst t * 1000 + snd t / 1000000.

Definition td_num_seconds (t : timedelta) : Z :=
  let '(secs, nanos) := t in if (secs <? 0) && (0 <? nanos) then secs + 1 else secs.
Definition td_subsec_nanos (t : timedelta) : Z :=
  let '(secs, nanos) := t in if (secs <? 0) && (0 <? nanos) then nanos - 1000000000 else nanos.

(* TimeDelta::try_seconds(s) = TimeDelta::new(s, 0) *)
Definition td_try_seconds (s : Z) : option timedelta :=
  if (s <? TD_MIN_SECS) || (TD_MAX_SECS <? s) || ((s =? TD_MIN_SECS) && (0 <? TD_MIN_NANOS))
  then None else Some (s, 0).

(* NaiveTime { secs: u32, frac: u32 }; NaiveTime::MIN = midnight.
   overflowing_add_signed for a receiver that is not inside a leap second (frac < 10^9; the
   epoch's time is midnight, so the leap-second branch of the Rust code is not reachable). *)
Definition naive_time : Type := (Z * Z)%type.                   (* seconds of day, nanoseconds *)
Definition midnight : naive_time := (0, 0).
Definition time_overflowing_add (t : naive_time) (rhs : timedelta) : naive_time * Z :=
  let '(secs0, frac0) := t in
  let secs := secs0 + td_num_seconds rhs in
  let frac := frac0 + td_subsec_nanos rhs in
  let '(secs, frac) :=
    if frac <? 0 then (secs - 1, frac + 1000000000)
    else if 1000000000 <=? frac then (secs + 1, frac - 1000000000) else (secs, frac) in
  let secs_in_day := secs mod 86400 in                          (* rem_euclid *)
  ((secs_in_day, frac), secs - secs_in_day).

(* NaiveDate::MIN / MAX as day numbers *)
Definition MIN_YEAR : Z := -262143.
Definition MAX_YEAR : Z := 262142.
Definition MIN_DATE_DAYS : Z := days_of_civil MIN_YEAR 1 1.
Definition MAX_DATE_DAYS : Z := days_of_civil MAX_YEAR 12 31.

(* NaiveDate::checked_add_signed(rhs): rhs.num_days() must fit an i32, then add_days *)
Definition date_checked_add (date : Z) (rhs : timedelta) : option Z :=
  let days := Z.quot (td_num_seconds rhs) 86400 in              (* i64 `/`: toward zero *)
  if (days <? I32MIN) || (I32MAX <? days) then None
  else
    let d := date + days in
    if (d <? MIN_DATE_DAYS) || (MAX_DATE_DAYS <? d) then None else Some d.

Record naive_datetime : Type := { dt_days : Z; dt_time : naive_time }.

Definition naive_checked_add (dt : naive_datetime) (rhs : timedelta) : option naive_datetime :=
  let '(time, remainder) := time_overflowing_add (dt_time dt) rhs in
  match td_try_seconds remainder with
  | None => None
  | Some rem =>
      match date_checked_add (dt_days dt) rem with
      | None => None
      | Some date => Some {| dt_days := date; dt_time := time |}
      end
  end.

(* ---------- src/datatype.rs ---------- *)
Record excel_dt : Type := { edt_value : f64; edt_is_duration : bool; edt_is_1904 : bool }.

(* ExcelDateTime::from_value_only: DateTime type, 1900 system *)
Definition from_value_only (v : f64) : excel_dt :=
  {| edt_value := v; edt_is_duration := false; edt_is_1904 := false |}.

(* the test  !(ms.abs() < i64::MAX as f64)  — true also when ms is NaN *)
Definition ms_out_of_range (ms : f64) : bool := negb (f64_lt (f64_abs ms) I64_MAX_F).

Definition duration_ms_float (v : f64) : f64 := f64_round (f64_mul v MS_MULTIPLIER).

Definition edt_as_duration (x : excel_dt) : outcome (option timedelta) :=
  let ms := duration_ms_float (edt_value x) in
  if ms_out_of_range ms then Ok None
  else do d <- duration_milliseconds (f64_to_i64 ms); Ok (Some d).

(* the serial after the 1904 offset, then after the 1900 leap-year shim *)
Definition offset_serial (v : f64) (is_1904 : bool) : f64 :=
  if is_1904 then f64_add v DIFF_1904 else v.
Definition shifted_serial (v : f64) (is_1904 : bool) : f64 :=
  let f := offset_serial v is_1904 in
  if f64_ge f F60 then f else f64_add f F1.

Definition datetime_ms_float (v : f64) (is_1904 : bool) : f64 :=
  f64_round (f64_mul (shifted_serial v is_1904) MS_MULTIPLIER).

Definition excel_epoch : naive_datetime := {| dt_days := EXCEL_EPOCH_DAYS; dt_time := midnight |}.

Definition edt_as_datetime (x : excel_dt) : outcome (option naive_datetime) :=
  let ms := datetime_ms_float (edt_value x) (edt_is_1904 x) in
  if ms_out_of_range ms then Ok None
  else do d <- duration_milliseconds (f64_to_i64 ms); Ok (naive_checked_add excel_epoch d).

(* cells: the Data variants whose conversions do not involve chrono's string parser *)
Inductive cell : Type :=
| CInt (i : Z)                 (* Data::Int(i64) *)
| CFloat (f : f64)             (* Data::Float *)
| CDateTime (x : excel_dt)     (* Data::DateTime *)
| COther                       (* Data::{String, Bool, Empty}: not a date *)
| CError.                      (* Data::Error: not a date either; serde refuses it (see below) *)

Definition data_as_datetime (c : cell) : outcome (option naive_datetime) :=
  match c with
  | CInt i => edt_as_datetime (from_value_only (f64_of_Z i))       (* as_f64: [i as f64] *)
  | CFloat f => edt_as_datetime (from_value_only f)
  | CDateTime x => edt_as_datetime x
  | COther | CError => Ok None
  end.

Definition data_as_date (c : cell) : outcome (option Z) :=
  do r <- data_as_datetime c; Ok (option_map dt_days r).

Definition data_as_time (c : cell) : outcome (option naive_time) :=
  do r <- data_as_datetime c; Ok (option_map dt_time r).

Definition data_as_duration (c : cell) : outcome (option timedelta) :=
  match c with
  | CDateTime x => edt_as_duration x
  | _ => Ok None
  end.

(* ---------- the serde helpers of src/lib.rs ----------
   deserialize_as_{datetime,date,time,duration}_or_{none,string}(deserializer) do
       let data = Data::deserialize_from(deserializer, true)?;  Ok(data.as_xxx())   (or .ok_or_else(to_string))
   Data::deserialize_from(d, true) (src/datatype.rs) asks d for the newtype "$calamine::private::Cell".
   When d is calamine's own cell deserializer (src/de.rs, DataDeserializer::deserialize_newtype_struct)
   a Data::DateTime(v) cell answers visit_map {variant: v.as_f64()}, the variant name
   (ExcelDateTime::cell_variant: DateTime | DateTime1904 | TimeDelta | TimeDelta1904) carrying the
   type and the date system, and Data's visitor rebuilds ExcelDateTime::new(value, type, is_1904):
   [cell_variant] / [of_cell_variant] below.  Every other cell answers visit_newtype_struct(self),
   which the visitor forwards to deserialize_any: Int, Float, String, Bool and Empty cells come back
   as themselves; an Error cell makes the deserialization fail with DeError::CellError.
   (Before the fix of F34/F35 the helpers used Data::deserialize = deserialize_any, which hands a
   DateTime cell over as visit_f64(v.as_f64()): the helper saw Data::Float(value).)
   The *_or_string variants differ only in reporting None as Err(cell text), which is not modelled
   (f64 Display is external). *)
Definition cell_variant (x : excel_dt) : N :=          (* 0 DateTime, 1 DateTime1904, 2 TimeDelta, 3 TimeDelta1904 *)
  match edt_is_duration x, edt_is_1904 x with
  | false, false => 0%N | false, true => 1%N | true, false => 2%N | true, true => 3%N
  end.
Definition of_cell_variant (k : N) (v : f64) : option excel_dt :=
  match k with
  | 0%N => Some {| edt_value := v; edt_is_duration := false; edt_is_1904 := false |}
  | 1%N => Some {| edt_value := v; edt_is_duration := false; edt_is_1904 := true |}
  | 2%N => Some {| edt_value := v; edt_is_duration := true; edt_is_1904 := false |}
  | 3%N => Some {| edt_value := v; edt_is_duration := true; edt_is_1904 := true |}
  | _ => None                                          (* the visitor: invalid_type(Map) *)
  end.
Definition de_roundtrip (c : cell) : outcome cell :=
  match c with
  | CDateTime x =>
      match of_cell_variant (cell_variant x) (edt_value x) with
      | Some x' => Ok (CDateTime x')
      | None => Err 2
      end
  | CError => Err 1
  | _ => Ok c
  end.
Definition helper_as_datetime (c : cell) : outcome (option naive_datetime) :=
  do c' <- de_roundtrip c; data_as_datetime c'.
Definition helper_as_date (c : cell) : outcome (option Z) :=
  do c' <- de_roundtrip c; data_as_date c'.
Definition helper_as_time (c : cell) : outcome (option naive_time) :=
  do c' <- de_roundtrip c; data_as_time c'.
Definition helper_as_duration (c : cell) : outcome (option timedelta) :=
  do c' <- de_roundtrip c; data_as_duration c'.

(* ---------- specification vocabulary ---------- *)
(* the date a whole serial stands for, by the spreadsheet convention *)
Definition spec_days_1900 (d : Z) : Z :=
  if d <? 60 then days_of_civil 1899 12 31 + d        (* 1 -> 1900-01-01 … 59 -> 1900-02-28 *)
  else days_of_civil 1900 3 1 + (d - 61).             (* 61 -> 1900-03-01, one day per unit *)
Definition spec_days_1904 (d : Z) : Z := days_of_civil 1904 1 1 + d.
Definition spec_days (is_1904 : bool) (d : Z) : Z :=
  if is_1904 then spec_days_1904 d else spec_days_1900 d.

Definition at_midnight (days : Z) : naive_datetime := {| dt_days := days; dt_time := midnight |}.

(* milliseconds since 1970-01-01T00:00 of a result, and the order on results *)
Definition dt_millis (r : naive_datetime) : Z :=
  dt_days r * MS_PER_DAY + fst (dt_time r) * 1000 + snd (dt_time r) / 1000000.
Definition dt_le (a b : naive_datetime) : Prop := dt_millis a <= dt_millis b.

(* nearest integer to num / 2^sh, ties away from zero *)
Definition round_half_away (num sh : Z) : Z :=
  let q := Z.abs num / 2 ^ sh in
  let r := Z.abs num mod 2 ^ sh in
  let n := if 2 ^ sh <=? 2 * r then q + 1 else q in
  if num <? 0 then - n else n.

(* the exact product serial x 86 400 000 (no floating-point rounding) to the nearest millisecond *)
Definition exact_ms (v : f64) : option Z :=
  match f64_exact v with
  | Some (num, sh) => Some (round_half_away (num * MS_PER_DAY) sh)
  | None => None
  end.

(* Known class of C11 (finding F16): after the 1904 offset the serial falls on the fictitious
   1900-02-29, i.e. in [60, 61).  Those serials are mapped onto 1900-02-28, the day serials in
   [59, 60) already denote, so the conversion is not monotone there. *)
Definition FICTITIOUS_LEAP_DAY : N := 16.
Definition F61 : f64 := f64_of_Z 61.
Definition known_C11 (v : f64) (is_1904 : bool) : option N :=
  let f := offset_serial v is_1904 in
  if f64_ge f F60 && f64_lt f F61 then Some FICTITIOUS_LEAP_DAY else None.
