"""C05 — Range stays a consistent rectangle under every sequence of operations.
Correspondence: random operation histories through the real Range<Data> (vh range) and the
extracted Coq model (vm range); every accessor is dumped after every step.
Search oracle: a naive dictionary spec (bounding box + map) written from the property text,
used only to decide whether a disagreement is a concrete violation of the property."""
import vlib

U32 = 2**32 - 1
U64 = 2**64 - 1
ASSUMPTIONS = [
    "Range<Data> with Data::Int/Empty stands for every CellType (the code is generic and uses only Default/Clone/PartialEq)",
    "usize is 64 bits; allocations succeed (the model exposes the requested cell count as requested_new / requested_from_sparse; the tie only runs rectangles of a few hundred cells, so the usize cell count of Range::new beyond 2^32 cells is proved about the model but not exercised on the real code)",
    "no range has 2^32 rows or 2^32 columns (Range::width/height add 1 in u32; Range_spec.fits32 is preserved by every history under pre_head)",
]

# ---------------------------------------------------------------- naive spec (search oracle)
class Spec:
    def __init__(self):
        self.rect = None
        self.m = {}
    def apply(self, op):
        """returns False when the op violates a documented precondition (spec says nothing)"""
        k = op[0]
        if k == "new" or k == "win":
            _, a, b, c, d = op
            if a > c or b > d or (c - a + 1) * (d - b + 1) > U64:
                return False
            if k == "new":
                self.m = {}
            else:
                self.m = {p: v for p, v in self.m.items() if a <= p[0] <= c and b <= p[1] <= d}
            self.rect = (a, b, c, d)
        elif k in ("empty", "default"):
            self.rect, self.m = None, {}
        elif k == "sparse":
            cells = op[1]
            rows = [c[0] for c in cells]   # any order since 3140dd1
            self.m = {}
            if not cells:
                self.rect = None
            else:
                self.rect = (min(rows), min(c[1] for c in cells), max(rows), max(c[1] for c in cells))
                for r, c, v in cells:
                    self.m[(r, c)] = v
        elif k == "set":
            _, r, c, v = op
            if self.rect is None:
                self.rect = (r, c, r, c)
            else:
                a, b, cc, d = self.rect
                if r < a or c < b:
                    return False
                self.rect = (a, b, max(cc, r), max(d, c))
            self.m[(r, c)] = v
        return True
    def dump(self):
        if self.rect is None:
            return "S-E-Z0,0h0w0e1R[]C[]U[]D[|]G[-/!]A[-,-,-,-]"
        a, b, c, d = self.rect
        h, w = c - a + 1, d - b + 1
        g = lambda i, j: self.m.get((a + i, b + j), 0)
        s = "S%d,%dE%d,%dZ%d,%dh%dw%de0" % (a, b, c, d, h, w, h, w)
        s += "R[" + ";".join(",".join(str(g(i, j)) for j in range(w)) for i in range(h)) + "]"
        cells = [(i, j, g(i, j)) for i in range(h) for j in range(w)]
        s += "C[" + ",".join("%d:%d:%d" % t for t in cells) + "]"
        used = [t for t in cells if t[2] != 0]
        s += "U[" + ",".join("%d:%d:%d" % t for t in used) + "]"
        def alternate(l):          # double-ended consumption: front, back, front, ...
            l, out, front = list(l), [], True
            while l:
                out.append(l.pop(0) if front else l.pop())
                front = not front
            return out
        s += "D[" + ",".join(["%d:%d:%d" % t for t in alternate(cells)] + ["|"] + ["%d:%d:%d" % t for t in alternate(used)]) + "]"
        pr = []
        for i in range(h + 1):
            for j in range(w + 1):
                pr.append("%d/%d" % (g(i, j), g(i, j)) if i < h and j < w else "-/!")
        s += "G[" + ",".join(pr) + "]"
        ab = []
        for r in range(max(a - 1, 0), min(c + 1, U32) + 1):
            for cc in range(max(b - 1, 0), min(d + 1, U32) + 1):
                ab.append(str(self.m.get((r, cc), 0)) if a <= r <= c and b <= cc <= d else "-")
        s += "A[" + ",".join(ab) + "]"
        return s

def spec_answer(ops):
    sp, out = Spec(), []
    for op in ops:
        if not sp.apply(op):
            out.append(None)   # outside the preconditions: nothing demanded from here on
            break
        out.append(sp.dump())
    return out

# ---------------------------------------------------------------- generation
def op_text(op):
    k = op[0]
    if k == "sparse":
        return "sparse " + ",".join("%d:%d:%d" % c for c in op[1])
    return " ".join(str(x) for x in op)

def gen_history(rng, ctx=None):
    base_r = rng.choice([0, 0, 0, 1, 3, U32 - 7, 1048570])
    base_c = rng.choice([0, 0, 0, 2, 5, U32 - 6, 16380])
    span = 7
    def coord():
        return base_r + rng.randrange(span), base_c + rng.randrange(span)
    n = rng.randrange(1, 11)
    ops, sp = [], Spec()
    bad = rng.random() < 0.12
    for k in range(n):
        kind = rng.choice(["new", "set", "set", "set", "set", "win", "win", "sparse", "empty"] if k else
                          ["new", "new", "sparse", "sparse", "set", "empty", "win"])
        if kind in ("new", "win"):
            (a, b), (c, d) = coord(), coord()
            if not (bad and rng.random() < 0.3):
                a, c = min(a, c), max(a, c)
                b, d = min(b, d), max(b, d)
            op = (kind, a, b, c, d)
        elif kind == "empty":
            op = (rng.choice(["empty", "default"]),)
        elif kind == "sparse":
            cells = [coord() + (rng.randrange(0, 10),) for _ in range(rng.randrange(0, 8))]
            if rng.random() < 0.5:     # row order is no longer a precondition: half stay shuffled
                cells.sort(key=lambda c: c[0])
            op = ("sparse", cells)
        else:
            r, c = coord()
            if sp.rect is not None and not (bad and rng.random() < 0.3):
                # respect "at or beyond the start corner", biased to the edges of the rectangle
                a, b, cc, d = sp.rect
                r = rng.choice([a, cc, cc + 1, min(cc + 3, U32), max(r, a)])
                c = rng.choice([b, d, d + 1, min(d + 2, U32), max(c, b)])
                r, c = min(max(r, a), U32), min(max(c, b), U32)
            op = ("set", r, c, rng.randrange(0, 10))
        ops.append(op)
        if not sp.apply(op):
            break
        if sp.rect and (sp.rect[2] - sp.rect[0] + 1) * (sp.rect[3] - sp.rect[1] + 1) > 400:
            break
    return ops

def classify(ctx, line_id, ops, impl, model):
    """three-way comparison for one history"""
    spec = spec_answer(ops)
    text = "|".join(op_text(o) for o in ops)
    isteps = impl.split(";;") if impl is not None else []
    # i vs s: a concrete violation whenever the implementation deviates inside the preconditions
    for k, s in enumerate(spec):
        if s is None:
            break
        got = isteps[k] if k < len(isteps) else "(missing)"
        if got != s:
            ctx.violations.append({"case": "%s\trange\t%s" % (line_id, text), "expected": s,
                                   "actual": got, "model": model,
                                   "what": "step %d (%s) of the history" % (k, op_text(ops[k]))})
            return
    if impl != model:
        ctx.disagreements.append({"function": "Range", "case": "%s\trange\t%s" % (line_id, text),
                                  "impl": impl, "model": model})

def run_batch(ctx, n, tag):
    hist = [gen_history(ctx.rng) for _ in range(n)]
    lines = ["%s%d\trange\t%s" % (tag, k, "|".join(op_text(o) for o in ops)) for k, ops in enumerate(hist)]
    impl, model = ctx.run_both(lines)
    for k, ops in enumerate(hist):
        lid = "%s%d" % (tag, k)
        classify(ctx, lid, ops, impl.get(lid), model.get(lid))
        ctx.traces += 1
        for o in ops:
            ctx.count("op:" + o[0])
        ctx.count("len:%d" % len(ops))
        sp = spec_answer(ops)
        ctx.count("ends_outside_preconditions" if sp and sp[-1] is None else "within_preconditions")
        if len(ops) >= 2 and any(o[0] in ("set", "win") for o in ops[1:]):
            ctx.nontrivial(lines[k].split("\t", 2)[2])
        if k < 3:
            ctx.sample({"case": lines[k].split("\t", 2)[2], "impl_equals_model": impl.get(lid) == model.get(lid)})

CORPUS = [
    # witnesses of the defects repaired by fix: commits (F2, F3, F33, u32::MAX window) and edge cases
    "new 0 0 1 1|set 3 1 5",
    "empty|set 0 0 4", "empty|set 2 3 4",
    "empty|win 0 0 1 0",
    "new 4294967295 4294967295 4294967295 4294967295|set 4294967295 4294967295 3|win 4294967294 4294967294 4294967295 4294967295",
    "new 1 1 2 2|set 2 5 1|set 6 2 2|set 7 7 3",
    "sparse 1:3:1,1:1:2,4:2:3,4:2:4|win 0 0 5 5|win 2 2 3 3",
    "new 3 3 1 1", "new 0 5 1 2", "new 1 1 3 3|set 0 0 1", "sparse 3:1:1,1:1:2",
    # from_sparse on cells that are not in row order (3140dd1): bounds are min/max over all cells
    "sparse 5:5:1,1:9:2,3:0:3|set 6 10 4|win 0 0 6 6",
    "sparse 4:2:1,4:1:2,0:3:3,2:2:4,0:3:5",
    "sparse 7:0:1,6:1:2,5:2:3,4:3:4|win 5 1 6 2|set 9 9 9",
    "sparse 4294967295:4294967295:1,4294967290:4294967293:2|win 4294967289 4294967292 4294967295 4294967295",
    "sparse 2:2:0,1:1:0", "sparse 3:3:3",
    # still panicking by contract: inverted corners (assert / u32 subtraction), set before start
    "win 2 2 1 1", "win 0 5 1 2", "sparse 2:2:1|set 1 2 5", "sparse 2:2:1|set 2 1 5",
]

def run_corpus(ctx):
    lines = ["k%d\trange\t%s" % (k, c) for k, c in enumerate(CORPUS)]
    impl, model = ctx.run_both(lines)
    for k, c in enumerate(CORPUS):
        ops = []
        for o in c.split("|"):
            f = o.split(" ")
            if f[0] == "sparse":
                cells = [tuple(int(x) for x in t.split(":")) for t in f[1].split(",")] if len(f) > 1 and f[1] else []
                ops.append(("sparse", cells))
            elif f[0] in ("empty", "default"):
                ops.append((f[0],))
            else:
                ops.append((f[0],) + tuple(int(x) for x in f[1:]))
        classify(ctx, "k%d" % k, ops, impl.get("k%d" % k), model.get("k%d" % k))
        ctx.traces += 1
        ctx.nontrivial(c)

def run(ctx):
    run_corpus(ctx)
    run_batch(ctx, ctx.scale(3000, 60000), "h")

def search(ctx):
    run_batch(ctx, ctx.scale(30000, 200000), "s")

def replay(ctx, rep):
    case = rep.get("case")
    print("replaying:", case)
    impl, model = ctx.run_both([case])
    lid = case.split("\t", 1)[0]
    print("impl :", impl.get(lid))
    print("model:", model.get(lid))
    print("expected:", rep.get("expected"))
    return 0 if impl.get(lid) == rep.get("expected") else 1
