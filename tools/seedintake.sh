#!/bin/bash
# usage: tools/seedintake.sh <ID> ...   — verifies /tmp/seed/<ID>/out/{A,B} and copies verified ones to /verif/seeded/<ID>-<X>/
cd "$(dirname "$0")/.."
for id in "$@"; do for x in ${SEEDVARS:-A B}; do
  src=${SEEDBASE:-/tmp/seed}/$id/out/$x
  [ -f "$src/patch.diff" ] || { echo "$id-$x: no patch"; continue; }
  if tools/seedverify.sh "$src" > ${SEEDBASE:-/tmp/seed}/$id/out/$x.verify.log 2>&1; then
    dst=seeded/$id-$x; rm -rf "$dst"; mkdir -p "$dst"; cp -r "$src/patch.diff" "$src/meta.json" "$dst/"; [ -d "$src/demo" ] && cp -r "$src/demo" "$dst/"
    echo "$id-$x VERIFIED -> $dst"
  else echo "$id-$x NOT-VERIFIED: $(grep -E 'demo_without|patch does not' ${SEEDBASE:-/tmp/seed}/$id/out/$x.verify.log | tail -1)"; fi
done; done
