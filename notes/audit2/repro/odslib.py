import zipfile, os
OUT='/tmp/ag/audit2/repro/out'
os.makedirs(OUT, exist_ok=True)
MIME='application/vnd.oasis.opendocument.spreadsheet'
NS=('xmlns:office="urn:oasis:names:tc:opendocument:xmlns:office:1.0" '
    'xmlns:style="urn:oasis:names:tc:opendocument:xmlns:style:1.0" '
    'xmlns:text="urn:oasis:names:tc:opendocument:xmlns:text:1.0" '
    'xmlns:table="urn:oasis:names:tc:opendocument:xmlns:table:1.0" '
    'xmlns:draw="urn:oasis:names:tc:opendocument:xmlns:drawing:1.0" '
    'xmlns:dc="http://purl.org/dc/elements/1.1/" '
    'xmlns:number="urn:oasis:names:tc:opendocument:xmlns:datastyle:1.0" '
    'xmlns:of="urn:oasis:names:tc:opendocument:xmlns:of:1.2" '
    'xmlns:xlink="http://www.w3.org/1999/xlink" '
    'xmlns:calcext="urn:org:documentfoundation:names:experimental:calc:xmlns:calcext:1.0" '
    'xmlns:loext="urn:org:documentfoundation:names:experimental:office:xmlns:loext:1.0"')
MANIFEST=('<?xml version="1.0" encoding="UTF-8"?>\n<manifest:manifest xmlns:manifest="urn:oasis:names:tc:opendocument:xmlns:manifest:1.0" manifest:version="1.2">'
 '<manifest:file-entry manifest:full-path="/" manifest:version="1.2" manifest:media-type="application/vnd.oasis.opendocument.spreadsheet"/>'
 '<manifest:file-entry manifest:full-path="content.xml" manifest:media-type="text/xml"/></manifest:manifest>')
def content(body, autostyles=''):
    return ('<?xml version="1.0" encoding="UTF-8"?>\n<office:document-content %s office:version="1.2">'
            '<office:automatic-styles>%s</office:automatic-styles><office:body><office:spreadsheet>%s</office:spreadsheet></office:body></office:document-content>') % (NS, autostyles, body)
def write_ods(name, body, autostyles='', manifest=MANIFEST):
    p=os.path.join(OUT,name)
    with zipfile.ZipFile(p,'w') as z:
        z.writestr(zipfile.ZipInfo('mimetype'), MIME)
        z.writestr('META-INF/manifest.xml', manifest, zipfile.ZIP_DEFLATED)
        z.writestr('content.xml', content(body,autostyles), zipfile.ZIP_DEFLATED)
    return p
