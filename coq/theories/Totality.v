(* Totality — models of the functions hardened for property C06 (malformed input: error, never
   panic / hang / blow-up), as they stand AFTER the `fix:` commits of branch c06-hardening.
   Definitions only; the proofs are in Totality_proofs.v.

   These are COPIES: the models other properties own (Ovba.v for C18, Col26.v for C01/C14/C15)
   keep mirroring the code those properties were proved about; the copies below mirror the
   hardened code statement by statement, with [Panic] kept at every Rust operation that can
   panic at all (slice / index / checked arithmetic / unwrap), so that "no Panic" is a theorem
   about the guards and not an artefact of the modelling.

     1. [decompress_h]     src/cfb.rs  decompress_stream           (MS-OVBA containers)
     2. [get_chain_h]      src/cfb.rs  Sectors::get + Sectors::get_chain (FAT / mini FAT walks)
     3. [get_rc_h]         src/xlsx/mod.rs get_row_and_optional_column (cell references)

   Error classes are small numbers (never message text); the correspondence compares the class
   Ok / Err / Panic and the Ok payload. *)
From Calamine Require Import Prelude Ovba Col26.
Open Scope N_scope.
Set Implicit Arguments.

(* ========================================================================================== *)
(* 1. decompress_stream, hardened                                                               *)
(* ========================================================================================== *)
Definition E_SIG : N := 0.        (* CfbError::Invalid { name: "signature" } *)
Definition E_EOF : N := 1.        (* truncated_stream(): CfbError::Io(UnexpectedEof) *)
Definition E_CHUNKSIG : N := 2.   (* CfbError::Invalid { name: "chunk signature" } *)
Definition E_TOOLONG : N := 3.    (* CfbError::Invalid { name: "compressed chunk" } *)
Definition E_OFFSET : N := 4.     (* CfbError::Invalid { name: "copy token offset" } *)

(* read_u16(s.get(i..i + 2).ok_or_else(truncated_stream)?) *)
Definition read_u16_h (s : list N) : outcome N :=
  match s with
  | a :: b :: _ => Ok (a + 256 * b)
  | _ => Err E_EOF
  end.

(* res.len() - start: usize subtraction, a panic when it underflows *)
Definition decomp_len_of (res : vec) (start : N) : outcome N :=
  if v_len res <? start then Panic else Ok (v_len res - start).

(* if res.len() - start >= 4096 { return Err(..) }
   res.push( *s.get(i).ok_or_else(truncated_stream)?); i += 1; chunk_len += 1; *)
Definition do_literal_h (start : N) (st : cstate) : outcome cstate :=
  do d <- decomp_len_of (st_res st) start;
  if 4096 <=? d then Err E_TOOLONG
  else match st_in st with
       | [] => Err E_EOF
       | b :: s' => Ok (mkst s' (vec_push (st_res st) b) (st_clen st + 1))
       end.

(* let token = read_u16(s.get(i..i + 2).ok_or_else(..)?); i += 2; chunk_len += 2;
   let decomp_len = res.len() - start;
   let bit_count = (4..16).find(..).unwrap(); … len … if decomp_len + len > 4096 { Err }
   … offset … if offset > res.len() { Err }
   while len > offset { … }  buf[..len].copy_from_slice(..); res.extend_from_slice(..);
   ([copy_token_fields], [copy_loop] and [copy_tail] are the unchanged statements: Ovba.v) *)
Definition do_copy_h (start : N) (st : cstate) : outcome cstate :=
  do token <- read_u16_h (st_in st);
  let s' := skipn 2 (st_in st) in
  do d <- decomp_len_of (st_res st) start;
  do (len, offset) <- copy_token_fields d token;
  if 4096 <? d + len then Err E_TOOLONG
  else if v_len (st_res st) <? offset then Err E_OFFSET
  else
    do (len', res1) <- copy_loop (N.to_nat len) len offset (st_res st);
    do res2 <- copy_tail len' offset res1;
    Ok (mkst s' res2 (st_clen st + 2)).

Fixpoint token_loop_h (n : nat) (bit_index bit_flags chunk_size start : N) (st : cstate)
  : outcome (bool * cstate) :=
  match n with
  | O => Ok (false, st)
  | S n' =>
    if chunk_size <? st_clen st then Ok (true, st)
    else
      do st' <- (if N.land bit_flags (N.shiftl 1 bit_index) =? 0
                 then do_literal_h start st else do_copy_h start st);
      token_loop_h n' (bit_index + 1) bit_flags chunk_size start st'
  end.

Fixpoint chunk_loop_h (fuel : nat) (chunk_size start : N) (st : cstate) : outcome cstate :=
  match fuel with
  | O => OutOfFuel
  | S f =>
    match st_in st with
    | [] => Ok st
    | bit_flags :: s' =>
      if chunk_size <? st_clen st then Ok st
      else
        do (brk, st') <- token_loop_h 8 0 bit_flags chunk_size start
                           (mkst s' (st_res st) (st_clen st + 1));
        if (brk : bool) then Ok st' else chunk_loop_h f chunk_size start st'
    end
  end.

Fixpoint chunks_loop_h (fuel : nat) (s : list N) (res : vec) : outcome vec :=
  match fuel with
  | O => OutOfFuel
  | S f =>
    match s with
    | [] => Ok res
    | _ :: _ =>
      do chunk_header <- read_u16_h s;
      let s1 := skipn 2 s in
      let start := v_len res in
      let chunk_size := N.land chunk_header 0x0FFF in
      let chunk_signature := N.shiftr (N.land chunk_header 0x7000) 12 in
      let chunk_flag := N.shiftr (N.land chunk_header 0x8000) 15 in
      if negb (chunk_signature =? 3) then Err E_CHUNKSIG
      else if chunk_flag =? 0 then
        let blk := firstn (N.to_nat CHUNK) s1 in              (* s.get(i..i + 4096) *)
        if N.of_nat (length blk) <? CHUNK then Err E_EOF
        else chunks_loop_h f (skipn (N.to_nat CHUNK) s1) (vec_extend_rev res (rev_append blk []))
      else
        do st <- chunk_loop_h f chunk_size start (mkst s1 res 0);
        chunks_loop_h f (st_in st) (st_res st)
    end
  end.

Definition decompress_h_fuel (fuel : nat) (s : list N) : outcome (list N) :=
  match s with
  | [] => Err E_EOF                                          (* s.first().ok_or_else(..)? *)
  | sig :: s' =>
    if negb (sig =? 1) then Err E_SIG
    else do res <- chunks_loop_h fuel s' vec_empty; Ok (vec_to_list res)
  end.

(* every loop iteration consumes input, so the input length bounds the iterations *)
Definition decompress_h (s : list N) : outcome (list N) := decompress_h_fuel (length s) s.

(* the largest allocation request the decompressor makes on its own account: res.reserve(4096)
   per chunk on top of what is already there, i.e. at most the output bound plus 4096 *)
Definition decompress_alloc_bound (s : list N) : N := 2048 * N.of_nat (length s) + 4096.

(* ========================================================================================== *)
(* 2. Sectors::get and Sectors::get_chain, hardened                                             *)
(* ========================================================================================== *)
(* [body] is the file after its header (what the reader still delivers plus what was already
   read: reading is deterministic, so the lazily filled buffer is a prefix of it); a sector id
   names body[id * size .. (id + 1) * size], cut by the end of the file. *)
Definition E_SECTOR_EOF : N := 10.   (* "sector starts after the end of the file" *)
Definition E_FAT_OOB : N := 11.      (* "sector id out of the bounds of the allocation table" *)
Definition E_CYCLE : N := 12.        (* "cyclic sector chain" *)
Definition ENDOFCHAIN : N := 4294967294.

(* list access with binary-number indices (no conversion of a file-declared 32-bit value to a
   unary number: the extracted model has to run on such values) *)
Fixpoint nth_N (l : list N) (i : N) : option N :=
  match l with
  | [] => None
  | x :: t => if i =? 0 then Some x else nth_N t (i - 1)
  end.
Fixpoint take_N (l : list N) (n : N) : list N :=
  match l with
  | [] => []
  | x :: t => if n =? 0 then [] else x :: take_N t (n - 1)
  end.

Definition sector_h (body : list N) (size id : N) : outcome (list N) :=
  let start := id * size in
  if N.of_nat (length body) <? start then Err E_SECTOR_EOF
  else Ok (firstn (N.to_nat size) (skipn (N.to_nat start) body)).

(* let mut remaining = fats.len();
   while sector_id != ENDOFCHAIN {
       if remaining == 0 { return Err(cyclic) }  remaining -= 1;
       chain.extend_from_slice(self.get(sector_id, r)?);
       sector_id = *fats.get(sector_id as usize).ok_or_else(..)?;
   }
   The recursion is on [remaining] itself: no extra fuel. *)
Fixpoint chain_walk_h (remaining : nat) (body : list N) (size : N) (fats : list N)
         (sector_id : N) (chain : list N) : outcome (list N) :=
  if sector_id =? ENDOFCHAIN then Ok chain
  else match remaining with
       | O => Err E_CYCLE
       | S r =>
         do sec <- sector_h body size sector_id;
         match nth_N fats sector_id with
         | None => Err E_FAT_OOB
         | Some next => chain_walk_h r body size fats next (chain ++ sec)
         end
       end.

(* Vec::with_capacity(min(len, fats.len().saturating_mul(self.size))) when len > 0 *)
Definition chain_capacity_h (size : N) (fats : list N) (len : N) : N :=
  if 0 <? len then N.min len (N.min (N.of_nat (length fats) * size) U64MAX) else 0.

(* if len > 0 { chain.truncate(len) } *)
Definition get_chain_h (body : list N) (size : N) (fats : list N) (start len : N)
  : outcome (list N) :=
  do chain <- chain_walk_h (length fats) body size fats start [];
  Ok (if 0 <? len then take_N chain len else chain).

(* ========================================================================================== *)
(* 3. get_row_and_optional_column, hardened (u64 saturating accumulation, then range checks)    *)
(* ========================================================================================== *)
Definition E_OUT_OF_RANGE : N := 7.   (* XlsxError::Unexpected("row/column number out of range") *)

Definition sat64 (x : N) : N := N.min x U64MAX.
Definition sadd64 (a b : N) : N := sat64 (a + b).      (* u64::saturating_add *)
Definition smul64 (a b : N) : N := sat64 (a * b).      (* u64::saturating_mul *)

(* c - b'0' / c - b'A' / c - b'a': u8 subtraction, a panic when it underflows *)
Definition sub8 (c base : N) : outcome N := if c <? base then Panic else Ok (c - base).

Definition scan_letter_h (base c : N) (s : scan_state) : outcome scan_state :=
  do s1 <- (if s_readrow s then
              if s_row s =? 0 then Err E_NO_ROW
              else Ok {| s_row := s_row s; s_col := s_col s; s_pow := 1; s_readrow := false |}
            else Ok s);
  do d <- sub8 c base;
  (* col = col.saturating_add(((c - b'A') as u64 + 1).saturating_mul(pow)); (d + 1 <= 256) *)
  let col' := sadd64 (s_col s1) (smul64 (d + 1) (s_pow s1)) in
  let pow' := smul64 (s_pow s1) 26 in
  Ok {| s_row := s_row s1; s_col := col'; s_pow := pow'; s_readrow := false |}.

Definition scan_char_h (c : N) (s : scan_state) : outcome scan_state :=
  if is_digit c then
    if s_readrow s then
      do d <- sub8 c ch_0;
      let row' := sadd64 (s_row s) (smul64 d (s_pow s)) in
      let pow' := smul64 (s_pow s) 10 in
      Ok {| s_row := row'; s_col := s_col s; s_pow := pow'; s_readrow := true |}
    else Err E_NUMERIC_COLUMN
  else if is_upper c then scan_letter_h ch_A c s
  else if is_lower c then scan_letter_h ch_a c s
  else Err E_ALPHANUMERIC.

Fixpoint scan_loop_h (rs : list N) (s : scan_state) : outcome scan_state :=
  match rs with
  | [] => Ok s
  | c :: t => do s' <- scan_char_h c s; scan_loop_h t s'
  end.

(* let row = row.checked_sub(1).ok_or(RangeWithoutRowComponent)?;
   let row = u32::try_from(row).map_err(..)?;
   let col = col.checked_sub(1).map(u32::try_from).transpose().map_err(..)?; *)
Definition get_rc_h (range : list N) : outcome (N * option N) :=
  do s <- scan_loop_h (rev range) scan_init;
  if s_row s =? 0 then Err E_NO_ROW
  else if U32MAX <? s_row s - 1 then Err E_OUT_OF_RANGE
  else if s_col s =? 0 then Ok (s_row s - 1, None)
  else if U32MAX <? s_col s - 1 then Err E_OUT_OF_RANGE
  else Ok (s_row s - 1, Some (s_col s - 1)).
