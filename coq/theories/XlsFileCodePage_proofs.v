(* XlsFileCodePage_proofs — the whole-file composition (XlsFile.v) with a CodePage record among the
   globals (audit-2 finding XLS-1, repaired in /repo): XlsFile.gitem_ok / Meta.xjunk_ok admit the
   record 0x0042 with ANY value wherever an ignorable globals record may stand, so
   XlsFile_proofs.xls_file_main (C02_xls_whole_file_main / Whole_xls_file_main) quantifies over it.
   Non-vacuity: the workbook of XlsFile_proofs.example_whole — sheet names "aé" (8-bit storage)
   and U+1F600 (16-bit storage), shared strings in both packings cut by a CONTINUE record, a
   continued formula string, a custom format, a defined name — written with the CodePage record
   of JExcelApi (1252), of a Japanese writer (932), of Excel (1200), UTF-8 (65001), a value unknown
   to every decoder table (54321), right behind the InterfaceHdr record; and with two CodePage
   records in different places.  Every one is legal and reads back as the logical workbook. *)
From Calamine Require Import Prelude Range Range_spec RK.
From Calamine Require Import BiffSst Meta XlsFile XlsFile_proofs.
From Calamine Require BiffRec BiffRec_proofs Cfb.
Open Scope N_scope.

Definition cp_choice0 (j0 j3 : list gitem) : xchoice :=
  mkXch (xc_sheets ex_ch0) (xc_names ex_ch0) (xc_xtis ex_ch0) j0 (xc_j1 ex_ch0) (xc_j2 ex_ch0) j3
        (xc_omit_1904 ex_ch0) (xc_sst_at ex_ch0) (xc_sst_lay ex_ch0) (xc_book ex_ch0) (xc_ss ex_ch0)
        (xc_storages ex_ch0) (xc_pre ex_ch0) (xc_post ex_ch0) (xc_parents ex_ch0) (xc_layout ex_ch0).
Definition cp_choice (cp : N) : xchoice :=
  set_positions ex_wb (cp_choice0 [GJunk 225 [176; 4]; GJunk 66 (le16 cp); GXf 0 0 [1; 2; 3]]
                                  [GJunk 255 []]).
Definition cp_choice_two : xchoice :=
  set_positions ex_wb (cp_choice0 [GJunk 66 [228; 4]; GJunk 225 [176; 4]; GXf 0 0 [1; 2; 3]]
                                  [GJunk 255 []; GJunk 66 [164; 3; 0; 0]]).

Ltac solve_legal :=
  split; [vm_compute; reflexivity|]; split; [reflexivity|]; split; [reflexivity|]; split;
  [repeat constructor; cbn; intuition discriminate | repeat constructor].
Ltac solve_variant :=
  split; [solve_legal|]; split;
  [apply xls_file_main; [solve_legal | vm_compute; lia] | vm_compute; reflexivity].

Lemma example_whole_codepage : forall fdiv100,
  Forall (fun cp =>
            xfile_legal fdiv100 BiffRec_proofs.id_decode ex_wb (cp_choice cp) /\
            xls_open_model fdiv100 BiffRec_proofs.id_decode (fun _ => []) 1
                           (xls_file_write ex_wb (cp_choice cp)) =
            Ok (spec_result (fun _ => []) ex_wb (cp_choice cp)) /\
            spec_result (fun _ => []) ex_wb (cp_choice cp) = spec_result (fun _ => []) ex_wb ex_ch)
         [1252; 932; 1200; 65001; 54321] /\
  xfile_legal fdiv100 BiffRec_proofs.id_decode ex_wb cp_choice_two /\
  xls_open_model fdiv100 BiffRec_proofs.id_decode (fun _ => []) 1
                 (xls_file_write ex_wb cp_choice_two) = Ok (spec_result (fun _ => []) ex_wb cp_choice_two) /\
  spec_result (fun _ => []) ex_wb cp_choice_two = spec_result (fun _ => []) ex_wb ex_ch /\
  (* the globals of the 1252 variant: BOF, InterfaceHdr, CodePage 1252 *)
  firstn 12 (skipn 20 (xls_stream_write ex_wb (cp_choice 1252))) =
    [225; 0; 2; 0; 176; 4; 66; 0; 2; 0; 228; 4].
Proof.
  intros fdiv100. split.
  { constructor; [solve_variant|]. constructor; [solve_variant|]. constructor; [solve_variant|].
    constructor; [solve_variant|]. constructor; [solve_variant|]. constructor. }
  split; [solve_legal|]. split; [apply xls_file_main; [solve_legal | vm_compute; lia]|].
  split; vm_compute; reflexivity.
Qed.
