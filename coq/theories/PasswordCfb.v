(* PasswordCfb.v — property C20, OOXML part: check_for_password_protected of src/xlsx/mod.rs and
   src/xlsb/mod.rs (identical bodies):
     `if let Ok(cfb) = Cfb::new(..) { if cfb.has_directory("EncryptedPackage") { Err(Password) } } Ok(())`
   over the model of the compound-file reader Cfb.v (property C13: Header::from_reader, Cfb::new,
   Directory::from_slice — names decoded with decode_without_bom_handling since 2d0895e —,
   the directory array by chunks_exact(128), Cfb::has_directory).  Nothing of src/cfb.rs is
   modelled a second time here; this file adds
     * the check on the BYTES of a file ([ooxml_check_bytes] / [ooxml_new_bytes]),
     * the same check over a directory array ([ooxml_check] / [ooxml_new], the form the first
       round's theorems were stated in; [has_directory] below is Cfb.has_directory on the array),
     * [parse_dirs]: the directory-array step of Cfb::new in isolation (used by the correspondence
       run on big files, where only header and directory chain travel to the model),
     * the writer of one directory entry ([dir_entry_bytes]) with free bytes behind the name.
   Definitions only; everything computes.  Proofs: PasswordCfb_proofs.v. *)
From Calamine Require Import Prelude Utf16 Cfb.
Open Scope N_scope.
Set Implicit Arguments.

Definition E_PASSWORD : N := 1.
Definition E_OTHER : N := 2.

(* zip local-file-header signature *)
Definition ZIP_LOCAL : list N := [80; 75; 3; 4].

(* "EncryptedPackage" *)
Definition ENCRYPTED_PACKAGE : list N :=
  [69;110;99;114;121;112;116;101;100;80;97;99;107;97;103;101].

(* Cfb::has_directory over the directory array: since the fix of audit finding G8 (names are
   unique per storage only) an entry of the ROOT storage, found by following the child / sibling
   ids from the root entry (Cfb.find_entry); a directory whose root entry links to no child is
   scanned as a flat array, as before *)
Definition has_directory (dirs : list dirent) (name : list N) : bool :=
  match find_entry dirs [name] with Some _ => true | None => false end.

(* check_for_password_protected given the outcome of Cfb::new as its directory array: any Err of
   Cfb::new is swallowed by `if let Ok(..)` *)
Definition ooxml_check (cfb : outcome (list dirent)) : outcome unit :=
  match cfb with
  | Ok dirs => if has_directory dirs ENCRYPTED_PACKAGE then Err E_PASSWORD else Ok tt
  | Err _ => Ok tt
  | Panic => Panic
  | OutOfFuel => OutOfFuel
  end.

(* Xlsx::new / Xlsb::new: the check, then ZipArchive::new and the part readers ([zip]: their
   outcome; XlsxError::Password / XlsbError::Password are constructed nowhere else) *)
Definition ooxml_new (cfb : outcome (list dirent)) (zip : outcome unit) : outcome unit :=
  do _ <- ooxml_check cfb; zip.

(* the directory array Cfb::new builds on the bytes of a file (fuel: the DIFAT walk of Cfb.v) *)
Definition cfb_dirs (fuel : nat) (file : list N) : outcome (list dirent) :=
  do cr <- cfb_new fuel file; Ok (directories (fst cr)).

(* check_for_password_protected / Xlsx::new / Xlsb::new on the bytes of a file *)
Definition ooxml_check_bytes (fuel : nat) (file : list N) : outcome unit :=
  ooxml_check (cfb_dirs fuel file).
Definition ooxml_new_bytes (fuel : nat) (file : list N) (zip : outcome unit) : outcome unit :=
  ooxml_new (cfb_dirs fuel file) zip.

(* fuel that always suffices: one unit per 512 bytes of the file, plus one *)
Definition fuel_of_file (file : list N) : nat := S (length file / 512).

(* the directory-array step of Cfb::new: chunks_exact(128), Directory::from_slice, EmptyRootDir *)
Definition parse_dirs (chain : list N) (sector_size : N) : outcome (list dirent) :=
  do ds <- map_outcome (fun c => from_slice c sector_size) (chunks_exact 128 chain);
  match ds with [] => Err ERR_EMPTY_ROOT | _ => Ok ds end.

(* ------------------------------------------------------------------ encoder side *)
(* a directory entry as a writer lays it out: UTF-16LE name, NUL, then [pad] (MS-CFB asks for
   zeros, any bytes are accepted here) up to 64 bytes, then 52 bytes of other fields, start, size *)
Fixpoint utf16le_ascii (s : list N) : list N :=
  match s with [] => [] | c :: t => c :: 0 :: utf16le_ascii t end.

Definition name_field (name pad : list N) : list N :=
  firstn 64 (utf16le_ascii name ++ [0; 0] ++ pad ++ repeat 0 64).

Fixpoint le_bytes (k : nat) (v : N) : list N :=
  match k with O => [] | S k' => v mod 256 :: le_bytes k' (v / 256) end.

Definition dir_entry_bytes (name pad mid : list N) (start size : N) : list N :=
  name_field name pad ++ firstn 52 (mid ++ repeat 0 52) ++ le_bytes 4 start ++ le_bytes 8 size.

Definition ascii_name (s : list N) : bool :=
  forallb (fun c => (1 <=? c) && (c <=? 127)) s && (length s <=? 31)%nat.
