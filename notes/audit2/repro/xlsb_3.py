# xlsb_3: C10 — Xlsb::read_styles does not skip the bodies of the records it does not interpret
# (`_ => ()` in the loop: the next read_type() is taken from the BODY of BrtBeginFonts, BrtFont, BrtFill,
# BrtBorder, BrtXF of cellStyleXfs ...).  Real styles.bin (Excel): BrtBeginStyleSheet [FMTS] FONTS FILLS BORDERS
# CELLSTYLEXFS CELLXFS ...; whenever two body bytes at a "type" position read E9 04 (0x0269 BrtBeginCellXFs) or
# E7 04 (0x0267 BrtBeginFmts) the reader takes them for the record.  A fill / font / border colour is enough:
# BrtColor = [fValidRGB|xColorType<<1][index][nTintAndShade 2][R][G][B][A]; RGB(0x10,0xE9,0x04) (a green).
# Base: /repo/tests/date.xlsb (written by Excel); only change: a third BrtFill (solid, that colour), count 2 -> 3.
import struct, sys, zipfile
sys.path.insert(0, '/tmp/ag/audit2/repro')
from xlsb_common import *

src = '/repo/tests/date.xlsb'
st = recs(zipfile.ZipFile(src).read('xl/styles.bin'))

def variant(tag, r, g, b, index):
    out = []
    for t, body in st:
        if t == 0x025B:                                   # BrtBeginFills: cfills
            body = struct.pack('<I', struct.unpack('<I', body)[0] + 1)
        if t == 0x025C:                                   # BrtEndFills: put the new fill in front of it
            fore = bytes([0x05, index, 0, 0, r, g, b, 0xFF])
            back = bytes([0x03, 0x41, 0, 0, 0xFF, 0xFF, 0xFF, 0xFF])
            out.append((0x002D, struct.pack('<I', 1) + fore + back + bytes(68 - 20)))
        out.append((t, body))
    p = OUT + '/xlsb_3_%s.xlsb' % tag
    rezip(src, p, {'xl/styles.bin': enc(out)})
    return p

calls = ['range ' + hx('Sheet1')]
print('date.xlsb unchanged             :', run(src, calls))
print('third fill RGB 10 20 30 (control):', run(variant('ctl', 0x10, 0x20, 0x30, 0xFF), calls))
print('third fill RGB 10 E9 04, index FF:', run(variant('a', 0x10, 0xE9, 0x04, 0xFF), calls))
print('third fill RGB 10 E9 04, index 00:', run(variant('b', 0x10, 0xE9, 0x04, 0x00), calls))
print('third fill RGB 10 E7 04, index FF:', run(variant('c', 0x10, 0xE7, 0x04, 0xFF), calls))
print('third fill RGB E9 04 10, index FF:', run(variant('d', 0xE9, 0x04, 0x10, 0xFF), calls))
