(* Ptg — formula token streams (rgce) of xls (BIFF8) and xlsb, and their A1 text.
   Definitions only: the model M of the two Rust decoders, the spec S (expression AST and its
   rendering), the encoders E (AST -> rgce bytes, written from MS-XLS 2.5.198 / MS-XLSB 2.5.97)
   and the well-formedness predicate (no known class is left).  Proofs: Ptg_proofs.v.

   Modelled Rust functions (current /repo tree):
     src/xls.rs        parse_formula, read_unicode_string_no_cch (as used by PtgStr)
     src/cfb.rs        XlsEncoding::decode_to for code page 1200 with an explicit high-byte flag
                       (UTF_16LE.decode_without_bom_handling)
     src/xlsb/mod.rs   parse_formula
     src/utils.rs      FTAB / FTAB_ARGC (regenerated: CalamineGen.Tables), push_cell_ref (Col26.v)
   Representation choices (documented in notes/C14.md):
     - rgce is a [list N] of bytes; the output buffer is a [list N] of Unicode scalar values;
       offsets into it are character offsets (the Rust code uses byte offsets, always taken at
       character boundaries);
     - the operand stack [Vec<usize>] is a [list nat] with the TOP AT THE HEAD;
     - every slice / index / checked subtraction is a guarded step yielding [Panic];
     - f64 Display is the Section variable [show_f64] (argument: the 64 raw bits). *)
From Coq Require Import String Ascii.
From Calamine Require Import Prelude Col26 FtabRef.
From CalamineGen Require Tables.
Open Scope N_scope.
Set Implicit Arguments.

(* ------------------------------------------------------------------ text literals *)
Definition lit (s : string) : list N :=
  map (fun a => N.of_nat (nat_of_ascii a)) (list_ascii_of_string s).

Definition ch_bang : N := 33.      (* ! *)
Definition ch_quote : N := 34.     (* double quote *)
Definition ch_percent : N := 37.
Definition ch_lpar : N := 40.
Definition ch_rpar : N := 41.
Definition ch_plus : N := 43.
Definition ch_comma : N := 44.
Definition ch_minus : N := 45.
Definition ch_space : N := 32.
Definition ch_cr : N := 13.

(* ------------------------------------------------------------------ byte access (slices) *)
(* &rgce[n..] *)
Fixpoint drop (n : nat) (l : list N) : outcome (list N) :=
  match n with
  | O => Ok l
  | S m => match l with [] => Panic | _ :: t => drop m t end
  end.
(* &rgce[..n] *)
Fixpoint take (n : nat) (l : list N) : outcome (list N) :=
  match n with
  | O => Ok []
  | S m => match l with [] => Panic | x :: t => do r <- take m t; Ok (x :: r) end
  end.
Definition byte_at (l : list N) (off : nat) : outcome N :=
  match skipn off l with a :: _ => Ok a | _ => Panic end.
(* read_u16(&rgce[off..]) / read_u16(&rgce[off..off+2]) *)
Definition u16_at (l : list N) (off : nat) : outcome N :=
  match skipn off l with a :: b :: _ => Ok (a + 256 * b) | _ => Panic end.
Definition u32_at (l : list N) (off : nat) : outcome N :=
  match skipn off l with
  | a :: b :: c :: d :: _ => Ok (a + 256 * (b + 256 * (c + 256 * d)))
  | _ => Panic end.
Definition u64_at (l : list N) (off : nat) : outcome N :=
  match skipn off l with
  | a :: b :: c :: d :: e :: f :: g :: h :: _ =>
      Ok (a + 256 * (b + 256 * (c + 256 * (d + 256 * (e + 256 * (f + 256 * (g + 256 * h)))))))
  | _ => Panic end.

(* little-endian encoding of n on k bytes (encoder side) *)
Fixpoint le (k : nat) (n : N) : list N :=
  match k with O => [] | S k' => n mod 256 :: le k' (n / 256) end.

(* slice.get(i) with the index kept binary (a u32 index must never become a unary nat) *)
Fixpoint nthN (A : Type) (l : list A) (i : N) : option A :=
  match l with
  | [] => None
  | x :: t => if i =? 0 then Some x else nthN t (i - 1)
  end.

(* ------------------------------------------------------------------ String operations *)
(* String::insert(idx, ch) / String::split_off(at): panic when the index is past the end *)
Definition insert_at (e : nat) (ch : N) (b : list N) : outcome (list N) :=
  if (e <=? length b)%nat then Ok (firstn e b ++ ch :: skipn e b) else Panic.
Definition split_off (e : nat) (b : list N) : outcome (list N * list N) :=
  if (e <=? length b)%nat then Ok (firstn e b, skipn e b) else Panic.

(* ------------------------------------------------------------------ encoding_rs UTF-16LE decode *)
(* UTF_16LE.decode_without_bom_handling(bytes): no BOM sniffing (commit 98c2838); malformed
   sequences (unpaired surrogates, an odd trailing byte) are replaced by U+FFFD as in the
   WHATWG UTF-16 decoder. *)
Definition REPL : N := 65533.
Definition is_hi_surr (u : N) : bool := (55296 <=? u) && (u <=? 56319).    (* D800..DBFF *)
Definition is_lo_surr (u : N) : bool := (56320 <=? u) && (u <=? 57343).    (* DC00..DFFF *)

Fixpoint decode_units (us : list N) : list N :=
  match us with
  | [] => []
  | u :: t =>
      if is_hi_surr u then
        match t with
        | v :: t' => if is_lo_surr v
                     then (65536 + (u - 55296) * 1024 + (v - 56320)) :: decode_units t'
                     else REPL :: decode_units t
        | [] => [REPL]
        end
      else if is_lo_surr u then REPL :: decode_units t
      else u :: decode_units t
  end.

(* pairs of bytes -> 16-bit units; an odd trailing byte is malformed (one U+FFFD) *)
Fixpoint units_of (bs : list N) : list N * bool :=
  match bs with
  | a :: b :: t => let (us, odd) := units_of t in ((a + 256 * b) :: us, odd)
  | [_] => ([], true)
  | [] => ([], false)
  end.
Definition decode_utf16le (bs : list N) : list N :=
  let (us, odd) := units_of bs in
  decode_units us ++ (if odd then [REPL] else []).

(* cfb.rs decode_to, Some(false): "add 0x00 high bytes to unicodes" *)
Fixpoint widen (bs : list N) : list N :=
  match bs with [] => [] | b :: t => b :: 0 :: widen t end.

(* ------------------------------------------------------------------ sheet names in formula text *)
(* utils::quote_sheet_name (commit "fix: sheet names that need quotes were written bare …"), applied
   where the table the decoders index is built (xls: fmla_sheet_names; xlsb: extern_sheets), not
   by the decoders themselves:
     let plain = |c: char| c.is_ascii_alphanumeric() || c == '_' || c == '.' || !c.is_ascii();
     if name.is_empty() || name.starts_with(|c| c.is_ascii_digit() || c == '.') || !name.chars().all(plain)
       { format!("'{}'", name.replace('\'', "''")) } else { name.to_string() } *)
Definition ch_apos : N := 39.
Definition is_ascii_digit (c : N) : bool := (48 <=? c) && (c <=? 57).
Definition is_ascii_alpha (c : N) : bool := ((65 <=? c) && (c <=? 90)) || ((97 <=? c) && (c <=? 122)).
Definition plain_char (c : N) : bool :=
  (is_ascii_alpha c || is_ascii_digit c) || (c =? 95) || (c =? 46) || (128 <=? c).
Definition double_apos (s : list N) : list N :=
  flat_map (fun c => if c =? ch_apos then [ch_apos; ch_apos] else [c]) s.
Definition quote_sheet_name (name : list N) : list N :=
  if match name with [] => true | _ => false end
     || match name with c :: _ => is_ascii_digit c || (c =? 46) | [] => false end
     || negb (forallb plain_char name)
  then [ch_apos] ++ double_apos name ++ [ch_apos] else name.

(* utils::quote_sheet_span (commit "fix: a 3-D reference through several sheets …"): a span of sheets
   First:Last in front of '!':
     if quote_sheet_name(first) == first && quote_sheet_name(last) == last { format!("{first}:{last}") }
     else { format!("'{}:{}'", first.replace('\'', "''"), last.replace('\'', "''")) } *)
Fixpoint str_eqb (a b : list N) : bool :=
  match a, b with
  | [], [] => true
  | x :: a', y :: b' => (x =? y) && str_eqb a' b'
  | _, _ => false
  end.
Definition quote_sheet_span (first last : list N) : list N :=
  if str_eqb (quote_sheet_name first) first && str_eqb (quote_sheet_name last) last
  then first ++ [ch_colon] ++ last
  else [ch_apos] ++ double_apos first ++ [ch_colon] ++ double_apos last ++ [ch_apos].

(* SPEC (formula grammar, MS-XLS 2.2.2 / ECMA-376 Part 1 18.17: sheet-name): a sheet name stands
   bare in front of '!' when it is a word — first character a letter, '_' or a non-ASCII character,
   the other characters of the same kind, digits or '.' — and between apostrophes, its own apostrophes
   doubled, otherwise ('My Sheet'!A1, 'O''Neil'!A1, '2024'!A1).  Not expressed here (Excel also
   quotes them; see notes/C14.md): words that read as a cell reference or a boolean (A1, R1C1, TRUE). *)
Definition word_start (c : N) : bool := is_ascii_alpha c || (c =? 95) || (128 <=? c).
Definition word_char (c : N) : bool := word_start c || is_ascii_digit c || (c =? 46).
Definition bare_sheet (s : list N) : bool :=
  match s with c :: t => word_start c && forallb word_char t | [] => false end.
Definition sheet_text (s : list N) : list N :=
  if bare_sheet s then s else [ch_apos] ++ double_apos s ++ [ch_apos].
(* SPEC: a 3-D reference through the sheets First … Last (formula grammar: sheet-range = sheet-name ":"
   sheet-name): First:Last!A1 when both names are words, 'First:Last'!A1 — one pair of apostrophes around
   the span, apostrophes inside doubled — as soon as one of them is not *)
Definition span_text (first last : list N) : list N :=
  if bare_sheet first && bare_sheet last then first ++ [ch_colon] ++ last
  else [ch_apos] ++ double_apos first ++ [ch_colon] ++ double_apos last ++ [ch_apos].

(* ------------------------------------------------------------------ error classes *)
Definition E_STACKLEN : N := 10.
Definition E_IFTAB : N := 11.
Definition E_UNRECOGNIZED : N := 12.
Definition E_ETPG : N := 13.
Definition E_INVALID_FORMULA : N := 14.
Definition E_BERR : N := 15.
Definition E_LEN : N := 16.          (* XlsError::Len / XlsbError::Unrecognized from check_len *)
Definition E_DEPTH : N := 17.        (* PtgMemFunc nested deeper than MAX_FORMULA_DEPTH *)

(* slice.get(n..).ok_or(Len)?  /  check_len(.., n)?; &slice[n..] *)
Definition drop_err (n : nat) (l : list N) : outcome (list N) :=
  if (length l <? n)%nat then Err E_LEN else drop n l.

(* ------------------------------------------------------------------ pieces shared by both decoders *)
Definition pstate : Type := (list nat * list N)%type.     (* operand stack (top first), formula *)

Definition binop_text (ptg : N) : list N :=
  match ptg with
  | 0x03 => lit "+" | 0x04 => lit "-" | 0x05 => lit "*" | 0x06 => lit "/" | 0x07 => lit "^"
  | 0x08 => lit "&" | 0x09 => lit "<" | 0x0A => lit "<=" | 0x0B => lit "=" | 0x0C => lit ">="
  | 0x0D => lit ">" | 0x0E => lit "<>" | 0x0F => lit " " | 0x10 => lit "," | 0x11 => lit ":"
  | _ => []      (* unreachable!() — the caller dispatches only 0x03..=0x11 here *)
  end.

(*  let e2 = stack.pop().ok_or(StackLen)?;  let e2 = formula.split_off(e2);
    formula.push_str(op); formula.push_str(&e2);            (xls: write!("{}{}", op, e2)) *)
Definition arm_binop (ptg : N) (rgce : list N) (s : pstate) : outcome (list N * pstate) :=
  match fst s with
  | [] => Err E_STACKLEN
  | e2 :: st' =>
      do ab <- split_off e2 (snd s);
      Ok (rgce, (st', fst ab ++ binop_text ptg ++ snd ab))
  end.

(*  let e = stack.last().ok_or(StackLen)?;  formula.insert( *e, ch); *)
Definition arm_insert (ch : N) (rgce : list N) (s : pstate) : outcome (list N * pstate) :=
  match fst s with
  | [] => Err E_STACKLEN
  | e :: _ => do b <- insert_at e ch (snd s); Ok (rgce, (fst s, b))
  end.

(*  0x15: insert '(' at the start of the top operand, push ')' *)
Definition arm_paren (rgce : list N) (s : pstate) : outcome (list N * pstate) :=
  match fst s with
  | [] => Err E_STACKLEN
  | e :: _ => do b <- insert_at e ch_lpar (snd s); Ok (rgce, (fst s, b ++ [ch_rpar]))
  end.

(*  PtgAttrSum: let e = *stack.last()?; let e = formula.split_off(e); "SUM(" e ")" *)
Definition arm_attrsum (rgce : list N) (s : pstate) : outcome (list N * pstate) :=
  match fst s with
  | [] => Err E_STACKLEN
  | e :: _ => do ab <- split_off e (snd s);
              Ok (rgce, (fst s, fst ab ++ lit "SUM(" ++ snd ab ++ [ch_rpar]))
  end.

Definition berr_text (err : N) : outcome (list N) :=
  match err with
  | 0x00 => Ok (lit "#NULL!") | 0x07 => Ok (lit "#DIV/0!") | 0x0F => Ok (lit "#VALUE!")
  | 0x17 => Ok (lit "#REF!") | 0x1D => Ok (lit "#NAME?") | 0x24 => Ok (lit "#NUM!")
  | 0x2A => Ok (lit "#N/A") | 0x2B => Ok (lit "#GETTING_DATA")
  | _ => Err E_BERR
  end.

(*  for w in args.windows(2) { formula.push_str(&fargs[w[0]..w[1]]); formula.push(','); } *)
Fixpoint windows_join (fargs : list N) (offs : list nat) (acc : list N) : outcome (list N) :=
  match offs with
  | a :: ((b :: _) as t) =>
      if ((a <=? b) && (b <=? length fargs))%nat
      then windows_join fargs t (acc ++ firstn (b - a) (skipn a fargs) ++ [ch_comma])
      else Panic
  | _ => Ok acc
  end.

(* &fargs[w0..w1] *)
Definition slice_w (fargs : list N) (a b : nat) : outcome (list N) :=
  if ((a <=? b) && (b <=? length fargs))%nat then Ok (firstn (b - a) (skipn a fargs)) else Panic.

(* if formula.ends_with(',') { formula.pop(); } *)
Definition pop_comma (j : list N) : list N :=
  if last j 0 =? ch_comma then removelast j else j.

(* the tail of the PtgFunc / PtgFuncVar arm, from [if stack.len() < argc] on.
   Since the C06 hardening both formats use FTAB.get(iftab).ok_or(IfTab)? in both branches
   ([strict] is kept for the proofs' sake and no longer makes a difference).
   Tab 0x00FF (user-defined / future function, commit "fix: user-defined and future functions …"):
   the first window of the argument offsets is the function NAME, the table is not consulted:
     let mut windows = args.windows(2);
     if iftab == 0x00FF { if let Some(w) = windows.next() { formula.push_str(&fargs[w[0]..w[1]]) } }
     else { formula.push_str(FTAB.get(iftab)?) }
     formula.push('('); for w in windows { … push(',') }  if formula.ends_with(',') { formula.pop() } *)
Definition func_apply (strict : bool) (iftab : N) (argc : nat) (s : pstate) : outcome pstate :=
  let (st, buf) := s in
  if (length st <? argc)%nat then Err E_STACKLEN else
  match argc with
  | O =>
      (* stack.push(formula.len()); formula.push_str(FTAB[iftab]); formula.push_str("()") *)
      match nthN Tables.FTAB iftab with
      | Some nm => Ok (length buf :: st, buf ++ nm ++ lit "()")
      | None => Err E_IFTAB
      end
  | S _ =>
      let args := rev (firstn argc st) in        (* stack.split_off(stack.len() - argc) *)
      let keep := skipn argc st in
      match args with
      | [] => Panic                              (* args[0] *)
      | start :: _ =>
          if existsb (fun o => (o <? start)%nat) args then Panic     (* *s -= start *)
          else
            let rel := map (fun o => (o - start)%nat) args in
            do pf <- split_off start buf;        (* formula.split_off(start) *)
            let pre := fst pf in let fargs := snd pf in
            let st' := length pre :: keep in     (* stack.push(formula.len()) *)
            let rel' := rel ++ [length fargs] in (* args.push(fargs.len()) *)
            if iftab =? 255 then
              match rel' with
              | w0 :: ((w1 :: _) as rest) =>               (* windows.next() = Some([w0, w1]) *)
                  do nm <- slice_w fargs w0 w1;
                  do joined <- windows_join fargs rest (pre ++ nm ++ [ch_lpar]);
                  Ok (st', pop_comma joined ++ [ch_rpar])
              | _ =>                                       (* windows.next() = None: no name *)
                  do joined <- windows_join fargs rel' (pre ++ [ch_lpar]);
                  Ok (st', pop_comma joined ++ [ch_rpar])
              end
            else
            do nm <- match nthN Tables.FTAB iftab with
                     | Some nm => Ok nm
                     | None => if strict then Err E_IFTAB else Err E_IFTAB
                     end;
            do joined <- windows_join fargs rel' (pre ++ nm ++ [ch_lpar]);
            Ok (st', pop_comma joined ++ [ch_rpar])        (* if ends_with(',') { pop() }; push(')') *)
      end
  end.

(* the head of the arm: which (iftab, argc) the token denotes *)
Definition func_header (var : bool) (rgce : list N) : outcome (list N * (N * nat)) :=
  if var then
    (* let iftab = read_u16(&rgce[1..]); let argc = rgce[0]; rgce = &rgce[3..] *)
    do iftab <- u16_at rgce 1;
    do argc <- byte_at rgce 0;
    do r <- drop 3 rgce;
    Ok (r, (iftab, N.to_nat argc))
  else
    (* let iftab = read_u16(rgce); if iftab >= FTAB_LEN { return Err(IfTab) }
       rgce = &rgce[2..]; let argc = FTAB_ARGC[iftab] *)
    do iftab <- u16_at rgce 0;
    if Tables.FTAB_LEN <=? iftab then Err E_IFTAB
    else
      do r <- drop 2 rgce;
      do argc <- of_option (nthN Tables.FTAB_ARGC iftab);
      Ok (r, (iftab, N.to_nat argc)).

Definition arm_func (strict var : bool) (rgce : list N) (s : pstate) : outcome (list N * pstate) :=
  do h <- func_header var rgce;
  do s' <- func_apply strict (fst (snd h)) (snd (snd h)) s;
  Ok (fst h, s').

(* push the current length, then append text, then skip n bytes *)
Definition arm_push_text (txt : list N) (skip : nat) (rgce : list N) (s : pstate)
  : outcome (list N * pstate) :=
  do r <- drop skip rgce;
  Ok (r, (length (snd s) :: fst s, snd s ++ txt)).

Section Decoders.
Variable show_f64 : N -> list N.       (* format!("{}", f64::from_bits(bits)) *)

(* ================================================================== xls =========== *)
Record xls_env := {
  xe_sheets : list (list N);            (* fmla_sheet_names: the BoundSheet8 names as stored (quoted at the
                                           lookup, since the commit "fix: a 3-D reference through several
                                           sheets …"; before: quoted once, and only itab_first was read) *)
  xe_names : list (list N);             (* defined names (name part only) *)
  xe_xtis : list (N * N * N);           (* (iSupBook, itabFirst, itabLast) as raw u16 *)
  xe_base : option (N * N)              (* base: Option<(u32, u32)> — the cell using a shared formula
                                           (row, column); None for a cell's own formula and for names *)
}.
Variable xenv : xls_env.

(*  fn rel_ref(row: u16, col: u16, base: (u32, u32)) -> (u32, u16) {
      let row = if col & 0x8000 != 0 { row.wrapping_add(base.0 as u16) } else { row };
      let c = if col & 0x4000 != 0 { (col as u8).wrapping_add(base.1 as u8) as u16 } else { col & 0x3FFF };
      (row as u32, col & 0xC000 | c) }
    wrapping u16 / u8 additions written as sums modulo 65536 / 256; [col & 0xC000 | c] (c < 0x4000)
    is the column field with the two flags of [col]: Col26.col_field *)
Definition rel_ref (row col : N) (base : N * N) : N * N :=
  let row' := if bit15 col then (row + fst base) mod 65536 else row in
  let c := if bit14 col then (col mod 256 + snd base) mod 256 else N.land col 16383 in
  (row', col_field c (bit15 col) (bit14 col)).

(*  fn xti_sheets(xti: Option<&Xti>, sheets: &[String]) -> String {
      let names = xti.map(|xti| (sheets.get(xti.itab_first as usize), sheets.get(xti.itab_last as usize),
                                 xti.itab_first != xti.itab_last));
      match names { Some((Some(first), Some(last), true)) => quote_sheet_span(first, last),
                    Some((Some(first), _, _)) => quote_sheet_name(first), _ => "#REF".to_string() } }
    itab_first / itab_last are i16: a negative value becomes a huge usize, never a valid index *)
Definition sheet_at (sheets : list (list N)) (itab : N) : option (list N) :=
  if itab <? 32768 then nthN sheets itab else None.
Definition sheet_name_xls (ixti : N) : list N :=
  match nthN (xe_xtis xenv) ixti with
  | Some (_, first, last) =>
      match sheet_at (xe_sheets xenv) first, sheet_at (xe_sheets xenv) last with
      | Some a, Some b => if negb (first =? last) then quote_sheet_span a b else quote_sheet_name a
      | Some a, None => quote_sheet_name a
      | None, _ => lit "#REF"
      end
  | None => lit "#REF"
  end.

(*  PtgStr (xls), after commits a3d91ee / 6ef7f34:
      let cch = rgce[0] as usize;  let mut text = String::new();
      let used = read_unicode_string_no_cch(encoding, &rgce[1..], &cch, &mut text);
      formula.push_str(&text.replace(QUOTE, QUOTE QUOTE));  rgce = &rgce[1 + used..];
    read_unicode_string_no_cch(buf = &rgce[1..]):
      high_byte = buf.first().map_or(false, |b| b & 1 != 0);  nbytes = if high_byte {2*len} else {len};
      end = buf.len().min(1 + nbytes);  if end > 1 { decode_to(&buf[1..end], len, s, Some(high_byte)) }
      return 1 + nbytes
    decode_to, code page 1200: Some(false): l = min(stream.len(), len) bytes widened with zero high
    bytes; Some(true): l = min(stream.len() / 2, len) characters (2*l bytes); then
    UTF_16LE.decode_without_bom_handling.  A short buffer is clamped (no panic inside the helper);
    the final rgce = &rgce[1 + used..] still panics when the token is truncated. *)
Definition replace_quote (s : list N) : list N :=        (* text.replace(QUOTE, QUOTE QUOTE) *)
  flat_map (fun c => if c =? ch_quote then [ch_quote; ch_quote] else [c]) s.

Definition xls_ptgstr (rgce : list N) (s : pstate) : outcome (list N * pstate) :=
  let st' := length (snd s) :: fst s in
  do cch <- byte_at rgce 0;
  let n := N.to_nat cch in
  let buf := skipn 1 rgce in
  let high := match buf with b :: _ => N.testbit b 0 | [] => false end in
  let nbytes := (if high then 2 * n else n)%nat in
  let stream := firstn nbytes (skipn 1 buf) in            (* &buf[1..min(buf.len(), 1 + nbytes)] *)
  let txt :=
    if high
    then decode_utf16le (firstn (2 * Nat.min (length stream / 2) n) stream)
    else decode_utf16le (widen (firstn (Nat.min (length stream) n) stream)) in
  do rest <- drop_err (2 + nbytes) rgce;                   (* rgce.get(1 + used..).ok_or(Len)?, used = 1 + nbytes *)
  Ok (rest, (st', snd s ++ [ch_quote] ++ replace_quote txt ++ [ch_quote])).

Definition xls_attr (rgce : list N) (s : pstate) : outcome (list N * pstate) :=
  do etpg <- byte_at rgce 0;
  do rgce1 <- drop 1 rgce;
  if (length rgce1 <? 2)%nat then Err E_LEN else            (* "PtgAttr operands" *)
  match etpg with
  (* PtgAttrSpace / PtgAttrSpaceSemi (0x40 / 0x41) are skipped since the commit "fix: xls formulas
     starting with white space …" (before: white space inserted at the top operand's start) *)
  | 0x01 | 0x02 | 0x08 | 0x20 | 0x21 | 0x40 | 0x41 => do r <- drop 2 rgce1; Ok (r, s)
  | 0x04 =>
      (* let n = read_u16(&rgce[..2]) as usize + 1; rgce = rgce.get(2 + 2 * n..).ok_or(Len)? *)
      do n <- u16_at rgce1 0;
      do r <- drop_err (2 + 2 * (N.to_nat n + 1)) rgce1; Ok (r, s)
  | 0x10 => do r <- drop 2 rgce1; arm_attrsum r s
  | _ => Err E_ETPG
  end.

Definition xls_step (ptg : N) (rgce : list N) (s : pstate) : outcome (list N * pstate) :=
  let st := fst s in let buf := snd s in
  match ptg with
  | 0x3a | 0x5a | 0x7a =>                                            (* PtgRef3d *)
      do ixti <- u16_at rgce 0;
      do rowu <- u16_at rgce 2;
      do colu <- u16_at rgce 4;
      do b <- push_cell_ref rowu colu (buf ++ sheet_name_xls ixti ++ [ch_bang]);
      do r <- drop 6 rgce;
      Ok (r, (length buf :: st, b))
  | 0x3b | 0x5b | 0x7b =>                                            (* PtgArea3d *)
      do ixti <- u16_at rgce 0;
      do r1 <- u16_at rgce 2; do c1 <- u16_at rgce 6;
      do b1 <- push_cell_ref r1 c1 (buf ++ sheet_name_xls ixti ++ [ch_bang]);
      do r2 <- u16_at rgce 4; do c2 <- u16_at rgce 8;
      do b2 <- push_cell_ref r2 c2 (b1 ++ [ch_colon]);
      do r <- drop 10 rgce;
      Ok (r, (length buf :: st, b2))
  | 0x3c | 0x5c | 0x7c =>                                            (* PtgRefErr3d *)
      do ixti <- u16_at rgce 0;
      do r <- drop 6 rgce;
      Ok (r, (length buf :: st, buf ++ sheet_name_xls ixti ++ [ch_bang] ++ lit "#REF!"))
  | 0x3d | 0x5d | 0x7d =>                                            (* PtgAreaErr3d *)
      do ixti <- u16_at rgce 0;
      do r <- drop 10 rgce;
      Ok (r, (length buf :: st, buf ++ sheet_name_xls ixti ++ [ch_bang] ++ lit "#REF!"))
  | 0x01 => arm_push_text [] 4 rgce s                                (* PtgExp *)
  | 0x03 | 0x04 | 0x05 | 0x06 | 0x07 | 0x08 | 0x09 | 0x0A | 0x0B | 0x0C | 0x0D | 0x0E
  | 0x0F | 0x10 | 0x11 => arm_binop ptg rgce s
  | 0x12 => arm_insert ch_plus rgce s
  | 0x13 => arm_insert ch_minus rgce s
  | 0x14 => Ok (rgce, (st, buf ++ [ch_percent]))
  | 0x15 => arm_paren rgce s
  | 0x16 => Ok (rgce, (length buf :: st, buf))
  | 0x17 => xls_ptgstr rgce s
  | 0x18 => do r <- drop 5 rgce; Ok (r, s)
  | 0x19 => xls_attr rgce s
  | 0x1C =>
      do err <- byte_at rgce 0;
      do r <- drop 1 rgce;
      do t <- berr_text err;
      Ok (r, (length buf :: st, buf ++ t))
  | 0x1D =>
      do b <- byte_at rgce 0;
      do r <- drop 1 rgce;
      Ok (r, (length buf :: st, buf ++ (if b =? 0 then lit "FALSE" else lit "TRUE")))
  | 0x1E =>
      do v <- u16_at rgce 0;
      do r <- drop 2 rgce;
      Ok (r, (length buf :: st, buf ++ dec v))
  | 0x1F =>
      do v <- u64_at rgce 0;
      do r <- drop 8 rgce;
      Ok (r, (length buf :: st, buf ++ show_f64 v))
  | 0x20 | 0x40 | 0x60 => arm_push_text (lit "{PtgArray}") 7 rgce s
  | 0x21 | 0x41 | 0x61 => arm_func false false rgce s
  | 0x22 | 0x42 | 0x62 => arm_func false true rgce s
  | 0x23 | 0x43 | 0x63 =>
      (* let iname = (read_u32(rgce) as usize).checked_sub(1);
         iname.and_then(|i| names.get(i)).map_or("#REF!", …) *)
      do i1 <- u32_at rgce 0;
      if i1 =? 0 then do r <- drop 4 rgce; Ok (r, (length buf :: st, buf ++ lit "#REF!")) else
      do r <- drop 4 rgce;
      Ok (r, (length buf :: st,
              buf ++ match nthN (xe_names xenv) (i1 - 1) with
                     | Some nm => nm | None => lit "#REF!" end))
  | 0x24 | 0x44 | 0x64 =>                                            (* PtgRef *)
      do rw <- u16_at rgce 0;
      do cl <- u16_at rgce 2;
      do b <- push_cell_ref rw cl buf;
      do r <- drop 4 rgce;
      Ok (r, (length buf :: st, b))
  | 0x25 | 0x45 | 0x65 =>                                            (* PtgArea *)
      do r1 <- u16_at rgce 0; do c1 <- u16_at rgce 4;
      do b1 <- push_cell_ref r1 c1 buf;
      do r2 <- u16_at rgce 2; do c2 <- u16_at rgce 6;
      do b2 <- push_cell_ref r2 c2 (b1 ++ [ch_colon]);
      do r <- drop 8 rgce;
      Ok (r, (length buf :: st, b2))
  | 0x2A | 0x4A | 0x6A => arm_push_text (lit "#REF!") 4 rgce s
  | 0x2B | 0x4B | 0x6B => arm_push_text (lit "#REF!") 8 rgce s
  | 0x2C | 0x4C | 0x6C =>                                            (* PtgRefN *)
      (* let base = base.ok_or(Unrecognized)?;
         let (row, col) = rel_ref(read_u16(rgce), read_u16(&rgce[2..]), base); push_cell_ref(row, col) *)
      match xe_base xenv with
      | None => Err E_UNRECOGNIZED
      | Some base =>
          do rw <- u16_at rgce 0;
          do cl <- u16_at rgce 2;
          let rc := rel_ref rw cl base in
          do b <- push_cell_ref (fst rc) (snd rc) buf;
          do r <- drop 4 rgce;
          Ok (r, (length buf :: st, b))
      end
  | 0x2D | 0x4D | 0x6D =>                                            (* PtgAreaN *)
      match xe_base xenv with
      | None => Err E_UNRECOGNIZED
      | Some base =>
          do r1 <- u16_at rgce 0; do c1 <- u16_at rgce 4;
          let rc1 := rel_ref r1 c1 base in
          do r2 <- u16_at rgce 2; do c2 <- u16_at rgce 6;
          let rc2 := rel_ref r2 c2 base in
          do b1 <- push_cell_ref (fst rc1) (snd rc1) buf;
          do b2 <- push_cell_ref (fst rc2) (snd rc2) (b1 ++ [ch_colon]);
          do r <- drop 8 rgce;
          Ok (r, (length buf :: st, b2))
      end
  (* PtgMemArea / PtgMemErr / PtgMemNoMem (4 bytes + cce) and PtgMemFunc (cce) in front of an expression
     made with the reference operators: skipped, the expression follows as ordinary tokens (commit
     "fix: xls formulas using the union, intersection or range operator were unreadable") *)
  | 0x26 | 0x46 | 0x66 | 0x27 | 0x47 | 0x67 | 0x28 | 0x48 | 0x68 => do r <- drop 6 rgce; Ok (r, s)
  | 0x29 | 0x49 | 0x69 => do r <- drop 2 rgce; Ok (r, s)
  | 0x39 | 0x59 => arm_push_text (lit "[PtgNameX]") 6 rgce s
  | _ => Err E_UNRECOGNIZED
  end.

(* size of the fixed operands the token reads: if rgce.len() < expected { return Err(Len) } *)
Definition xls_expected (ptg : N) : nat :=
  match ptg with
  | 0x3a | 0x5a | 0x7a | 0x3c | 0x5c | 0x7c | 0x39 | 0x59 => 6%nat
  | 0x3b | 0x5b | 0x7b | 0x3d | 0x5d | 0x7d => 10%nat
  | 0x01 | 0x23 | 0x43 | 0x63 | 0x24 | 0x44 | 0x64 | 0x2A | 0x4A | 0x6A | 0x2C | 0x4C | 0x6C => 4%nat
  | 0x17 | 0x19 | 0x1C | 0x1D => 1%nat
  | 0x18 => 5%nat
  | 0x1E | 0x21 | 0x41 | 0x61 => 2%nat
  | 0x1F | 0x25 | 0x45 | 0x65 | 0x2B | 0x4B | 0x6B | 0x2D | 0x4D | 0x6D => 8%nat
  | 0x20 | 0x40 | 0x60 => 7%nat
  | 0x22 | 0x42 | 0x62 => 3%nat
  | 0x26 | 0x46 | 0x66 | 0x27 | 0x47 | 0x67 | 0x28 | 0x48 | 0x68 => 6%nat
  | 0x29 | 0x49 | 0x69 => 2%nat
  | _ => 0%nat
  end.

(* while !rgce.is_empty() { … }: one unit of fuel per token *)
Fixpoint xls_run (fuel : nat) (rgce : list N) (s : pstate) : outcome pstate :=
  match fuel with
  | O => OutOfFuel
  | S f =>
      match rgce with
      | [] => Ok s
      | ptg :: rest =>
          if (length rest <? xls_expected ptg)%nat then Err E_LEN
          else do rs <- xls_step ptg rest s; xls_run f (fst rs) (snd rs)
      end
  end.

(*  if rgce.len() < 2 { Err }; let cce = read_u16(rgce) as usize; rgce = rgce.get(2..2 + cce)?; …loop…;
    if stack.len() == 1 { Ok(formula) } else { Err(InvalidFormula) } *)
Definition xls_parse_formula (data : list N) : outcome (list N) :=
  if (length data <? 2)%nat then Err E_LEN else             (* "formula cce" *)
  do cce <- u16_at data 0;
  do r2 <- drop 2 data;
  if (length r2 <? N.to_nat cce)%nat then Err E_LEN else    (* rgce.get(2..2 + cce).ok_or(Len)? *)
  do rgce <- take (N.to_nat cce) r2;
  do s <- xls_run (S (length rgce)) rgce ([], []);
  match fst s with
  | [_] => Ok (snd s)
  | _ => Err E_INVALID_FORMULA
  end.

(* ================================================================== xlsb ========== *)
Record xlsb_env := {
  be_sheets : list (list N);            (* extern_sheets: one resolved name per XTI *)
  be_names : list (list N);
  be_base : option (N * N)              (* base: Option<(u32, u32)> — the cell using a shared formula
                                           (row, column); None for a cell's own formula and for names *)
}.
Variable benv : xlsb_env.

(*  fn rel_ref(row: u32, col: u16, base: (u32, u32)) -> (u32, u16) {
      let row = if col & 0x8000 != 0 { row.wrapping_add(base.0) & 0x000F_FFFF } else { row };
      let c = if col & 0x4000 != 0 { col.wrapping_add(base.1 as u16) & 0x3FFF } else { col & 0x3FFF };
      (row, col & 0xC000 | c) }
    (commit "fix: xlsb cells of shared and array formulas were reported without their formula")
    wrapping u32 / u16 additions written as sums modulo 2^32 / 2^16, [base.1 as u16] as mod 2^16,
    [& 0xFFFFF] / [& 0x3FFF] as mod 2^20 / 2^14; [col & 0xC000 | c] is Col26.col_field *)
Definition rel_ref_b (row col : N) (base : N * N) : N * N :=
  let row' := if bit15 col then ((row + fst base) mod 4294967296) mod 1048576 else row in
  let c := if bit14 col then ((col + snd base mod 65536) mod 65536) mod 16384 else N.land col 16383 in
  (row', col_field c (bit15 col) (bit14 col)).

(* sheets.get(ixti as usize).map_or("#REF", |sh| sh) *)
Definition sheet_name_xlsb (ixti : N) : outcome (list N) :=
  match nthN (be_sheets benv) ixti with Some sh => Ok sh | None => Ok (lit "#REF") end.

(*  let cch = read_u16(&rgce[0..2]);
    UTF_16LE.decode_without_bom_handling(&rgce[2..2 + 2 * cch]).0.replace(QUOTE, QUOTE QUOTE);
    rgce = &rgce[2 + 2*cch..] *)
Definition xlsb_ptgstr (rgce : list N) (s : pstate) : outcome (list N * pstate) :=
  do cch <- u16_at rgce 0;
  let n := (2 * N.to_nat cch)%nat in
  do r2 <- drop 2 rgce;
  if (length r2 <? n)%nat then Err E_LEN else               (* check_len("PtgStr", rgce.len(), 2 + 2 * cch)? *)
  do stream <- take n r2;
  do rest <- drop n r2;
  Ok (rest, (length (snd s) :: fst s,
             snd s ++ [ch_quote] ++ replace_quote (decode_utf16le stream) ++ [ch_quote])).

Definition xlsb_attr (rgce : list N) (s : pstate) : outcome (list N * pstate) :=
  do etpg <- byte_at rgce 0;
  do rgce1 <- drop 1 rgce;
  (* check_len("PtgAttr", rgce.len(), 2)? *)
  if (length rgce1 <? 2)%nat then Err E_LEN else
  match etpg with
  | 0x01 | 0x02 | 0x08 | 0x20 | 0x21 | 0x40 | 0x41 | 0x80 => do r <- drop 2 rgce1; Ok (r, s)
  | 0x04 =>
      (* PtgAttrChoose (commit "fix: xlsb formulas using CHOOSE with other than three values …"):
         let n = read_u16(&rgce[..2]) as usize + 1; check_len(.., 2 + 2 * n)?; rgce = &rgce[2 + 2 * n..] *)
      do n <- u16_at rgce1 0;
      do r <- drop_err (2 + 2 * (N.to_nat n + 1)) rgce1; Ok (r, s)
  | 0x10 => do r <- drop 2 rgce1; arm_attrsum r s
  | _ => Err E_ETPG
  end.

(* [sub] is the recursive call parse_formula_nested(&rgce[..cce], sheets, names, base, depth + 1) of
   PtgMemFunc (same base) *)
Definition xlsb_step (sub : list N -> outcome (list N)) (ptg : N) (rgce : list N) (s : pstate)
  : outcome (list N * pstate) :=
  let st := fst s in let buf := snd s in
  match ptg with
  | 0x3a | 0x5a | 0x7a =>                                            (* PtgRef3d *)
      do ixti <- u16_at rgce 0;
      do sh <- sheet_name_xlsb ixti;
      do rw <- u32_at rgce 2; do cl <- u16_at rgce 6;
      do b <- push_cell_ref rw cl (buf ++ sh ++ [ch_bang]);
      do r <- drop 8 rgce;
      Ok (r, (length buf :: st, b))
  | 0x3b | 0x5b | 0x7b =>                                            (* PtgArea3d *)
      do ixti <- u16_at rgce 0;
      do sh <- sheet_name_xlsb ixti;
      do r1 <- u32_at rgce 2; do c1 <- u16_at rgce 10;
      do b1 <- push_cell_ref r1 c1 (buf ++ sh ++ [ch_bang]);
      do r2 <- u32_at rgce 6; do c2 <- u16_at rgce 12;
      do b2 <- push_cell_ref r2 c2 (b1 ++ [ch_colon]);
      do r <- drop 14 rgce;
      Ok (r, (length buf :: st, b2))
  | 0x3c | 0x5c | 0x7c =>
      do ixti <- u16_at rgce 0;
      do sh <- sheet_name_xlsb ixti;
      do r <- drop 8 rgce;
      Ok (r, (length buf :: st, buf ++ sh ++ [ch_bang] ++ lit "#REF!"))
  | 0x3d | 0x5d | 0x7d =>
      do ixti <- u16_at rgce 0;
      do sh <- sheet_name_xlsb ixti;
      do r <- drop 14 rgce;
      Ok (r, (length buf :: st, buf ++ sh ++ [ch_bang] ++ lit "#REF!"))
  | 0x01 => arm_push_text [] 4 rgce s
  | 0x03 | 0x04 | 0x05 | 0x06 | 0x07 | 0x08 | 0x09 | 0x0A | 0x0B | 0x0C | 0x0D | 0x0E
  | 0x0F | 0x10 | 0x11 => arm_binop ptg rgce s
  | 0x12 => arm_insert ch_plus rgce s
  | 0x13 => arm_insert ch_minus rgce s
  | 0x14 => Ok (rgce, (st, buf ++ [ch_percent]))
  | 0x15 => arm_paren rgce s
  | 0x16 => Ok (rgce, (length buf :: st, buf))
  | 0x17 => xlsb_ptgstr rgce s
  | 0x18 =>
      (* stack.push; eptg = rgce[0]; 0x19 => skip 12, 0x1D => skip 4, else Err *)
      do eptg <- byte_at rgce 0;
      do rgce1 <- drop 1 rgce;
      match eptg with
      | 0x19 => do r <- drop_err 12 rgce1; Ok (r, (length buf :: st, buf))
      | 0x1D => do r <- drop_err 4 rgce1; Ok (r, (length buf :: st, buf))
      | _ => Err E_ETPG
      end
  | 0x19 => xlsb_attr rgce s
  | 0x1C =>
      do err <- byte_at rgce 0;
      do r <- drop 1 rgce;
      do t <- berr_text err;
      Ok (r, (length buf :: st, buf ++ t))
  | 0x1D =>
      do b <- byte_at rgce 0;
      do r <- drop 1 rgce;
      Ok (r, (length buf :: st, buf ++ (if b =? 0 then lit "FALSE" else lit "TRUE")))
  | 0x1E =>
      do v <- u16_at rgce 0;
      do r <- drop 2 rgce;
      Ok (r, (length buf :: st, buf ++ dec v))
  | 0x1F =>
      do v <- u64_at rgce 0;
      do r <- drop 8 rgce;
      Ok (r, (length buf :: st, buf ++ show_f64 v))
  | 0x20 | 0x40 | 0x60 => arm_push_text [] 14 rgce s                 (* PtgArray: no text *)
  | 0x21 | 0x41 | 0x61 => arm_func true false rgce s
  | 0x22 | 0x42 | 0x62 => arm_func true true rgce s
  | 0x23 | 0x43 | 0x63 =>
      (* if let Some(name) = iname.and_then(|i| names.get(i)) { push_str } — nothing otherwise
         (iname = index.checked_sub(1)) *)
      do i1 <- u32_at rgce 0;
      if i1 =? 0 then do r <- drop 4 rgce; Ok (r, (length buf :: st, buf)) else
      do r <- drop 4 rgce;
      Ok (r, (length buf :: st,
              buf ++ match nthN (be_names benv) (i1 - 1) with
                     | Some nm => nm | None => [] end))
  | 0x24 | 0x44 | 0x64 =>
      do rw <- u32_at rgce 0; do cl <- u16_at rgce 4;
      do b <- push_cell_ref rw cl buf;
      do r <- drop 6 rgce;
      Ok (r, (length buf :: st, b))
  | 0x25 | 0x45 | 0x65 =>
      do r1 <- u32_at rgce 0; do c1 <- u16_at rgce 8;
      do b1 <- push_cell_ref r1 c1 buf;
      do r2 <- u32_at rgce 4; do c2 <- u16_at rgce 10;
      do b2 <- push_cell_ref r2 c2 (b1 ++ [ch_colon]);
      do r <- drop 12 rgce;
      Ok (r, (length buf :: st, b2))
  | 0x2A | 0x4A | 0x6A => arm_push_text (lit "#REF!") 6 rgce s
  | 0x2B | 0x4B | 0x6B => arm_push_text (lit "#REF!") 12 rgce s
  | 0x2C | 0x4C | 0x6C =>                                            (* PtgRefN *)
      (* let base = base.ok_or(XlsbError::Ptg(ptg))?;
         let (row, col) = rel_ref(read_u32(rgce), read_u16(&rgce[4..6]), base); push_cell_ref(row, col) *)
      match be_base benv with
      | None => Err E_UNRECOGNIZED
      | Some base =>
          do rw <- u32_at rgce 0;
          do cl <- u16_at rgce 4;
          let rc := rel_ref_b rw cl base in
          do b <- push_cell_ref (fst rc) (snd rc) buf;
          do r <- drop 6 rgce;
          Ok (r, (length buf :: st, b))
      end
  | 0x2D | 0x4D | 0x6D =>                                            (* PtgAreaN *)
      match be_base benv with
      | None => Err E_UNRECOGNIZED
      | Some base =>
          do r1 <- u32_at rgce 0; do c1 <- u16_at rgce 8;
          let rc1 := rel_ref_b r1 c1 base in
          do r2 <- u32_at rgce 4; do c2 <- u16_at rgce 10;
          let rc2 := rel_ref_b r2 c2 base in
          do b1 <- push_cell_ref (fst rc1) (snd rc1) buf;
          do b2 <- push_cell_ref (fst rc2) (snd rc2) (b1 ++ [ch_colon]);
          do r <- drop 12 rgce;
          Ok (r, (length buf :: st, b2))
      end
  (* PtgMemArea / PtgMemErr / PtgMemNoMem: skipped, the expression follows as ordinary tokens (commit
     "fix: one xlsb formula using the union or intersection operator made every formula of its sheet
     unreadable") *)
  | 0x26 | 0x46 | 0x66 | 0x27 | 0x47 | 0x67 | 0x28 | 0x48 | 0x68 => do r <- drop 6 rgce; Ok (r, s)
  | 0x29 | 0x49 | 0x69 =>                                            (* PtgMemFunc *)
      do cce <- u16_at rgce 0;
      do r2 <- drop 2 rgce;
      if (length r2 <? N.to_nat cce)%nat then Err E_LEN else   (* check_len("PtgMemFunc", …, cce)? *)
      do inner <- take (N.to_nat cce) r2;
      do f <- sub inner;                                        (* depth check, then the nested call *)
      do r <- drop (N.to_nat cce) r2;
      Ok (r, (length buf :: st, buf ++ f))
  | 0x39 | 0x59 | 0x79 => arm_push_text (lit "EXTERNAL_WB_NAME") 6 rgce s
  | _ => Err E_UNRECOGNIZED
  end.

Definition xlsb_finish (s : pstate) : outcome (list N) :=
  match fst s with
  | [_] => Ok (snd s)
  | _ => Err E_STACKLEN
  end.

(* size of the fixed operands the token reads: check_len("ptg operands", rgce.len(), expected)? *)
Definition xlsb_expected (ptg : N) : nat :=
  match ptg with
  | 0x3a | 0x5a | 0x7a | 0x3c | 0x5c | 0x7c => 8%nat
  | 0x3b | 0x5b | 0x7b | 0x3d | 0x5d | 0x7d | 0x20 | 0x40 | 0x60 => 14%nat
  | 0x01 | 0x23 | 0x43 | 0x63 => 4%nat
  | 0x17 | 0x1E | 0x21 | 0x41 | 0x61 | 0x29 | 0x49 | 0x69 => 2%nat
  | 0x18 | 0x19 | 0x1C | 0x1D => 1%nat
  | 0x1F => 8%nat
  | 0x22 | 0x42 | 0x62 => 3%nat
  | 0x24 | 0x44 | 0x64 | 0x2A | 0x4A | 0x6A | 0x39 | 0x59 | 0x79 | 0x2C | 0x4C | 0x6C => 6%nat
  | 0x26 | 0x46 | 0x66 | 0x27 | 0x47 | 0x67 | 0x28 | 0x48 | 0x68 => 6%nat
  | 0x25 | 0x45 | 0x65 | 0x2B | 0x4B | 0x6B | 0x2D | 0x4D | 0x6D => 12%nat
  | _ => 0%nat
  end.

Definition MAX_FORMULA_DEPTH : nat := 64.

(* parse_formula_nested and its loop, mutually: [xlsb_run f depth] may call the parser on a
   strictly shorter slice with fuel f at depth + 1; beyond MAX_FORMULA_DEPTH the call is refused *)
Fixpoint xlsb_run (fuel : nat) (depth : nat) (rgce : list N) (s : pstate) : outcome pstate :=
  match fuel with
  | O => OutOfFuel
  | S f =>
      match rgce with
      | [] => Ok s
      | ptg :: rest =>
          let sub := fun inner =>
            if (MAX_FORMULA_DEPTH <=? depth)%nat then Err E_DEPTH else
            match inner with
            | [] => Ok []
            | _ => do s' <- xlsb_run f (S depth) inner ([], []); xlsb_finish s'
            end in
          if (length rest <? xlsb_expected ptg)%nat then Err E_LEN
          else do rs <- xlsb_step sub ptg rest s; xlsb_run f depth (fst rs) (snd rs)
      end
  end.

Definition xlsb_parse_formula (rgce : list N) : outcome (list N) :=
  match rgce with
  | [] => Ok []                                   (* if rgce.is_empty() { return Ok(String::new()) } *)
  | _ => do s <- xlsb_run (S (length rgce)) 0 rgce ([], []); xlsb_finish s
  end.

End Decoders.

(* ================================================================== SPEC: the expression AST *)
Inductive cls := CRef | CVal | CArr.           (* operand class bits 0x20 / 0x40 / 0x60 *)
(* the ptg byte of an operand token in the given class: base (reference class), base + 0x20
   (value class), base + 0x40 (array class) — written out so that no arithmetic is needed *)
Definition cls_ptg (r v a : N) (k : cls) : N := match k with CRef => r | CVal => v | CArr => a end.

Record cref := { cr_row : N; cr_col : N; cr_row_rel : bool; cr_col_rel : bool }.

Inductive unop := UPlus | UMinus | UPercent.
(* the four tokens Excel puts in front of every sub-expression built with the reference operators
   union ',', intersection ' ' and range ':' (formula grammar: mem-area-expression; MS-XLS 2.5.198.70-73,
   MS-XLSB 2.5.97.58-61): PtgMemArea (the value is a known list of areas, kept in rgcb), PtgMemErr (it is an
   error), PtgMemNoMem (it was not cached), PtgMemFunc (it is not constant) *)
Inductive memkind := MArea | MErr | MNoMem | MFunc.

Inductive expr :=
| ERef (k : cls) (a : cref)
| EArea (k : cls) (a b : cref)
| ERef3d (k : cls) (ixti : N) (a : cref)
| EArea3d (k : cls) (ixti : N) (a b : cref)
| EName (k : cls) (idx : N)                    (* 1-based index of the defined name *)
| EInt (n : N)
| ENum (bits : N)
| EStr (wide : bool) (s : list N)              (* scalar values; [wide]: stored as 16-bit units (xls choice) *)
| EBool (b : bool)
| EErr (code : N)
| EMissArg
| EUn (op : unop) (a : expr)
| EBin (op : N) (a b : expr)                   (* op = the Ptg value 0x03..0x11 *)
| EParen (a : expr)
| EFunc (k : cls) (iftab : N) (args : list expr)       (* PtgFunc: fixed arity *)
| EFuncVar (k : cls) (iftab : N) (args : list expr)    (* PtgFuncVar: explicit count *)
| ESum (a : expr)                                      (* PtgAttrSum *)
| EAttrSkip (etpg w : N) (a : expr)            (* a display-neutral PtgAttr* in front of a *)
| EAttrPost (etpg w : N) (a : expr)            (* a display-neutral PtgAttr* behind a (PtgAttrGoto after a
                                                  branch of IF / CHOOSE, PtgAttrSpace before an operator) *)
| EAttrChoose (offs : list N) (a : expr)       (* PtgAttrChoose (cOffset = |offs| - 1, then the jump
                                                  table offs) in front of a *)
(* references of a SHARED formula (PtgRefN / PtgAreaN, MS-XLS 2.5.198.84 / .28; RgceLocRel): a
   relative component holds an OFFSET from the cell that uses the formula, as the two's-complement
   field the format stores (xls — rows: 16 bits; columns: the low 8 bits of the 14-bit field count, xls
   sheets have 256 columns; xlsb — rows: 32 bits, columns: 14 bits), an absolute component the row /
   column itself *)
| ERefN (k : cls) (a : cref)
| EAreaN (k : cls) (a b : cref)
(* a mem token in front of the tokens of [a]: ptg, for the first three kinds 4 bytes [w] (unused; the
   error code of PtgMemErr in its low byte), then cce = the size of the encoding of [a].  No text of its own. *)
| EMem (k : cls) (m : memkind) (w : N) (a : expr)
(* references that no longer exist (their row, column or sheet was deleted): PtgRefErr 2A, PtgAreaErr 2B
   (#REF!), PtgRefErr3d 3C, PtgAreaErr3d 3D (Sheet!#REF!).  [junk]: the unused bytes that stand where
   the location was (as many as the location took) *)
| ERefErr (k : cls) (junk : list N)
| EAreaErr (k : cls) (junk : list N)
| ERefErr3d (k : cls) (ixti : N) (junk : list N)
| EAreaErr3d (k : cls) (ixti : N) (junk : list N).

(* ---------- rendering (the A1 text) ---------- *)
(* operator tokens of MS-XLS 2.5.198: PtgAdd 03 .. PtgConcat 08, PtgLt 09, PtgLe 0A, PtgEq 0B,
   PtgGe 0C, PtgGt 0D, PtgNe 0E, PtgIsect 0F, PtgUnion 10, PtgRange 11.  (Until repo commit
   c288315 the code — and this table, which had been copied from it — had 0C and 0D swapped; the
   xlsx twin of fixture issues.xls shows A1>A2 where the xls token 0D was rendered A1>=A2.) *)
Definition spec_binop (op : N) : list N :=
  match op with
  | 3 => lit "+" | 4 => lit "-" | 5 => lit "*" | 6 => lit "/" | 7 => lit "^" | 8 => lit "&"
  | 9 => lit "<" | 10 => lit "<=" | 11 => lit "=" | 12 => lit ">=" | 13 => lit ">" | 14 => lit "<>"
  | 15 => lit " " | 16 => lit "," | 17 => lit ":"
  | _ => []
  end.
Definition is_binop (op : N) : bool := (3 <=? op) && (op <=? 17).

(* BErr codes, MS-XLS 2.5.10 / MS-XLSB 2.5.97.2 *)
Definition spec_err (code : N) : option (list N) :=
  match code with
  | 0 => Some (lit "#NULL!") | 7 => Some (lit "#DIV/0!") | 15 => Some (lit "#VALUE!")
  | 23 => Some (lit "#REF!") | 29 => Some (lit "#NAME?") | 36 => Some (lit "#NUM!")
  | 42 => Some (lit "#N/A") | 43 => Some (lit "#GETTING_DATA")
  | _ => None
  end.

Definition render_cref (a : cref) : list N :=
  a1_ref (cr_row a) (cr_col a) (cr_row_rel a) (cr_col_rel a).

(* a string literal in formula text: quotes doubled *)
Definition quote_str (s : list N) : list N :=
  [ch_quote] ++ flat_map (fun c => if c =? ch_quote then [ch_quote; ch_quote] else [c]) s ++ [ch_quote].

Fixpoint join_comma (l : list (list N)) : list N :=
  match l with
  | [] => []
  | [x] => x
  | x :: t => x ++ [ch_comma] ++ join_comma t
  end.

(* SPEC: a reference of a shared formula, seen from the cell (br, bc) that uses it: relative
   components are base + offset, wrapping around the sheet — rows modulo 65536, columns modulo 256
   (MS-XLS RgceLocRel; the offset d is stored as d mod 2^16 resp. d mod 2^8, so this is
   (base + d) mod 65536 / 256: [translate_signed_row/col] in Ptg_proofs.v); absolute components and
   the two flags are unchanged.  Without a base (not a shared formula) there is nothing to translate. *)
Definition translate (base : option (N * N)) (a : cref) : cref :=
  match base with
  | None => a
  | Some (br, bc) =>
      {| cr_row := if cr_row_rel a then (br + cr_row a) mod 65536 else cr_row a;
         cr_col := if cr_col_rel a then (bc + cr_col a) mod 256 else cr_col a;
         cr_row_rel := cr_row_rel a; cr_col_rel := cr_col_rel a |}
  end.

(* the same for xlsb (MS-XLSB RgceLocRel): the sheet has 1048576 rows and 16384 columns; a relative
   row is stored as the 32-bit two's complement of its offset, a relative column as the 14-bit one *)
Definition translate_b (base : option (N * N)) (a : cref) : cref :=
  match base with
  | None => a
  | Some (br, bc) =>
      {| cr_row := if cr_row_rel a then (br + cr_row a) mod 1048576 else cr_row a;
         cr_col := if cr_col_rel a then (bc + cr_col a) mod 16384 else cr_col a;
         cr_row_rel := cr_row_rel a; cr_col_rel := cr_col_rel a |}
  end.

Section Render.
Variable show_f64 : N -> list N.
Variable sheet_of : N -> list N.               (* ixti -> sheet name *)
Variable name_of : N -> list N.                (* 1-based name index -> name *)
Variable ref_n : cref -> cref.                 (* a PtgRefN / PtgAreaN corner seen from the using cell *)

Definition fname (iftab : N) : list N := match nthN FTAB_REF iftab with Some nm => nm | None => [] end.

(* a PtgFuncVar call, given the texts of its parameters *)
Definition render_call (iftab : N) (rs : list (list N)) : list N :=
  match (if iftab =? 255 then rs else []) with
  | f :: rest => f ++ [ch_lpar] ++ join_comma rest ++ [ch_rpar]
  | [] => fname iftab ++ [ch_lpar] ++ join_comma rs ++ [ch_rpar]
  end.

Fixpoint render (e : expr) : list N :=
  match e with
  | ERef _ a => render_cref a
  | EArea _ a b => render_cref a ++ [ch_colon] ++ render_cref b
  | ERef3d _ ix a => sheet_of ix ++ [ch_bang] ++ render_cref a
  | EArea3d _ ix a b => sheet_of ix ++ [ch_bang] ++ render_cref a ++ [ch_colon] ++ render_cref b
  | EName _ idx => name_of idx
  | EInt n => dec n
  | ENum bits => show_f64 bits
  | EStr _ s => quote_str s
  | EBool b => if b then lit "TRUE" else lit "FALSE"
  | EErr code => match spec_err code with Some t => t | None => [] end
  | EMissArg => []
  | EUn UPlus a => ch_plus :: render a
  | EUn UMinus a => ch_minus :: render a
  | EUn UPercent a => render a ++ [ch_percent]
  | EBin op a b => render a ++ spec_binop op ++ render b
  | EParen a => ch_lpar :: render a ++ [ch_rpar]
  | EFunc _ iftab args => fname iftab ++ [ch_lpar] ++ join_comma (map render args) ++ [ch_rpar]
  | EFuncVar _ iftab args =>
      (* tab 0x00FF: the first parameter (a PtgName / PtgNameX) is the NAME of the user-defined or
         future function, the remaining ones are its arguments (MS-XLS / MS-XLSB PtgFuncVar) *)
      render_call iftab (map render args)
  | ESum a => lit "SUM(" ++ render a ++ [ch_rpar]
  | EAttrSkip _ _ a => render a
  | EAttrPost _ _ a => render a
  | EAttrChoose _ a => render a
  | ERefN _ a => render_cref (ref_n a)
  | EAreaN _ a b => render_cref (ref_n a) ++ [ch_colon] ++ render_cref (ref_n b)
  | EMem _ _ _ a => render a
  | ERefErr _ _ | EAreaErr _ _ => lit "#REF!"
  | ERefErr3d _ ix _ | EAreaErr3d _ ix _ => sheet_of ix ++ [ch_bang] ++ lit "#REF!"
  end.
End Render.

(* spec-level sheet / name resolution *)
(* the sheet part of a 3-D reference through XTI [ixti] (MS-XLS 2.5.277 XTI: itabFirst, itabLast):
   one sheet — its name as [sheet_text] writes it —, or the span First:Last ([span_text]) when the two
   differ; itab >= 0x8000 is a negative i16 (-1 = deleted sheet, -2 = workbook-level), out of range: #REF.
   (iSupBook is not looked at here: see [known_extern] for XTIs of other workbooks.) *)
Definition spec_sheet_xls (env : xls_env) (ixti : N) : list N :=
  match nthN (xe_xtis env) ixti with
  | Some (_, first, last) =>
      match sheet_at (xe_sheets env) first, sheet_at (xe_sheets env) last with
      | Some a, Some b => if first =? last then sheet_text a else span_text a b
      | Some a, None => sheet_text a
      | None, _ => lit "#REF"
      end
  | None => lit "#REF"
  end.
Definition spec_name (names : list (list N)) (idx : N) : list N :=
  match nthN names (idx - 1) with Some nm => nm | None => [] end.
Definition spec_sheet_xlsb (env : xlsb_env) (ixti : N) : list N :=
  match nthN (be_sheets env) ixti with Some sh => sh | None => [] end.

Definition render_xls (show_f64 : N -> list N) (env : xls_env) : expr -> list N :=
  render show_f64 (spec_sheet_xls env) (spec_name (xe_names env)) (translate (xe_base env)).
Definition render_xlsb (show_f64 : N -> list N) (env : xlsb_env) : expr -> list N :=
  render show_f64 (spec_sheet_xlsb env) (spec_name (be_names env)) (translate_b (be_base env)).

(* ---------- supporting links: what an XTI points INTO (known finding K_EXTERN_BOOK) ----------
   An XTI is (iSupBook, itabFirst, itabLast): iSupBook is an index into the workbook's list of supporting
   links — xls: the SupBook records of the globals substream in record order (MS-XLS 2.4.271: cch = 0x0401
   this workbook, cch = 0x3A01 the add-in functions, else another workbook: its path and the names of its
   sheets); xlsb: the records between BrtBeginExternals and BrtExternSheet in record order (MS-XLSB 2.1.7.53:
   BrtSupSelf this workbook, BrtSupSame the sheet using it, BrtSupAddin the add-in functions, BrtSupBookSrc
   another workbook, the names of its sheets in the BrtSupTabs of its externalLink part).  itabFirst and
   itabLast are sheets of THIS workbook exactly when the link is SupSelf / SupSame; through a link to
   another workbook they index that workbook's sheet names. *)
Inductive suplink :=
| SupSelf
| SupSame
| SupAddin
| SupExt (tabs : list (list N)).     (* another workbook: the names of its sheets *)
Definition link_local (l : suplink) : bool := match l with SupSelf | SupSame => true | _ => false end.
Definition link_ext (l : suplink) : bool := match l with SupExt _ => true | _ => false end.
Definition xti_local (links : list suplink) (x : N * N * N) : bool :=
  match nthN links (fst (fst x)) with Some l => link_local l | None => false end.

(* SPEC: a reference into another workbook is written with the workbook's number in brackets in front of
   the sheet — [1]Sheet1!A1, '[1]My Sheet'!A1, [2]First:Last!A1 — the number counting the links to other
   workbooks in their order (ECMA-376 Part 1 18.17.2.3 external references; it is the text an xlsx file
   stores for the same formula, which calamine's xlsx reader hands out unchanged) *)
Definition ext_no (links : list suplink) (isup : N) : N :=
  N.of_nat (length (filter link_ext (firstn (S (N.to_nat isup)) links))).
Definition ext_prefix (k : N) : list N := [91] ++ dec k ++ [93].
Definition ext_sheet_text (k : N) (a : list N) : list N :=
  if bare_sheet a then ext_prefix k ++ a else [ch_apos] ++ ext_prefix k ++ double_apos a ++ [ch_apos].
Definition ext_span_text (k : N) (a b : list N) : list N :=
  if bare_sheet a && bare_sheet b then ext_prefix k ++ a ++ [ch_colon] ++ b
  else [ch_apos] ++ ext_prefix k ++ double_apos a ++ [ch_colon] ++ double_apos b ++ [ch_apos].

(* the sheet part of a 3-D reference through XTI [x], given the links; [local]: its text when the XTI points
   into this workbook; [tab_at]: the format's reading of a sheet index (i16 / i32).  A link that has no
   sheets (add-in functions) or does not exist: #REF *)
Definition sheet_through_link (links : list suplink) (tab_at : list (list N) -> N -> option (list N))
  (local : list N) (x : N * N * N) : list N :=
  match nthN links (fst (fst x)) with
  | Some (SupExt tabs) =>
      let k := ext_no links (fst (fst x)) in
      match tab_at tabs (snd (fst x)), tab_at tabs (snd x) with
      | Some a, Some b => if snd (fst x) =? snd x then ext_sheet_text k a else ext_span_text k a b
      | Some a, None => ext_sheet_text k a
      | None, _ => lit "#REF"
      end
  | Some SupSelf | Some SupSame => local
  | Some SupAddin | None => lit "#REF"
  end.

(* the XTIs an expression goes through *)
Fixpoint ixtis (e : expr) : list N :=
  match e with
  | ERef3d _ ix _ | EArea3d _ ix _ _ | ERefErr3d _ ix _ | EAreaErr3d _ ix _ => [ix]
  | EUn _ a | EParen a | ESum a | EAttrSkip _ _ a | EAttrPost _ _ a | EAttrChoose _ a | EMem _ _ _ a => ixtis a
  | EBin _ a b => ixtis a ++ ixtis b
  | EFunc _ _ args | EFuncVar _ _ args => flat_map ixtis args
  | _ => []
  end.

(* KNOWN FINDING K_EXTERN_BOOK (both decoders): iSupBook is never read — a reference into another workbook is
   written with the name of the sheet of THIS workbook that happens to have the same index.  The class: the
   expression goes through an XTI of the table whose link is not this workbook.  (An index outside the XTI table
   is #REF / an error whatever the links are.) *)
Definition K_EXTERN_BOOK : N := 1.
Definition known_extern (links : list suplink) (xtis : list (N * N * N)) (e : expr) : bool :=
  existsb (fun ix => match nthN xtis ix with Some x => negb (xti_local links x) | None => false end) (ixtis e).
Definition known_C14 (links : list suplink) (xtis : list (N * N * N)) (e : expr) : option N :=
  if known_extern links xtis e then Some K_EXTERN_BOOK else None.

(* xls: the full spec of the sheet part — [spec_sheet_xls] for the XTIs of this workbook *)
Definition spec_sheet_xls_links (links : list suplink) (env : xls_env) (ixti : N) : list N :=
  match nthN (xe_xtis env) ixti with
  | Some x => sheet_through_link links sheet_at (spec_sheet_xls env ixti) x
  | None => lit "#REF"
  end.
Definition render_xls_links (show_f64 : N -> list N) (links : list suplink) (env : xls_env) : expr -> list N :=
  render show_f64 (spec_sheet_xls_links links env) (spec_name (xe_names env)) (translate (xe_base env)).

(* ---------- encoders ---------- *)
Definition unop_ptg (op : unop) : N := match op with UPlus => 0x12 | UMinus => 0x13 | UPercent => 0x14 end.
Definition cfield (a : cref) : N := col_field (cr_col a) (cr_row_rel a) (cr_col_rel a).
Definition mem_ptg (m : memkind) (k : cls) : N :=
  match m with
  | MArea => cls_ptg 0x26 0x46 0x66 k | MErr => cls_ptg 0x27 0x47 0x67 k
  | MNoMem => cls_ptg 0x28 0x48 0x68 k | MFunc => cls_ptg 0x29 0x49 0x69 k
  end.
Definition mem_head (m : memkind) (w : N) : list N :=
  match m with MFunc => [] | _ => le 4 w end.

Section Encode.
Variable rowbytes : nat.                        (* 2 for xls, 4 for xlsb *)
Variable enc_str : bool -> list N -> list N.    (* the body of PtgStr after the ptg byte *)

Fixpoint encode (e : expr) : list N :=
  match e with
  | ERef k a => [cls_ptg 0x24 0x44 0x64 k] ++ le rowbytes (cr_row a) ++ le 2 (cfield a)
  | EArea k a b => [cls_ptg 0x25 0x45 0x65 k] ++ le rowbytes (cr_row a) ++ le rowbytes (cr_row b)
                     ++ le 2 (cfield a) ++ le 2 (cfield b)
  | ERef3d k ix a => [cls_ptg 0x3A 0x5A 0x7A k] ++ le 2 ix ++ le rowbytes (cr_row a) ++ le 2 (cfield a)
  | EArea3d k ix a b => [cls_ptg 0x3B 0x5B 0x7B k] ++ le 2 ix ++ le rowbytes (cr_row a)
                     ++ le rowbytes (cr_row b) ++ le 2 (cfield a) ++ le 2 (cfield b)
  | EName k idx => [cls_ptg 0x23 0x43 0x63 k] ++ le 4 idx
  | EInt n => [0x1E] ++ le 2 n
  | ENum bits => [0x1F] ++ le 8 bits
  | EStr w s => [0x17] ++ enc_str w s
  | EBool b => [0x1D; if b then 1 else 0]
  | EErr code => [0x1C; code]
  | EMissArg => [0x16]
  | EUn op a => encode a ++ [unop_ptg op]
  | EBin op a b => encode a ++ encode b ++ [op]
  | EParen a => encode a ++ [0x15]
  | EFunc k iftab args => flat_map encode args ++ [cls_ptg 0x21 0x41 0x61 k] ++ le 2 iftab
  | EFuncVar k iftab args =>
      flat_map encode args ++ [cls_ptg 0x22 0x42 0x62 k; N.of_nat (length args)] ++ le 2 iftab
  | ESum a => encode a ++ [0x19; 0x10; 0; 0]
  | EAttrSkip etpg w a => [0x19; etpg] ++ le 2 w ++ encode a
  | EAttrPost etpg w a => encode a ++ [0x19; etpg] ++ le 2 w
  | EAttrChoose offs a =>
      [0x19; 0x04] ++ le 2 (N.of_nat (length offs) - 1) ++ flat_map (le 2) offs ++ encode a
  | ERefN k a => [cls_ptg 0x2C 0x4C 0x6C k] ++ le rowbytes (cr_row a) ++ le 2 (cfield a)
  | EAreaN k a b => [cls_ptg 0x2D 0x4D 0x6D k] ++ le rowbytes (cr_row a) ++ le rowbytes (cr_row b)
                      ++ le 2 (cfield a) ++ le 2 (cfield b)
  | EMem k m w a => [mem_ptg m k] ++ mem_head m w ++ le 2 (N.of_nat (length (encode a))) ++ encode a
  | ERefErr k junk => [cls_ptg 0x2A 0x4A 0x6A k] ++ junk
  | EAreaErr k junk => [cls_ptg 0x2B 0x4B 0x6B k] ++ junk
  | ERefErr3d k ix junk => [cls_ptg 0x3C 0x5C 0x7C k] ++ le 2 ix ++ junk
  | EAreaErr3d k ix junk => [cls_ptg 0x3D 0x5D 0x7D k] ++ le 2 ix ++ junk
  end.
End Encode.

(* UTF-16 code units of a string of Unicode scalar values (surrogate pairs above the BMP) *)
Definition utf16_units (s : list N) : list N :=
  flat_map (fun c => if c <? 65536 then [c]
                     else [55296 + (c - 65536) / 1024; 56320 + (c - 65536) mod 1024]) s.

(* XLUnicodeStringNoCch after a 1-byte cch (MS-XLS 2.5.198.89 PtgStr = ShortXLUnicodeString):
   cch counts characters = UTF-16 code units when fHighByte = 1 *)
Definition enc_str_xls (wide : bool) (s : list N) : list N :=
  if wide then [N.of_nat (length (utf16_units s)); 1] ++ flat_map (le 2) (utf16_units s)
  else [N.of_nat (length s); 0] ++ s.
(* MS-XLSB PtgStr: cch (2 bytes) + UTF-16LE code units *)
Definition enc_str_xlsb (_ : bool) (s : list N) : list N :=
  le 2 (N.of_nat (length (utf16_units s))) ++ flat_map (le 2) (utf16_units s).

Definition encode_xls : expr -> list N := encode 2 enc_str_xls.
Definition encode_xlsb : expr -> list N := encode 4 enc_str_xlsb.
(* CellParsedFormula: cce (2 bytes) + rgce — what the xls decoder is handed *)
Definition frame_xls (rgce : list N) : list N := le 2 (N.of_nat (length rgce)) ++ rgce.

(* CHOOSE(idx, v1, …, vn) as Excel writes it (MS-XLS 2.5.198.27 / MS-XLSB 2.5.97.25): the tokens of
   idx, PtgAttrChoose with cOffset = n and the n + 1 jump offsets [offs], then every value followed by
   a PtgAttrGoto (its word: [snd]), then PtgFuncVar(n + 1 parameters, tab 100 = CHOOSE).  The jump
   words only steer evaluation; the theorems hold for any values. *)
Definition e_choose (k : cls) (idx : expr) (offs : list N) (vals : list (expr * N)) : expr :=
  EFuncVar k 100
    (idx :: match vals with
            | [] => []
            | (v, g) :: t => EAttrPost 0x08 g (EAttrChoose offs v)
                             :: map (fun vg => EAttrPost 0x08 (snd vg) (fst vg)) t
            end).

(* ---------- well-formedness (the domain of the theorems) ---------- *)
Definition wf_cref (rowlim : N) (a : cref) : bool := (cr_row a <? rowlim) && (cr_col a <? 16384).
(* Unicode scalar value: below 0x110000 and not a surrogate *)
Definition scalar (c : N) : bool := (c <? 1114112) && negb ((55296 <=? c) && (c <=? 57343)).
(* PtgAttrSemi 01, PtgAttrIf 02, PtgAttrGoto 08, PtgAttrBaxcel 20 / 21, PtgAttrSpace 40, PtgAttrSpaceSemi 41:
   evaluation hints and white space, no text of their own *)
Definition skip_etpg (e : N) : bool :=
  (e =? 0x01) || (e =? 0x02) || (e =? 0x08) || (e =? 0x20) || (e =? 0x21) || (e =? 0x40) || (e =? 0x41).
(* PtgFuncVar with tab 0x00FF: the first parameter must be a name token *)
Definition user_fn_ok (iftab : N) (args : list expr) : bool :=
  if iftab =? 255 then match args with EName _ _ :: _ => true | _ => false end else true.

Section Wf.
Variable rowlim : N.                            (* 2^16 for xls, 2^32 for xlsb *)
Variable wf_ixti : N -> bool.
Variable nnames : nat.
Variable wf_str : bool -> list N -> bool.
Variable allow_n : bool.                        (* PtgRefN / PtgAreaN: only with a base cell (shared formula) *)
Variable enc_len : expr -> nat.                 (* size of the encoding (the cce of a mem token) *)
Variable rowbytes : nat.                        (* size of a row field: 2 (xls), 4 (xlsb) *)

Fixpoint wf (e : expr) : bool :=
  match e with
  | ERef _ a => wf_cref rowlim a
  | EArea _ a b => wf_cref rowlim a && wf_cref rowlim b
  | ERef3d _ ix a => (ix <? 65536) && wf_ixti ix && wf_cref rowlim a
  | EArea3d _ ix a b => (ix <? 65536) && wf_ixti ix && wf_cref rowlim a && wf_cref rowlim b
  | EName _ idx => (1 <=? idx) && (idx <=? N.of_nat nnames) && (idx <? 4294967296)
  | EInt n => n <? 65536
  | ENum bits => bits <? 18446744073709551616
  | EStr w s => wf_str w s
  | EBool _ => true
  | EErr code => match spec_err code with Some _ => true | None => false end
  | EMissArg => true
  | EUn _ a => wf a
  | EBin op a b => is_binop op && wf a && wf b
  | EParen a => wf a
  | EFunc _ iftab args =>
      match nthN FTAB_ARGC_REF iftab with
      (* tab 0x00FF belongs to PtgFuncVar only *)
      | Some n => (n =? N.of_nat (length args)) && (iftab <? FTAB_LEN_REF) && negb (iftab =? 255) && forallb wf args
      | None => false
      end
  | EFuncVar _ iftab args =>
      (iftab <? FTAB_LEN_REF) && (N.of_nat (length args) <? 128) && user_fn_ok iftab args && forallb wf args
  | ESum a => wf a
  | EAttrSkip etpg w a => skip_etpg etpg && (w <? 65536) && wf a
  | EAttrPost etpg w a => skip_etpg etpg && (w <? 65536) && wf a
  | EAttrChoose offs a =>
      (1 <=? N.of_nat (length offs)) && (N.of_nat (length offs) <=? 65536) &&
      forallb (fun o => o <? 65536) offs && wf a
  | ERefN _ a => allow_n && wf_cref rowlim a
  | EAreaN _ a b => allow_n && wf_cref rowlim a && wf_cref rowlim b
  | EMem _ _ w a => (w <? 4294967296) && (N.of_nat (enc_len a) <? 65536) && wf a
  | ERefErr _ junk => (length junk =? rowbytes + 2)%nat
  | EAreaErr _ junk => (length junk =? 2 * rowbytes + 4)%nat
  | ERefErr3d _ ix junk => (ix <? 65536) && wf_ixti ix && (length junk =? rowbytes + 2)%nat
  | EAreaErr3d _ ix junk => (ix <? 65536) && wf_ixti ix && (length junk =? 2 * rowbytes + 4)%nat
  end.
End Wf.

Definition wf_str_xls (wide : bool) (s : list N) : bool :=
  if wide then (N.of_nat (length (utf16_units s)) <? 256) && forallb scalar s
  else (N.of_nat (length s) <? 256) && forallb (fun c => c <? 256) s.
Definition wf_str_xlsb (_ : bool) (s : list N) : bool :=
  (N.of_nat (length (utf16_units s)) <? 65536) && forallb scalar s.

Definition wf_xls (env : xls_env) : expr -> bool :=
  wf 65536 (fun _ => true) (length (xe_names env)) wf_str_xls
     (match xe_base env with Some _ => true | None => false end) (fun a => length (encode_xls a)) 2.
(* nesting of PtgMemFunc: the xlsb decoder parses its sub-expression by a nested call and refuses more
   than MAX_FORMULA_DEPTH = 64 levels (Excel itself nests at most 64 levels) *)
Fixpoint mdepth (e : expr) : nat :=
  match e with
  | EMem _ MFunc _ a => S (mdepth a)
  | EMem _ _ _ a | EUn _ a | EParen a | ESum a | EAttrSkip _ _ a | EAttrPost _ _ a | EAttrChoose _ a => mdepth a
  | EBin _ a b => Nat.max (mdepth a) (mdepth b)
  | EFunc _ _ args | EFuncVar _ _ args => fold_right (fun a acc => Nat.max (mdepth a) acc) O args
  | _ => O
  end.
Definition wf_xlsb_core (env : xlsb_env) : expr -> bool :=
  wf 4294967296 (fun ix => ix <? N.of_nat (length (be_sheets env))) (length (be_names env)) wf_str_xlsb
     (match be_base env with Some _ => true | None => false end) (fun a => length (encode_xlsb a)) 4.
Definition wf_xlsb (env : xlsb_env) (e : expr) : bool := wf_xlsb_core env e && (mdepth e <=? 64)%nat.

(* Known classes: none left.  K_STR_WIDE (F21) was repaired by commit a3d91ee and K_STR_QUOTE by
   6ef7f34; their witnesses are corpus cases of tools/props/c14.py that must satisfy the spec. *)

(* number of tokens of the encoding = fuel the decoder loop consumes *)
Fixpoint ntok (e : expr) : nat :=
  match e with
  | EUn _ a | EParen a | ESum a | EAttrSkip _ _ a | EAttrPost _ _ a | EAttrChoose _ a | EMem _ _ _ a => S (ntok a)
  | EBin _ a b => S (ntok a + ntok b)
  | EFunc _ _ args | EFuncVar _ _ args => S (fold_right (fun a acc => ntok a + acc)%nat O args)
  | _ => 1
  end.

(* the same for the xlsb decoder's own loop: the tokens behind a PtgMemFunc are consumed by the nested
   call, not by the loop that meets the token *)
Fixpoint ntokb (e : expr) : nat :=
  match e with
  | EMem _ MFunc _ _ => 1
  | EUn _ a | EParen a | ESum a | EAttrSkip _ _ a | EAttrPost _ _ a | EAttrChoose _ a | EMem _ _ _ a => S (ntokb a)
  | EBin _ a b => S (ntokb a + ntokb b)
  | EFunc _ _ args | EFuncVar _ _ args => S (fold_right (fun a acc => ntokb a + acc)%nat O args)
  | _ => 1
  end.
(* fuel the nested calls need on top of what the loop itself still has to consume: the call made at a
   PtgMemFunc runs on the fuel that is left for the rest of the enclosing loop *)
Fixpoint need (e : expr) : nat :=
  match e with
  | EMem _ MFunc _ a => Nat.max (S (ntokb a)) (ntokb a + need a)
  | EUn _ a | EParen a | ESum a | EAttrSkip _ _ a | EAttrPost _ _ a | EAttrChoose _ a | EMem _ _ _ a => need a
  | EBin _ a b => Nat.max (need a) (need b)
  | EFunc _ _ args | EFuncVar _ _ args => fold_right (fun a acc => Nat.max (need a) acc) O args
  | _ => O
  end.
