#!/usr/bin/env python3
"""Generates coq/theories/Properties/C06.v: the totality picture of property C06, one theorem per
parser entry point, re-exported (`exact`) from the slice that owns the model, with the SAME
statement, grouped by file format.  The statements are copied from the Properties/Cxx.v files at
generation time; when a slice changes a statement, rerun this script (the build fails otherwise,
which is the point of pinning the statements).
    tools/gen_c06_v.py          # rewrites coq/theories/Properties/C06.v"""
import os, re, sys
ROOT = os.path.dirname(os.path.dirname(os.path.abspath(__file__)))
PROPS = os.path.join(ROOT, "coq", "theories", "Properties")

# (group, slice, slice theorem, C06 name, Rust function(s), quantified over, residual hypotheses)
META = [
 # ---- compound files, VBA, encrypted-package check (xls; vbaProject.bin of xlsx / xlsb; password check of xlsx / xlsb)
 ("cfb", "C13", "C13_chain_total", "C06_cfb_get_chain_total", "cfb.rs Sectors::get + Sectors::get_chain",
  "all sector caches, start ids, allocation tables (cyclic ones included), readers, lengths", "none (no fuel: the walk counts the table down)"),
 ("cfb", "C13", "C13_no_panic_cfb_new", "C06_cfb_new_total", "cfb.rs Cfb::new (header, DIFAT walk, FAT, directory, mini stream / mini FAT)",
  "all byte strings", "OutOfFuel half needs fuel > len/512 (the DIFAT walk visits each sector read at most once)"),
 ("cfb", "C13", "C13_no_panic_get_stream", "C06_cfb_get_stream_total", "cfb.rs Cfb::find + Cfb::get_stream",
  "all opened containers, paths, readers", "none"),
 ("cfb", "C13", "C13_children_fuel_suffices", "C06_cfb_children_total", "cfb.rs Cfb::children (the stack walk over the sibling ids, under Cfb::find / has_directory)",
  "all directory arrays (cyclic, shared and dangling sibling ids included), all seen sets, all child ids", "none: 2 x entries + 1 pops always suffice (the model's children / find_entry / has_directory are total functions)"),
 ("cfb", "C20", "C20_no_panic_parse_dirs", "C06_cfb_parse_dirs_total", "cfb.rs Directory::from_slice over chunks_exact(128)",
  "all directory chains, both sector sizes", "none"),
 ("cfb", "C18", "C18_no_panic_decompress", "C06_vba_decompress_total", "cfb.rs decompress_stream",
  "all byte strings", "none; also output <= 4096 x chunks and 2 x chunks <= len - 1 (linear output)"),
 ("cfb", "C18", "C18_no_panic_dir", "C06_vba_dir_total", "vba.rs read_dir_information / Reference::from_stream / read_modules / VbaProject::from_cfb, module text offset",
  "all dir streams, all stream sets, all offsets; any code-page decoder", "none"),
 ("cfb", "C20", "C20_no_panic_ooxml_check", "C06_ooxml_password_check_total", "xlsx/xlsb check_for_password_protected (Cfb::new + has_directory)",
  "all byte strings", "OutOfFuel half needs fuel > len/512"),
 ("cfb", "C20", "C20_no_panic_ooxml_check_file", "C06_ooxml_password_check_file_total", "the same at the fuel the check itself uses",
  "all byte strings", "none"),
 # ---- xls
 ("xls", "C12", "C12_no_panic_record_iter", "C06_xls_record_iter_total", "xls.rs RecordIter::next (CONTINUE gathering)",
  "all byte strings", "none"),
 ("xls", "C20", "C20_no_panic_record_iter", "C06_xls_record_iter_progress", "xls.rs RecordIter::next: every record consumes at least its 4 header bytes",
  "all byte strings", "none"),
 ("xls", "C20", "C20_no_panic_xls_globals_real", "C06_xls_globals_total", "xls.rs parse_workbook, globals loop (FilePass, CodePage, Date1904, Format, XF, BoundSheet8, BOF, EOF) as far as C20 interprets records",
  "all byte strings", "records C20 does not interpret are skipped in its model (Lbl / ExternSheet / SST arms are C14 / C12 theorems)"),
 ("xls", "C20", "C20_no_panic_xls_globals", "C06_xls_globals_generic_total", "the globals loop for ANY total record interpreter",
  "all byte strings, all interpreters", "the interpreter itself never panics (hypothesis)"),
 ("xls", "C12", "C12_no_panic_sheet_metadata", "C06_xls_parse_sheet_metadata_total", "xls.rs parse_sheet_metadata (BoundSheet8)", "all record bodies", "none"),
 ("xls", "C12", "C12_no_panic_short_string", "C06_xls_parse_short_string_total", "xls.rs parse_short_string", "all byte strings", "none"),
 ("xls", "C12", "C12_no_panic_parse_string", "C06_xls_parse_string_total", "xls.rs parse_string", "all byte strings", "none"),
 ("xls", "C12", "C12_no_panic_parse_sst", "C06_xls_parse_sst_total", "xls.rs parse_sst / read_rich_extended_string / read_dbcs / Record::skip",
  "all SST bodies with all CONTINUE lists", "none; also 3 x reserved capacity <= bytes available"),
 ("xls", "C12", "C12_no_panic_wb_strings", "C06_xls_workbook_strings_total", "RecordIter + parse_sst over a whole Workbook stream", "all byte strings", "none"),
 ("xls", "C12", "C12_no_panic_parse_label", "C06_xls_parse_label_total", "xls.rs parse_label", "all record bodies", "none"),
 ("xls", "C12", "C12_no_panic_parse_label_sst", "C06_xls_parse_label_sst_total", "xls.rs parse_label_sst", "all record bodies, all string tables", "none"),
 ("xls", "C02", "C02_no_panic_records", "C06_xls_all_records_total", "RecordIter collected over a stream", "all byte strings", "none"),
 ("xls", "C02", "C02_no_panic_cell_record", "C06_xls_cell_record_total", "xls.rs parse_number / parse_rk / parse_mul_rk / parse_bool_err / parse_label_sst / parse_label / Formula arm",
  "all record types and bodies; any x/100 and 16-bit decoder", "none"),
 ("xls", "C02", "C02_no_panic_formula_value", "C06_xls_formula_value_total", "xls.rs parse_formula_value", "all 8-byte values", "length 8 (the caller slices r.data[6..14] after its length check)"),
 ("xls", "C02", "C02_no_panic_dimensions", "C06_xls_parse_dimensions_total", "xls.rs parse_dimensions", "all record bodies", "none"),
 ("xls", "C02", "C02_no_panic_sheet_cells", "C06_xls_sheet_cells_total", "xls.rs parse_workbook, sheet loop (cells of one substream)", "all byte strings", "none"),
 ("xls", "C02", "C02_no_panic_sheet", "C06_xls_sheet_total", "the sheet loop followed by Range::from_sparse", "all byte strings", "none (allocation of the dense range: known finding lib.rs::from_sparse::alloc)"),
 ("xls", "C02", "C02_no_panic_sheet_at", "C06_xls_sheet_at_total", "the same from a BoundSheet8 position into the Workbook stream", "all byte strings, all positions", "none"),
 ("xls", "C17", "C17_no_panic_parse_merge_cells", "C06_xls_parse_merge_cells_total", "xls.rs parse_merge_cells, merge cells of all sheets", "all record bodies, all substream lists", "none"),
 ("xls", "C14", "C14_no_panic_parse_formula_xls", "C06_xls_parse_formula_total", "xls.rs parse_formula (cell formulas)", "all rgce byte strings, all name / sheet environments", "Panic half only (C14 has no OutOfFuel half yet)"),
 ("xls", "C14", "C14_no_panic_xls_read_names", "C06_xls_defined_names_total", "xls.rs Lbl arm + parse_defined_names + ExternSheet", "all record lists", "Panic half only"),
 # ---- xlsb
 ("xlsb", "C03", "C03_no_panic_framing", "C06_xlsb_framing_total", "xlsb RecordIter::read_type / fill_buffer / next_skip_blocks", "all byte strings, all buffers",
  "the skipping loops need fuel > remaining bytes (each record consumes at least 2)"),
 ("xlsb", "C03", "C03_no_panic_header", "C06_xlsb_sheet_header_total", "XlsbCellsReader::new (BrtWsDim optional, BrtBeginSheetData)", "all byte strings", "fuel > remaining bytes"),
 ("xlsb", "C03", "C03_no_panic_cell_loop", "C06_xlsb_cell_loop_total", "XlsbCellsReader::next_cell loop", "all byte strings", "fuel > remaining bytes"),
 ("xlsb", "C03", "C03_no_panic_reader", "C06_xlsb_cells_reader_total", "worksheet_cells_reader + next_cell until the end", "all byte strings", "none"),
 ("xlsb", "C03", "C03_no_panic_range_ref", "C06_xlsb_worksheet_range_total", "Xlsb::worksheet_range_ref / worksheet_range (header row option, from_sparse)", "all sheet parts, all header-row options", "none"),
 ("xlsb", "C03", "C03_no_panic_sst", "C06_xlsb_shared_strings_total", "Xlsb::read_shared_strings", "all parts (present or not)", "none"),
 ("xlsb", "C03", "C03_no_panic_workbook", "C06_xlsb_workbook_range_total", "shared strings + styles environment + worksheet_range_ref", "all parts", "formats / date system given as values (styles.bin: C06_xlsb_read_styles_total)"),
 ("xlsb", "C10", "C10_no_panic_xlsb_read_styles", "C06_xlsb_read_styles_total", "Xlsb::read_styles (xl/styles.bin: BrtFmt / BrtXF collections, every other record skipped whole)", "all parts (present or not)", "none"),
 ("xlsb", "C19", "C19_no_panic_wide_str", "C06_xlsb_wide_str_total", "xlsb wide_str", "all buffers", "Panic half only (no loop)"),
 ("xlsb", "C14", "C14_no_panic_parse_formula_xlsb", "C06_xlsb_parse_formula_total", "xlsb parse_formula (PtgMemFunc nesting bounded)", "all rgce byte strings", "Panic half only"),
 ("xlsb", "C14", "C14_no_panic_xlsb_read_names", "C06_xlsb_defined_names_total", "xlsb read_workbook: BrtExternSheet / BrtName arms", "all record lists", "Panic half only"),
 # ---- xlsx
 ("xlsx", "C16", "C16_no_panic_xlsx_open", "C06_xlsx_open_total", "Xlsx::read_relationships + read_workbook", "all XML event lists of both parts", "events as quick-xml delivers them (the tokenizer is not modelled)"),
 ("xlsx", "C14", "C14_no_panic_a1", "C06_xlsx_cell_ref_total", "xlsx get_row_and_optional_column / get_row_column / get_row / get_dimension",
  "all byte strings", "none (the same functions are also stated by C01, C15 and C17 on the same Col26 model)"),
 ("xlsx", "C19", "C19_no_panic_read_string", "C06_xlsx_read_string_total", "xlsx read_string (si / is, rich text, phonetic runs)", "all event lists, all closing names", "events"),
 ("xlsx", "C19", "C19_no_panic_read_shared_strings", "C06_xlsx_shared_strings_total", "Xlsx::read_shared_strings", "all event lists", "events"),
 ("xlsx", "C19", "C19_no_panic_read_cell", "C06_xlsx_read_cell_total", "xlsx cells_reader read_value / read_v (shared string index checked)", "all string tables, attributes, event lists", "events"),
 ("xlsx", "C19", "C19_no_panic_read_sheet_cells", "C06_xlsx_sheet_cells_total", "XlsxCellReader::next_cell over sheetData", "all event lists", "events"),
 ("xlsx", "C19", "C19_no_panic_read_sheet_formulas", "C06_xlsx_sheet_formula_text_total", "XlsxCellReader::next_formula: formula text of every cell", "all event lists", "events"),
 ("xlsx", "C01", "C01_no_panic_worksheet_range", "C06_xlsx_worksheet_range_total", "Xlsx::worksheet_range_ref / worksheet_range (positions, counters, header row, from_sparse)",
  "all event lists, all header-row options, any float parser", "events"),
 ("xlsx", "C15", "C15_no_panic_replace_cell_names", "C06_xlsx_replace_cell_names_total", "xlsx replace_cell_names / offset_cell_name", "all strings", "off_small off: the offset is a difference of two u32 positions (always true in the caller)"),
 ("xlsx", "C15", "C15_no_panic_next_formula", "C06_xlsx_shared_formulas_total", "XlsxCellReader::next_formula shared-formula bookkeeping + worksheet_formula", "all cell lists", "cell positions are u32 (what get_row_column returns)"),
 ("xlsx", "C17", "C17_no_panic_read_merge_cells", "C06_xlsx_merge_cells_total", "xlsx read_merge_cells / worksheet_merge_cells / load_merged_regions", "all event lists, all archives", "events"),
 ("xlsx", "C17", "C17_no_panic_table_metadata", "C06_xlsx_table_metadata_total", "Xlsx::read_table_metadata (rels scan, table part scan, header / totals arithmetic, unescape)",
  "all event lists, all archives", "sheet paths contain a '/' (read_workbook only builds such paths)"),
 # ---- ods
 ("ods", "C20", "C20_no_panic_ods_new", "C06_ods_new_total", "Ods::new: mimetype + manifest (password check)", "all mimetype parts, all manifest event lists", "events"),
 ("ods", "C20", "C20_no_panic_manifest_scan", "C06_ods_manifest_scan_total", "ods check_for_password_protected", "all event lists", "events"),
 ("ods", "C16", "C16_no_panic_ods_parse_content", "C06_ods_parse_content_total", "ods parse_content (styles, tables, names; Eof inside a table is an error)", "all event lists", "events"),
 ("ods", "C19", "C19_no_panic_ods_cell", "C06_ods_cell_total", "ods get_datatype (cell text, annotations, text:s)", "all event lists", "events (expansion of text:c: known finding ods.rs::get_datatype::alloc)"),
 ("ods", "C04", "C04_no_panic_read_table", "C06_ods_read_table_total", "ods read_table / read_row / get_range", "all row lists",
  "phys_ok: repeat counts and row widths fit the machine integers (the u32 row limit of read_table); Panic half only"),
 # ---- shared: Range, serial numbers
 ("range", "C05", "C05_no_panic_from_sparse", "C06_range_from_sparse_total", "lib.rs Range::from_sparse", "all cell lists (any order)", "none"),
 ("range", "C05", "C05_from_sparse_total", "C06_range_from_sparse_alloc", "the same with what it allocates: the bounding box of the cells",
  "all cell lists", "none — the box is NOT bounded by the input: known finding lib.rs::from_sparse::alloc"),
 ("range", "C05", "C05_no_panic_new", "C06_range_new_total", "lib.rs Range::new", "all corners", "start <= end componentwise; the cell count fits usize (documented panic / allocation otherwise)"),
 ("range", "C05", "C05_no_panic_window", "C06_range_window_total", "lib.rs Range::range", "all well-formed ranges and corners", "as Range::new"),
 ("range", "C05", "C05_no_panic_set_value", "C06_range_set_value_total", "lib.rs Range::set_value", "all well-formed ranges", "the documented precondition (position not above / left of the start)"),
 ("range", "C11", "C11_no_panic", "C06_serial_total", "datatype.rs ExcelDateTime::as_datetime / as_duration, Data::as_*", "all doubles (NaN, infinities), all cells", "none (Flocq's four classical axioms)"),
]

NOT_COVERED = """   NO totality theorem (this is the "partial" of C06; these are covered by the fault enumeration of
   tools/props/c06.py only):
     * the zip container (crate zip: central directory, inflate) and the XML tokenizer (crate
       quick-xml): every xlsx / xlsb-rels / ods theorem below starts from event lists;
     * encoding_rs / codepage decoding (a parameter of the models);
     * xls  Xls::parse_workbook as ONE function: the globals loop, the sheet loop, the string, name
       and formula arms have their own theorems, their composition (arm dispatch order, `formats`
       table lookup, VBA branch of Xls::new) has not;
     * xlsb Xlsb::read_workbook as a whole (BrtBundleSh / relationship lookup): sampled only;
       xlsb next_formula record offsets (formula_rgce): sampled only;
    * xlsx read_styles, pictures, xlsx / xlsb / ods `picture` feature, xls parse_pictures;
     * Sheets (auto.rs) dispatch and open_workbook_auto_from_rs: composition of the four readers;
     * de.rs (deserializer) on hostile ranges: not an entry point for file bytes;
     * real time and memory: the theorems bound iterations (fuel) and the sizes the models request;
       the watchdog / capped allocator / 2 MiB stack of the check sample the rest."""

GROUP_TITLES = {
 "cfb": "compound files (xls container, vbaProject.bin, encrypted-package check), VBA",
 "xls": "xls (BIFF record streams)",
 "xlsb": "xlsb",
 "xlsx": "xlsx",
 "ods": "ods",
 "range": "shared: Range, serial numbers",
}

def slice_info(name):
    s = open(os.path.join(PROPS, name + ".v")).read()
    imports = re.findall(r"^From Calamine Require Import\s+([^.]*)\.", s, re.M)
    mods = " ".join(imports).split()
    scopes = re.findall(r"^(Open Scope [A-Za-z_]+\.)", s, re.M)
    return s, mods, scopes

def statement(src, thm):
    m = re.search(r"^Theorem %s\b(.*?)\nProof\." % re.escape(thm), src, re.M | re.S)
    assert m, thm
    return m.group(1).strip()

def main():
    slices = {}
    for (_, sl, *_r) in META:
        if sl not in slices:
            slices[sl] = slice_info(sl)
    allmods = []
    for sl in slices:
        for m in slices[sl][1]:
            if m not in allmods:
                allmods.append(m)
    out = []
    out.append("(* GENERATED by tools/gen_c06_v.py from the Properties/Cxx.v files — edit the table there.")
    out.append("")
    out.append("   Property C06 — malformed or hostile files yield an error, never a panic, hang or memory")
    out.append("   blow-up.  PARTIAL BY NATURE.  This file states the whole picture: one theorem per parser entry")
    out.append("   point, re-exported with `exact` from the slice that owns the (hardened) model, with the SAME")
    out.append("   statement, grouped by file format; plus C06's own allocation bound of the sector-chain walk")
    out.append("   (Totality.v).  `<> Panic` = no index / slice / unwrap / assert / overflow site is reachable;")
    out.append("   `<> OutOfFuel` = the stated fuel (a linear function of the input length) suffices: the loop")
    out.append("   terminates.  \"events\" = the statement quantifies over all lists of XML events, i.e. it starts")
    out.append("   behind quick-xml.")
    out.append("")
    out.append("   Rust function -> theorem (source) -> quantified over -> residual hypotheses")
    for g in GROUP_TITLES:
        out.append("")
        out.append("   -- %s" % GROUP_TITLES[g])
        for (grp, sl, thm, new, fn, quant, resid) in META:
            if grp == g:
                out.append("   %s" % fn)
                out.append("       -> %s (%s)  |  %s  |  %s" % (new, thm, quant, resid))
    out.append("   cfb.rs Sectors::get_chain, allocation")
    out.append("       -> C06_cfb_get_chain_alloc_bound (Totality_proofs)  |  all caches, tables, readers, lengths  |  none")
    out.append("   formats.rs detect_custom_number_format (C10): a total Gallina function without outcome type —")
    out.append("       no panic site exists in the model (the u8 bracket counter was repaired in c2d9cd7); nothing to state.")
    out.append("")
    out.append(NOT_COVERED)
    out.append("*)")
    out.append("From Calamine Require " + " ".join(allmods) + " Totality Totality_proofs.")
    out.append("From Calamine Require " + " ".join("Properties." + sl for sl in slices) + ".")
    out.append("")
    out.append("(* " + "=" * 94 + " *)")
    out.append("(* C06's own (first, so that the only Print Assumptions with axioms — the serial numbers, last —\n   is not followed by other output): what the chain walk allocates (on Cfb.v's model of the hardened Sectors::get_chain) *)")
    out.append("(* " + "=" * 94 + " *)")
    out.append("Module Cfb_alloc.")
    out.append("Import Calamine.Prelude Calamine.Utf16 Calamine.Cfb Calamine.Cfb_proofs Calamine.Totality Calamine.Totality_proofs.")
    out.append("Local Open Scope N_scope.")
    out.append("")
    out.append("""(* the stream handed back and the capacity reserved before the first sector is read never exceed
   what the allocation table can address, nor the length asked for — whatever a directory entry
   (a 64-bit field) or the header declares *)
Theorem C06_cfb_get_chain_alloc_bound :
  forall (s : sectors) (id : N) (fats r : list N) (len : N) (c : list N) (s' : sectors) (r' : list N),
    get_chain s id fats r len = Ok (c, s', r') ->
    lenN c <= N.of_nat (length fats) * ssize s /\\
    (0 < len -> lenN c <= len) /\\
    chain_capacity s fats len <= N.of_nat (length fats) * ssize s.
Proof. exact get_chain_alloc_bound. Qed.

Theorem C06_cfb_chain_capacity_bound :
  forall (s : sectors) (fats : list N) (len : N),
    chain_capacity s fats len <= N.of_nat (length fats) * ssize s /\\ chain_capacity s fats len <= len.
Proof. exact chain_capacity_bound. Qed.

(* non-vacuity: a one-sector table, a proper chain of one sector, a declared length of 2^40 *)
Example C06_cfb_get_chain_alloc_nonvacuous :
  exists c s' r',
    get_chain {| sdata := []; ssize := 4 |} 0 [ENDOFCHAIN] [1; 2; 3; 4; 5] 1099511627776 = Ok (c, s', r') /\\
    lenN c = 4 /\\ chain_capacity {| sdata := []; ssize := 4 |} [ENDOFCHAIN] 1099511627776 = 4.
Proof. eexists _, _, _. vm_compute. repeat split; reflexivity. Qed.

Check C06_cfb_get_chain_alloc_bound :
  forall (s : sectors) (id : N) (fats r : list N) (len : N) (c : list N) (s' : sectors) (r' : list N),
    get_chain s id fats r len = Ok (c, s', r') ->
    lenN c <= N.of_nat (length fats) * ssize s /\\
    (0 < len -> lenN c <= len) /\\
    chain_capacity s fats len <= N.of_nat (length fats) * ssize s.
Print Assumptions C06_cfb_get_chain_alloc_bound.
Print Assumptions C06_cfb_chain_capacity_bound.
Print Assumptions C06_cfb_get_chain_alloc_nonvacuous.
End Cfb_alloc.""")
    names = []
    for g in GROUP_TITLES:
        out.append("(* " + "=" * 94 + " *)")
        out.append("(* %s *)" % GROUP_TITLES[g])
        out.append("(* " + "=" * 94 + " *)")
        for sl in slices:
            items = [m for m in META if m[0] == g and m[1] == sl]
            if not items:
                continue
            src, mods, scopes = slices[sl]
            mod = "%s_from_%s" % (g.capitalize(), sl)
            out.append("Module %s." % mod)
            out.append("Import " + " ".join("Calamine." + m for m in mods) + ".")
            out.append("Import Calamine.Properties.%s." % sl)
            for sc in scopes:
                out.append("Local " + sc)
            out.append("")
            for (_, _, thm, new, fn, quant, resid) in items:
                st = statement(src, thm)
                out.append("(* %s *)" % fn)
                out.append("Theorem %s %s\nProof. exact %s. Qed." % (new, st, thm))
                out.append("Check %s %s" % (new, st))
                out.append("Print Assumptions %s." % new)
                out.append("")
                names.append(new)
            out.append("End %s." % mod)
            out.append("")
    txt = "\n".join(out) + "\n"
    open(os.path.join(PROPS, "C06.v"), "w").write(txt)
    print("wrote C06.v: %d re-exported theorems from %d slices" % (len(names), len(slices)))

if __name__ == "__main__":
    main()
