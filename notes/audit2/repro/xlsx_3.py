# P3: table column name holding a line break: Excel writes name="a_x000a_b" (ST_Xstring) in tableN.xml
from xlsx_base import *
sst = DECL + '<sst xmlns="%s" count="2" uniqueCount="2"><si><t xml:space="preserve">a\nb</t></si><si><t>value</t></si></sst>' % NS
sh = sheet('<row r="1"><c r="A1" t="s"><v>0</v></c><c r="B1" t="s"><v>1</v></c></row><row r="2"><c r="A2"><v>1</v></c><c r="B2"><v>2</v></c></row>',
           post='<tableParts count="1"><tablePart r:id="rId1"/></tableParts>')
tbl = DECL + '<table xmlns="%s" id="1" name="T1" displayName="T1" ref="A1:B2" totalsRowShown="0"><autoFilter ref="A1:B2"/><tableColumns count="2"><tableColumn id="1" name="a_x000a_b"/><tableColumn id="2" name="value"/></tableColumns></table>' % NS
srel = DECL + '<Relationships xmlns="%s"><Relationship Id="rId1" Type="%s/table" Target="../tables/table1.xml"/></Relationships>' % (PR, RNS)
p = build('xlsx_3_tablecol_xstring.xlsx', sh, sst=sst, more=[('xl/worksheets/_rels/sheet1.xml.rels', srel), ('xl/tables/table1.xml', tbl)])
run(p, ['tables', 'table ' + hx('T1'), 'range ' + hx('Sheet1')])
