#!/usr/bin/env python3
"""xls_7: an ExternSheet record with more than 1370 XTI entries goes on in CONTINUE records
([MS-XLS] 2.4.105 ExternSheet: "rgXTI ... If the record is continued, the Continue records hold the
remaining XTI"; 8224-byte record limit => 1370 per record).  The ExternSheet arm of xls.rs reads
r.data only, never r.cont; Meta.xls_legal has `len (lc_xtis c) <? 1370`.
Needs > 1370 distinct (supbook, first, last) triples: a workbook with many sheets and 3-D ranges, or
many external links.  Rare; producer: Excel.  Expected C14 text for ixti 1375: Sheet3!$A$1."""
import struct
from xls_helper import *
n = 1400
xt = [(0, 0, 0)] * n
xt[1375] = (0, 2, 2)
body = struct.pack('<H', n) + b''.join(struct.pack('<Hhh', *x) for x in xt)
first, rest = body[:2 + 1370 * 6], body[2 + 1370 * 6:]
ext = [(0x01AE, struct.pack('<HH', 3, 0x0401)), (0x0017, first), (0x003C, rest)]
rg = lambda ixti: struct.pack('<BHHH', 0x3A, ixti, 0, 0)
def fcell(r, c, rgce): return (0x0006, struct.pack('<HHHd', r, c, 0, 0.0) + struct.pack('<HI', 0, 0) + struct.pack('<H', len(rgce)) + rgce)
sh1 = sheet([fcell(0, 0, rg(5)), fcell(0, 1, rg(1375))])
sh = sheet([number(0, 0, 1.0)])
glob = [(0x0042, struct.pack('<H', 1200)), xf(0)]
p = write(OUT + 'xls_7_externsheet_cont.xls', workbook(glob, [('Sheet1', 0, 0, sh1), ('Sheet2', 0, 0, sh), ('Sheet3', 0, 0, sh)], ext))
print(unhex(vh('xls', p, ['sheets', 'formula ' + hx('Sheet1')])))
