// Generates the command dispatch table from the files present in src/cmds/.
use std::{env, fs, path::Path};
fn main() {
    let dir = Path::new(&env::var("CARGO_MANIFEST_DIR").unwrap()).join("src/cmds");
    let mut names: Vec<String> = fs::read_dir(&dir)
        .unwrap()
        .filter_map(|e| {
            let p = e.unwrap().path();
            if p.extension().map_or(false, |x| x == "rs") {
                Some(p.file_stem().unwrap().to_string_lossy().into_owned())
            } else {
                None
            }
        })
        .collect();
    names.sort();
    let mut out = String::new();
    for n in &names {
        out.push_str(&format!(
            "#[path = \"{}/{}.rs\"] pub mod {};\n",
            dir.display(),
            n,
            n
        ));
    }
    out.push_str("pub fn dispatch(cmd: &str, args: &[&str]) -> Option<String> {\n    match cmd {\n");
    for n in &names {
        out.push_str(&format!("        \"{}\" => Some({}::run(args)),\n", n, n));
    }
    out.push_str("        _ => None,\n    }\n}\n");
    let dest = Path::new(&env::var("OUT_DIR").unwrap()).join("cmds.rs");
    fs::write(dest, out).unwrap();
    println!("cargo:rerun-if-changed=src/cmds");
    println!("cargo:rustc-check-cfg=cfg(calamine_verif)");
}
