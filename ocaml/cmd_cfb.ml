(* C13: the extracted compound-file model (coq/theories/Cfb.v).
   cfb_write <ss> <storages> <streams> <layout> [<parents> [<links>]]
        -> <hex of the file>|<valid 0/1>|-|<fuel>|<legal tree 0/1>|<names unique 0/1>|<linked tree 0/1>|<flat root 0/1>
                                                                              (encoder E; model only)
      (third field: the known class of the container; none is left since the fix of G8)
      parents : '-' or ','-separated decimals, one per storage then per stream (0 = root storage,
                j = the j-th storage)
      links   : '-' or '/'-separated  left,right,child  triples: root entry, storages, streams
      storages: '-' or ';'-separated names (hex of UTF-8)
      streams : '-' or ';'-separated <name hex>:<content hex>
      layout  : nsect|fat ids|difat ids|dir ids|minifat ids|root ids|nmini|chains|slots|pad|size_hi|empty_start
                id lists are ','-separated decimals ('' = empty), chains are '/'-separated id lists
   cfb <hex of a file> <fuel> <ops>
        -> new=<ok | err:<class> | panic | fuel>[;<answer per op>…]          (model M; both sides)
      ops: ';'-separated; a <path> is '/'-separated <name hex> ('-' = the empty name)
           h:<name hex> (has_directory: an entry of the root storage) | g:<path> (get_stream)
           | p:<path> (find(path).is_some()) | c:<id> (children of entry id) | n (names)
           | w (model only: the stream Xls::parse_workbook reads, the root's "Workbook" or else "Book")
           | s:<path> (model only, specification side: needs the container, see cfb_spec)
      answers: 0/1 | ok:<hex> / err:<class> / panic / fuel | 0/1 | c:<id>,… | n:<name hex>,…
      (processing stops at a panic and at an error other than notfound)
   cfb_spec <ss> <storages> <streams> <parents> <paths>
        -> per ';'-separated path: ok:<hex> (the stream at that path) | storage | none      (spec S) *)
open Conv
open Prelude
open Cfb

let byte_tab = Array.init 256 n_of_int
let bytes_of_hex_shared (s : string) : BinNums.coq_N list =
  let n = String.length s / 2 in
  let rec go i acc =
    if i < 0 then acc
    else go (i - 1) (byte_tab.(hexval s.[2*i] * 16 + hexval s.[2*i+1]) :: acc) in
  go (n - 1) []
let hex_of_bytes_fast (l : BinNums.coq_N list) : string =
  let b = Buffer.create 4096 in
  let hexd = "0123456789abcdef" in
  List.iter (fun x -> let v = int_of_n x land 255 in
              Buffer.add_char b hexd.[v lsr 4]; Buffer.add_char b hexd.[v land 15]) l;
  Buffer.contents b

let ids (s : string) : BinNums.coq_N list =
  if s = "" || s = "-" then [] else List.map n_of_string (String.split_on_char ',' s)
let name_of (h : string) = scalars_of_hex (if h = "-" then "" else h)

let err_class (e : BinNums.coq_N) : string =
  match int_of_n e with
  | 1 -> "io" | 2 -> "ole" | 3 -> "emptyroot" | 4 -> "notfound" | 5 -> "invalid" | _ -> "other"

let parse_container ss storages streams parents : container =
  { c_ss = n_of_string ss;
    c_storages = (if storages = "-" || storages = "" then [] else List.map name_of (String.split_on_char ';' storages));
    c_streams = (if streams = "-" || streams = "" then [] else
                   List.map (fun e -> match String.split_on_char ':' e with
                       | [n; c] -> (name_of n, bytes_of_hex_shared (if c = "-" then "" else c))
                       | [n] -> (name_of n, [])
                       | _ -> failwith "bad stream") (String.split_on_char ';' streams));
    c_parents = ids parents }

let parse_links (s : string) =
  if s = "" || s = "-" then [] else
    List.map (fun t -> match String.split_on_char ',' t with
        | [a; b; c] -> ((n_of_string a, n_of_string b), n_of_string c)
        | _ -> failwith "bad links") (String.split_on_char '/' s)

let parse_layout (s : string) (links : string) : layout =
  match String.split_on_char '|' s with
  | [nsect; fat; difat; dir; minifat; root; nmini; chains; slots; pad; hi; es] ->
    { l_nsect = n_of_string nsect; l_fat_ids = ids fat; l_difat_ids = ids difat; l_dir_ids = ids dir;
      l_minifat_ids = ids minifat; l_root_ids = ids root; l_nmini = n_of_string nmini;
      l_chains = (if chains = "-" then [] else List.map ids (String.split_on_char '/' chains));
      l_slots = ids slots; l_pad = n_of_string pad; l_size_hi = n_of_string hi;
      l_empty_start = n_of_string es; l_links = parse_links links }
  | _ -> failwith "bad layout"

let run_write (args : string list) : string =
  match args with
  | ss :: storages :: streams :: lay :: rest ->
    let parents, links = match rest with
      | [] -> "-", "-" | [p] -> p, "-" | p :: k :: _ -> p, k in
    let c = parse_container ss storages streams parents in
    let l = parse_layout lay links in
    let file = cfb_write c l in
    let valid = valid_layoutb c l in
    let b x = if x then 1 else 0 in
    Printf.sprintf "%s|%d|-|%d|%d|%d|%d|%d" (hex_of_bytes_fast file) (b valid)
      (int_of_nat (fuel_for l)) (b (legal_treeb c l)) (b (names_uniqueb c)) (b (linked_treeb c l)) (b (flat_rootb c l))
  | _ -> failwith "bad args"

let path_of (s : string) : BinNums.coq_N list list =
  if s = "" then [] else List.map name_of (String.split_on_char '/' s)

let run_spec (args : string list) : string =
  match args with
  | ss :: storages :: streams :: parents :: paths :: _ ->
    let c = parse_container ss storages streams parents in
    let ns = List.length c.c_storages in
    String.concat ";" (List.map (fun p ->
        let path = path_of p in
        match spec_path c path with
        | Some b -> "ok:" ^ hex_of_bytes_fast b
        | None ->
          (match resolve c (n_of_int 0) path with
           | Some o when int_of_n o >= 1 && int_of_n o <= ns -> "storage"
           | Some o when int_of_n o = 0 -> "root"
           | _ -> "none"))
        (if paths = "-" || paths = "" then [] else String.split_on_char ';' paths))
  | _ -> failwith "bad args"

let run_read (args : string list) : string =
  match args with
  | file :: fuel :: rest ->
    let ops = match rest with o :: _ when o <> "" && o <> "-" -> String.split_on_char ';' o | _ -> [] in
    let data = bytes_of_hex_shared file in
    (match cfb_new (nat_of_int (int_of_string fuel)) data with
     | Err e -> "new=err:" ^ err_class e
     | Panic -> "new=panic"
     | OutOfFuel -> "new=fuel"
     | Ok (c0, r0) ->
       let c = ref c0 and r = ref r0 in
       let stopped = ref false in
       let out = List.filter_map (fun op ->
           if !stopped then None else Some (
           if op = "n" then
             "n:" ^ String.concat "," (List.map (fun d -> hex_of_scalars (d_name d)) (directories !c))
           else if op = "w" then
             (match workbook_or_book !c !r with
              | Ok b -> "ok:" ^ hex_of_bytes_fast b
              | Err e -> "err:" ^ err_class e
              | Panic -> "panic"
              | OutOfFuel -> "fuel")
           else
             let arg = String.sub op 2 (String.length op - 2) in
             match op.[0] with
             | 'h' -> if has_directory !c (name_of arg) then "1" else "0"
             | 'p' -> (match find_entry (directories !c) (path_of arg) with Some _ -> "1" | None -> "0")
             | 'c' -> "c:" ^ String.concat "," (List.map (fun i -> string_of_int (int_of_n i))
                                                   (children (directories !c) (n_of_string arg)))
             | 'g' ->
               (match get_stream !c (path_of arg) !r with
                | Ok ((b, c1), r1) -> c := c1; r := r1; "ok:" ^ hex_of_bytes_fast b
                | Err e ->
                  (* an I/O error may leave the sector cache grown in the real code: stop *)
                  if err_class e <> "notfound" then stopped := true; "err:" ^ err_class e
                | Panic -> stopped := true; "panic"
                | OutOfFuel -> stopped := true; "fuel")
             | _ -> failwith "bad op")) ops in
       String.concat ";" ("new=ok" :: out))
  | _ -> failwith "bad args"

let () = Registry.register "cfb_write" run_write
let () = Registry.register "cfb" run_read
let () = Registry.register "cfb_spec" run_spec
let init () = ()
