# P2: <c> with an <extLst> child (CT_Cell: f?, v?, is?, extLst?)
from xlsx_base import *
p = build('xlsx_2_cell_extlst.xlsx', sheet('<row r="1"><c r="A1"><v>1</v><extLst><ext uri="{X}"/></extLst></c></row>'))
run(p)
