// C14: the two private formula decoders through their verif hooks.
//   xls  SHEETS NAMES XTIS HEX     (HEX = CellParsedFormula: cce + rgce)
//   xls@R:C SHEETS NAMES XTIS HEX  the same for a cell (R, C) using a shared formula (base of PtgRefN / PtgAreaN)
//   xlsb SHEETS NAMES HEX          (HEX = rgce)
//   xlsb@R:C SHEETS NAMES HEX      the same for a cell (R, C) using a shared formula
// SHEETS / NAMES: comma-separated hex of UTF-8 names ("-" = empty list, "." = empty name);
// XTIS: sup:first:last,… (raw u16; first/last are reinterpreted as i16), "-" = none.
use crate::util::{hexstr, unhex};
use calamine::verif_hooks::{xls, xlsb};

fn names(s: &str) -> Vec<String> {
    if s == "-" {
        return vec![];
    }
    s.split(',')
        .map(|h| {
            if h == "." {
                String::new()
            } else {
                String::from_utf8(unhex(h)).unwrap()
            }
        })
        .collect()
}

fn out(r: Result<String, String>) -> String {
    match r {
        Ok(s) => format!("ok:{}", hexstr(&s)),
        Err(_) => "err".to_string(),
    }
}

pub fn run(args: &[&str]) -> String {
    match args {
        [fmt, sh, nm, xt, h] if *fmt == "xls" || fmt.starts_with("xls@") => {
            // "xls@R:C": the cell (R, C) using a shared formula is the base of PtgRefN / PtgAreaN
            let base = fmt.strip_prefix("xls@").map(|b| {
                let p: Vec<u32> = b.split(':').map(|x| x.parse().unwrap()).collect();
                (p[0], p[1])
            });
            let sheets = names(sh);
            let nms: Vec<(String, String)> = names(nm).into_iter().map(|n| (n, String::new())).collect();
            let xtis: Vec<(u16, i16, i16)> = if *xt == "-" {
                vec![]
            } else {
                xt.split(',')
                    .map(|t| {
                        let p: Vec<u16> = t.split(':').map(|x| x.parse().unwrap()).collect();
                        (p[0], p[1] as i16, p[2] as i16)
                    })
                    .collect()
            };
            out(xls::parse_formula_at(&unhex(h), &sheets, &nms, &xtis, base))
        }
        [fmt, sh, nm, h] if *fmt == "xlsb" || fmt.starts_with("xlsb@") => {
            let base = fmt.strip_prefix("xlsb@").map(|b| {
                let p: Vec<u32> = b.split(':').map(|x| x.parse().unwrap()).collect();
                (p[0], p[1])
            });
            let sheets = names(sh);
            let nms: Vec<(String, String)> = names(nm).into_iter().map(|n| (n, String::new())).collect();
            out(xlsb::parse_formula_at(&unhex(h), &sheets, &nms, base))
        }
        _ => "bad-args".to_string(),
    }
}
