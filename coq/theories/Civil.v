(* Civil: the proleptic Gregorian calendar over Z (specification side of C11).
   Day numbers count from 1970-01-01 = 0; years are astronomical (year 0 = 1 BCE), unbounded.
   The two conversions are the classical era decomposition (400-year eras of 146097 days, years
   starting on 1 March so that the leap day is the last day of the year).
   Definitions only; proofs are in Civil_proofs.v. *)
From Calamine Require Import Prelude.
Open Scope Z_scope.
Set Implicit Arguments.

Definition is_leap (y : Z) : bool :=
  ((y mod 4 =? 0) && negb (y mod 100 =? 0)) || (y mod 400 =? 0).

Definition days_in_month (y m : Z) : Z :=
  if m =? 2 then (if is_leap y then 29 else 28)
  else if (m =? 4) || (m =? 6) || (m =? 9) || (m =? 11) then 30 else 31.

(* a date that exists in the calendar *)
Definition valid_date (y m d : Z) : bool :=
  (1 <=? m) && (m <=? 12) && (1 <=? d) && (d <=? days_in_month y m).

(* ---- inside one era: year-of-era 0..399 (March-based), day-of-era 0..146096 ---- *)
Definition doe_of_ymd (yoe m d : Z) : Z :=
  let mp := (m + 9) mod 12 in                       (* March = 0 … February = 11 *)
  let doy := (153 * mp + 2) / 5 + d - 1 in          (* day of the March-based year *)
  yoe * 365 + yoe / 4 - yoe / 100 + doy.

Definition ymd_of_doe (doe : Z) : Z * Z * Z :=
  let yoe := (doe - doe / 1460 + doe / 36524 - doe / 146096) / 365 in
  let doy := doe - (365 * yoe + yoe / 4 - yoe / 100) in
  let mp := (5 * doy + 2) / 153 in
  let d := doy - (153 * mp + 2) / 5 + 1 in
  let m := if mp <? 10 then mp + 3 else mp - 9 in
  (yoe, m, d).

(* ---- the two conversions ---- *)
Definition days_of_civil (y m d : Z) : Z :=
  let y' := if m <=? 2 then y - 1 else y in
  let era := y' / 400 in
  let yoe := y' - era * 400 in
  era * 146097 + doe_of_ymd yoe m d - 719468.

Definition civil_of_days (z : Z) : Z * Z * Z :=
  let z' := z + 719468 in
  let era := z' / 146097 in
  let doe := z' - era * 146097 in
  let '(yoe, m, d) := ymd_of_doe doe in
  let y := yoe + era * 400 in
  (if m <=? 2 then y + 1 else y, m, d).

(* lexicographic order on (y, m, d) *)
Definition date_le (a b : Z * Z * Z) : bool :=
  let '(y1, m1, d1) := a in let '(y2, m2, d2) := b in
  (y1 <? y2) || ((y1 =? y2) && ((m1 <? m2) || ((m1 =? m2) && (d1 <=? d2)))).

(* ---- exhaustive check of a finite range base .. base + p - 1 (binary recursion on p) ---- *)
Fixpoint range_all (p : positive) (f : Z -> bool) (base : Z) : bool :=
  match p with
  | xH => f base
  | xO q => range_all q f base && range_all q f (base + Zpos q)
  | xI q => f base && range_all q f (base + 1) && range_all q f (base + 1 + Zpos q)
  end.

(* what is checked for every day of an era, resp. every (year of era, month, day) *)
Definition check_doe (doe : Z) : bool :=
  let '(yoe, m, d) := ymd_of_doe doe in
  (0 <=? yoe) && (yoe <? 400) && (doe_of_ymd yoe m d =? doe) &&
  valid_date (if m <=? 2 then yoe + 1 else yoe) m d.

Definition check_ymd (yoe : Z) : bool :=
  range_all 12 (fun m => range_all 31 (fun d =>
    negb (valid_date (if m <=? 2 then yoe + 1 else yoe) m d) ||
    (let doe := doe_of_ymd yoe m d in
     (0 <=? doe) && (doe <? 146097) &&
     (let '(yoe', m', d') := ymd_of_doe doe in (yoe' =? yoe) && (m' =? m) && (d' =? d)))) 1) 1.

(* ---- the day after a date, by the calendar rules (month lengths, leap years) ---- *)
Definition next_date (c : Z * Z * Z) : Z * Z * Z :=
  let '(y, m, d) := c in
  if d <? days_in_month y m then (y, m, d + 1)
  else if m <? 12 then (y, m + 1, 1) else (y + 1, 1, 1).

(* calendar date, relative to the era's first year, of a day of the era *)
Definition cal_of_doe (doe : Z) : Z * Z * Z :=
  let '(yoe, m, d) := ymd_of_doe doe in (if m <=? 2 then yoe + 1 else yoe, m, d).

Definition date_eqb (a b : Z * Z * Z) : bool :=
  let '(y1, m1, d1) := a in let '(y2, m2, d2) := b in (y1 =? y2) && (m1 =? m2) && (d1 =? d2).

Definition check_succ (doe : Z) : bool := date_eqb (next_date (cal_of_doe doe)) (cal_of_doe (doe + 1)).

