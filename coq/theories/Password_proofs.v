(* Password_proofs.v — proofs for property C20 (xls record level, ods event level). *)
From Calamine Require Import Prelude Password.
Open Scope N_scope.

Section XlsGlobals.
Variable interp : N -> list N -> option N.

(* every record before the FILEPASS record is passed over: the scan answers Password *)
Theorem filepass_is_password : forall (pre : list (N * list N)) body rest,
  (forall t b, In (t, b) pre -> t <> FILEPASS /\ t <> EOF_REC /\ interp t b = None) ->
  globals_scan interp (pre ++ (FILEPASS, body) :: rest) = SPassword.
Proof.
  induction pre as [|[t b] pre IH]; intros body rest H; cbn [app globals_scan].
  - rewrite N.eqb_refl. reflexivity.
  - destruct (H t b (or_introl eq_refl)) as [H1 [H2 H3]].
    destruct (t =? FILEPASS) eqn:E1; [apply N.eqb_eq in E1; contradiction|].
    destruct (t =? EOF_REC) eqn:E2; [apply N.eqb_eq in E2; contradiction|].
    rewrite H3. apply IH. intros t' b' Hin. apply H. right; exact Hin.
Qed.

(* conversely, a globals stream without a FILEPASS record is never reported as protected *)
Theorem no_filepass_no_password : forall recs : list (N * list N),
  (forall t b, In (t, b) recs -> t <> FILEPASS) ->
  globals_scan interp recs <> SPassword.
Proof.
  induction recs as [|[t b] recs IH]; intros H; cbn [globals_scan]; [discriminate|].
  destruct (t =? FILEPASS) eqn:E1.
  - apply N.eqb_eq in E1. exfalso. exact (H t b (or_introl eq_refl) E1).
  - destruct (t =? EOF_REC); [discriminate|].
    destruct (interp t b); [discriminate|]. apply IH. intros t' b' Hin. apply (H t' b'). right; exact Hin.
Qed.

(* records after the EOF record are not examined (a FILEPASS there is not in a legal position) *)
Theorem scan_stops_at_eof : forall (pre : list (N * list N)) body rest,
  (forall t b, In (t, b) pre -> t <> FILEPASS /\ t <> EOF_REC /\ interp t b = None) ->
  globals_scan interp (pre ++ (EOF_REC, body) :: rest) = SDone.
Proof.
  induction pre as [|[t b] pre IH]; intros body rest H; cbn [app globals_scan].
  - reflexivity.
  - destruct (H t b (or_introl eq_refl)) as [H1 [H2 H3]].
    destruct (t =? FILEPASS) eqn:E1; [apply N.eqb_eq in E1; contradiction|].
    destruct (t =? EOF_REC) eqn:E2; [apply N.eqb_eq in E2; contradiction|].
    rewrite H3. apply IH. intros t' b' Hin. apply H. right; exact Hin.
Qed.
End XlsGlobals.

(* ------------------------------------------------------------------ ods manifest *)
Lemma str_eqb_refl : forall a, str_eqb a a = true.
Proof.
  intros a. unfold str_eqb. rewrite Nat.eqb_refl. cbn [andb].
  induction a as [|x a IH]; cbn; [reflexivity|]. rewrite N.eqb_refl. exact IH.
Qed.

Lemma inner_scan_app : forall a b, inner_scan (a ++ b) = inner_scan a || inner_scan b.
Proof.
  induction a as [|e a IH]; intros b; cbn [app inner_scan]; [reflexivity|].
  destruct e as [n|n|]; try apply IH. destruct (str_eqb n ENCRYPTION_DATA); [reflexivity|apply IH].
Qed.

Lemma inner_scan_neutral_elems : forall ns, forallb neutral_name ns = true ->
  inner_scan (concat (map render_elem ns)) = false.
Proof.
  induction ns as [|n ns IH]; cbn [map concat forallb]; [reflexivity|].
  intros H. apply andb_prop in H. destruct H as [Hn Hns].
  unfold render_elem at 1. cbn [app inner_scan].
  unfold neutral_name in Hn. apply andb_prop in Hn. destruct Hn as [_ Hn].
  apply negb_true_iff in Hn. rewrite Hn. apply IH. exact Hns.
Qed.

Lemma manifest_scan_neutral_elems : forall ns rest, forallb neutral_name ns = true ->
  manifest_scan (concat (map render_elem ns) ++ rest) = manifest_scan rest.
Proof.
  induction ns as [|n ns IH]; intros rest H; cbn [map concat forallb app]; [reflexivity|].
  apply andb_prop in H. destruct H as [Hn Hns].
  unfold render_elem at 1. cbn [app manifest_scan].
  unfold neutral_name in Hn. apply andb_prop in Hn. destruct Hn as [Hn _].
  apply negb_true_iff in Hn. rewrite Hn. apply IH. exact Hns.
Qed.

Lemma FE_not_ED : str_eqb FILE_ENTRY ENCRYPTION_DATA = false.
Proof. reflexivity. Qed.
Lemma ED_not_FE : str_eqb ENCRYPTION_DATA FILE_ENTRY = false.
Proof. reflexivity. Qed.

(* one entry under the inner scan *)
Lemma inner_scan_entry : forall e rest, neutral_entry e = true ->
  inner_scan (render_entry e ++ rest) = e_encrypted e || inner_scan rest.
Proof.
  intros e rest He. unfold neutral_entry in He. apply andb_prop in He. destruct He as [Hb Ha].
  unfold render_entry. rewrite <- !app_assoc. cbn [app inner_scan]. rewrite FE_not_ED.
  rewrite inner_scan_app, (inner_scan_neutral_elems _ Hb). cbn [orb].
  destruct (e_encrypted e); cbn [app inner_scan orb].
  - rewrite str_eqb_refl. reflexivity.
  - reflexivity.
Qed.

(* the inner scan over the rendering of entries finds exactly a declared encryption *)
Lemma inner_scan_entries : forall es rest, forallb neutral_entry es = true ->
  inner_scan (concat (map (fun e => MOther :: render_entry e) es) ++ rest)
  = existsb e_encrypted es || inner_scan rest.
Proof.
  induction es as [|e es IH]; intros rest H; cbn [map concat forallb existsb app]; [reflexivity|].
  apply andb_prop in H. destruct H as [He Hes].
  cbn [inner_scan]. rewrite <- app_assoc, (inner_scan_entry _ _ He), (IH _ Hes).
  rewrite orb_assoc. reflexivity.
Qed.

(* one entry under the outer scan: from its start tag on, the inner loop takes over *)
Lemma manifest_scan_entry : forall e rest, neutral_entry e = true ->
  manifest_scan (render_entry e ++ rest) = e_encrypted e || inner_scan rest.
Proof.
  intros e rest He. pose proof (inner_scan_entry e rest He) as Hi.
  unfold render_entry in *. rewrite <- !app_assoc in *. cbn [app manifest_scan inner_scan] in *.
  rewrite str_eqb_refl. rewrite FE_not_ED in Hi. exact Hi.
Qed.

(* the outer scan: Password iff some entry declares encryption data *)
Theorem manifest_scan_spec : forall es, forallb neutral_entry es = true ->
  manifest_scan (render_manifest es) = declares_encryption es.
Proof.
  intros es H. unfold render_manifest, declares_encryption.
  cbn [app manifest_scan]. change (str_eqb MANIFEST FILE_ENTRY) with false. cbn iota.
  destruct es as [|e es]; cbn [map concat forallb existsb app manifest_scan].
  - reflexivity.
  - apply andb_prop in H. destruct H as [He Hes].
    rewrite <- app_assoc, (manifest_scan_entry _ _ He), (inner_scan_entries es _ Hes).
    cbn [inner_scan]. change (str_eqb MANIFEST ENCRYPTION_DATA) with false.
    rewrite orb_false_r. reflexivity.
Qed.

Corollary ods_encryption_data_is_password : forall es,
  forallb neutral_entry es = true -> declares_encryption es = true ->
  manifest_scan (render_manifest es) = true.
Proof. intros es H1 H2. rewrite manifest_scan_spec; assumption. Qed.

Corollary ods_no_false_positive : forall es,
  forallb neutral_entry es = true -> declares_encryption es = false ->
  manifest_scan (render_manifest es) = false.
Proof. intros es H1 H2. rewrite manifest_scan_spec; assumption. Qed.

(* any event list without an encryption-data start is never reported, whatever else it holds *)
Theorem no_encryption_data_no_password : forall evs,
  (forall n, In (MStart n) evs -> str_eqb n ENCRYPTION_DATA = false) ->
  manifest_scan evs = false.
Proof.
  assert (Hin : forall evs, (forall n, In (MStart n) evs -> str_eqb n ENCRYPTION_DATA = false) ->
                            inner_scan evs = false).
  { induction evs as [|e evs IH]; intros H; cbn [inner_scan]; [reflexivity|].
    destruct e as [n|n|]; try (apply IH; intros m Hm; apply H; right; exact Hm).
    rewrite (H n (or_introl eq_refl)). apply IH. intros m Hm. apply H. right; exact Hm. }
  induction evs as [|e evs IH]; intros H; cbn [manifest_scan]; [reflexivity|].
  destruct e as [n|n|]; try (apply IH; intros m Hm; apply H; right; exact Hm).
  destruct (str_eqb n FILE_ENTRY).
  - apply Hin. intros m Hm. apply H. right; exact Hm.
  - apply IH. intros m Hm. apply H. right; exact Hm.
Qed.
