// C14: the two private formula decoders through their verif hooks.
//   xls  SHEETS NAMES XTIS HEX     (HEX = CellParsedFormula: cce + rgce)
//   xlsb SHEETS NAMES HEX          (HEX = rgce)
// SHEETS / NAMES: comma-separated hex of UTF-8 names ("-" = empty list, "." = empty name);
// XTIS: sup:first:last,… (raw u16; first/last are reinterpreted as i16), "-" = none.
use crate::util::{hexstr, unhex};
use calamine::verif_hooks::{xls, xlsb};

fn names(s: &str) -> Vec<String> {
    if s == "-" {
        return vec![];
    }
    s.split(',')
        .map(|h| {
            if h == "." {
                String::new()
            } else {
                String::from_utf8(unhex(h)).unwrap()
            }
        })
        .collect()
}

fn out(r: Result<String, String>) -> String {
    match r {
        Ok(s) => format!("ok:{}", hexstr(&s)),
        Err(_) => "err".to_string(),
    }
}

pub fn run(args: &[&str]) -> String {
    match args {
        ["xls", sh, nm, xt, h] => {
            let sheets = names(sh);
            let nms: Vec<(String, String)> = names(nm).into_iter().map(|n| (n, String::new())).collect();
            let xtis: Vec<(u16, i16, i16)> = if *xt == "-" {
                vec![]
            } else {
                xt.split(',')
                    .map(|t| {
                        let p: Vec<u16> = t.split(':').map(|x| x.parse().unwrap()).collect();
                        (p[0], p[1] as i16, p[2] as i16)
                    })
                    .collect()
            };
            out(xls::parse_formula(&unhex(h), &sheets, &nms, &xtis))
        }
        ["xlsb", sh, nm, h] => {
            let sheets = names(sh);
            let nms: Vec<(String, String)> = names(nm).into_iter().map(|n| (n, String::new())).collect();
            out(xlsb::parse_formula(&unhex(h), &sheets, &nms))
        }
        _ => "bad-args".to_string(),
    }
}
