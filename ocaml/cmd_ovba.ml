(* C18: the extracted MS-OVBA model.
   ovba      <hex container>            -> ok:<hex> | err | panic | fuel        (model M)
   ovba_enc  <chunks> [want_sem]        -> <hex container>|<hex sem or ->|<valid 0/1>|<known or ->
             (encoder E, spec S, validity, known class; model side only)
   ovba_tok  <pos> <off> <len>          -> <token>|<max_len>|<len'>:<off'> (pack, then the
             model's unpack at that position)
   chunks: ';'-separated; R<hex> = raw chunk; T<tok>,<tok>,… with tok = l<hex literal run> or
   c<off>:<len>. *)
open Conv
open Prelude
open Ovba

let parse_tok (s : string) : token list =
  if s = "" then [] else
  match s.[0] with
  | 'l' -> List.map (fun b -> Lit b) (bytes_of_hex (String.sub s 1 (String.length s - 1)))
  | 'c' ->
    (match String.split_on_char ':' (String.sub s 1 (String.length s - 1)) with
     | [o; l] -> [Copy (n_of_string o, n_of_string l)]
     | _ -> failwith "bad copy token")
  | _ -> failwith "bad token"

let parse_chunk (s : string) : chunk =
  if s = "" then failwith "empty chunk" else
  let body = String.sub s 1 (String.length s - 1) in
  match s.[0] with
  | 'R' -> Raw (bytes_of_hex body)
  | 'T' -> Toks (List.concat_map parse_tok (split_on ',' body))
  | _ -> failwith "bad chunk"

let parse_chunks (s : string) : chunk list =
  if s = "-" then [] else List.map parse_chunk (split_on ';' s)

let show_outcome (o : BinNums.coq_N list outcome) : string =
  match o with
  | Ok l -> "ok:" ^ hex_of_bytes l
  | Err _ -> "err"
  | Panic -> "panic"
  | OutOfFuel -> "fuel"

let run_ovba (args : string list) : string =
  let s = match args with a :: _ -> a | [] -> "" in
  show_outcome (decompress (bytes_of_hex s))

let run_enc (args : string list) : string =
  let cs = parse_chunks (List.hd args) in
  let want_sem = match args with _ :: "0" :: _ -> false | _ -> true in
  let enc = ovba_encode cs in
  let valid = List.for_all valid_chunkb cs in
  let known = match known_C18 cs with Some k -> string_of_n k | None -> "-" in
  Printf.sprintf "%s|%s|%d|%s" (hex_of_bytes enc)
    (if want_sem then hex_of_bytes (sem cs) else "-") (if valid then 1 else 0) known

let run_tok (args : string list) : string =
  match args with
  | [p; o; l] ->
    let pos = n_of_string p and off = n_of_string o and len = n_of_string l in
    let t = pack pos off len in
    let back = match copy_token_fields pos t with
      | Ok (l', o') -> string_of_n l' ^ ":" ^ string_of_n o'
      | Panic -> "panic" | Err _ -> "err" | OutOfFuel -> "fuel" in
    Printf.sprintf "%s|%s|%s" (string_of_n t) (string_of_n (max_len pos)) back
  | _ -> failwith "bad args"

let () = Registry.register "ovba" run_ovba
let () = Registry.register "ovba_enc" run_enc
let () = Registry.register "ovba_tok" run_tok
let init () = ()
