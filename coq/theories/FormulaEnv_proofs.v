(* FormulaEnv_proofs — C14: the name / extern-sheet tables handed to the formula decoders are the
   record lists of the file, in order, whatever flags the records carry; the formula range of the
   stored-text readers. *)
From Coq Require Import String.
From Calamine Require Import Prelude Range Range_spec Range_proofs Col26 Col26_proofs FtabRef Ptg Ptg_proofs
  FormulaPos_proofs FormulaEnv.
Open Scope N_scope.
Set Implicit Arguments.

(* ------------------------------------------------------------------ fields and slices *)
Lemma u32_at_le4 : forall (a k : list N) v, v < 4294967296 -> u32_at (a ++ le 4 v ++ k) (length a) = Ok v.
Proof.
  intros a k v H. unfold u32_at. rewrite skipn_app_len. cbn [le app].
  rewrite le4_eq by exact H. reflexivity.
Qed.
Lemma u32_at_le4_0 : forall (k : list N) v, v < 4294967296 -> u32_at (le 4 v ++ k) 0 = Ok v.
Proof. intros k v H. apply (@u32_at_le4 [] k v H). Qed.
Lemma u16_at_le2_0 : forall (k : list N) v, v < 65536 -> u16_at (le 2 v ++ k) 0 = Ok v.
Proof. intros k v H. unfold u16_at. cbn [skipn le app]. rewrite le2_eq by exact H. reflexivity. Qed.

Lemma skipn_le : forall k n (r : list N), skipn k (le k n ++ r) = r.
Proof. intros k n r. rewrite <- (le_length k n) at 1. apply skipn_app_len. Qed.

Lemma sliceN_app : forall (a m k : list N), sliceN (a ++ m ++ k) (length a) (N.of_nat (length m)) = Ok m.
Proof.
  intros a m k. unfold sliceN. rewrite !app_length.
  destruct (N.of_nat (length a) + N.of_nat (length m) <=? N.of_nat (length a + (length m + length k))) eqn:E.
  - rewrite Nat2N.id, skipn_app_len, firstn_app_len. reflexivity.
  - apply N.leb_gt in E. lia.
Qed.

Lemma nthN_nth_error : forall (A : Type) (l : list A) i, nthN l (N.of_nat i) = nth_error l i.
Proof.
  induction l as [|x l IH]; intros i; [destruct i; reflexivity|].
  destruct i as [|i]; [reflexivity|].
  cbn [nthN nth_error]. destruct (N.of_nat (S i) =? 0) eqn:E; [apply N.eqb_eq in E; lia|].
  replace (N.of_nat (S i) - 1) with (N.of_nat i) by lia. apply IH.
Qed.

(* ================================================================== xlsb ========== *)
Lemma wide_str_enc : forall s k, forallb scalar s = true ->
  N.of_nat (length (utf16_units s)) < 4294967296 ->
  wide_str (enc_wide s ++ k) = Ok (s, (4 + 2 * length (utf16_units s))%nat).
Proof.
  intros s k Hs Hl. unfold wide_str, enc_wide. rewrite <- app_assoc.
  destruct (length (le 4 (N.of_nat (length (utf16_units s))) ++ flat_map (le 2) (utf16_units s) ++ k) <? 4)%nat eqn:E4;
    [apply Nat.ltb_lt in E4; rewrite app_length, le_length in E4; lia|].
  rewrite u32_at_le4_0 by exact Hl. cbn [obind]. rewrite Nat2N.id.
  rewrite skipn_le.
  destruct (N.of_nat (length (le 4 (N.of_nat (length (utf16_units s))) ++ flat_map (le 2) (utf16_units s) ++ k))
            <? 4 + 2 * N.of_nat (length (utf16_units s))) eqn:E.
  - apply N.ltb_lt in E. rewrite !app_length, le_length, flat_le2_length in E. lia.
  - rewrite <- (flat_le2_length (utf16_units s)), firstn_app_len.
    rewrite decode_le2_units by exact Hs. rewrite flat_le2_length. reflexivity.
Qed.

Lemma enc_xti_length : forall xtis, length (flat_map enc_xti xtis) = (12 * length xtis)%nat.
Proof.
  induction xtis as [|x t IH]; [reflexivity|].
  cbn [flat_map length]. rewrite app_length, IH. unfold enc_xti. rewrite !app_length, !le_length. lia.
Qed.

Lemma nthN_map : forall (A B : Type) (f : A -> B) (l : list A) i,
  nthN (map f l) i = match nthN l i with Some x => Some (f x) | None => None end.
Proof.
  induction l as [|x l IH]; intros i; [reflexivity|]. cbn [map nthN].
  destruct (i =? 0); [reflexivity|apply IH].
Qed.

Section XlsbProofs.
Variable show_f64 : N -> list N.
Variable sheets : list (list N).

Lemma extern_chunks_enc : forall xtis fuel stale,
  forallb wf_xti xtis = true -> (length xtis < fuel)%nat ->
  extern_chunks sheets fuel (N.of_nat (length xtis)) (flat_map enc_xti xtis ++ stale)
  = Ok (spec_extern_xlsb sheets xtis).
Proof.
  induction xtis as [|x t IH]; intros fuel stale Hwf Hf.
  - destruct fuel; [lia|]. reflexivity.
  - destruct fuel as [|f]; [lia|]. cbn [forallb] in Hwf. apply andb_prop in Hwf. destruct Hwf as [Hx Ht].
    destruct x as [[a b] c]. unfold wf_xti in Hx. cbn [fst snd] in Hx.
    apply andb_prop in Hx. destruct Hx as [Hx Hc]. apply andb_prop in Hx. destruct Hx as [Ha Hb].
    apply N.ltb_lt in Hb, Hc.
    cbn [flat_map length]. change (enc_xti (a, b, c)) with (le 4 a ++ le 4 b ++ le 4 c). cbn [le app].
    cbn [extern_chunks]. destruct (N.of_nat (S (length t)) =? 0) eqn:E; [apply N.eqb_eq in E; lia|].
    match goal with |- context [(length ?l <? 12)%nat] =>
      destruct (length l <? 12)%nat eqn:EL; [apply Nat.ltb_lt in EL; cbn [length] in EL; lia|] end.
    cbn [firstn skipn u32_at obind].
    rewrite le4_eq by exact Hb. cbn [obind]. rewrite le4_eq by exact Hc. cbn [obind].
    replace (N.of_nat (S (length t)) - 1) with (N.of_nat (length t)) by lia.
    rewrite IH by (try exact Ht; cbn [length] in Hf; lia).
    reflexivity.
Qed.

Lemma brt_extern_enc : forall st xtis, forallb wf_xti xtis = true ->
  N.of_nat (length xtis) < 4294967296 ->
  brt_extern_sheet sheets st (enc_externsheet xtis)
  = Ok {| ws_ext := spec_extern_xlsb sheets xtis; ws_names := ws_names st |}.
Proof.
  intros st xtis Hwf Hl. unfold brt_extern_sheet, xlsb_extern_sheets, enc_externsheet.
  destruct (length (le 4 (N.of_nat (length xtis)) ++ flat_map enc_xti xtis) <? 4)%nat eqn:E4;
    [apply Nat.ltb_lt in E4; rewrite app_length, le_length in E4; lia|].
  rewrite u32_at_le4_0 by exact Hl. cbn [obind]. rewrite skipn_le.
  rewrite <- (app_nil_r (flat_map enc_xti xtis)) at 2.
  rewrite extern_chunks_enc; [reflexivity|exact Hwf|].
  rewrite !app_length, le_length, enc_xti_length. lia.
Qed.

Lemma brt_name_enc : forall st d, wf_name_rec d = true ->
  brt_name st (enc_brtname d) =
  Ok {| ws_ext := ws_ext st; ws_names := ws_names st ++ [(nr_name d, nr_rgce d)] |}.
Proof.
  intros st d Hwf. unfold wf_name_rec in Hwf.
  repeat (apply andb_prop in Hwf; let H := fresh "H" in destruct Hwf as [Hwf H]).
  apply N.ltb_lt in H, H0. rename H into Hrl. rename H0 into Hnl. rename H1 into Hsc.
  unfold brt_name, enc_brtname.
  set (h9 := le 4 (nr_flags d) ++ [nr_chkey d] ++ le 4 (nr_itab d)).
  assert (L9 : length h9 = 9%nat) by (unfold h9; rewrite !app_length, !le_length; reflexivity).
  set (w := enc_wide (nr_name d)).
  assert (Lw : length w = (4 + 2 * length (utf16_units (nr_name d)))%nat)
    by (unfold w, enc_wide; rewrite app_length, le_length, flat_le2_length; reflexivity).
  set (l4 := le 4 (N.of_nat (length (nr_rgce d)))).
  assert (L4 : length l4 = 4%nat) by apply le_length.
  set (rest := w ++ l4 ++ nr_rgce d ++ nr_tail d).
  replace (le 4 (nr_flags d) ++ [nr_chkey d] ++ le 4 (nr_itab d) ++ rest)
    with (h9 ++ rest) by (unfold h9; rewrite <- !app_assoc; reflexivity).
  assert (Lp : length (h9 ++ rest) = (9 + (4 + 2 * length (utf16_units (nr_name d))) + 4 + length (nr_rgce d) + length (nr_tail d))%nat)
    by (unfold rest; rewrite !app_length, L9, Lw, L4; lia).
  destruct (length (h9 ++ rest) <? 9)%nat eqn:E9; [apply Nat.ltb_lt in E9; lia|].
  rewrite <- L9 at 1. rewrite skipn_app_len.
  unfold rest at 1. unfold w at 1. rewrite wide_str_enc by assumption. cbn [obind].
  destruct (length (h9 ++ rest) <? 13 + (4 + 2 * length (utf16_units (nr_name d))))%nat eqn:E13;
    [apply Nat.ltb_lt in E13; lia|].
  assert (S2 : u32_at (h9 ++ rest) (9 + (4 + 2 * length (utf16_units (nr_name d))))
               = Ok (N.of_nat (length (nr_rgce d)))).
  { unfold rest. rewrite <- Lw, <- L9, <- app_length.
    replace (h9 ++ w ++ l4 ++ nr_rgce d ++ nr_tail d)
      with ((h9 ++ w) ++ l4 ++ (nr_rgce d ++ nr_tail d)) by (rewrite <- !app_assoc; reflexivity).
    apply u32_at_le4. exact Hrl. }
  rewrite S2. cbn [obind].
  destruct (N.of_nat (length (h9 ++ rest)) <? N.of_nat (13 + (4 + 2 * length (utf16_units (nr_name d)))) + N.of_nat (length (nr_rgce d))) eqn:E3;
    [apply N.ltb_lt in E3; lia|].
  assert (S3 : sliceN (h9 ++ rest) (13 + (4 + 2 * length (utf16_units (nr_name d))))
                 (N.of_nat (length (nr_rgce d))) = Ok (nr_rgce d)).
  { unfold rest.
    replace (13 + (4 + 2 * length (utf16_units (nr_name d))))%nat with (length (h9 ++ w ++ l4))
      by (rewrite !app_length, L9, Lw, L4; lia).
    replace (h9 ++ w ++ l4 ++ nr_rgce d ++ nr_tail d)
      with ((h9 ++ w ++ l4) ++ nr_rgce d ++ nr_tail d) by (rewrite <- !app_assoc; reflexivity).
    apply sliceN_app. }
  rewrite S3. cbn [obind]. reflexivity.
Qed.

Lemma end_rec_not_name : forall e, is_end_rec e = true -> (e =? 0x016A) = false /\ (e =? 0x0027) = false.
Proof.
  intros e H. unfold is_end_rec in H.
  repeat (apply orb_true_iff in H; destruct H as [H|H]);
    apply N.eqb_eq in H; subst e; split; reflexivity.
Qed.

(* the loop over the BrtName records of workbook.bin builds exactly the table the property
   demands — every record takes a slot, whatever its flags, whatever bytes the previous records
   left in the buffer *)
Theorem xlsb_names_of_records : forall ds e p st,
  forallb wf_name_rec ds = true -> is_end_rec e = true ->
  xlsb_names_loop show_f64 sheets (map (fun d => (0x0027, enc_brtname d)) ds ++ [(e, p)]) st
  = do r <- spec_names_xlsb show_f64 (ws_ext st) (ws_names st) ds; Ok (ws_ext st, r).
Proof.
  induction ds as [|d t IH]; intros e p st Hwf He.
  - destruct (end_rec_not_name e He) as [E1 E2]. cbn [map app xlsb_names_loop].
    rewrite E1, E2, He. unfold spec_names_xlsb, raw_of. cbn [map]. rewrite app_nil_r. reflexivity.
  - cbn [forallb] in Hwf. apply andb_prop in Hwf. destruct Hwf as [Hd Ht].
    cbn [map app xlsb_names_loop].
    change (0x0027 =? 0x016A) with false. change (0x0027 =? 0x0027) with true. cbn iota.
    rewrite brt_name_enc by exact Hd. cbn [obind].
    rewrite IH by assumption. cbn [ws_ext ws_names]. unfold spec_names_xlsb, raw_of. cbn [map].
    rewrite <- !app_assoc. reflexivity.
Qed.

Theorem xlsb_read_names_spec : forall xtis ds e p,
  forallb wf_xti xtis = true -> N.of_nat (length xtis) < 4294967296 ->
  forallb wf_name_rec ds = true -> is_end_rec e = true ->
  xlsb_read_names show_f64 sheets
    ((0x016A, enc_externsheet xtis) :: map (fun d => (0x0027, enc_brtname d)) ds ++ [(e, p)])
  = do r <- spec_names_xlsb show_f64 (spec_extern_xlsb sheets xtis) [] ds;
    Ok (spec_extern_xlsb sheets xtis, r).
Proof.
  intros xtis ds e p Hx Hl Hd He. unfold xlsb_read_names. cbn [xlsb_names_loop].
  change (0x016A =? 0x016A) with true. cbn iota.
  rewrite brt_extern_enc by assumption. cbn [obind].
  rewrite xlsb_names_of_records by assumption. reflexivity.
Qed.

(* ---------- what the table looks like ---------- *)
Lemma decode_names_fst : forall ext all l r,
  decode_names show_f64 ext all l = Ok r -> map fst r = map fst l.
Proof.
  induction l as [|[n rg] l IH]; intros r H.
  - cbn in H. injection H as <-. reflexivity.
  - cbn [decode_names] in H.
    destruct (xlsb_parse_formula show_f64 {| be_sheets := ext; be_names := all; be_base := None |} rg)
      as [f|c| |]; cbn [obind] in H; try discriminate.
    destruct (decode_names show_f64 ext all l) as [r'|c| |]; cbn [obind] in H; try discriminate.
    injection H as <-. cbn [map fst]. rewrite (IH r' eq_refl). reflexivity.
Qed.

Lemma raw_of_fst : forall ds, map fst (raw_of ds) = map nr_name ds.
Proof. intros ds. unfold raw_of. rewrite map_map. reflexivity. Qed.

Theorem defined_names_in_order_xlsb : forall ext ds r,
  spec_names_xlsb show_f64 ext [] ds = Ok r -> map fst r = map nr_name ds.
Proof.
  intros ext ds r H. unfold spec_names_xlsb in H. cbn [app] in H. apply decode_names_fst in H.
  rewrite H. apply raw_of_fst.
Qed.

Theorem name_index_stable_xlsb : forall ext ds r i d,
  spec_names_xlsb show_f64 ext [] ds = Ok r -> nth_error ds i = Some d ->
  spec_name (map fst r) (N.of_nat i + 1) = nr_name d.
Proof.
  intros ext ds r i d H Hn. apply defined_names_in_order_xlsb in H.
  unfold spec_name. replace (N.of_nat i + 1 - 1) with (N.of_nat i) by lia.
  rewrite nthN_nth_error, H, nth_error_map, Hn. reflexivity.
Qed.

(* … and the decoder itself renders PtgName i+1 as the i-th record's name *)
Theorem ptgname_is_ith_record_xlsb : forall ext ds r i d k,
  spec_names_xlsb show_f64 ext [] ds = Ok r -> nth_error ds i = Some d ->
  N.of_nat i + 1 < 4294967296 ->
  xlsb_parse_formula show_f64 {| be_sheets := ext; be_names := map fst r; be_base := None |}
    (encode_xlsb (EName k (N.of_nat i + 1))) = Ok (nr_name d).
Proof.
  intros ext ds r i d k H Hn Hi.
  rewrite rpn_correct_xlsb.
  - unfold render_xlsb. cbn [render be_names]. f_equal. eapply name_index_stable_xlsb; eassumption.
  - unfold wf_xlsb, wf_xlsb_core. cbn [wf be_names mdepth].
    pose proof (defined_names_in_order_xlsb _ _ H) as Hm.
    assert (Hlen : length (map fst r) = length ds) by (rewrite Hm, map_length; reflexivity).
    assert (Hlt : (i < length ds)%nat) by (apply nth_error_Some; rewrite Hn; discriminate).
    rewrite Hlen.
    repeat (apply andb_true_intro; split); try reflexivity; try apply N.leb_le; try apply N.ltb_lt; lia.
Qed.

(* the text of a defined name: every BrtName record whose rgce encodes a well-formed expression —
   well-formed against the names of ALL records, those stored after it included (forward references
   are the rule in files written by Excel) — is reported with the A1 rendering of that expression *)
Lemma decode_names_nth : forall ext all l r i n rg,
  decode_names show_f64 ext all l = Ok r -> nth_error l i = Some (n, rg) ->
  exists f, xlsb_parse_formula show_f64 {| be_sheets := ext; be_names := all; be_base := None |} rg = Ok f /\
            nth_error r i = Some (n, f).
Proof.
  induction l as [|[n0 rg0] l IH]; intros r i n rg H Hn; [destruct i; discriminate|].
  cbn [decode_names] in H.
  destruct (xlsb_parse_formula show_f64 {| be_sheets := ext; be_names := all; be_base := None |} rg0)
    as [f0|c| |] eqn:E0; cbn [obind] in H; try discriminate.
  destruct (decode_names show_f64 ext all l) as [r'|c| |] eqn:El; cbn [obind] in H; try discriminate.
  injection H as <-. destruct i as [|i]; cbn [nth_error] in *.
  - injection Hn as <- <-. exists f0. split; [exact E0|reflexivity].
  - eapply IH; [reflexivity|exact Hn].
Qed.

Theorem defined_name_text_is_render_xlsb : forall ext ds r i d e,
  spec_names_xlsb show_f64 ext [] ds = Ok r -> nth_error ds i = Some d ->
  nr_rgce d = encode_xlsb e ->
  wf_xlsb {| be_sheets := ext; be_names := map nr_name ds; be_base := None |} e = true ->
  nth_error r i = Some (nr_name d, render_xlsb show_f64 {| be_sheets := ext; be_names := map nr_name ds; be_base := None |} e).
Proof.
  intros ext ds r i d e H Hn He Hwf. unfold spec_names_xlsb in H. cbn [app] in H.
  rewrite raw_of_fst in H.
  assert (Hn' : nth_error (raw_of ds) i = Some (nr_name d, nr_rgce d)).
  { unfold raw_of. rewrite nth_error_map, Hn. reflexivity. }
  edestruct decode_names_nth as (f & Hf & Hr); [exact H|exact Hn'|].
  rewrite He, rpn_correct_xlsb in Hf by exact Hwf. injection Hf as <-. exact Hr.
Qed.

Theorem sheet3d_through_xti_xlsb : forall xtis i x nm,
  nth_error xtis i = Some x ->
  spec_sheet_xlsb {| be_sheets := spec_extern_xlsb sheets xtis; be_names := nm; be_base := None |} (N.of_nat i)
  = resolve_xti sheets (snd (fst x)) (snd x).
Proof.
  intros xtis i x nm H. unfold spec_sheet_xlsb, spec_extern_xlsb. cbn [be_sheets].
  rewrite nthN_nth_error, nth_error_map, H. reflexivity.
Qed.

(* ---------- supporting links ---------- *)
(* the records of the EXTERNALS block in front of BrtExternSheet — BrtBeginExternals and the supporting
   links, any number of them in any order — are passed over *)
Lemma skip_rec_loop : forall pre rest st, forallb (fun r => skip_rec (fst r)) pre = true ->
  xlsb_names_loop show_f64 sheets (pre ++ rest) st = xlsb_names_loop show_f64 sheets rest st.
Proof.
  induction pre as [|[t p] pre IH]; intros rest st H; [reflexivity|].
  cbn [forallb fst] in H. apply andb_prop in H. destruct H as [Ht Hp].
  unfold skip_rec in Ht. apply negb_true_iff in Ht. apply orb_false_iff in Ht. destruct Ht as [Ht E3].
  apply orb_false_iff in Ht. destruct Ht as [E1 E2].
  cbn [app xlsb_names_loop]. rewrite E1, E2, E3. apply IH. exact Hp.
Qed.

Lemma sup_rec_skipped : forall sups, forallb (fun r => skip_rec (fst r)) (map sup_rec_xlsb sups) = true.
Proof.
  induction sups as [|[l p] t IH]; [reflexivity|]. cbn [map forallb]. rewrite IH.
  destruct l; reflexivity.
Qed.

Theorem xlsb_read_names_links_spec : forall bp sups xtis ds e p,
  forallb wf_xti xtis = true -> N.of_nat (length xtis) < 4294967296 ->
  forallb wf_name_rec ds = true -> is_end_rec e = true ->
  xlsb_read_names show_f64 sheets
    ((0x0161, bp) :: map sup_rec_xlsb sups ++
     (0x016A, enc_externsheet xtis) :: map (fun d => (0x0027, enc_brtname d)) ds ++ [(e, p)])
  = do r <- spec_names_xlsb show_f64 (spec_extern_xlsb sheets xtis) [] ds;
    Ok (spec_extern_xlsb sheets xtis, r).
Proof.
  intros bp sups xtis ds e p Hx Hl Hd He.
  rewrite <- (xlsb_read_names_spec xtis ds e p Hx Hl Hd He). unfold xlsb_read_names.
  rewrite app_comm_cons. apply skip_rec_loop.
  cbn [forallb fst]. rewrite sup_rec_skipped. reflexivity.
Qed.

(* outside the known class the table through the links gives the text the decoder writes *)
Lemma render_xlsb_links_eq : forall links xtis nm base e,
  known_extern links xtis e = false ->
  render_xlsb show_f64 {| be_sheets := spec_extern_links_xlsb sheets links xtis; be_names := nm; be_base := base |} e
  = render_xlsb show_f64 {| be_sheets := spec_extern_xlsb sheets xtis; be_names := nm; be_base := base |} e.
Proof.
  intros links xtis nm base e Hk. unfold render_xlsb. cbn [be_names be_base]. apply render_sheet_ext.
  intros ix Hin. unfold spec_sheet_xlsb, spec_extern_links_xlsb, spec_extern_xlsb. cbn [be_sheets].
  rewrite !nthN_map. destruct (nthN xtis ix) as [x|] eqn:Ex; [|reflexivity].
  rewrite sheet_through_link_local; [reflexivity|]. eapply known_extern_false; eauto.
Qed.

Theorem rpn_correct_links_xlsb : forall links xtis nm base e,
  wf_xlsb {| be_sheets := spec_extern_xlsb sheets xtis; be_names := nm; be_base := base |} e = true ->
  known_C14 links xtis e = None ->
  xlsb_parse_formula show_f64 {| be_sheets := spec_extern_xlsb sheets xtis; be_names := nm; be_base := base |}
    (encode_xlsb e)
  = Ok (render_xlsb show_f64 {| be_sheets := spec_extern_links_xlsb sheets links xtis; be_names := nm; be_base := base |} e).
Proof.
  intros links xtis nm base e Hwf Hk. unfold known_C14 in Hk.
  destruct (known_extern links xtis e) eqn:E; [discriminate|].
  rewrite render_xlsb_links_eq by exact E. apply rpn_correct_xlsb. exact Hwf.
Qed.

Theorem defined_name_text_through_links_xlsb : forall links xtis ds r i d e,
  spec_names_xlsb show_f64 (spec_extern_xlsb sheets xtis) [] ds = Ok r -> nth_error ds i = Some d ->
  nr_rgce d = encode_xlsb e ->
  wf_xlsb {| be_sheets := spec_extern_xlsb sheets xtis; be_names := map nr_name ds; be_base := None |} e = true ->
  known_C14 links xtis e = None ->
  nth_error r i = Some (nr_name d,
    render_xlsb show_f64 {| be_sheets := spec_extern_links_xlsb sheets links xtis; be_names := map nr_name ds; be_base := None |} e).
Proof.
  intros links xtis ds r i d e H Hn He Hwf Hk. unfold known_C14 in Hk.
  destruct (known_extern links xtis e) eqn:E; [discriminate|].
  rewrite render_xlsb_links_eq by exact E. eapply defined_name_text_is_render_xlsb; eassumption.
Qed.

End XlsbProofs.

(* ================================================================== xls =========== *)
Lemma unicode_no_cch_wide : forall s k, forallb scalar s = true ->
  unicode_no_cch ((1 :: flat_map (le 2) (utf16_units s)) ++ k) (length (utf16_units s)) = s.
Proof.
  intros s k Hs. unfold unicode_no_cch. cbn [app skipn].
  change (N.testbit 1 0) with true. cbn iota.
  set (u := utf16_units s). set (fl := flat_map (le 2) u).
  assert (Hfl : length fl = (2 * length u)%nat) by apply flat_le2_length.
  rewrite <- Hfl, firstn_app_len.
  replace (length fl / 2)%nat with (length u) by (rewrite Hfl, Nat.mul_comm, Nat.div_mul by lia; reflexivity).
  rewrite Nat.min_id, <- Hfl, firstn_all. unfold fl, u. apply decode_le2_units. exact Hs.
Qed.

Lemma unicode_no_cch_narrow : forall s k, forallb (fun c => c <? 256) s = true ->
  unicode_no_cch ((0 :: s) ++ k) (length s) = s.
Proof.
  intros s k Hs. unfold unicode_no_cch. cbn [app skipn].
  change (N.testbit 0 0) with false. cbn iota.
  rewrite firstn_app_len, Nat.min_id, firstn_all. apply decode_widen. exact Hs.
Qed.

Lemma nthN_none : forall (A : Type) (l : list A) i, N.of_nat (length l) <= i -> nthN l i = None.
Proof.
  induction l as [|x l IH]; intros i H; [reflexivity|]. cbn [nthN length] in *.
  destruct (i =? 0) eqn:E; [apply N.eqb_eq in E; lia|]. apply N.eqb_neq in E. apply IH. lia.
Qed.

(* the table of the code is the table of MS-XLS 2.5.114 *)
Lemma builtin_table : forall c, nthN BUILTIN_NAMES c = builtin_name c.
Proof.
  intros c. destruct c as [|p]; [reflexivity|].
  do 4 (destruct p as [p|p|]; try reflexivity).
  all: cbn [builtin_name]; apply nthN_none; unfold BUILTIN_NAMES; cbn [length]; lia.
Qed.

Lemma testbit5_mod256 : forall n, N.testbit (n mod 256) 5 = N.testbit n 5.
Proof. intros n. change 256 with (2 ^ 8). apply N.mod_pow2_bits_low. lia. Qed.

Lemma builtin_fix_logical : forall d, builtin_fix (lb_flags d mod 256) (lb_name d) = lb_logical d.
Proof.
  intros d. unfold builtin_fix, lb_logical. rewrite testbit5_mod256.
  destruct (N.testbit (lb_flags d) 5); [|reflexivity].
  destruct (lb_name d) as [|c [|c' t]]; try reflexivity. rewrite builtin_table. reflexivity.
Qed.

Lemma xls_lbl_enc : forall d, wf_lbl d = true ->
  xls_lbl (enc_lbl d) = do f <- parse_defined_names (lb_rgce d); Ok (lb_logical d, (f, lb_rgce d)).
Proof.
  intros d Hwf. unfold wf_lbl in Hwf.
  apply andb_prop in Hwf. destruct Hwf as [Hwf Hce]. apply andb_prop in Hwf. destruct Hwf as [Hwf Hnm].
  apply N.ltb_lt in Hce.
  unfold xls_lbl, enc_lbl.
  set (str := if lb_wide d then 1 :: flat_map (le 2) (utf16_units (lb_name d)) else 0 :: lb_name d).
  set (cch := if lb_wide d then N.of_nat (length (utf16_units (lb_name d))) else N.of_nat (length (lb_name d))).
  cbn [le app].
  set (data := lb_flags d mod 256 :: _).
  assert (Hd : data = firstn 14 data ++ str ++ lb_rgce d ++ lb_rgcb d) by reflexivity.
  assert (Hlen : length data = (14 + length (str ++ lb_rgce d ++ lb_rgcb d))%nat) by reflexivity.
  destruct (length data <? 14)%nat eqn:E14; [apply Nat.ltb_lt in E14; lia|].
  assert (Hb : byte_at data 3 = Ok cch) by reflexivity.
  assert (Hc : u16_at data 4 = Ok (N.of_nat (length (lb_rgce d)))).
  { unfold data, u16_at. cbn [skipn]. rewrite le2_eq by exact Hce. reflexivity. }
  rewrite Hb, Hc. cbn [obind]. rewrite Nat2N.id.
  destruct (length data <? 14 + length (lb_rgce d))%nat eqn:E;
    [apply Nat.ltb_lt in E; rewrite Hlen, !app_length in E; lia|].
  assert (Hdr : drop 14 data = Ok (str ++ lb_rgce d ++ lb_rgcb d)) by reflexivity.
  rewrite Hdr. cbn [obind]. cbv zeta.
  (* the length read_unicode_string_no_cch reports: the flag byte and the characters *)
  assert (Hnl : (1 + (if match str ++ lb_rgce d ++ lb_rgcb d with b :: _ => N.testbit b 0 | [] => false end
                      then 2 * N.to_nat cch else N.to_nat cch))%nat = length str).
  { unfold str, cch. destruct (lb_wide d); cbn [app]; rewrite Nat2N.id.
    - change (N.testbit 1 0) with true. cbn iota. cbn [length]. rewrite flat_le2_length. lia.
    - change (N.testbit 0 0) with false. cbn iota. cbn [length]. lia. }
  rewrite Hnl.
  destruct (length data <? 14 + length str + length (lb_rgce d))%nat eqn:E2;
    [apply Nat.ltb_lt in E2; rewrite Hlen, !app_length in E2; lia|].
  assert (Hsk : firstn (length (lb_rgce d)) (skipn (14 + length str) data) = lb_rgce d).
  { rewrite Hd. replace (14 + length str)%nat with (length (firstn 14 data ++ str))
      by (rewrite app_length; cbn [firstn length data]; lia).
    rewrite app_assoc, skipn_app_len. apply firstn_app_len. }
  rewrite Hsk.
  assert (Hname : unicode_no_cch (str ++ lb_rgce d ++ lb_rgcb d) (N.to_nat cch) = lb_name d).
  { unfold str, cch. destruct (lb_wide d); apply andb_prop in Hnm; destruct Hnm as [Hs _]; rewrite Nat2N.id.
    - apply unicode_no_cch_wide. exact Hs.
    - apply unicode_no_cch_narrow. exact Hs. }
  rewrite Hname. change (nth 0 data 0) with (lb_flags d mod 256). rewrite builtin_fix_logical. reflexivity.
Qed.

Lemma enc_xti16_length : forall xtis, length (flat_map enc_xti16 xtis) = (6 * length xtis)%nat.
Proof.
  induction xtis as [|x t IH]; [reflexivity|].
  cbn [flat_map length]. rewrite app_length, IH. unfold enc_xti16. rewrite !app_length, !le_length. lia.
Qed.

Lemma xti_chunks_enc : forall xtis fuel k,
  forallb wf_xti16 xtis = true -> (length xtis < fuel)%nat ->
  xti_chunks fuel (N.of_nat (length xtis)) (flat_map enc_xti16 xtis ++ k) = Ok xtis.
Proof.
  induction xtis as [|x t IH]; intros fuel k Hwf Hf.
  - destruct fuel; [lia|]. reflexivity.
  - destruct fuel as [|f]; [lia|]. cbn [forallb] in Hwf. apply andb_prop in Hwf. destruct Hwf as [Hx Ht].
    destruct x as [[a b] c]. unfold wf_xti16 in Hx. cbn [fst snd] in Hx.
    apply andb_prop in Hx. destruct Hx as [Hx Hc]. apply andb_prop in Hx. destruct Hx as [Ha Hb].
    apply N.ltb_lt in Ha, Hb, Hc.
    cbn [flat_map length]. change (enc_xti16 (a, b, c)) with (le 2 a ++ le 2 b ++ le 2 c). cbn [le app].
    cbn [xti_chunks]. destruct (N.of_nat (S (length t)) =? 0) eqn:E; [apply N.eqb_eq in E; lia|].
    match goal with |- context [(length ?l <? 6)%nat] =>
      destruct (length l <? 6)%nat eqn:EL; [apply Nat.ltb_lt in EL; cbn [length] in EL; lia|] end.
    cbn [firstn skipn u16_at obind].
    rewrite !le2_eq by assumption. cbn [obind].
    replace (N.of_nat (S (length t)) - 1) with (N.of_nat (length t)) by lia.
    rewrite IH by (try exact Ht; cbn [length] in Hf; lia).
    reflexivity.
Qed.

Lemma concat_pieces : forall cuts b, concat (pieces cuts b) = b.
Proof.
  induction cuts as [|c t IH]; intros b; cbn [pieces concat]; [apply app_nil_r|].
  rewrite IH. apply firstn_skipn.
Qed.

Lemma leading_conts_map : forall ps rest, leading_conts rest = [] ->
  leading_conts (map (fun p => (0x003C, p)) ps ++ rest) = ps.
Proof.
  induction ps as [|p ps IH]; intros rest H; [exact H|].
  cbn [map app leading_conts]. change (0x003C =? 0x003C) with true. cbn iota. rewrite (IH rest H). reflexivity.
Qed.

Lemma xls_externsheet_enc : forall xtis p0 ps, forallb wf_xti16 xtis = true ->
  N.of_nat (length xtis) < 65536 -> p0 ++ concat ps = flat_map enc_xti16 xtis ->
  xls_externsheet (le 2 (N.of_nat (length xtis)) ++ p0) ps = Ok xtis.
Proof.
  intros xtis p0 ps Hwf Hl Hp. unfold xls_externsheet.
  destruct (length (le 2 (N.of_nat (length xtis)) ++ p0) <? 2)%nat eqn:E2;
    [apply Nat.ltb_lt in E2; rewrite app_length, le_length in E2; lia|].
  rewrite u16_at_le2_0 by exact Hl. cbn [obind]. rewrite skipn_le. cbv zeta. rewrite Hp.
  rewrite <- (app_nil_r (flat_map enc_xti16 xtis)).
  apply xti_chunks_enc; [exact Hwf|].
  rewrite app_nil_r, enc_xti16_length. lia.
Qed.

(* the records of a description never start with a CONTINUE record *)
Lemma enc_grecs_head : forall gs, forallb wf_grec gs = true -> leading_conts (flat_map enc_grec gs) = [].
Proof.
  intros [|g t] H; [reflexivity|]. cbn [forallb] in H. apply andb_prop in H. destruct H as [Hg _].
  cbn [flat_map]. destruct g as [d|x cuts|l ctab path|ty data]; cbn [enc_grec app leading_conts].
  - reflexivity.
  - destruct (pieces cuts (flat_map enc_xti16 x)) as [|p0 ps] eqn:E; [destruct cuts; discriminate|].
    cbn [app leading_conts]. reflexivity.
  - reflexivity.
  - cbn [wf_grec] in Hg. apply negb_true_iff in Hg. apply orb_false_iff in Hg. destruct Hg as [Hg _].
    apply orb_false_iff in Hg. destruct Hg as [_ H3c].
    rewrite H3c. reflexivity.
Qed.

Lemma globals_skip_conts : forall ps rest n0 x0,
  xls_globals (map (fun p => (0x003C, p)) ps ++ rest) n0 x0 = xls_globals rest n0 x0.
Proof.
  induction ps as [|p ps IH]; intros rest n0 x0; [reflexivity|].
  cbn [map app xls_globals]. change (0x003C =? 0x000A) with false. change (0x003C =? 0x0018) with false.
  change (0x003C =? 0x0017) with false. cbn iota. apply IH.
Qed.

(* the globals loop keeps every Lbl record, in order, and concatenates the XTI arrays — of any length,
   however they are split over the ExternSheet record and its CONTINUE records *)
Theorem xls_globals_spec : forall gs n0 x0, forallb wf_grec gs = true ->
  xls_globals (flat_map enc_grec gs) n0 x0
  = do r <- spec_lbls (lbls_of gs); Ok (n0 ++ r, x0 ++ xtis_of gs).
Proof.
  induction gs as [|g t IH]; intros n0 x0 Hwf.
  - cbn. rewrite !app_nil_r. reflexivity.
  - cbn [forallb] in Hwf. apply andb_prop in Hwf. destruct Hwf as [Hg Ht].
    destruct g as [d|x cuts|l ctab path|ty data]; cbn [flat_map enc_grec lbls_of xtis_of app wf_grec] in *.
    + cbn [xls_globals].
      change (0x0018 =? 0x000A) with false. change (0x0018 =? 0x0018) with true. cbn iota.
      rewrite xls_lbl_enc by exact Hg. cbn [spec_lbls].
      destruct (parse_defined_names (lb_rgce d)) as [f|c| |]; cbn [obind]; try reflexivity.
      rewrite IH by exact Ht. fold (lbls_of t). fold (xtis_of t).
      destruct (spec_lbls (lbls_of t)) as [r|c| |]; cbn [obind]; try reflexivity.
      rewrite <- app_assoc. reflexivity.
    + apply andb_prop in Hg. destruct Hg as [Hx Hl]. apply N.ltb_lt in Hl.
      pose proof (concat_pieces cuts (flat_map enc_xti16 x)) as Hc.
      destruct (pieces cuts (flat_map enc_xti16 x)) as [|p0 ps] eqn:E; [destruct cuts; discriminate|].
      cbn [concat] in Hc. cbn [app xls_globals].
      change (0x0017 =? 0x000A) with false. change (0x0017 =? 0x0018) with false.
      change (0x0017 =? 0x0017) with true. cbn iota.
      rewrite leading_conts_map by (apply enc_grecs_head; exact Ht).
      rewrite (xls_externsheet_enc x p0 ps Hx Hl Hc). cbn [obind].
      rewrite globals_skip_conts.
      rewrite IH by exact Ht. fold (lbls_of t). fold (xtis_of t).
      destruct (spec_lbls (lbls_of t)) as [r|c| |]; cbn [obind]; try reflexivity.
      rewrite <- app_assoc. reflexivity.
    + cbn [xls_globals]. change (0x01AE =? 0x000A) with false. change (0x01AE =? 0x0018) with false.
      change (0x01AE =? 0x0017) with false. cbn iota.
      rewrite IH by exact Ht. reflexivity.
    + apply negb_true_iff in Hg. apply orb_false_iff in Hg. destruct Hg as [Hg _].
      apply orb_false_iff in Hg. destruct Hg as [Hg H3c].
      apply orb_false_iff in Hg. destruct Hg as [Hg H17].
      apply orb_false_iff in Hg. destruct Hg as [H0A H18]. cbn [xls_globals]. rewrite H0A, H18, H17.
      rewrite IH by exact Ht. reflexivity.
Qed.

Lemma spec_lbls_fst : forall ds r, spec_lbls ds = Ok r -> map fst r = map lb_logical ds.
Proof.
  induction ds as [|d t IH]; intros r H.
  - cbn in H. injection H as <-. reflexivity.
  - cbn [spec_lbls] in H. destruct (parse_defined_names (lb_rgce d)) as [f|c| |]; cbn [obind] in H; try discriminate.
    destruct (spec_lbls t) as [r'|c| |]; cbn [obind] in H; try discriminate.
    injection H as <-. cbn [map fst]. rewrite (IH r' eq_refl). reflexivity.
Qed.

Lemma map_o_final_fst : forall show_f64 sheets xtis nms (l : list raw_name) r,
  map_o (xls_final_name show_f64 sheets xtis nms) l = Ok r -> map fst r = map fst l.
Proof.
  intros show_f64 sheets xtis nms. induction l as [|n t IH]; intros r H.
  - cbn in H. injection H as <-. reflexivity.
  - cbn [map_o] in H. unfold xls_final_name at 1 in H.
    destruct (xls_parse_formula show_f64 _ _) as [full|c| |]; cbn [obind] in H; try discriminate;
      destruct (map_o (xls_final_name show_f64 sheets xtis nms) t) as [r'|c'| |]; cbn [obind] in H; try discriminate;
      injection H as <-; cbn [map fst]; rewrite (IH r' eq_refl); reflexivity.
Qed.

Lemma map_o_nth : forall (A B : Type) (f : A -> outcome B) l r i x,
  map_o f l = Ok r -> nth_error l i = Some x -> exists y, f x = Ok y /\ nth_error r i = Some y.
Proof.
  intros A B f. induction l as [|a t IH]; intros r i x H Hn; [destruct i; discriminate|].
  cbn [map_o] in H. destruct (f a) as [y|c| |] eqn:Ea; cbn [obind] in H; try discriminate.
  destruct (map_o f t) as [r'|c| |] eqn:Et; cbn [obind] in H; try discriminate. injection H as <-.
  destruct i as [|i]; cbn [nth_error] in *.
  - injection Hn as <-. exists y. split; [exact Ea|reflexivity].
  - apply (IH r' i x eq_refl Hn).
Qed.

Lemma map_quote_sheet : forall l, map quote_sheet_name l = map sheet_text l.
Proof. intros l. apply map_ext. exact quote_sheet_name_spec. Qed.

(* what xls_read_names does on an encoded globals substream *)
Lemma xls_read_names_unfold : forall show_f64 sheets gs names xtis, forallb wf_grec gs = true ->
  xls_read_names show_f64 sheets (flat_map enc_grec gs) = Ok (names, xtis) ->
  exists raw, spec_lbls (lbls_of gs) = Ok raw /\ xtis = xtis_of gs /\
    map_o (xls_final_name show_f64 sheets (xtis_of gs) (map fst raw)) raw = Ok names.
Proof.
  intros show_f64 sheets gs names xtis Hwf H. unfold xls_read_names in H.
  rewrite xls_globals_spec in H by exact Hwf.
  destruct (spec_lbls (lbls_of gs)) as [raw|c| |] eqn:E; cbn [obind fst snd app] in H; try discriminate.
  destruct (map_o _ raw) as [l|c| |] eqn:El; cbn [obind] in H; try discriminate.
  injection H as <- <-. exists raw. repeat split. exact El.
Qed.

Theorem defined_names_in_order_xls : forall show_f64 sheets gs names xtis, forallb wf_grec gs = true ->
  xls_read_names show_f64 sheets (flat_map enc_grec gs) = Ok (names, xtis) ->
  map fst names = map lb_logical (lbls_of gs) /\ xtis = xtis_of gs.
Proof.
  intros show_f64 sheets gs names xtis Hwf H.
  destruct (xls_read_names_unfold _ _ _ Hwf H) as (raw & Er & Ex & El).
  split; [|exact Ex]. rewrite (map_o_final_fst _ _ _ _ _ El). apply spec_lbls_fst. exact Er.
Qed.

Lemma spec_lbls_nth : forall ds raw i d, spec_lbls ds = Ok raw -> nth_error ds i = Some d ->
  exists f, nth_error raw i = Some (lb_logical d, (f, lb_rgce d)).
Proof.
  induction ds as [|a t IH]; intros raw i d H Hn; [destruct i; discriminate|].
  cbn [spec_lbls] in H. destruct (parse_defined_names (lb_rgce a)) as [f|c| |]; cbn [obind] in H; try discriminate.
  destruct (spec_lbls t) as [r'|c| |] eqn:Et; cbn [obind] in H; try discriminate. injection H as <-.
  destruct i as [|i]; cbn [nth_error] in *.
  - injection Hn as <-. eauto.
  - apply (IH r' i d eq_refl Hn).
Qed.

(* the reported text of a defined name is the A1 rendering of its whole formula: for every Lbl
   record whose formula encodes a well-formed AST (against the sheets, ALL names of the file and
   the concatenated XTI table) — any grammar construct, names defined through other names
   (stored before or after it) included.  Former known class K_XLS_NAME_FORMULA, repaired by the
   commit "xls defined names other than a single 3-D reference …". *)
Theorem defined_name_text_is_render_xls : forall show_f64 sheets gs names xtis i d e,
  forallb wf_grec gs = true ->
  xls_read_names show_f64 sheets (flat_map enc_grec gs) = Ok (names, xtis) ->
  nth_error (lbls_of gs) i = Some d -> lb_rgce d = encode_xls e ->
  N.of_nat (length (encode_xls e)) < 65536 ->
  let env := {| xe_sheets := sheets; xe_names := map lb_logical (lbls_of gs); xe_xtis := xtis_of gs; xe_base := None |} in
  wf_xls env e = true ->
  nth_error names i = Some (lb_logical d, render_xls show_f64 env e).
Proof.
  intros show_f64 sheets gs names xtis i d e Hwf H Hn Hr Hlen env Hwe.
  destruct (xls_read_names_unfold _ _ _ Hwf H) as (raw & Er & Ex & El).
  destruct (spec_lbls_nth _ _ Er Hn) as [f Hraw].
  destruct (@map_o_nth _ _ _ _ _ _ _ El Hraw) as [y [Ey Hy]]. rewrite Hy. f_equal.
  unfold xls_final_name in Ey. cbn [fst snd] in Ey.
  rewrite (spec_lbls_fst _ Er), Hr in Ey.
  fold env in Ey. rewrite (@rpn_correct_xls show_f64 env e Hwe Hlen) in Ey. injection Ey as <-. reflexivity.
Qed.

(* … through the supporting links of the file (the SupBook records): outside the known class K_EXTERN_BOOK —
   the formula goes through XTIs of this workbook only — the text is the full spec's *)
Theorem defined_name_text_through_links_xls : forall show_f64 sheets gs names xtis i d e,
  forallb wf_grec gs = true ->
  xls_read_names show_f64 sheets (flat_map enc_grec gs) = Ok (names, xtis) ->
  nth_error (lbls_of gs) i = Some d -> lb_rgce d = encode_xls e ->
  N.of_nat (length (encode_xls e)) < 65536 ->
  let env := {| xe_sheets := sheets; xe_names := map lb_logical (lbls_of gs); xe_xtis := xtis_of gs; xe_base := None |} in
  wf_xls env e = true ->
  known_C14 (links_of gs) (xtis_of gs) e = None ->
  nth_error names i = Some (lb_logical d, render_xls_links show_f64 (links_of gs) env e).
Proof.
  intros show_f64 sheets gs names xtis i d e Hwf H Hn Hr Hlen env Hwe Hk. unfold known_C14 in Hk.
  destruct (known_extern (links_of gs) (xtis_of gs) e) eqn:E; [discriminate|].
  rewrite render_xls_links_eq by exact E.
  eapply defined_name_text_is_render_xls; eassumption.
Qed.

Theorem name_index_stable_xls : forall show_f64 sheets gs names xtis i d, forallb wf_grec gs = true ->
  xls_read_names show_f64 sheets (flat_map enc_grec gs) = Ok (names, xtis) ->
  nth_error (lbls_of gs) i = Some d ->
  spec_name (map fst names) (N.of_nat i + 1) = lb_logical d.
Proof.
  intros show_f64 sheets gs names xtis i d Hwf H Hn.
  destruct (defined_names_in_order_xls _ _ _ Hwf H) as [Hm _].
  unfold spec_name. replace (N.of_nat i + 1 - 1) with (N.of_nat i) by lia.
  rewrite nthN_nth_error, Hm, nth_error_map, Hn. reflexivity.
Qed.

Theorem ptgname_is_ith_record_xls : forall show_f64 sheets gs names xtis i d k,
  forallb wf_grec gs = true ->
  xls_read_names show_f64 sheets (flat_map enc_grec gs) = Ok (names, xtis) ->
  nth_error (lbls_of gs) i = Some d -> N.of_nat i + 1 < 4294967296 ->
  xls_parse_formula show_f64 {| xe_sheets := sheets; xe_names := map fst names; xe_xtis := xtis; xe_base := None |}
    (frame_xls (encode_xls (EName k (N.of_nat i + 1)))) = Ok (lb_logical d).
Proof.
  intros show_f64 sheets gs names xtis i d k Hwf H Hn Hi.
  rewrite rpn_correct_xls.
  - unfold render_xls. cbn [render xe_names]. f_equal. eapply name_index_stable_xls; eassumption.
  - unfold wf_xls. cbn [wf xe_names].
    destruct (defined_names_in_order_xls _ _ _ Hwf H) as [Hm _].
    assert (Hlen : length (map fst names) = length (lbls_of gs)) by (rewrite Hm, map_length; reflexivity).
    assert (Hlt : (i < length (lbls_of gs))%nat) by (apply nth_error_Some; rewrite Hn; discriminate).
    rewrite Hlen.
    repeat (apply andb_true_intro; split); try apply N.leb_le; try apply N.ltb_lt; lia.
  - destruct k; cbn; lia.
Qed.

(* a 3-D token's sheet is the itabFirst-th sheet of the ixti-th XTI of the file (all EXTERNSHEET
   records and their CONTINUE records concatenated) — not the ixti-th sheet — written as formula text
   writes it ([sheet_text]: quoted when the grammar demands it); when itabLast names another sheet it
   is the span First:Last ([span_text]; former observation G6: itabLast was never read). *)
Theorem sheet3d_through_xti_xls : forall show_f64 sheets gs names xtis i x nm, forallb wf_grec gs = true ->
  xls_read_names show_f64 sheets (flat_map enc_grec gs) = Ok (names, xtis) ->
  nth_error (xtis_of gs) i = Some x -> snd (fst x) < 32768 -> snd x < 32768 ->
  spec_sheet_xls {| xe_sheets := sheets; xe_names := nm; xe_xtis := xtis; xe_base := None |} (N.of_nat i)
  = match nthN sheets (snd (fst x)), nthN sheets (snd x) with
    | Some a, Some b => if snd (fst x) =? snd x then sheet_text a else span_text a b
    | Some a, None => sheet_text a
    | None, _ => lit "#REF"
    end.
Proof.
  intros show_f64 sheets gs names xtis i x nm Hwf H Hn Hx Hy.
  destruct (defined_names_in_order_xls _ _ _ Hwf H) as [_ Hxt]. subst xtis.
  unfold spec_sheet_xls, sheet_at. cbn [xe_xtis xe_sheets]. rewrite nthN_nth_error, Hn.
  destruct x as [[a b] c]. cbn [fst snd] in *. apply N.ltb_lt in Hx, Hy. rewrite Hx, Hy. reflexivity.
Qed.

(* xlsb: an XTI that points at a sheet of this workbook resolves to that sheet's formula text; one that
   spans two different sheets of the workbook to First:Last *)
Theorem resolve_xti_sheet_text : forall sheets first s, first < 2147483648 ->
  nthN sheets first = Some s -> resolve_xti sheets first first = sheet_text s.
Proof.
  intros sheets first s Hlt Hs. unfold resolve_xti.
  assert (E1 : (first =? 4294967294) = false) by (apply N.eqb_neq; lia).
  assert (E2 : (first =? 4294967295) = false) by (apply N.eqb_neq; lia).
  assert (E3 : (first <? 2147483648) = true) by (apply N.ltb_lt; lia).
  rewrite E1, E2, E3, Hs, N.eqb_refl. cbn [negb andb]. apply quote_sheet_name_spec.
Qed.

Theorem resolve_xti_span_text : forall sheets first last s t, first < 2147483648 -> last < 2147483648 ->
  first <> last -> nthN sheets first = Some s -> nthN sheets last = Some t ->
  resolve_xti sheets first last = span_text s t.
Proof.
  intros sheets first last s t Hf Hl Hne Hs Ht. unfold resolve_xti.
  assert (E1 : (first =? 4294967294) = false) by (apply N.eqb_neq; lia).
  assert (E2 : (first =? 4294967295) = false) by (apply N.eqb_neq; lia).
  assert (E3 : (first <? 2147483648) = true) by (apply N.ltb_lt; lia).
  assert (E4 : (last <? 2147483648) = true) by (apply N.ltb_lt; lia).
  assert (E5 : (last =? first) = false) by (apply N.eqb_neq; congruence).
  rewrite E1, E2, E3, Hs, E4, E5, Ht. cbn [negb andb]. apply quote_sheet_span_spec.
Qed.

(* ================================================================== formula ranges ==== *)
Lemma in_map_fst_filter : forall (cs : list (pos * list N)) q,
  In q (map fst (filter nonempty_cell cs)) -> exists t, In (q, t) cs /\ t <> [].
Proof.
  intros cs q H. apply in_map_iff in H. destruct H as [[p t] [E Hin]]. cbn in E. subst p.
  apply filter_In in Hin. destruct Hin as [Hin Hne]. exists t. split; [exact Hin|].
  intros ->. discriminate.
Qed.

Lemma NoDup_map_fst_filter : forall (cs : list (pos * list N)),
  NoDup (map fst cs) -> NoDup (map fst (filter nonempty_cell cs)).
Proof.
  induction cs as [|c cs IH]; intros H; [constructor|].
  cbn [map] in H. apply NoDup_cons_iff in H. destruct H as [Hn Hd].
  cbn [filter]. destruct (nonempty_cell c); [|apply IH; exact Hd].
  cbn [map]. constructor; [|apply IH; exact Hd].
  intros Hin. apply Hn. apply in_map_iff in Hin. destruct Hin as [c' [E Hin]].
  apply filter_In in Hin. destruct Hin as [Hin _]. rewrite <- E. apply in_map. exact Hin.
Qed.

(* xlsb / xlsx (and the reading of the property for ods): every cell that stores a non-empty
   formula text holds that text at its absolute position, every other cell of the tight bounding
   box of those cells is "", nothing lies outside *)
Theorem stored_text_positions : forall (cells : list (pos * list N)),
  pre empty (OFromSparse (filter nonempty_cell cells)) -> NoDup (map fst cells) ->
  exists r, formula_range false cells = Ok r /\
    rect r = tight_bbox (map fst (filter nonempty_cell cells)) /\
    (forall p t, In (p, t) cells -> t <> [] -> get_value r p = Some t) /\
    (forall q, in_rect r q = true -> (forall t, In (q, t) cells -> t = []) -> get_value r q = Some []) /\
    (forall q, in_rect r q = false -> get_value r q = None).
Proof.
  intros cells Hpre Hnd.
  destruct (formula_positions Hpre (NoDup_map_fst_filter cells Hnd)) as (r & Hfs & Hrect & Hin & Hout & Hnone).
  exists r. split; [exact Hfs|]. split; [exact Hrect|]. split; [|split].
  - intros p t H Hne. apply Hin. apply filter_In. split; [exact H|].
    destruct t; [contradiction|reflexivity].
  - intros q Hr Hall. apply Hout; [exact Hr|].
    intros Hq. apply in_map_fst_filter in Hq. destruct Hq as [t [Hi Hne]]. apply Hne. apply Hall. exact Hi.
  - exact Hnone.
Qed.

(* ================================================================== examples / witnesses ==== *)
Definition ex_names : list name_rec :=
  [ {| nr_flags := 1 + 32; nr_chkey := 0; nr_itab := 0;          (* hidden + built-in *)
       nr_name := lit "_xlnm._FilterDatabase"; nr_rgce := [0x3b; 0; 0; 0;0;0;0; 9;0;0;0; 0;0; 2;0]; nr_tail := [0;0;0;0] |};
    {| nr_flags := 0; nr_chkey := 0; nr_itab := 4294967295;
       (* defined through the name stored AFTER it (PtgName 3): a forward reference, as in every file
          whose names Excel has sorted *)
       nr_name := lit "Rate"; nr_rgce := [0x23; 3;0;0;0; 0x1e; 2; 0; 0x05]; nr_tail := [0;0;0;0; 255;255;255;255] |};
    {| nr_flags := 2 + 8; nr_chkey := 65; nr_itab := 4294967295;  (* function + macro *)
       nr_name := [26085; 128512]; nr_rgce := [0x1e; 5; 0]; nr_tail := [] |} ].

Example xlsb_names_nonvacuous :
  forallb wf_name_rec ex_names = true /\ forallb wf_xti [(0, 1, 1); (0, 4294967294, 4294967294)] = true /\
  xlsb_read_names (fun _ => []) [lit "S1"; lit "O'Neil 2"]
    ((0x0165, []) :: (0x016A, enc_externsheet [(0, 1, 1); (0, 4294967294, 4294967294)])
       :: map (fun d => (0x0027, enc_brtname d)) ex_names ++ [(0x009D, [])])
  = Ok ([lit "'O''Neil 2'"; lit "#ThisWorkbook"],
        [(lit "_xlnm._FilterDatabase", lit "'O''Neil 2'!$A$1:$C$10"); (lit "Rate", [26085; 128512; 42; 50]); ([26085; 128512], lit "5")]).
Proof. vm_compute. repeat split. Qed.

Definition ex_globals : list grec :=
  [ GExt [(0, 1, 1)] [];
    GLbl {| lb_flags := 1 + 32; lb_chkey := 0; lb_itab := 1; lb_wide := false; lb_name := [13];   (* _FilterDatabase *)
            lb_rgce := [0x3b; 0;0; 0;0; 9;0; 0;0; 2;0]; lb_rgcb := [] |};
    GOther 0x0042 [176; 4];
    GLbl {| lb_flags := 0; lb_chkey := 0; lb_itab := 0; lb_wide := true; lb_name := [26085; 128512];
            lb_rgce := [0x3a; 1;0; 4;0; 27;0]; lb_rgcb := [] |};
    GExt [(0, 0, 0)] [] ].

Example xls_names_nonvacuous :
  forallb wf_grec ex_globals = true /\
  xls_read_names (fun _ => []) [lit "S1"; lit "My Sheet"] (flat_map enc_grec ex_globals)
  = Ok ([(lit "_xlnm._FilterDatabase", lit "'My Sheet'!$A$1:$C$10"); ([26085; 128512], lit "S1!$AB$5")], [(0, 1, 1); (0, 0, 0)]).
Proof. vm_compute. repeat split. Qed.

(* ---------- former known class K_XLS_NAME_FORMULA (repaired): a name defined by a constant, by an
   expression over another name stored AFTER it, and a single reference ---------- *)
Example xls_name_formulas_nonvacuous :
  let gs := [ GExt [(0, 0, 0)] [];
              GLbl {| lb_flags := 0; lb_chkey := 0; lb_itab := 0; lb_wide := false; lb_name := lit "Seven";
                      lb_rgce := encode_xls (EInt 7); lb_rgcb := [1; 0; 9; 9] |};
              GLbl {| lb_flags := 1; lb_chkey := 0; lb_itab := 0; lb_wide := false; lb_name := lit "Twice";
                      lb_rgce := encode_xls (EBin 5 (EName CVal 3) (EInt 2)); lb_rgcb := [] |};
              GLbl {| lb_flags := 0; lb_chkey := 0; lb_itab := 0; lb_wide := false; lb_name := lit "Rate";
                      lb_rgce := encode_xls (ERef3d CRef 0 {| cr_row := 1; cr_col := 1; cr_row_rel := false; cr_col_rel := true |}); lb_rgcb := [] |};
              GLbl {| lb_flags := 0; lb_chkey := 0; lb_itab := 0; lb_wide := false; lb_name := lit "Odd";
                      lb_rgce := [0x1e; 7; 0; 0x1e; 8; 0]; lb_rgcb := [] |} ] in
  forallb wf_grec gs = true /\
  xls_read_names (fun _ => []) [lit "S"] (flat_map enc_grec gs)
  = Ok ([(lit "Seven", lit "7"); (lit "Twice", lit "Rate*2"); (lit "Rate", lit "S!B$2");
         (lit "Odd", lit "Unsupported ptg: 1e")], [(0, 0, 0)]).
Proof. vm_compute. repeat split. Qed.

(* ---------- KNOWN FINDING K_EXTERN_BOOK: a name defined by a reference into another workbook.  The file lists
   three supporting links — the add-in functions, another workbook (sheets Data, Other Sheet), this workbook —
   and three XTIs; the name goes through the XTI of the other workbook ---------- *)
Definition A1abs : cref := {| cr_row := 0; cr_col := 0; cr_row_rel := false; cr_col_rel := false |}.
Definition ex_ext_expr : expr := EBin 3 (ERef3d CRef 1 A1abs) (ERef3d CRef 0 A1abs).
Definition ex_ext_globals : list grec :=
  [ GSup SupAddin 1 [];
    GSup (SupExt [lit "Data"; lit "Other Sheet"]) 2 (lit "other.xls");
    GSup SupSelf 2 [];
    GExt [(2, 1, 1); (1, 1, 1); (1, 0, 1)] [];
    GLbl {| lb_flags := 0; lb_chkey := 0; lb_itab := 0; lb_wide := false; lb_name := lit "Their";
            lb_rgce := encode_xls ex_ext_expr; lb_rgcb := [] |};
    GLbl {| lb_flags := 0; lb_chkey := 0; lb_itab := 0; lb_wide := false; lb_name := lit "Ours";
            lb_rgce := encode_xls (ERef3d CRef 0 A1abs); lb_rgcb := [] |} ].
Definition ex_ext_env : xls_env :=
  {| xe_sheets := [lit "S1"; lit "S2"]; xe_names := [lit "Their"; lit "Ours"];
     xe_xtis := xtis_of ex_ext_globals; xe_base := None |}.

Theorem refuted_extern_xls :
  forallb wf_grec ex_ext_globals = true /\ wf_xls ex_ext_env ex_ext_expr = true /\
  links_of ex_ext_globals = [SupAddin; SupExt [lit "Data"; lit "Other Sheet"]; SupSelf] /\
  known_C14 (links_of ex_ext_globals) (xtis_of ex_ext_globals) ex_ext_expr = Some K_EXTERN_BOOK /\
  known_C14 (links_of ex_ext_globals) (xtis_of ex_ext_globals) (ERef3d CRef 0 A1abs) = None /\
  xls_read_names (fun _ => []) [lit "S1"; lit "S2"] (flat_map enc_grec ex_ext_globals)
  = Ok ([(lit "Their", lit "S2!$A$1+S2!$A$1"); (lit "Ours", lit "S2!$A$1")], [(2, 1, 1); (1, 1, 1); (1, 0, 1)]) /\
  render_xls_links (fun _ => []) (links_of ex_ext_globals) ex_ext_env ex_ext_expr = lit "'[1]Other Sheet'!$A$1+S2!$A$1" /\
  render_xls_links (fun _ => []) (links_of ex_ext_globals) ex_ext_env (ERef3d CRef 2 A1abs) = lit "'[1]Data:Other Sheet'!$A$1" /\
  lit "S2!$A$1+S2!$A$1" <> lit "'[1]Other Sheet'!$A$1+S2!$A$1".
Proof. vm_compute. repeat split. discriminate. Qed.

Theorem refuted_extern_xlsb :
  let sheets := [lit "S1"; lit "S2"] in
  let links := [SupAddin; SupExt [lit "Data"; lit "Other Sheet"]; SupSelf] in
  let sups := [(SupAddin, []); (SupExt [lit "Data"; lit "Other Sheet"], enc_wide (lit "rId1")); (SupSelf, [])] in
  let xtis := [(2, 1, 1); (1, 1, 1); (1, 0, 1)] in
  let ds := [ {| nr_flags := 0; nr_chkey := 0; nr_itab := 4294967295; nr_name := lit "Their";
                 nr_rgce := encode_xlsb ex_ext_expr; nr_tail := [] |};
              {| nr_flags := 0; nr_chkey := 0; nr_itab := 4294967295; nr_name := lit "Ours";
                 nr_rgce := encode_xlsb (ERef3d CRef 0 A1abs); nr_tail := [] |} ] in
  let env := {| be_sheets := spec_extern_xlsb sheets xtis; be_names := [lit "Their"; lit "Ours"]; be_base := None |} in
  let full := {| be_sheets := spec_extern_links_xlsb sheets links xtis; be_names := [lit "Their"; lit "Ours"]; be_base := None |} in
  map fst sups = links /\ wf_xlsb env ex_ext_expr = true /\
  known_C14 links xtis ex_ext_expr = Some K_EXTERN_BOOK /\ known_C14 links xtis (ERef3d CRef 0 A1abs) = None /\
  xlsb_read_names (fun _ => []) sheets
    ((0x0161, []) :: map sup_rec_xlsb sups ++ (0x016A, enc_externsheet xtis)
       :: map (fun d => (0x0027, enc_brtname d)) ds ++ [(0x009D, [])])
  = Ok ([lit "S2"; lit "S2"; lit "S1:S2"], [(lit "Their", lit "S2!$A$1+S2!$A$1"); (lit "Ours", lit "S2!$A$1")]) /\
  spec_extern_links_xlsb sheets links xtis = [lit "S2"; lit "'[1]Other Sheet'"; lit "'[1]Data:Other Sheet'"] /\
  render_xlsb (fun _ => []) full ex_ext_expr = lit "'[1]Other Sheet'!$A$1+S2!$A$1" /\
  lit "S2!$A$1+S2!$A$1" <> lit "'[1]Other Sheet'!$A$1+S2!$A$1".
Proof. vm_compute. repeat split. discriminate. Qed.

(* ---------- PtgExp by itself: both decoders answer the empty text for it.  xls (since the commit "fix: xls
   cells of shared and array formulas …"): the sheet loop then replaces the text by the formula of the
   SHRFMLA / ARRAY record the token names (FormulaSheet.v; this lemma is the "text so far" of such a
   cell).  xlsb: nothing looks at BrtShrFmla / BrtArrFmla — known class K_PTGEXP, now xlsb only ---------- *)
Theorem refuted_ptgexp : forall show_f64 xenv benv r c, r < 65536 -> c < 65536 ->
  xls_parse_formula show_f64 xenv (frame_xls (0x01 :: le 2 r ++ le 2 c)) = Ok [] /\
  xlsb_parse_formula show_f64 benv (0x01 :: le 4 r) = Ok [].
Proof.
  intros show_f64 xenv benv r c Hr Hc. split.
  - unfold xls_parse_formula, frame_xls. cbn [length le app Nat.add u16_at skipn obind drop take N.of_nat Pos.of_succ_nat Pos.succ N.div N.modulo].
    vm_compute. reflexivity.
  - vm_compute. reflexivity.
Qed.
