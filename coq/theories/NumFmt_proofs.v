(* NumFmt_proofs.v — proofs for property C10 (model and spec in NumFmt.v).
   Main results:
     scanner_agrees_with_grammar   detect (render a) = classify a  for every well-formed
                                   derivation of the number-format grammar
     builtin_tables_agree          both built-in tables = the ECMA-376 list, all u16 codes
     date_iff_style_{xlsx,xls,xlsb} the style plumbing resolves formats as specified and the
                                   cell value is wrapped accordingly *)
From Calamine Require Import Prelude NumFmt.
Open Scope N_scope.

(* ===================================================================================== *)
(** * 1. Generic facts about [run] *)

(* [run] over a prefix of the format: the scanner looks ahead (only to recognise the keyword
   General), so a step inside the prefix sees the rest of the prefix followed by [tail] *)
Fixpoint run_with (tail : list N) (q : st) (l : list N) : step_result :=
  match l with
  | [] => Continue q
  | c :: t => match step q c (t ++ tail) with
              | Continue q' => run_with tail q' t
              | Return f => Return f
              end
  end.

Lemma run_app : forall l1 l2 q,
  run q (l1 ++ l2) = match run_with l2 q l1 with
                     | Continue q' => run q' l2
                     | Return f => Return f
                     end.
Proof.
  induction l1 as [|c l1 IH]; intros l2 q; cbn [run run_with app]; [reflexivity|].
  destruct (step q c (l1 ++ l2)) as [q'|f]; [apply IH|reflexivity].
Qed.

Lemma run_with_app : forall l1 l2 tail q,
  run_with tail q (l1 ++ l2) = match run_with (l2 ++ tail) q l1 with
                               | Continue q' => run_with tail q' l2
                               | Return f => Return f
                               end.
Proof.
  induction l1 as [|c l1 IH]; intros l2 tail q; cbn [run_with app]; [reflexivity|].
  rewrite <- app_assoc.
  destruct (step q c (l1 ++ l2 ++ tail)) as [q'|f]; [apply IH|reflexivity].
Qed.

Lemma run_with_nil : forall l q, run_with [] q l = run q l.
Proof.
  induction l as [|c l IH]; intros q; cbn [run run_with]; [reflexivity|].
  rewrite app_nil_r. destruct (step q c l); [apply IH|reflexivity].
Qed.

Lemma run_with_app_continue : forall l1 l2 tail q q',
  run_with (l2 ++ tail) q l1 = Continue q' -> run_with tail q (l1 ++ l2) = run_with tail q' l2.
Proof. intros l1 l2 tail q q' H. rewrite run_with_app, H. reflexivity. Qed.

Lemma run_with_app_return : forall l1 l2 tail q f,
  run_with (l2 ++ tail) q l1 = Return f -> run_with tail q (l1 ++ l2) = Return f.
Proof. intros l1 l2 tail q f H. rewrite run_with_app, H. reflexivity. Qed.

(* A proof device: the same step with the two pure conjuncts of the default arm commuted, so
   that [vm_compute] on a concrete character does not get stuck on an abstract [prev]. *)
Definition step' (q : st) (s : N) (rest : list N) : step_result :=
  let '(mkSt e iq b p h a ar dg kw) := q in
  if 0 <? kw then Continue (mkSt e iq b p h a ar dg (kw - 1))
  else
  let exponent := dg in
  let plain_a := negb e && negb iq && (b =? 0) && is_a s in
  if plain_a && (ar + 1 =? 3) then Return DateTime
  else
  let ar := if plain_a then ar + 1 else 0 in
  if e then Continue (mkSt false iq b s h a ar false 0)
  else if (s =? 34) && iq then Continue (mkSt e false b s h a ar false 0)
  else if iq then Continue (mkSt e iq b s h a ar false 0)
  else if is_esc s then Continue (mkSt true iq b s h a ar false 0)
  else if s =? 34 then Continue (mkSt e true b s h a ar false 0)
  else if s =? 59 then Return Other
  else if s =? 91 then Continue (mkSt e iq (sat_inc b) s h a ar false 0)
  else if (s =? 93) && (b =? 1) && h then Return TimeDelta
  else if s =? 93 then Continue (mkSt e iq (sat_dec b) s h a ar false 0)
  else if is_a s && negb a && (b =? 0) then Continue (mkSt e iq b s h true ar false 0)
  else if is_pm_slash s && a && (b =? 0) then Return DateTime
  else if is_g s && (b =? 0) && is_general (s :: rest) then Continue (mkSt e iq b s h a ar false 6)
  else if is_e s && negb a && (b =? 0) && negb exponent then Return DateTime
  else if is_gb s && negb a && (b =? 0) then Return DateTime
  else if is_date_letter s && negb a && (b =? 0) then Return DateTime
  else
    let h' := if h && eq_ignore_ascii_case s p then h else is_mhs s && (p =? 91) in
    Continue (mkSt e iq b s h' false ar (is_placeholder s) 0).

Fixpoint run_with' (tail : list N) (q : st) (l : list N) : step_result :=
  match l with
  | [] => Continue q
  | c :: t => match step' q c (t ++ tail) with
              | Continue q' => run_with' tail q' t
              | Return f => Return f
              end
  end.

Lemma step_eq : forall q s rest, step q s rest = step' q s rest.
Proof.
  intros [e iq b p h a ar dg kw] s rest. unfold step, step'.
  rewrite (andb_comm (p =? 91) (is_mhs s)). reflexivity.
Qed.

Lemma run_with_eq : forall l tail q, run_with tail q l = run_with' tail q l.
Proof.
  induction l as [|c l IH]; intros tail q; cbn [run_with run_with']; [reflexivity|].
  rewrite step_eq. destruct (step' q c (l ++ tail)); [apply IH|reflexivity].
Qed.

(* boundary state: outside quotes, escapes and brackets, hms and ap clear, no `a` counted, no
   keyword being skipped; [d] = the last character was a digit placeholder *)
Definition B (p : N) (d : bool) : st := mkSt false false 0 p false false 0 d 0.

(* ---- the counters cannot overflow: every state reached from [init] has a_run <= 2 (so that
   `a_run += 1` stays below 256) and keyword <= 6 ---- *)
Definition bounded (q : st) : Prop := a_run q <= 2 /\ keyword q <= 6.

Lemma step_bounded : forall q s rest q', bounded q -> step q s rest = Continue q' -> bounded q'.
Proof.
  intros [e iq b p h a ar dg kw] s rest q' [Ha Hk]. cbn [a_run keyword] in *. unfold step.
  destruct (0 <? kw) eqn:Ekw.
  { intros H. inversion H; subst. split; cbn [a_run keyword]; lia. }
  set (pa := negb e && negb iq && (b =? 0) && is_a s).
  destruct pa eqn:Epa; cbn [andb].
  - destruct (ar + 1 =? 3) eqn:E3; [discriminate|].
    assert (Har : ar + 1 <= 2) by lia.
    repeat match goal with
           | |- context [if ?c then _ else _] => destruct c
           end; intros H; inversion H; subst; split; cbn [a_run keyword]; lia.
  - repeat match goal with
           | |- context [if ?c then _ else _] => destruct c
           end; intros H; inversion H; subst; split; cbn [a_run keyword]; lia.
Qed.

Lemma run_with_bounded : forall l tail q q',
  bounded q -> run_with tail q l = Continue q' -> bounded q'.
Proof.
  induction l as [|c l IH]; intros tail q q' Hb H; cbn [run_with] in H.
  - inversion H; subst. exact Hb.
  - destruct (step q c (l ++ tail)) as [q1|f] eqn:E; [|discriminate].
    apply (IH tail q1 q'); [eapply step_bounded; eassumption|exact H].
Qed.

Theorem a_run_bounded : forall l1 l2 q, run_with l2 init l1 = Continue q -> a_run q <= 2 /\ keyword q <= 6.
Proof. intros l1 l2 q H. apply (run_with_bounded l1 l2 init q); [split; cbn; lia|exact H]. Qed.

(* ===================================================================================== *)
(** * 2. Character-level lemmas *)

(* --- escapes: \c, _c and the fill prefix *c swallow any character --- *)
Lemma step_escaped : forall iq b p h a ar dg c rest,
  step (mkSt true iq b p h a ar dg 0) c rest = Continue (mkSt false iq b c h a 0 false 0).
Proof. reflexivity. Qed.

Lemma esc_not_a : forall e, is_esc e = true -> is_a e = false.
Proof. intros e H. unfold is_esc, is_a, mem in *. cbn [existsb] in *. lia. Qed.

(* N arithmetic is opaque to cbn: the few closed comparisons a boundary state produces *)
Ltac nred := repeat (progress (change (0 <? 0) with false; change (0 =? 0) with true;
                               change (0 + 1 =? 3) with false; change (1 =? 0) with false;
                               cbn [negb andb orb])).

Lemma step_B_esc : forall p d e rest, is_esc e = true ->
  step (B p d) e rest = Continue (mkSt true false 0 e false false 0 false 0).
Proof.
  intros p d e rest He. unfold B, step. rewrite (esc_not_a e He), He. nred.
  rewrite andb_false_r. reflexivity.
Qed.

Lemma run_esc_pair : forall tail p d e c, is_esc e = true ->
  run_with tail (B p d) [e; c] = Continue (B c false).
Proof.
  intros tail p d e c He. cbn [run_with]. rewrite (step_B_esc p d e _ He), step_escaped. reflexivity.
Qed.

(* --- quoted text: nothing is special between the quotes --- *)
Definition Q (p : N) : st := mkSt false true 0 p false false 0 false 0.

Lemma step_Q : forall p c rest, (c =? 34) = false -> step (Q p) c rest = Continue (Q c).
Proof. intros p c rest H. unfold Q, step. rewrite H. reflexivity. Qed.

Lemma run_quoted_body : forall s tail p, mem 34 s = false ->
  exists p', run_with tail (Q p) s = Continue (Q p').
Proof.
  induction s as [|c s IH]; intros tail p Hs.
  - exists p. reflexivity.
  - unfold mem in Hs. cbn [existsb] in Hs. apply orb_false_iff in Hs. destruct Hs as [Hc Hs].
    rewrite N.eqb_sym in Hc.
    cbn [run_with]. rewrite (step_Q p c _ Hc). apply (IH tail c Hs).
Qed.

Lemma step_B_quote : forall p d rest, step (B p d) 34 rest = Continue (Q 34).
Proof. reflexivity. Qed.
Lemma step_Q_quote : forall p rest, step (Q p) 34 rest = Continue (B 34 false).
Proof. reflexivity. Qed.

Lemma run_quoted : forall tail p d s, mem 34 s = false ->
  run_with tail (B p d) (34 :: s ++ [34]) = Continue (B 34 false).
Proof.
  intros tail p d s Hs. cbn [run_with]. rewrite step_B_quote.
  destruct (run_quoted_body s ([34] ++ tail) 34 Hs) as [p' Hr].
  rewrite (run_with_app_continue s [34] tail _ _ Hr). cbn [run_with]. rewrite step_Q_quote. reflexivity.
Qed.

(* --- brackets --- *)
Definition K (h : bool) (p : N) (d : bool) : st := mkSt false false 1 p h false 0 d 0.

Definition hms_next (p : N) (h : bool) (c : N) : bool :=
  if h && eq_ignore_ascii_case c p then h else (p =? 91) && is_mhs c.

Fixpoint hms_after (p : N) (h : bool) (l : list N) : bool :=
  match l with
  | [] => h
  | c :: t => hms_after c (hms_next p h c) t
  end.

Definition no_special (l : list N) : bool := forallb (fun c => negb (bracket_special c)) l.

Lemma step_bracket_inner : forall h p d c rest, bracket_special c = false ->
  step (K h p d) c rest = Continue (K (hms_next p h c) c (is_placeholder c)).
Proof.
  intros h p d c rest Hc. unfold bracket_special, mem in Hc. cbn [existsb] in Hc.
  unfold K, step, is_esc, mem. cbn [existsb].
  assert (H91 : (c =? 91) = false) by lia.
  assert (H93 : (c =? 93) = false) by lia.
  assert (H34 : (c =? 34) = false) by lia.
  assert (H92 : (c =? 92) = false) by lia.
  assert (H95 : (c =? 95) = false) by lia.
  assert (H42 : (c =? 42) = false) by lia.
  assert (H59 : (c =? 59) = false) by lia.
  rewrite H91, H93, H34, H92, H95, H42, H59. cbn [orb andb negb].
  replace (1 =? 0) with false by reflexivity.
  rewrite !andb_false_r. cbn [andb]. reflexivity.
Qed.

Lemma run_bracket_inner : forall l tail h p d, no_special l = true ->
  exists p' d', run_with tail (K h p d) l = Continue (K (hms_after p h l) p' d').
Proof.
  intros l. induction l as [|c l IH]; intros tail h p d Hl; [exists p, d; reflexivity|].
  unfold no_special in Hl. cbn [forallb] in Hl. apply andb_true_iff in Hl. destruct Hl as [Hc Hl].
  apply negb_true_iff in Hc.
  cbn [run_with hms_after]. rewrite (step_bracket_inner h p d c _ Hc). apply (IH _ _ _ _ Hl).
Qed.

Definition elapsed_form (l : list N) : bool :=
  match l with
  | [] => false
  | c1 :: rest => is_mhs c1 && forallb (eq_ignore_ascii_case c1) rest
  end.

Lemma lower_neq_91 : forall c, c <> 91 -> to_ascii_lowercase c <> 91.
Proof. intros c H. unfold to_ascii_lowercase. destruct ((65 <=? c) && (c <=? 90)) eqn:E; lia. Qed.

Lemma hms_after_false : forall l p, p <> 91 -> mem 91 l = false -> hms_after p false l = false.
Proof.
  induction l as [|c l IH]; intros p Hp Hl; [reflexivity|].
  unfold mem in Hl. cbn [existsb] in Hl. apply orb_false_iff in Hl. destruct Hl as [Hc Hl].
  cbn [hms_after]. unfold hms_next. cbn [andb].
  replace (p =? 91) with false by lia. cbn [andb].
  apply IH; [lia|exact Hl].
Qed.

Lemma hms_after_chain : forall l c1 p h, p <> 91 -> mem 91 l = false ->
  to_ascii_lowercase p = to_ascii_lowercase c1 ->
  hms_after p h l = h && forallb (eq_ignore_ascii_case c1) l.
Proof.
  induction l as [|c l IH]; intros c1 p h Hp Hl Hlow.
  - cbn. rewrite andb_true_r. reflexivity.
  - unfold mem in Hl. cbn [existsb] in Hl. apply orb_false_iff in Hl. destruct Hl as [Hc Hl].
    cbn [hms_after forallb]. unfold hms_next.
    replace (p =? 91) with false by lia. cbn [andb].
    destruct h; cbn [andb].
    + assert (E : eq_ignore_ascii_case c p = eq_ignore_ascii_case c1 c).
      { unfold eq_ignore_ascii_case. rewrite Hlow. apply N.eqb_sym. }
      rewrite E. destruct (eq_ignore_ascii_case c1 c) eqn:E1; cbn [andb].
      * rewrite (IH c1 c true); [reflexivity|lia|exact Hl|].
        unfold eq_ignore_ascii_case in E1. apply N.eqb_eq in E1. symmetry. exact E1.
      * apply hms_after_false; [lia|exact Hl].
    + apply hms_after_false; [lia|exact Hl].
Qed.

Lemma no_special_no_91 : forall l, no_special l = true -> mem 91 l = false.
Proof.
  induction l as [|c l IH]; intros H; [reflexivity|].
  unfold no_special in H. cbn [forallb] in H. apply andb_true_iff in H. destruct H as [Hc Hl].
  unfold mem. cbn [existsb]. fold (mem 91 l). rewrite (IH Hl), orb_false_r.
  unfold bracket_special, mem in Hc. cbn [existsb] in Hc. lia.
Qed.

(* (an empty bracket would keep the old hms; bracket tokens are never empty) *)
Lemma hms_after_bracket : forall c1 rest h, no_special (c1 :: rest) = true ->
  hms_after 91 h (c1 :: rest) = elapsed_form (c1 :: rest).
Proof.
  intros c1 rest h Hl. pose proof (no_special_no_91 _ Hl) as H91.
  unfold mem in H91. cbn [existsb] in H91. apply orb_false_iff in H91. destruct H91 as [Hc Hr].
  assert (Hc1 : c1 <> 91) by lia.
  cbn [hms_after elapsed_form]. unfold hms_next.
  assert (E : eq_ignore_ascii_case c1 91 = false).
  { unfold eq_ignore_ascii_case. apply N.eqb_neq. change (to_ascii_lowercase 91) with 91.
    apply lower_neq_91. exact Hc1. }
  rewrite E, andb_false_r. replace (91 =? 91) with true by reflexivity. cbn [andb].
  apply hms_after_chain; [exact Hc1|exact Hr|reflexivity].
Qed.

Lemma step_B_open : forall p d rest, step (B p d) 91 rest = Continue (K false 91 false).
Proof. reflexivity. Qed.
Lemma step_K_close : forall h p d rest,
  step (K h p d) 93 rest = if h then Return TimeDelta else Continue (B 93 false).
Proof. intros [] p d rest; reflexivity. Qed.

Lemma run_bracket_token : forall tail p d c1 rest, no_special (c1 :: rest) = true ->
  run_with tail (B p d) (91 :: (c1 :: rest) ++ [93]) =
    if elapsed_form (c1 :: rest) then Return TimeDelta else Continue (B 93 false).
Proof.
  intros tail p d c1 rest H. cbn [run_with]. rewrite step_B_open.
  change ((c1 :: rest ++ [93]) ) with ((c1 :: rest) ++ [93]).
  destruct (run_bracket_inner (c1 :: rest) ([93] ++ tail) false 91 false H) as (p' & d' & Hr).
  rewrite (run_with_app_continue _ [93] tail _ _ Hr). cbn [run_with]. rewrite step_K_close.
  rewrite hms_after_bracket by assumption.
  destruct (elapsed_form (c1 :: rest)); reflexivity.
Qed.

(* --- characters the scanner ignores at a boundary (they only set or clear [digit]) --- *)
Lemma step_inert_char : forall p d c rest, significant c = false ->
  step (B p d) c rest = Continue (B c (is_placeholder c)).
Proof.
  intros p d c rest H. unfold significant, mem in H. cbn [existsb] in H.
  unfold B, step, is_esc, is_a, is_pm_slash, is_date_letter, is_mhs, is_g, is_e, is_gb, mem.
  cbn [existsb].
  repeat match goal with
         | |- context [c =? ?k] => replace (c =? k) with false by lia
         end.
  nred. rewrite andb_false_r. reflexivity.
Qed.

Definition inert_list (l : list N) : bool := forallb (fun c => negb (significant c)) l.

Lemma run_inert_list : forall l tail p d, inert_list l = true ->
  exists p' d', run_with tail (B p d) l = Continue (B p' d').
Proof.
  induction l as [|c l IH]; intros tail p d H; [exists p, d; reflexivity|].
  unfold inert_list in H. cbn [forallb] in H. apply andb_true_iff in H. destruct H as [Hc Hl].
  apply negb_true_iff in Hc. cbn [run_with]. rewrite (step_inert_char p d c _ Hc). apply (IH _ c _ Hl).
Qed.

(* zeros: inert, and they leave [digit] set *)
Lemma run_zeros : forall n tail p d,
  run_with tail (B p d) (repeat 48 (S n)) = Continue (B 48 true).
Proof.
  induction n as [|n IH]; intros tail p d.
  - cbn [repeat run_with]. rewrite step_inert_char by reflexivity. reflexivity.
  - change (repeat 48 (S (S n))) with (48 :: repeat 48 (S n)). cbn [run_with].
    rewrite step_inert_char by reflexivity. apply IH.
Qed.

(* --- case flags --- *)
Definition recase1 (u : bool) (c : N) : N := if u then to_ascii_uppercase c else c.

Lemma recase_cons : forall c w ups,
  recase (c :: w) ups = recase1 (hd false ups) c :: recase w (tl ups).
Proof. intros c w [|u ups]; reflexivity. Qed.

Lemma recase_nil : forall ups, recase [] ups = [].
Proof. intros [|u ups]; reflexivity. Qed.

Lemma special_recase1 : forall u c, bracket_special (recase1 u c) = bracket_special c.
Proof.
  intros u c. destruct u; [|reflexivity]. unfold recase1, to_ascii_uppercase.
  destruct ((97 <=? c) && (c <=? 122)) eqn:E; [|reflexivity].
  unfold bracket_special, mem. cbn [existsb]. lia.
Qed.

Lemma no_special_recase : forall w ups, no_special (recase w ups) = no_special w.
Proof.
  induction w as [|c w IH]; intros ups; [rewrite recase_nil; reflexivity|].
  rewrite recase_cons. unfold no_special in *. cbn [forallb]. rewrite special_recase1, IH. reflexivity.
Qed.

Lemma lower_recase1 : forall u c, to_ascii_lowercase (recase1 u c) = to_ascii_lowercase c.
Proof.
  intros u c. destruct u; [|reflexivity]. unfold recase1, to_ascii_uppercase, to_ascii_lowercase.
  destruct ((97 <=? c) && (c <=? 122)) eqn:E; [|reflexivity].
  destruct ((65 <=? c - 32) && (c - 32 <=? 90)) eqn:E1; destruct ((65 <=? c) && (c <=? 90)) eqn:E2; lia.
Qed.

Lemma is_mhs_lower : forall c, is_mhs c = is_mhs (to_ascii_lowercase c).
Proof.
  intros c. unfold to_ascii_lowercase. destruct ((65 <=? c) && (c <=? 90)) eqn:E; [|reflexivity].
  unfold is_mhs, mem. cbn [existsb]. lia.
Qed.

Lemma no_special_app : forall l1 l2, no_special (l1 ++ l2) = no_special l1 && no_special l2.
Proof. intros l1 l2. unfold no_special. apply forallb_app. Qed.

(* --- digits --- *)
Lemma decimal_aux_digits : forall fuel n acc, forallb is_digit acc = true ->
  forallb is_digit (decimal_aux fuel n acc) = true.
Proof.
  induction fuel as [|f IH]; intros n acc H; [exact H|].
  cbn [decimal_aux]. destruct (n <? 10) eqn:E.
  - cbn [forallb]. rewrite H, andb_true_r. unfold is_digit. lia.
  - apply IH. cbn [forallb]. rewrite H, andb_true_r. unfold is_digit. lia.
Qed.

Lemma decimal_digits : forall n, forallb is_digit (decimal n) = true.
Proof. intros n. apply decimal_aux_digits. reflexivity. Qed.

Lemma forallb_impl : forall (f g : N -> bool) l,
  (forall c, f c = true -> g c = true) -> forallb f l = true -> forallb g l = true.
Proof.
  intros f g l Hfg. induction l as [|c l IH]; [reflexivity|].
  cbn [forallb]. intros H. apply andb_true_iff in H. destruct H as [Hc Hl].
  rewrite (Hfg c Hc), (IH Hl). reflexivity.
Qed.

Lemma digit_not_special : forall c, is_digit c = true -> negb (bracket_special c) = true.
Proof. intros c. unfold is_digit, bracket_special, mem. cbn [existsb]. lia. Qed.
Lemma hex_not_special : forall c, is_hex c = true -> negb (bracket_special c) = true.
Proof. intros c. unfold is_hex, is_digit, bracket_special, mem. cbn [existsb]. lia. Qed.
Lemma numchar_not_special : forall c, is_numchar c = true -> negb (bracket_special c) = true.
Proof. intros c. unfold is_numchar, is_digit, bracket_special, mem. cbn [existsb]. lia. Qed.


(* ===================================================================================== *)
(** * 3. Token-level lemmas *)

(* the three bracketed prefixes are never of the elapsed form and contain no special character *)
Lemma elapsed_form_first : forall c1 rest, is_mhs c1 = false -> elapsed_form (c1 :: rest) = false.
Proof. intros c1 rest H. cbn [elapsed_form]. rewrite H. reflexivity. Qed.

Lemma elapsed_form_second : forall c1 c2 rest,
  to_ascii_lowercase c1 <> to_ascii_lowercase c2 -> elapsed_form (c1 :: c2 :: rest) = false.
Proof.
  intros c1 c2 rest H. cbn [elapsed_form forallb]. unfold eq_ignore_ascii_case at 1.
  replace (to_ascii_lowercase c1 =? to_ascii_lowercase c2) with false by lia.
  cbn [andb]. apply andb_false_r.
Qed.

Lemma colour_content : forall c ups, wf_tok (TColour c ups) = true ->
  exists c1 rest, bracket_content (TColour c ups) = c1 :: rest /\
                  no_special (c1 :: rest) = true /\ elapsed_form (c1 :: rest) = false.
Proof.
  intros c ups Hwf. cbn [bracket_content].
  assert (Hns : no_special (recase (colour_name c) ups ++ colour_suffix c) = true).
  { rewrite no_special_app, no_special_recase. apply andb_true_iff. split.
    - destruct c; reflexivity.
    - destruct c; try reflexivity. cbn [colour_suffix]. unfold no_special.
      apply forallb_impl with (f := is_digit); [apply digit_not_special|apply decimal_digits]. }
  destruct c; cbn [colour_name] in *; rewrite recase_cons in *; cbn [app] in *;
    eexists; eexists; (split; [reflexivity|]); (split; [exact Hns|]);
    try (apply elapsed_form_first; rewrite is_mhs_lower, lower_recase1; reflexivity).
  (* magenta: m then a *)
  rewrite recase_cons. cbn [app]. apply elapsed_form_second. rewrite !lower_recase1.
  vm_compute. discriminate.
Qed.

Lemma cond_content : forall op num, wf_tok (TCond op num) = true ->
  exists c1 rest, bracket_content (TCond op num) = c1 :: rest /\
                  no_special (c1 :: rest) = true /\ elapsed_form (c1 :: rest) = false.
Proof.
  intros op num Hwf. cbn [wf_tok] in Hwf. apply andb_true_iff in Hwf. destruct Hwf as [_ Hnum].
  assert (Hn : no_special num = true).
  { unfold no_special. apply forallb_impl with (f := is_numchar); [apply numchar_not_special|exact Hnum]. }
  cbn [bracket_content].
  destruct op; cbn [cmp_chars app]; eexists; eexists; (split; [reflexivity|]); split;
    try (apply elapsed_form_first; reflexivity);
    unfold no_special in *; cbn [forallb]; rewrite Hn; reflexivity.
Qed.

Lemma locale_content : forall cur lcid, wf_tok (TLocale cur lcid) = true ->
  exists c1 rest, bracket_content (TLocale cur lcid) = c1 :: rest /\
                  no_special (c1 :: rest) = true /\ elapsed_form (c1 :: rest) = false.
Proof.
  intros cur lcid Hwf. cbn [wf_tok] in Hwf. apply andb_true_iff in Hwf. destruct Hwf as [Hcur Hl].
  cbn [bracket_content]. eexists; eexists; split; [reflexivity|]. split.
  - change (36 :: cur ++ match lcid with [] => [] | _ :: _ => 45 :: lcid end)
      with ([36] ++ cur ++ match lcid with [] => [] | _ :: _ => 45 :: lcid end).
    rewrite !no_special_app. change (no_special cur) with (forallb (fun c => negb (bracket_special c)) cur).
    rewrite Hcur. cbn [andb]. change (no_special [36]) with true. cbn [andb].
    destruct lcid as [|x lcid]; [reflexivity|].
    change (45 :: x :: lcid) with ([45] ++ x :: lcid). rewrite no_special_app.
    change (no_special [45]) with true. cbn [andb]. unfold no_special.
    apply forallb_impl with (f := is_hex); [apply hex_not_special|exact Hl].
  - apply elapsed_form_first. reflexivity.
Qed.

Lemma run_prefix_bracket : forall t tail p d c1 rest,
  bracket_content t = c1 :: rest -> no_special (c1 :: rest) = true ->
  elapsed_form (c1 :: rest) = false ->
  run_with tail (B p d) (91 :: bracket_content t ++ [93]) = Continue (B 93 false).
Proof.
  intros t tail p d c1 rest E Hns Hel. rewrite E, run_bracket_token by exact Hns. rewrite Hel. reflexivity.
Qed.

(* elapsed tokens *)
Lemma recase_repeat_lower : forall c n ups,
  Forall (fun x => to_ascii_lowercase x = to_ascii_lowercase c) (recase (repeat c n) ups).
Proof.
  intros c n. induction n as [|n IH]; intros ups; cbn [repeat].
  - rewrite recase_nil. constructor.
  - rewrite recase_cons. constructor; [apply lower_recase1|apply IH].
Qed.

Lemma elapsed_content : forall l n ups,
  exists c1 rest, bracket_content (TElapsed l n ups) = c1 :: rest /\
                  no_special (c1 :: rest) = true /\ elapsed_form (c1 :: rest) = true.
Proof.
  intros l n ups. cbn [bracket_content repeat]. rewrite recase_cons.
  eexists; eexists; split; [reflexivity|]. split.
  - rewrite <- recase_cons. rewrite no_special_recase. change (eletter_char l :: repeat (eletter_char l) n)
      with (repeat (eletter_char l) (S n)).
    unfold no_special. induction (S n) as [|k IH]; [reflexivity|]. cbn [repeat forallb]. rewrite IH.
    destruct l; reflexivity.
  - cbn [elapsed_form]. apply andb_true_iff. split.
    + rewrite is_mhs_lower, lower_recase1. destruct l; reflexivity.
    + pose proof (recase_repeat_lower (eletter_char l) n (tl ups)) as F.
      induction F as [|x xs Hx _ IH]; [reflexivity|]. cbn [forallb]. rewrite IH, andb_true_r.
      unfold eq_ignore_ascii_case. rewrite lower_recase1, Hx. apply N.eqb_refl.
Qed.

Lemma run_elapsed : forall l n ups tail p d,
  run_with tail (B p d) (render_tok (TElapsed l n ups)) = Return TimeDelta.
Proof.
  intros l n ups tail p d. destruct (elapsed_content l n ups) as (c1 & rest & E & Hns & Hel).
  cbn [render_tok]. rewrite E, run_bracket_token by exact Hns. rewrite Hel. reflexivity.
Qed.

(* date tokens: the first letter decides *)
Lemma run_with_first : forall tail q c w f,
  (forall rest, step q c rest = Return f) -> run_with tail q (c :: w) = Return f.
Proof. intros tail q c w f H. cbn [run_with]. rewrite H. reflexivity. Qed.

Lemma run_date : forall l n ups tail p d,
  run_with tail (B p d) (render_tok (TDate l n ups)) = Return DateTime.
Proof.
  intros l n ups tail p d. cbn [render_tok repeat]. rewrite recase_cons.
  apply run_with_first. intros rest. rewrite step_eq.
  destruct l, (hd false ups); vm_compute; reflexivity.
Qed.

Lemma run_buddhist : forall long ups tail p d,
  run_with tail (B p d) (render_tok (TBuddhist long ups)) = Return DateTime.
Proof.
  intros long ups tail p d. cbn [render_tok].
  assert (E : exists w, recase (repeat 98 (if long then 4 else 2)%nat) ups = recase1 (hd false ups) 98 :: w).
  { destruct long; cbn [repeat]; rewrite recase_cons; eexists; reflexivity. }
  destruct E as [w ->]. apply run_with_first. intros rest. rewrite step_eq.
  destruct (hd false ups); vm_compute; reflexivity.
Qed.

(* the year of the era decides unless it stands where an exponent does: after a digit placeholder *)
Lemma run_erayear : forall long ups tail p,
  run_with tail (B p false) (render_tok (TEraYear long ups)) = Return DateTime.
Proof.
  intros long ups tail p. cbn [render_tok].
  assert (E : exists w, recase (repeat 101 (if long then 2 else 1)%nat) ups = recase1 (hd false ups) 101 :: w).
  { destruct long; cbn [repeat]; rewrite recase_cons; eexists; reflexivity. }
  destruct E as [w ->]. apply run_with_first. intros rest. rewrite step_eq.
  destruct (hd false ups); vm_compute; reflexivity.
Qed.

(* the era: g decides unless the keyword General starts here, i.e. unless "eneral" follows *)
Definition hd_n (l : list N) : bool :=
  match l with c :: _ => to_ascii_lowercase c =? 110 | [] => false end.
Definition starts_en (l : list N) : bool :=
  match l with c :: l' => (to_ascii_lowercase c =? 101) && hd_n l' | [] => false end.

Lemma is_general_g : forall g X, starts_en X = false -> is_general (g :: X) = false.
Proof.
  intros g X H. unfold is_general, kw_general. cbn [starts_with_ci].
  destruct X as [|c X]; [apply andb_false_r|]. cbn [starts_with_ci].
  cbn [starts_en] in H. destruct (to_ascii_lowercase c =? 101); cbn [andb] in *; [|apply andb_false_r].
  destruct X as [|c2 X]; [apply andb_false_r|]. cbn [starts_with_ci hd_n] in *. rewrite H.
  cbn [andb]. apply andb_false_r.
Qed.

Lemma step_B_g : forall p d u rest, is_general (recase1 u 103 :: rest) = false ->
  step (B p d) (recase1 u 103) rest = Return DateTime.
Proof.
  intros p d u rest H. unfold B, step.
  destruct u; [change (recase1 true 103) with 71 in *|change (recase1 false 103) with 103 in *];
    rewrite H; vm_compute; reflexivity.
Qed.

Lemma run_era : forall n ups tail p d, starts_en tail = false ->
  run_with tail (B p d) (render_tok (TEra n ups)) = Return DateTime.
Proof.
  intros n ups tail p d Ht. cbn [render_tok repeat]. rewrite recase_cons. cbn [run_with].
  rewrite step_B_g; [reflexivity|]. apply is_general_g.
  destruct n as [|n]; cbn [repeat].
  - rewrite recase_nil. exact Ht.
  - rewrite recase_cons. cbn [app starts_en]. rewrite lower_recase1. reflexivity.
Qed.

(* am/pm, a/p, the day of the week: `a`s *)
Lemma run_ampm : forall ups tail p d,
  run_with tail (B p d) (render_tok (TAmPm ups)) = Return DateTime.
Proof.
  intros ups tail p d. cbn [render_tok]. unfold w_ampm. rewrite 2!recase_cons.
  match goal with |- run_with _ _ (?c1 :: ?c2 :: ?r) = _ =>
    change (c1 :: c2 :: r) with ([c1; c2] ++ r) end.
  apply run_with_app_return. rewrite run_with_eq.
  destruct (hd false ups), (hd false (tl ups)); vm_compute; reflexivity.
Qed.

Lemma run_ap : forall ups tail p d,
  run_with tail (B p d) (render_tok (TAP ups)) = Return DateTime.
Proof.
  intros ups tail p d. cbn [render_tok]. unfold w_ap. rewrite 2!recase_cons.
  match goal with |- run_with _ _ (?c1 :: ?c2 :: ?r) = _ =>
    change (c1 :: c2 :: r) with ([c1; c2] ++ r) end.
  apply run_with_app_return. rewrite run_with_eq.
  destruct (hd false ups), (hd false (tl ups)); vm_compute; reflexivity.
Qed.

Lemma run_weekday : forall long ups tail p d,
  run_with tail (B p d) (render_tok (TWeekday long ups)) = Return DateTime.
Proof.
  intros long ups tail p d. cbn [render_tok].
  assert (E : exists w, recase (repeat 97 (if long then 4 else 3)%nat) ups =
                        [recase1 (hd false ups) 97; recase1 (hd false (tl ups)) 97;
                         recase1 (hd false (tl (tl ups))) 97] ++ w).
  { destruct long; cbn [repeat]; rewrite 3!recase_cons; eexists; reflexivity. }
  destruct E as [w ->]. apply run_with_app_return. rewrite run_with_eq.
  destruct (hd false ups), (hd false (tl ups)), (hd false (tl (tl ups))); vm_compute; reflexivity.
Qed.

(* General: seven letters in any casing, passed over as a keyword *)
Lemma run_general : forall ups tail p d,
  exists p', run_with tail (B p d) (render_tok (TGeneral ups)) = Continue (B p' false).
Proof.
  intros ups tail p d. cbn [render_tok]. unfold w_general. rewrite !recase_cons, recase_nil.
  rewrite run_with_eq.
  destruct (hd false ups), (hd false (tl ups)), (hd false (tl (tl ups))),
    (hd false (tl (tl (tl ups)))), (hd false (tl (tl (tl (tl ups))))),
    (hd false (tl (tl (tl (tl (tl ups)))))), (hd false (tl (tl (tl (tl (tl (tl ups)))))));
    vm_compute; eexists; reflexivity.
Qed.

(* the exponent, where it is one: after a digit placeholder *)
Lemma run_exp : forall ups plus tail p,
  exists p', run_with tail (B p true) (render_tok (TExp ups plus)) = Continue (B p' false).
Proof.
  intros ups plus tail p. cbn [render_tok]. rewrite recase_cons, recase_nil. cbn [app].
  rewrite run_with_eq. destruct (hd false ups), plus; vm_compute; eexists; reflexivity.
Qed.

Lemma lit_not_significant : forall c, mem c lit_chars = true -> c <> 47 -> significant c = false.
Proof.
  intros c H Hc. unfold lit_chars, mem in H. cbn [existsb] in H.
  unfold significant, mem. cbn [existsb]. lia.
Qed.

Lemma lit_placeholder : forall c, mem c lit_chars = true -> is_placeholder c = (c =? 46) || (c =? 44).
Proof.
  intros c H. unfold lit_chars, mem in H. cbn [existsb] in H.
  unfold is_placeholder, mem. cbn [existsb].
  destruct (c =? 46) eqn:E1; destruct (c =? 44) eqn:E2; cbn [orb]; lia.
Qed.

Lemma run_lit : forall c tail p d, mem c lit_chars = true ->
  run_with tail (B p d) [c] = Continue (B c ((c =? 46) || (c =? 44))).
Proof.
  intros c tail p d H. cbn [run_with]. destruct (N.eq_dec c 47) as [->|Hc].
  - rewrite step_eq. vm_compute. reflexivity.
  - rewrite (step_inert_char p d c _ (lit_not_significant c H Hc)), (lit_placeholder c H). reflexivity.
Qed.

(* every non-deciding token, in a context it may stand in, leaves the scanner at a boundary
   whose [digit] says whether the token ends with a placeholder *)
Lemma run_other_tok : forall t tail p d, wf_tok t = true -> ctx_tok d t = true -> tok_kind t = Other ->
  exists p', run_with tail (B p d) (render_tok t) = Continue (B p' (ends_num t)).
Proof.
  intros t tail p d Hwf Hctx Hk. destruct t; cbn [tok_kind] in Hk; try discriminate Hk;
    cbn [render_tok wf_tok ctx_tok ends_num] in *.
  - (* TDigit *) exists (placeholder_char p0). cbn [run_with].
    rewrite step_inert_char by (destruct p0; reflexivity). destruct p0; reflexivity.
  - (* TLit *) exists c. apply run_lit; assumption.
  - (* TGeneral *) apply run_general.
  - (* TExp *) subst d. apply run_exp.
  - (* TAt *) exists 64. cbn [run_with]. rewrite step_inert_char by reflexivity. reflexivity.
  - (* TEsc *) exists c. apply run_esc_pair. reflexivity.
  - (* TPad *) exists c. apply run_esc_pair. reflexivity.
  - (* TFill *) exists c. apply run_esc_pair. reflexivity.
  - (* TQuoted *) exists 34. apply run_quoted. apply negb_true_iff. exact Hwf.
  - (* TColour *) destruct (colour_content c ups Hwf) as (c1 & rest & E & Hns & Hel).
    exists 93. exact (run_prefix_bracket (TColour c ups) tail p d c1 rest E Hns Hel).
  - (* TCond *) destruct (cond_content op num Hwf) as (c1 & rest & E & Hns & Hel).
    exists 93. exact (run_prefix_bracket (TCond op num) tail p d c1 rest E Hns Hel).
  - (* TLocale *) destruct (locale_content cur lcid Hwf) as (c1 & rest & E & Hns & Hel).
    exists 93. exact (run_prefix_bracket (TLocale cur lcid) tail p d c1 rest E Hns Hel).
  - (* TSecFrac *) exists 48. cbn [run_with]. rewrite step_inert_char by reflexivity. apply run_zeros.
Qed.

(* ---- what a rendering starts with: no token starts with n, and "en" starts only an exponent
   (never legal at this place) — so the look-ahead for General never fires on an era token ---- *)
Lemma lit_lower : forall c, mem c lit_chars = true ->
  (to_ascii_lowercase c =? 110) = false /\ (to_ascii_lowercase c =? 101) = false.
Proof.
  intros c H. unfold lit_chars, mem in H. cbn [existsb] in H. unfold to_ascii_lowercase.
  destruct ((65 <=? c) && (c <=? 90)) eqn:E; lia.
Qed.

Lemma repeat_S_cons : forall (c : N) n, repeat c (S n) = c :: repeat c n.
Proof. reflexivity. Qed.

(* the first character of every token, lower-cased *)
Definition tok_first (t : token) : N :=
  match t with
  | TDigit p => placeholder_char p
  | TLit c => to_ascii_lowercase c
  | TGeneral _ => 103
  | TExp _ _ => 101
  | TAt => 64
  | TEsc _ => 92
  | TPad _ => 95
  | TFill _ => 42
  | TQuoted _ => 34
  | TColour _ _ | TCond _ _ | TLocale _ _ | TElapsed _ _ _ => 91
  | TDate l _ _ => dletter_char l
  | TAmPm _ | TAP _ | TWeekday _ _ => 97
  | TSecFrac _ => 46
  | TEra _ _ => 103
  | TEraYear _ _ => 101
  | TBuddhist _ _ => 98
  end.

Lemma render_tok_first : forall t, exists c w,
  render_tok t = c :: w /\ to_ascii_lowercase c = tok_first t.
Proof.
  intros t. destruct t; cbn [render_tok tok_first].
  - destruct p; eexists; eexists; split; reflexivity.
  - eexists; eexists; split; reflexivity.
  - unfold w_general. rewrite recase_cons. eexists; eexists; split; [reflexivity|apply lower_recase1].
  - rewrite recase_cons, recase_nil. cbn [app]. eexists; eexists; split; [reflexivity|apply lower_recase1].
  - eexists; eexists; split; reflexivity.
  - eexists; eexists; split; reflexivity.
  - eexists; eexists; split; reflexivity.
  - eexists; eexists; split; reflexivity.
  - eexists; eexists; split; reflexivity.
  - eexists; eexists; split; reflexivity.
  - eexists; eexists; split; reflexivity.
  - eexists; eexists; split; reflexivity.
  - rewrite repeat_S_cons, recase_cons. eexists; eexists; split; [reflexivity|].
    rewrite lower_recase1. destruct l; reflexivity.
  - unfold w_ampm. rewrite recase_cons. eexists; eexists; split; [reflexivity|apply lower_recase1].
  - unfold w_ap. rewrite recase_cons. eexists; eexists; split; [reflexivity|apply lower_recase1].
  - eexists; eexists; split; reflexivity.
  - eexists; eexists; split; reflexivity.
  - destruct long; cbn [repeat]; rewrite recase_cons; eexists; eexists; (split; [reflexivity|apply lower_recase1]).
  - rewrite repeat_S_cons, recase_cons. eexists; eexists; split; [reflexivity|apply lower_recase1].
  - destruct long; cbn [repeat]; rewrite recase_cons; eexists; eexists; (split; [reflexivity|apply lower_recase1]).
  - destruct long; cbn [repeat]; rewrite recase_cons; eexists; eexists; (split; [reflexivity|apply lower_recase1]).
Qed.

Lemma tok_first_not_n : forall t, wf_tok t = true -> (tok_first t =? 110) = false.
Proof.
  intros t H. destruct t; cbn [tok_first]; try reflexivity.
  - destruct p; reflexivity.
  - cbn [wf_tok] in H. apply (lit_lower c H).
  - destruct l; reflexivity.
Qed.

Lemma render_tok_hd_n : forall t X, wf_tok t = true -> hd_n (render_tok t ++ X) = false.
Proof.
  intros t X H. destruct (render_tok_first t) as (c & w & E & L). rewrite E. cbn [app hd_n].
  rewrite L. apply tok_first_not_n. exact H.
Qed.

Lemma render_section_cons : forall t r, render_section (t :: r) = render_tok t ++ render_section r.
Proof. reflexivity. Qed.

Lemma render_section_hd_n : forall r X, forallb wf_tok r = true -> hd_n X = false ->
  hd_n (render_section r ++ X) = false.
Proof.
  intros [|t r] X Hwf HX; [exact HX|]. cbn [forallb] in Hwf. apply andb_true_iff in Hwf.
  rewrite render_section_cons, <- app_assoc. apply render_tok_hd_n. apply Hwf.
Qed.

Lemma render_section_starts_en : forall r X,
  forallb wf_tok r = true -> ctx_ok false r = true -> hd_n X = false -> starts_en X = false ->
  starts_en (render_section r ++ X) = false.
Proof.
  intros [|t r] X Hwf Hctx HX1 HX2; [exact HX2|].
  cbn [forallb] in Hwf. apply andb_true_iff in Hwf. destruct Hwf as [Hwt Hwr].
  cbn [ctx_ok] in Hctx. apply andb_true_iff in Hctx. destruct Hctx as [Hct Hcr].
  rewrite render_section_cons, <- app_assoc.
  destruct (render_tok_first t) as (c & w & E & L).
  assert (Ne : (tok_first t =? 101) = false -> starts_en (render_tok t ++ render_section r ++ X) = false).
  { intros F. rewrite E. cbn [app starts_en]. rewrite L, F. reflexivity. }
  destruct t; cbn [tok_first] in Ne; try (apply Ne; reflexivity).
  - (* TDigit *) apply Ne. destruct p; reflexivity.
  - (* TLit *) apply Ne. cbn [wf_tok] in Hwt. apply (lit_lower c0 Hwt).
  - (* TExp: not legal here *) cbn [ctx_tok] in Hct. discriminate Hct.
  - (* TDate *) apply Ne. destruct l; reflexivity.
  - (* TEraYear: "e" then a token (none starts with n) or the end; "ee" *)
    cbn [render_tok]. destruct long; cbn [repeat]; rewrite !recase_cons, recase_nil; cbn [app starts_en hd_n].
    + rewrite !lower_recase1. reflexivity.
    + rewrite lower_recase1. change (to_ascii_lowercase 101 =? 101) with true. cbn [andb].
      apply render_section_hd_n; assumption.
Qed.

(* ===================================================================================== *)
(** * 4. Sections and whole formats *)

(* what may follow a section: nothing, or the separator *)
Definition tail_ok (tail : list N) : Prop := hd_n tail = false /\ starts_en tail = false.

Lemma run_section : forall s p d tail,
  forallb wf_tok s = true -> ctx_ok d s = true -> tail_ok tail ->
    match classify_section s with
    | Other => exists p' d', run (B p d) (render_section s ++ tail) = run (B p' d') tail
    | k => run (B p d) (render_section s ++ tail) = Return k
    end.
Proof.
  induction s as [|t r IH]; intros p d tail Hwf Hctx Htail.
  - cbn. exists p, d. reflexivity.
  - cbn [forallb] in Hwf. apply andb_true_iff in Hwf. destruct Hwf as [Hwt Hwr].
    cbn [ctx_ok] in Hctx. apply andb_true_iff in Hctx. destruct Hctx as [Hct Hcr].
    rewrite render_section_cons, <- app_assoc, run_app.
    destruct (tok_kind t) eqn:Hk.
    + (* not a deciding token *)
      destruct (run_other_tok t (render_section r ++ tail) p d Hwt Hct Hk) as [p' Hrun].
      rewrite Hrun. cbn [classify_section]. rewrite Hk.
      apply IH; assumption.
    + (* date/time token *)
      cbn [classify_section]. rewrite Hk.
      destruct t; cbn [tok_kind] in Hk; try discriminate Hk.
      * rewrite run_date. reflexivity.
      * rewrite run_ampm. reflexivity.
      * rewrite run_ap. reflexivity.
      * rewrite run_weekday. reflexivity.
      * rewrite run_era; [reflexivity|]. destruct Htail as [T1 T2].
        apply render_section_starts_en; assumption.
      * cbn [ctx_tok] in Hct. apply negb_true_iff in Hct. subst d. rewrite run_erayear. reflexivity.
      * rewrite run_buddhist. reflexivity.
    + (* elapsed token *)
      cbn [classify_section]. rewrite Hk.
      destruct t; cbn [tok_kind] in Hk; try discriminate Hk.
      rewrite run_elapsed. reflexivity.
Qed.

Lemma step_semicolon : forall p d rest, step (B p d) 59 rest = Return Other.
Proof. reflexivity. Qed.

Lemma wf_section_parts : forall s, wf_section s = true -> forallb wf_tok s = true /\ ctx_ok false s = true.
Proof. intros s H. unfold wf_section in H. apply andb_true_iff in H. exact H. Qed.

(* the first section decides; whatever follows the first top-level ';' is irrelevant *)
Theorem scanner_first_section_only : forall s rest,
  wf_section s = true ->
  detect (render_section s) = classify_section s /\
  detect (render_section s ++ 59 :: rest) = classify_section s.
Proof.
  intros s rest Hwf. destruct (wf_section_parts s Hwf) as [Hw Hc].
  unfold detect, init. change (mkSt false false 0 32 false false 0 false 0) with (B 32 false).
  split.
  - pose proof (run_section s 32 false [] Hw Hc (conj eq_refl eq_refl)) as H. rewrite app_nil_r in H.
    destruct (classify_section s); [|rewrite H; reflexivity|rewrite H; reflexivity].
    destruct H as (p' & d' & H). rewrite H. reflexivity.
  - pose proof (run_section s 32 false (59 :: rest) Hw Hc (conj eq_refl eq_refl)) as H.
    destruct (classify_section s); [|rewrite H; reflexivity|rewrite H; reflexivity].
    destruct H as (p' & d' & H). rewrite H. cbn [run]. rewrite step_semicolon. reflexivity.
Qed.

(* C10, string half: on every well-formed derivation of the number-format grammar the scanner
   returns the kind of the first deciding token of the first section *)
Theorem scanner_agrees_with_grammar : forall a,
  wf a = true -> detect (render a) = classify a.
Proof.
  intros [|s rest] Hwf; [reflexivity|].
  unfold wf in Hwf. cbn [forallb] in Hwf. apply andb_true_iff in Hwf. destruct Hwf as [Hs _].
  cbn [classify].
  destruct rest as [|s2 rest].
  - cbn [render]. apply (scanner_first_section_only s [] Hs).
  - change (render (s :: s2 :: rest)) with (render_section s ++ 59 :: render (s2 :: rest)).
    apply (scanner_first_section_only s (render (s2 :: rest)) Hs).
Qed.

(* the tokens added after audit 2 (FMT-1): a format whose only date token is one of them is a date
   format — whatever non-deciding tokens (locale prefix, colour, literals, quoted text) surround it *)
Definition is_locale_date (t : token) : bool :=
  match t with
  | TWeekday _ _ | TEra _ _ | TEraYear _ _ | TBuddhist _ _ => true
  | _ => false
  end.

Lemma classify_section_app : forall pre t post, classify_section pre = Other ->
  classify_section (pre ++ t :: post) = classify_section (t :: post).
Proof.
  induction pre as [|x pre IH]; intros t post H; [reflexivity|].
  cbn [classify_section app] in *. destruct (tok_kind x); try discriminate H. apply IH. exact H.
Qed.

Theorem locale_date_tokens_decide : forall pre t post rest,
  wf_section (pre ++ t :: post) = true -> classify_section pre = Other -> is_locale_date t = true ->
  detect (render_section (pre ++ t :: post)) = DateTime /\
  detect (render_section (pre ++ t :: post) ++ 59 :: rest) = DateTime.
Proof.
  intros pre t post rest Hwf Hpre Ht.
  assert (C : classify_section (pre ++ t :: post) = DateTime).
  { rewrite classify_section_app by exact Hpre. destruct t; try discriminate Ht; reflexivity. }
  destruct (scanner_first_section_only (pre ++ t :: post) rest Hwf) as [H1 H2].
  rewrite H1, H2, C. split; reflexivity.
Qed.

(* ===================================================================================== *)
(** * 5. The derivations on which the scanner used to deviate (fixed by ac433ce, c5a918f,
       a61713f, and — audit 2, FMT-1 — by "date formats made only of weekday / era /
       Buddhist-year tokens") now satisfy the specification *)

Definition former_witnesses : list ast :=
  [ [[TQuoted [119; 107; 95]; TDate LD 1 []]];            (* DQ wk_ DQ dd *)
    [[TQuoted [97; 92]; TDate LD 0 []]];                   (* DQ a\ DQ d *)
    [[TDigit PZero; TFill 100]];                           (* 0*d *)
    [[TFill 34; TDate LD 1 []]]; [[TFill 59; TDate LD 1 []]]; [[TFill 92; TDate LD 0 []]];
    [[TGeneral [true]; TLit 47]];                          (* General/ *)
    [[TGeneral [true]; TLit 32; TDate LY 1 []]];           (* General yy *)
    [[TWeekday false []]];                                 (* aaa *)
    [[TLocale [] [52; 49; 49]; TWeekday true []]];         (* [$-411]aaaa *)
    [[TEra 2 []; TEraYear false []; TQuoted [24180]]];     (* ggge"年" *)
    [[TEraYear false []]];                                 (* e *)
    [[TLocale [] [68; 48; 55; 48; 52; 49; 69]; TBuddhist true []]];   (* [$-D07041E]bbbb *)
    [[TDigit PZero; TLit 46; TDigit PZero; TDigit PZero; TExp [true] true; TDigit PZero; TDigit PZero]];  (* 0.00E+00 *)
    [[TColour CRed [true]; TGeneral [true]]];              (* [Red]General *)
    [[TEra 0 []; TEraYear false []; TLit 46; TDate LM 0 []; TLit 46; TDate LD 0 []]] ].   (* ge.m.d *)

Lemma former_witnesses_agree :
  forallb wf former_witnesses = true /\
  map (fun a => detect (render a)) former_witnesses = map classify former_witnesses /\
  map classify former_witnesses =
    [DateTime; DateTime; Other; DateTime; DateTime; DateTime; Other; DateTime;
     DateTime; DateTime; DateTime; DateTime; DateTime; Other; Other; DateTime].
Proof. vm_compute. repeat split. Qed.

(* the context conditions are needed: "e+" is an exponent after a placeholder and the year of the
   era followed by a plus sign elsewhere — the two derivations render to the same characters *)
Lemma exponent_context_needed :
  render [[TDigit PZero; TExp [] true]] = render [[TDigit PZero; TEraYear false []; TLit 43]] /\
  wf [[TDigit PZero; TExp [] true]] = true /\ wf [[TDigit PZero; TEraYear false []; TLit 43]] = false /\
  render [[TExp [] true]] = render [[TEraYear false []; TLit 43]] /\
  wf [[TExp [] true]] = false /\ wf [[TEraYear false []; TLit 43]] = true /\
  detect (render [[TDigit PZero; TExp [] true]]) = Other /\
  detect (render [[TEraYear false []; TLit 43]]) = DateTime.
Proof. vm_compute. repeat split. Qed.

(* ===================================================================================== *)
(** * 6. Built-in tables *)

Lemma N_below_spec : forall n,
  fst (N.iter n (fun kl : N * list N => (fst kl + 1, fst kl :: snd kl)) (0, [])) = n /\
  forall c, c < n -> In c (N_below n).
Proof.
  unfold N_below. intros n. induction n as [|n IH] using N.peano_ind.
  - split; [reflexivity|]. intros c H. lia.
  - rewrite N.iter_succ. destruct IH as [IH1 IH2]. cbn [fst snd]. split; [lia|].
    intros c H. rewrite IH1. destruct (N.eq_dec c n) as [->|Hne]; [left; reflexivity|].
    right. apply IH2. lia.
Qed.

Definition tables_agree_at (c : N) : bool :=
  cell_format_eqb (builtin_format_by_code c) (builtin_format_by_id (decimal c)) &&
  cell_format_eqb (builtin_format_by_code c) (ecma_builtin c).

Lemma tables_sweep : forallb tables_agree_at (N_below 65536) = true.
Proof. vm_compute. reflexivity. Qed.

Lemma cell_format_eqb_eq : forall a b, cell_format_eqb a b = true -> a = b.
Proof. intros [] []; cbn; congruence. Qed.

(* for every u16 code the two tables of formats.rs agree with each other (by_id on the canonical
   decimal spelling) and with the hand-written ECMA-376 list *)
Theorem builtin_tables_agree : forall c, c < 65536 ->
  builtin_format_by_code c = builtin_format_by_id (decimal c) /\
  builtin_format_by_code c = ecma_builtin c.
Proof.
  intros c H. pose proof tables_sweep as S. rewrite forallb_forall in S.
  specialize (S c (proj2 (N_below_spec 65536) c H)). unfold tables_agree_at in S.
  apply andb_true_iff in S. destruct S as [S1 S2]. split; apply cell_format_eqb_eq; assumption.
Qed.

(* beyond u16 (xlsx ids are unsigned 32-bit): nothing is a built-in date id *)
Lemma decimal_aux_length : forall f n acc, (length acc <= length (decimal_aux f n acc))%nat.
Proof.
  induction f as [|f IH]; intros n acc; cbn [decimal_aux]; [lia|].
  destruct (n <? 10); [cbn [length]; lia|].
  specialize (IH (n / 10) ((48 + n mod 10) :: acc)). cbn [length] in IH. lia.
Qed.

Lemma builtin_by_id_long : forall id, (3 <= length id)%nat -> builtin_format_by_id id = Other.
Proof.
  intros [|a [|b [|c r]]] H; cbn [length] in H; try lia.
  unfold builtin_format_by_id. cbn [existsb bytes_eqb]. rewrite !andb_false_r. reflexivity.
Qed.

Lemma decimal_aux_len3 : forall n f acc, 100 <= n ->
  (length acc + 3 <= length (decimal_aux (S (S (S f))) n acc))%nat.
Proof.
  intros n f acc H. cbn [decimal_aux].
  replace (n <? 10) with false by lia. replace (n / 10 <? 10) with false by lia.
  destruct (n / 10 / 10 <? 10).
  - cbn [length]. lia.
  - match goal with |- context [decimal_aux f ?m ?l] => pose proof (decimal_aux_length f m l) as L end.
    cbn [length] in L. lia.
Qed.

Lemma by_id_decimal_ecma : forall c, builtin_format_by_id (decimal c) = ecma_builtin c.
Proof.
  intros c. destruct (c <? 65536) eqn:E.
  - destruct (builtin_tables_agree c) as [H1 H2]; [lia|]. congruence.
  - assert (Hc : 65536 <= c) by lia.
    rewrite builtin_by_id_long.
    + unfold ecma_builtin, mem. cbn [existsb].
      repeat match goal with |- context [c =? ?k] => replace (c =? k) with false by lia end.
      reflexivity.
    + unfold decimal. pose proof (decimal_aux_len3 c 17 []) as L. cbn [length] in L. lia.
Qed.

(* decimal is injective below 10^20 (in particular on u32), via its left inverse *)
Definition dval (l : list N) : N := fold_left (fun acc d => 10 * acc + (d - 48)) l 0.

Lemma decimal_aux_app : forall f n acc, decimal_aux f n acc = decimal_aux f n [] ++ acc.
Proof.
  induction f as [|f IH]; intros n acc; cbn [decimal_aux]; [reflexivity|].
  destruct (n <? 10); [reflexivity|].
  rewrite (IH (n / 10) (_ :: acc)), (IH (n / 10) [_]), <- app_assoc. reflexivity.
Qed.

Lemma dval_decimal_aux : forall f n, n < 10 ^ N.of_nat f -> dval (decimal_aux f n []) = n.
Proof.
  induction f as [|f IH]; intros n H.
  - cbn in H. assert (n = 0) by lia. subst. reflexivity.
  - cbn [decimal_aux]. destruct (n <? 10) eqn:E.
    + unfold dval. cbn [fold_left]. lia.
    + rewrite decimal_aux_app. unfold dval. rewrite fold_left_app. cbn [fold_left].
      fold (dval (decimal_aux f (n / 10) [])). rewrite IH.
      * lia.
      * rewrite Nat2N.inj_succ, N.pow_succ_r' in H. lia.
Qed.

Lemma decimal_inj : forall a b, a < 10 ^ 20 -> b < 10 ^ 20 -> decimal a = decimal b -> a = b.
Proof.
  intros a b Ha Hb E. unfold decimal in E.
  rewrite <- (dval_decimal_aux 20 a), <- (dval_decimal_aux 20 b) by assumption.
  rewrite E. reflexivity.
Qed.


(* ===================================================================================== *)
(** * 7. Style plumbing *)

Lemma bytes_eqb_refl : forall a, bytes_eqb a a = true.
Proof. induction a as [|x a IH]; [reflexivity|]. cbn [bytes_eqb]. rewrite N.eqb_refl, IH. reflexivity. Qed.

Lemma bytes_eqb_eq : forall a b, bytes_eqb a b = true -> a = b.
Proof.
  induction a as [|x a IH]; intros [|y b] H; cbn [bytes_eqb] in H; try discriminate; [reflexivity|].
  apply andb_true_iff in H. destruct H as [H1 H2]. apply N.eqb_eq in H1. rewrite (IH b H2), H1. reflexivity.
Qed.

Lemma bytes_eqb_decimal : forall a b, a < 10 ^ 20 -> b < 10 ^ 20 ->
  bytes_eqb (decimal a) (decimal b) = (a =? b).
Proof.
  intros a b Ha Hb. destruct (N.eqb_spec a b) as [->|Hne]; [apply bytes_eqb_refl|].
  destruct (bytes_eqb (decimal a) (decimal b)) eqn:E; [|reflexivity].
  exfalso. apply Hne. apply decimal_inj; [assumption|assumption|]. apply bytes_eqb_eq. exact E.
Qed.

Lemma assoc_last_map_key : forall (l : list (N * list N)) k, k < 10 ^ 20 ->
  (forall e, In e l -> fst e < 10 ^ 20) ->
  assoc_last bytes_eqb (decimal k) (map (fun e => (decimal (fst e), snd e)) l) =
  assoc_last N.eqb k l.
Proof.
  induction l as [|[k' v] l IH]; intros k Hk Hl; [reflexivity|].
  cbn [map assoc_last fst snd]. rewrite IH; [|exact Hk|intros e He; apply Hl; right; exact He].
  destruct (assoc_last N.eqb k l); [reflexivity|].
  rewrite bytes_eqb_decimal; [reflexivity|exact Hk|]. apply (Hl (k', v)). left. reflexivity.
Qed.

Lemma assoc_last_map_val : forall (A B : Type) (f : A -> B) (l : list (N * A)) k,
  assoc_last N.eqb k (map (fun e => (fst e, f (snd e))) l) = option_map f (assoc_last N.eqb k l).
Proof.
  intros A B f. induction l as [|[k' v] l IH]; intros k; [reflexivity|].
  cbn [map assoc_last fst snd]. rewrite IH. destruct (assoc_last N.eqb k l); cbn [option_map]; [reflexivity|].
  destruct (k =? k'); reflexivity.
Qed.

Lemma assoc_last_some_in : forall (A : Type) (l : list (N * A)) k v,
  assoc_last N.eqb k l = Some v -> In (k, v) l.
Proof.
  intros A. induction l as [|[k' v'] l IH]; intros k v H; cbn [assoc_last] in H; [discriminate|].
  destruct (assoc_last N.eqb k l) eqn:E.
  - right. apply IH. congruence.
  - destruct (N.eqb_spec k k') as [->|]; [|discriminate]. left. congruence.
Qed.

Lemma filter_all : forall (A : Type) (f : A -> bool) l, (forall x, In x l -> f x = true) -> filter f l = l.
Proof.
  intros A f. induction l as [|x l IH]; intros H; [reflexivity|].
  cbn [filter]. rewrite (H x (or_introl eq_refl)), IH; [reflexivity|].
  intros y Hy. apply H. right. exact Hy.
Qed.

(* hypotheses on a logical style table *)
Definition ids_below (bound : N) (t : style_table) : Prop :=
  (forall e, In e (customs t) -> fst e < bound) /\ (forall i, In (Some i) (xfs t) -> i < bound).
Definition codes_nonempty (t : style_table) : Prop := forall e, In e (customs t) -> snd e <> [].
Definition xfs_present (t : style_table) : Prop := forall o, In o (xfs t) -> o <> None.
(* [MS-XLS] 2.4.126 and [MS-XLSB] 2.4.659 restrict the ifmt of FORMAT/BrtFmt records to
   5-8, 23-26, 41-44, 63-66, 164-382; the hypothesis below is all that is needed of it *)
Definition customs_off_builtin_dates (t : style_table) : Prop :=
  forall e, In e (customs t) -> ecma_builtin (fst e) = Other.
Theorem xlsx_styles_resolve : forall t, ids_below (2 ^ 32) t -> codes_nonempty t ->
  xlsx_read_styles (enc_xlsx t) = spec_formats t.
Proof.
  intros t [Hc Hx] Hne. unfold xlsx_read_styles, enc_xlsx, spec_formats. cbn [xs_numfmts xs_cellxfs].
  rewrite filter_all.
  2:{ intros x Hin. apply in_map_iff in Hin. destruct Hin as (e & <- & He). cbn [snd].
      specialize (Hne e He). destruct (snd e); [congruence|reflexivity]. }
  rewrite map_map. apply map_ext_in. intros [i|] Hin; cbn [option_map resolve]; [|reflexivity].
  assert (B32 : 2 ^ 32 < 10 ^ 20) by (vm_compute; reflexivity).
  rewrite assoc_last_map_key.
  - destruct (assoc_last N.eqb i (customs t)); [reflexivity|apply by_id_decimal_ecma].
  - specialize (Hx i Hin). lia.
  - intros e He. specialize (Hc e He). lia.
Qed.

Theorem xls_styles_resolve : forall t, ids_below 65536 t -> xfs_present t ->
  xls_formats (enc_biff t) = spec_formats t.
Proof.
  intros t [Hc Hx] Hp. unfold xls_formats, enc_biff, spec_formats. cbn [bs_formats bs_xfs].
  rewrite map_map. apply map_ext_in. intros [i|] Hin; [|exfalso; exact (Hp None Hin eq_refl)].
  cbn [resolve]. rewrite assoc_last_map_val.
  destruct (assoc_last N.eqb i (customs t)); cbn [option_map]; [reflexivity|].
  apply (builtin_tables_agree i (Hx i Hin)).
Qed.

Theorem xlsb_styles_resolve : forall t, ids_below 65536 t -> xfs_present t ->
  customs_off_builtin_dates t ->
  xlsb_formats (enc_biff t) = spec_formats t.
Proof.
  intros t [Hc Hx] Hp Hoff. unfold xlsb_formats, enc_biff, spec_formats. cbn [bs_formats bs_xfs].
  rewrite map_map. apply map_ext_in. intros [i|] Hin; [|exfalso; exact (Hp None Hin eq_refl)].
  cbn [resolve]. rewrite assoc_last_map_val.
  destruct (builtin_tables_agree i (Hx i Hin)) as [_ He]. rewrite He.
  destruct (assoc_last N.eqb i (customs t)) as [s|] eqn:E; cbn [option_map].
  - apply assoc_last_some_in in E. specialize (Hoff (i, s) E). cbn [fst] in Hoff.
    rewrite Hoff. reflexivity.
  - destruct (ecma_builtin i); reflexivity.
Qed.

(* cells *)
Lemma spec_cell_meaning : forall k is_1904 v,
  match spec_cell k is_1904 v with
  | DDateTime bits dur d1904 =>
      k <> Other /\ (dur = true <-> k = TimeDelta) /\ bits = num_bits v /\ d1904 = is_1904
  | DFloat bits => k = Other /\ v = NF bits
  | DInt z => k = Other /\ v = NI z
  end.
Proof.
  intros [] is_1904 [b|z]; cbn; repeat split; try congruence; try discriminate; intros; try discriminate.
Qed.
Theorem xlsx_cell_spec : forall formats is_1904 s_attr bits k,
  nth_error formats (N.to_nat (match s_attr with Some i => i | None => 0 end)) = Some k ->
  xlsx_cell_number formats is_1904 s_attr bits = spec_cell k is_1904 (NF bits).
Proof.
  intros formats is_1904 [i|] bits k Hn; unfold xlsx_cell_number.
  - rewrite Hn. destruct k; reflexivity.
  - change (N.to_nat 0) with 0%nat in Hn. rewrite Hn. destruct k; reflexivity.
Qed.

Theorem xls_cell_spec : forall formats is_1904 ixfe v k,
  nth_error formats (N.to_nat ixfe) = Some k ->
  xls_cell_number formats is_1904 ixfe v = spec_cell k is_1904 v.
Proof.
  intros formats is_1904 ixfe v k Hn. unfold xls_cell_number. rewrite Hn.
  destruct k, v; reflexivity.
Qed.

Theorem xls_formula_spec : forall formats is_1904 ixfe bits k,
  nth_error formats (N.to_nat ixfe) = Some k ->
  xls_formula_number formats is_1904 ixfe bits = spec_cell k is_1904 (NF bits).
Proof.
  intros formats is_1904 ixfe bits k Hn. unfold xls_formula_number. rewrite Hn.
  destruct k; reflexivity.
Qed.

Theorem xlsb_cell_spec : forall formats is_1904 style_ref v k,
  nth_error formats (N.to_nat style_ref) = Some k ->
  xlsb_cell_number formats is_1904 style_ref v = spec_cell k is_1904 v.
Proof.
  intros formats is_1904 style_ref v k Hn. unfold xlsb_cell_number. rewrite Hn.
  destruct k, v; reflexivity.
Qed.

(* end to end, per format: style table -> formats vector -> cell value *)
Theorem date_iff_style_xlsx : forall t is_1904 s_attr bits fmt,
  ids_below (2 ^ 32) t -> codes_nonempty t ->
  nth_error (xfs t) (N.to_nat (match s_attr with Some i => i | None => 0 end)) = Some fmt ->
  xlsx_cell_number (xlsx_read_styles (enc_xlsx t)) is_1904 s_attr bits =
  spec_cell (resolve t fmt) is_1904 (NF bits).
Proof.
  intros t is_1904 s_attr bits fmt Hb Hne Hn. rewrite xlsx_styles_resolve by assumption.
  apply xlsx_cell_spec. unfold spec_formats. apply map_nth_error. exact Hn.
Qed.

Theorem date_iff_style_xls : forall t is_1904 ixfe v fmt,
  ids_below 65536 t -> xfs_present t ->
  nth_error (xfs t) (N.to_nat ixfe) = Some fmt ->
  xls_cell_number (xls_formats (enc_biff t)) is_1904 ixfe v = spec_cell (resolve t fmt) is_1904 v.
Proof.
  intros t is_1904 ixfe v fmt Hb Hp Hn. rewrite xls_styles_resolve by assumption.
  apply xls_cell_spec. unfold spec_formats. apply map_nth_error. exact Hn.
Qed.

Theorem date_iff_style_xlsb : forall t is_1904 style_ref v fmt,
  ids_below 65536 t -> xfs_present t -> customs_off_builtin_dates t ->
  nth_error (xfs t) (N.to_nat style_ref) = Some fmt ->
  xlsb_cell_number (xlsb_formats (enc_biff t)) is_1904 style_ref v =
  spec_cell (resolve t fmt) is_1904 v.
Proof.
  intros t is_1904 style_ref v fmt Hb Hp Hoff Hn. rewrite xlsb_styles_resolve by assumption.
  apply xlsb_cell_spec. unfold spec_formats. apply map_nth_error. exact Hn.
Qed.

(* the resolved format of a custom entry written from a grammar derivation is its classification *)Theorem date_iff_style_xls_formula : forall t is_1904 ixfe bits fmt,
  ids_below 65536 t -> xfs_present t ->
  nth_error (xfs t) (N.to_nat ixfe) = Some fmt ->
  xls_formula_number (xls_formats (enc_biff t)) is_1904 ixfe bits =
  spec_cell (resolve t fmt) is_1904 (NF bits).
Proof.
  intros t is_1904 ixfe bits fmt Hb Hp Hn. rewrite xls_styles_resolve by assumption.
  apply xls_formula_spec. unfold spec_formats. apply map_nth_error. exact Hn.
Qed.

(* the resolved format of a custom entry written from a grammar derivation is its classification *)
Theorem resolve_custom_classify : forall t id a,
  assoc_last N.eqb id (customs t) = Some (render a) ->
  wf a = true ->
  resolve t (Some id) = classify a.
Proof.
  intros t id a H Hwf. cbn [resolve]. rewrite H. apply scanner_agrees_with_grammar; assumption.
Qed.

(* the former plumbing witnesses (fixed by 4fe67c6, aa1af82) now satisfy the specification *)
Lemma former_plumbing_witnesses_agree :
  let t := mkStyleTable [] [Some 14] in
  xlsx_cell_number (xlsx_read_styles (enc_xlsx t)) false None 4631107791820423168 =
    spec_cell (resolve t (Some 14)) false (NF 4631107791820423168) /\
  xls_formula_number (xls_formats (enc_biff t)) false 0 4631107791820423168 =
    spec_cell (resolve t (Some 14)) false (NF 4631107791820423168) /\
  spec_cell (resolve t (Some 14)) false (NF 4631107791820423168) =
    DDateTime 4631107791820423168 false false.
Proof. cbn zeta. split; [reflexivity|]. split; reflexivity. Qed.

(* xlsb: a custom entry on a built-in date id is ignored (outside customs_off_builtin_dates) *)
Lemma xlsb_builtin_shadows_custom :
  let t := mkStyleTable [(14, [48])] [Some 14] in
  xlsb_formats (enc_biff t) = [DateTime] /\ spec_formats t = [Other] /\
  xls_formats (enc_biff t) = [Other].
Proof. vm_compute. repeat split. Qed.

Lemma plumbing_nonvacuous :
  let t := mkStyleTable [(164, [91; 104; 93; 58; 109; 109]); (165, [48; 46; 48; 48])]
                        [Some 0; Some 14; Some 164; Some 165] in
  ids_below 65536 t /\ ids_below (2 ^ 32) t /\ codes_nonempty t /\ xfs_present t /\
  customs_off_builtin_dates t /\
  spec_formats t = [Other; DateTime; TimeDelta; Other] /\
  xlsx_read_styles (enc_xlsx t) = spec_formats t /\
  xls_formats (enc_biff t) = spec_formats t /\
  xlsb_formats (enc_biff t) = spec_formats t.
Proof.
  cbn zeta.
  assert (Hid : forall b, 166 <= b ->
            ids_below b (mkStyleTable [(164, [91; 104; 93; 58; 109; 109]); (165, [48; 46; 48; 48])]
                                      [Some 0; Some 14; Some 164; Some 165])).
  { intros b Hb. split.
    - intros e H. cbn [customs In] in H. destruct H as [<-|[<-|[]]]; cbn [fst]; lia.
    - intros i H. cbn [xfs In] in H.
      destruct H as [H|[H|[H|[H|[]]]]]; inversion H; subst; lia. }
  split; [apply Hid; lia|]. split; [apply Hid; change (2 ^ 32) with 4294967296; lia|].
  split. { intros e H. cbn [customs In] in H. destruct H as [<-|[<-|[]]]; cbn [snd]; discriminate. }
  split. { intros o H. cbn [xfs In] in H. destruct H as [<-|[<-|[<-|[<-|[]]]]]; discriminate. }
  split. { intros e H. cbn [customs In] in H. destruct H as [<-|[<-|[]]]; reflexivity. }
  split; [reflexivity|]. split; [reflexivity|]. split; reflexivity.
Qed.
