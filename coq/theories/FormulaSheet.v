(* FormulaSheet — C14, shared and array formulas.  First part, xls: the FORMULA side of the sheet loop of
   Xls::parse_workbook (proofs: FormulaSheet_proofs.v).  Second part, xlsb: XlsbCellsReader::next_formula
   as driven by Xlsb::worksheet_formula (section XlsbSheet at the end; proofs: FormulaSheetB_proofs.v).
   Definitions only.

   Modelled Rust code (src/xls.rs, commit "fix: xls cells of shared and array formulas were reported
   with an empty formula"), from the framed records of one sheet substream on (the framing — RecordIter,
   CONTINUE — and the VALUE side of the same loop are C02's BiffRec.v; nothing here changes a value cell):
     0x0006 FORMULA   len < 20 -> Err; row, col; parse_formula_value(&data[6..14])? (only its Err matters
                      here); the PtgExp pattern [5, 0, 0x01, r0, r1, c0, c1, ..] on data[20..] remembers
                      (index of the cell, (row, col) named by PtgExp); parse_formula(.., None) with the
                      "Unrecognised formula …" fallback; formulas.push
     0x04BC SHRFMLA   len >= 8:  shared.insert(fmla_pos, &data[8..])
     0x0221 ARRAY     len >= 12: shared.insert(fmla_pos, &data[12..])
     0x000A EOF       break
     before that match (commit "fix: records of a chart substream nested in an xls worksheet ..."):
     0x0809 BOF       depth += 1; continue        (depth: the substreams open at this record; the sheet's
     depth > 1        EOF: depth -= 1; continue    own BOF makes it 1, the BOF of an embedded chart 2: a
                      anything else: continue      FORMULA / SHRFMLA / ARRAY record in there is not the sheet's)
     after the loop   for (i, first) in exp_cells { if let Some(rgce) = shared.get(&first) {
                        if let Ok(f) = parse_formula(rgce, .., Some(formulas[i].pos)) { formulas[i].val = f } } }
   Representation: the index list [exp_cells] is kept as an option tag on each formula cell (the loop
   over the indices becomes a map over the cells); the BTreeMap [shared] is an association list with
   the latest insertion first (insert replaces).  The value records of the same loop (NUMBER, RK, LABEL
   …, which can fail on malformed input) are outside this model: it must be fed FORMULA / SHRFMLA /
   ARRAY / EOF records and records the loop ignores.

   Spec side: a sheet's formula layout [fitem] with shared groups and array groups, its encoder
   (MS-XLS 2.4.127 Formula, 2.4.277 ShrFmla, 2.4.4 Array, 2.5.198.58 PtgExp) and [spec_formulas]:
   every cell of a shared group reports the group's expression translated to its own position
   (Ptg.translate: relative components are offsets, rows wrap modulo 65536, columns modulo 256),
   every cell of an array group the array's expression as it stands. *)
From Coq Require Import String.
From Calamine Require Import Prelude Range Range_spec Col26 FtabRef Ptg FormulaEnv.
Open Scope N_scope.
Set Implicit Arguments.

Definition E_FVALUE : N := 23.

(* parse_formula_value(&r.data[6..14]) is an error: the 8-byte field ends in FF FF and its first byte is
   neither 0 (string), 1 (bool), 3 (blank) nor 2 with a known error code (parse_err) *)
Definition berr_known (e : N) : bool :=
  (e =? 0x00) || (e =? 0x07) || (e =? 0x0F) || (e =? 0x17) || (e =? 0x1D) || (e =? 0x24) || (e =? 0x2A) || (e =? 0x2B).
Definition fvalue_err (d : list N) : bool :=
  let b0 := nth 6 d 0 in
  (nth 12 d 0 =? 255) && (nth 13 d 0 =? 255) &&
  (if b0 =? 2 then negb (berr_known (nth 8 d 0)) else negb ((b0 =? 0) || (b0 =? 1) || (b0 =? 3))).

(* if let [5, 0, 0x01, r0, r1, c0, c1, ..] = r.data[20..] *)
Definition exp_target (rgce : list N) : option pos :=
  match rgce with
  | a :: b :: c :: r0 :: r1 :: c0 :: c1 :: _ =>
      if (a =? 5) && (b =? 0) && (c =? 1) then Some (r0 + 256 * r1, c0 + 256 * c1) else None
  | _ => None
  end.

(* shared.get(&k) on the association list (latest insertion first) *)
Fixpoint lookup (k : pos) (m : list (pos * list N)) : option (list N) :=
  match m with
  | [] => None
  | (k', v) :: t => if pos_eqb k' k then Some v else lookup k t
  end.

(* a formula cell while the loop runs: position, text, the cell its PtgExp names *)
Definition fcell : Type := (pos * list N * option pos)%type.

Record fstate := { fs_pos : pos; fs_cells : list fcell; fs_shared : list (pos * list N) }.

Section XlsSheet.
Variable show_f64 : N -> list N.
(* format!("Unrecognised formula for cell ({}, {}): {:?}", row, col, e): the Debug text of the error
   is not modelled; the theorems hold for every instantiation *)
Variable unrecognised : N -> N -> list N.
Variable sheets : list (list N).           (* fmla_sheet_names *)
Variable names : list (list N).            (* defined names *)
Variable xtis : list (N * N * N).

Definition env_at (base : option pos) : xls_env :=
  {| xe_sheets := sheets; xe_names := names; xe_xtis := xtis; xe_base := base |}.

Definition xls_formula_rec (d : list N) (st : fstate) : outcome fstate :=
  if (length d <? 20)%nat then Err FormulaEnv.E_LEN else
  do row <- u16_at d 0;
  do col <- u16_at d 2;
  if fvalue_err d then Err E_FVALUE else
  let rgce := skipn 20 d in
  do text <- match xls_parse_formula show_f64 (env_at None) rgce with
             | Ok t => Ok t
             | Err _ => Ok (unrecognised row col)
             | Panic => Panic
             | OutOfFuel => OutOfFuel
             end;
  Ok {| fs_pos := (row, col);
        fs_cells := fs_cells st ++ [((row, col), text, exp_target rgce)];
        fs_shared := fs_shared st |}.

Fixpoint xls_formula_loop (recs : list record) (st : fstate) (depth : N) : outcome fstate :=
  match recs with
  | [] => Ok st
  | (t, d) :: rest =>
      if t =? 0x0809 then xls_formula_loop rest st (depth + 1)
      else if 1 <? depth then xls_formula_loop rest st (if t =? 0x000A then depth - 1 else depth)
      else if t =? 0x000A then Ok st
      else if t =? 0x0006 then do st' <- xls_formula_rec d st; xls_formula_loop rest st' depth
      else if (t =? 0x04BC) && (8 <=? length d)%nat then
        xls_formula_loop rest {| fs_pos := fs_pos st; fs_cells := fs_cells st;
                                 fs_shared := (fs_pos st, skipn 8 d) :: fs_shared st |} depth
      else if (t =? 0x0221) && (12 <=? length d)%nat then
        xls_formula_loop rest {| fs_pos := fs_pos st; fs_cells := fs_cells st;
                                 fs_shared := (fs_pos st, skipn 12 d) :: fs_shared st |} depth
      else xls_formula_loop rest st depth
  end.

(* the pass over exp_cells after the loop *)
Definition resolve_cell (shared : list (pos * list N)) (c : fcell) : outcome (pos * list N) :=
  let p := fst (fst c) in
  let text := snd (fst c) in
  match snd c with
  | None => Ok (p, text)
  | Some first =>
      match lookup first shared with
      | None => Ok (p, text)
      | Some cpf =>
          match xls_parse_formula show_f64 (env_at (Some p)) cpf with
          | Ok t => Ok (p, t)
          | Err _ => Ok (p, text)
          | Panic => Panic
          | OutOfFuel => OutOfFuel
          end
      end
  end.

(* the (position, text) cells handed to Range::from_sparse for one sheet; [recs] = the records of
   the substream from its own BOF on *)
Definition xls_sheet_formulas (recs : list record) : outcome (list (pos * list N)) :=
  do st <- xls_formula_loop recs {| fs_pos := (0, 0); fs_cells := []; fs_shared := [] |} 0;
  map_o (resolve_cell (fs_shared st)) (fs_cells st).

(* worksheet_formula of the sheet: xls keeps every FORMULA cell *)
Definition xls_sheet_formula_range (recs : list record) : outcome (range (list N)) :=
  do cells <- xls_sheet_formulas recs; formula_range true cells.

(* ================================================================== SPEC: the formula layout *)
(* [hd]: the 16 bytes between the cell address and the formula (ixfe, the 8-byte cached value, grbit,
   chn) — nothing of it matters for the text *)
Inductive fitem :=
| FPlain (p : pos) (hd : list N) (e : expr)                    (* a cell with a formula of its own *)
| FShared (p : pos) (hd : list N) (rng : N * N * N * N) (cuse : N) (e : expr)
    (* the first cell of a shared group: FORMULA [PtgExp p], then SHRFMLA (ref rng = rwFirst, rwLast,
       colFirst, colLast; cUse) with the shared expression e *)
| FArray (p : pos) (hd : list N) (rng : N * N * N * N) (flags : N) (e : expr)
    (* the first cell of an array formula: FORMULA [PtgExp p], then ARRAY *)
| FMember (p : pos) (hd : list N) (first : pos)                (* another cell of a group: PtgExp first *)
| FOther (t : N) (d : list N)                                  (* any other record of the sheet itself *)
| FSub (bof : list N) (recs : list record).
    (* a substream nested in the sheet — BOF, its records, EOF: the chart of an embedded chart object
       ([MS-XLS] 2.1.7.20.5 OBJECTS -> CHART = BOF CHARTSHEETCONTENT … EOF; Excel 97-2003 writes one per
       chart on the sheet).  The records are ANY records, FORMULA / SHRFMLA / ARRAY and further
       BOF … EOF pairs included, provided BOF and EOF balance; none of them is a formula of the sheet *)

Definition enc_formula_rec (p : pos) (hd cpf : list N) : record :=
  (0x0006, le 2 (fst p) ++ le 2 (snd p) ++ hd ++ cpf).
Definition cpf_exp (first : pos) : list N := frame_xls (0x01 :: le 2 (fst first) ++ le 2 (snd first)).
Definition enc_refu (rng : N * N * N * N) : list N :=
  match rng with (r0, r1, c0, c1) => le 2 r0 ++ le 2 r1 ++ [c0; c1] end.

Definition enc_fitem (it : fitem) : list record :=
  match it with
  | FPlain p hd e => [enc_formula_rec p hd (frame_xls (encode_xls e))]
  | FShared p hd rng cuse e =>
      [enc_formula_rec p hd (cpf_exp p);
       (0x04BC, enc_refu rng ++ [0; cuse] ++ frame_xls (encode_xls e))]
  | FArray p hd rng flags e =>
      [enc_formula_rec p hd (cpf_exp p);
       (0x0221, enc_refu rng ++ le 2 flags ++ [0; 0; 0; 0] ++ frame_xls (encode_xls e))]
  | FMember p hd first => [enc_formula_rec p hd (cpf_exp first)]
  | FOther t d => [(t, d)]
  | FSub bof recs => (0x0809, bof) :: recs ++ [(0x000A, [])]
  end.

(* the records of a whole sheet substream: its BOF (the body is not read), the items, EOF, and
   whatever follows in the stream (the next substream) *)
Definition enc_fsheet (bof : list N) (l : list fitem) (after : list record) : list record :=
  (0x0809, bof) :: flat_map enc_fitem l ++ (0x000A, []) :: after.

(* the group whose first cell is [first]: (is it an array formula, its expression) *)
Fixpoint group_of (l : list fitem) (first : pos) : option (bool * expr) :=
  match l with
  | [] => None
  | FShared p _ _ _ e :: t => if pos_eqb p first then Some (false, e) else group_of t first
  | FArray p _ _ _ e :: t => if pos_eqb p first then Some (true, e) else group_of t first
  | _ :: t => group_of t first
  end.

(* what a cell at [p] that uses group (array?, e) reports: the shared expression seen from p;
   the array expression as it stands *)
Definition group_text (p : pos) (g : bool * expr) : list N :=
  if fst g then render_xls show_f64 (env_at None) (snd g)
  else render_xls show_f64 (env_at (Some p)) (snd g).

Definition spec_cell (l : list fitem) (it : fitem) : list (pos * list N) :=
  match it with
  | FPlain p _ e => [(p, render_xls show_f64 (env_at None) e)]
  | FShared p _ _ _ e => [(p, group_text p (false, e))]
  | FArray p _ _ _ e => [(p, group_text p (true, e))]
  | FMember p _ first =>
      [(p, match group_of l first with Some g => group_text p g | None => [] end)]
  | FOther _ _ => []
  | FSub _ _ => []                       (* nothing in a nested substream is a formula of the sheet *)
  end.
Definition spec_formulas (l : list fitem) : list (pos * list N) := flat_map (spec_cell l) l.

(* ---------- the domain ---------- *)
Definition wf_pos (p : pos) : bool := (fst p <? 65536) && (snd p <? 65536).
Definition wf_hd (p : pos) (hd : list N) : bool :=
  (length hd =? 16)%nat && negb (fvalue_err (le 2 (fst p) ++ le 2 (snd p) ++ hd)).
Definition small (e : expr) : bool := N.of_nat (length (encode_xls e)) <? 65536.
Definition first_of (it : fitem) : list pos :=
  match it with FShared p _ _ _ _ | FArray p _ _ _ _ => [p] | _ => [] end.

(* BOF and EOF balance inside a nested substream: [d] further substreams are open before the
   first record, none at the end, no EOF closes more than were opened *)
Fixpoint fbalanced (d : nat) (recs : list record) : bool :=
  match recs with
  | [] => match d with O => true | S _ => false end
  | r :: rest =>
      if fst r =? 0x0809 then fbalanced (S d) rest
      else if fst r =? 0x000A then match d with O => false | S d' => fbalanced d' rest end
      else fbalanced d rest
  end.

Definition wf_fitem (it : fitem) : bool :=
  match it with
  | FPlain p hd e => wf_pos p && wf_hd p hd && wf_xls (env_at None) e && small e
  | FShared p hd rng cuse e => wf_pos p && wf_hd p hd && wf_xls (env_at (Some p)) e && small e
  | FArray p hd rng flags e => wf_pos p && wf_hd p hd && wf_xls (env_at None) e && small e
  | FMember p hd first => wf_pos p && wf_hd p hd && wf_pos first
  | FOther t _ => negb ((t =? 0x000A) || (t =? 0x0006) || (t =? 0x04BC) || (t =? 0x0221) || (t =? 0x0809))
  | FSub _ recs => fbalanced 0 recs
  end.
(* well-formed items; no two groups start at the same cell *)
Definition wf_layout (l : list fitem) : Prop :=
  forallb wf_fitem l = true /\ NoDup (flat_map first_of l).

End XlsSheet.

(* ================================================================== xlsb ==========
   XlsbCellsReader::next_formula and Xlsb::worksheet_formula (src/xlsb/cells_reader.rs, src/xlsb/mod.rs,
   commit "fix: xlsb cells of shared and array formulas were reported without their formula"), from
   the framed records that follow BrtBeginSheetData on (the scan of [new] up to that record and the
   framing — RecordIter — are C03's XlsbRec.v; the VALUE side, next_cell, is untouched by the fix
   except that it takes the type of a record read ahead, which never exists when only next_cell runs):

     loop { typ = typ_ahead.take() or read_type()?;  len = fill_buffer()?;  record = &buf[..len];
       0x0008 BrtFmlaString  check_len(len, 12)?; cch = u32 @8; formula_rgce(record, 14 + cch * 2)?
       0x0009 BrtFmlaNum     formula_rgce(record, 18)?
       0x000A | 0x000B       formula_rgce(record, 11)?
       0x0000 BrtRowHdr      check_len(len, 4)?; row = u32 @0; if row > 0x100000 { return Ok(None) }; continue
       0x0092 BrtEndSheetData return Ok(None)
       _                     continue }
     value = parse_formula(rgce, extern_sheets, metadata_names, None)?;  pos = (row, u32 @0 of the record)
     if let ([0x01, r0, r1, r2, r3], Some(col)) = (rgce, extra.get(4..8)) {       // PtgExp; column in rgcb
         first = (u32 r0..r3, u32 col);
         typ = read_type()?;                                                      // one record ahead
         if typ == 0x01AB || typ == 0x01AA { len = fill_buffer()?;               // BrtShrFmla / BrtArrFmla
             (rgce, _) = formula_rgce(&buf[..len], if typ == 0x01AB { 16 } else { 17 })?;
             shared.insert(pos, rgce.to_vec()) }
         else { typ_ahead = Some(typ) }                                           // handled by the next turn
         if let Some(rgce) = shared.get(&first) { value = parse_formula(rgce, .., Some(pos))? } }
     Ok(Some(Cell::new(pos, value)))
   formula_rgce(record, start): check_len(len, start + 4)?; cce = u32 @start; check_len(len, start + 4 + cce)?;
     record[start + 4..].split_at(cce)
   worksheet_formula: while let Some(cell) = next_formula()? { if !cell.val.is_empty() { cells.push(cell) } }
     Range::from_sparse(cells)

   Representation: the calls of next_formula made by worksheet_formula are fused into one recursion
   over the record list (a record "read ahead" and handed back through typ_ahead is simply not
   consumed); running out of records is the I/O error of read_type; the BTreeMap [shared] is an
   association list with the latest insertion first.  The reused buffer is not part of the state:
   every read is inside [..len] of the record just filled, or its first four bytes after a length
   check.  Offsets taken from the file stay in N until they are bounded by the record length. *)
Section XlsbSheet.
Variable show_f64 : N -> list N.
Variable sheets : list (list N).           (* extern_sheets *)
Variable names : list (list N).            (* metadata.names, name part *)

Definition benv_at (base : option pos) : xlsb_env :=
  {| be_sheets := sheets; be_names := names; be_base := base |}.

(* formula_rgce(record, start) *)
Definition formula_rgce (d : list N) (start : N) : outcome (list N * list N) :=
  if N.of_nat (length d) <? start + 4 then Err FormulaEnv.E_LEN else
  do cce <- u32_at d (N.to_nat start);
  if N.of_nat (length d) <? start + 4 + cce then Err FormulaEnv.E_LEN else
  let tl := skipn (N.to_nat start + 4) d in
  Ok (firstn (N.to_nat cce) tl, skipn (N.to_nat cce) tl).

(* the formula cell records: where the CellParsedFormula starts; None: not a formula cell *)
Definition formula_start (t : N) (d : list N) : outcome (option N) :=
  if t =? 0x0008 then
    if (length d <? 12)%nat then Err FormulaEnv.E_LEN else
    do cch <- u32_at d 8; Ok (Some (14 + cch * 2))
  else if t =? 0x0009 then Ok (Some 18)
  else if (t =? 0x000A) || (t =? 0x000B) then Ok (Some 11)
  else Ok None.

(* if let ([0x01, r0, r1, r2, r3], Some(col)) = (rgce, extra.get(4..8)) *)
Definition exp_target_b (rgce extra : list N) : option pos :=
  match rgce with
  | [a; r0; r1; r2; r3] =>
      if a =? 1 then
        match skipn 4 extra with
        | c0 :: c1 :: c2 :: c3 :: _ =>
            Some (r0 + 256 * (r1 + 256 * (r2 + 256 * r3)), c0 + 256 * (c1 + 256 * (c2 + 256 * c3)))
        | _ => None
        end
      else None
  | _ => None
  end.

(* if let Some(rgce) = self.shared.get(&first) { value = parse_formula(rgce, .., Some(pos))? } *)
Definition resolve_b (shared : list (pos * list N)) (first p : pos) (value : list N) : outcome (list N) :=
  match lookup first shared with
  | Some rgce => xlsb_parse_formula show_f64 (benv_at (Some p)) rgce
  | None => Ok value
  end.

(* every cell next_formula yields until it returns None, in order *)
Fixpoint xlsb_formula_loop (recs : list record) (row : N) (shared : list (pos * list N)) {struct recs}
  : outcome (list (pos * list N)) :=
  match recs with
  | [] => Err FormulaEnv.E_IO                                    (* read_type()? at the end of the part *)
  | (t, d) :: rest =>
      if t =? 0x0092 then Ok [] else
      if t =? 0x0000 then
        if (length d <? 4)%nat then Err FormulaEnv.E_LEN else
        do r <- u32_at d 0;
        if 0x100000 <? r then Ok [] else xlsb_formula_loop rest r shared
      else
      do st <- formula_start t d;
      match st with
      | None => xlsb_formula_loop rest row shared
      | Some start =>
          do re <- formula_rgce d start;
          do value <- xlsb_parse_formula show_f64 (benv_at None) (fst re);
          do col <- u32_at d 0;
          let p := (row, col) in
          match exp_target_b (fst re) (snd re) with
          | None => do tl <- xlsb_formula_loop rest row shared; Ok ((p, value) :: tl)
          | Some first =>
              match rest with
              | [] => Err FormulaEnv.E_IO                        (* the look-ahead read_type()? *)
              | (t2, d2) :: rest2 =>
                  if (t2 =? 0x01AB) || (t2 =? 0x01AA) then
                    do re2 <- formula_rgce d2 (if t2 =? 0x01AB then 16 else 17);
                    let shared' := (p, fst re2) :: shared in
                    do v <- resolve_b shared' first p value;
                    do tl <- xlsb_formula_loop rest2 row shared'; Ok ((p, v) :: tl)
                  else
                    do v <- resolve_b shared first p value;
                    do tl <- xlsb_formula_loop rest row shared; Ok ((p, v) :: tl)
              end
          end
      end
  end.

(* the cells worksheet_formula sees, from the records after BrtBeginSheetData *)
Definition xlsb_sheet_formulas (recs : list record) : outcome (list (pos * list N)) :=
  xlsb_formula_loop recs 0 [].

(* worksheet_formula of the sheet: cells with an empty text are dropped *)
Definition xlsb_sheet_formula_range (recs : list record) : outcome (range (list N)) :=
  do cells <- xlsb_sheet_formulas recs; formula_range false cells.

(* ================================================================== SPEC: the formula layout of an xlsb sheet *)
(* what stands between the column and the CellParsedFormula of a formula cell record (MS-XLSB
   2.4.672 BrtFmlaNum, 2.4.673 BrtFmlaString, 2.4.670 BrtFmlaBool, 2.4.671 BrtFmlaError; Cell 2.5.9) —
   nothing of it matters for the text *)
Inductive bhead :=
| HNum (mid : list N)                        (* iStyleRef + flags (4), xnum (8), grbitFlags (2) *)
| HBool (mid : list N)                       (* iStyleRef + flags (4), bBool (1), grbitFlags (2) *)
| HErr (mid : list N)                        (* iStyleRef + flags (4), bError (1), grbitFlags (2) *)
| HStr (sty units grbit : list N).           (* iStyleRef + flags (4), XLWideString of UTF-16 units, grbitFlags (2) *)

Definition bhead_type (h : bhead) : N :=
  match h with HNum _ => 0x0009 | HBool _ => 0x000A | HErr _ => 0x000B | HStr _ _ _ => 0x0008 end.
Definition bpre (c : N) (h : bhead) : list N :=
  le 4 c ++ match h with
            | HNum mid | HBool mid | HErr mid => mid
            | HStr sty units grbit => sty ++ le 4 (N.of_nat (length units)) ++ flat_map (le 2) units ++ grbit
            end.
(* CellParsedFormula (MS-XLSB 2.5.97.1): cce, rgce, then cb and rgcb = [extra] *)
Definition cpf_b (rgce extra : list N) : list N := le 4 (N.of_nat (length rgce)) ++ rgce ++ extra.
(* PtgExp (2.5.97.46): the row of the first cell of the group in the token, its column in rgcb
   (PtgExtraCol, cb = 4) *)
Definition cpf_exp_b (first : pos) : list N :=
  cpf_b (0x01 :: le 4 (fst first)) (le 4 4 ++ le 4 (snd first)).
Definition enc_bcell (c : N) (h : bhead) (cpf : list N) : record := (bhead_type h, bpre c h ++ cpf).
(* UncheckedRfX: rwFirst, rwLast, colFirst, colLast *)
Definition enc_rfx (rng : N * N * N * N) : list N :=
  match rng with (r0, r1, c0, c1) => le 4 r0 ++ le 4 r1 ++ le 4 c0 ++ le 4 c1 end.

Inductive bitem :=
| BRow (r : N) (tl : list N)                  (* BrtRowHdr: the row of the cells that follow *)
| BPlain (p : pos) (h : bhead) (e : expr) (extra : list N)     (* a cell with a formula of its own *)
| BEmpty (p : pos) (h : bhead) (extra : list N)                (* a formula cell record without tokens (cce = 0) *)
| BShared (p : pos) (h : bhead) (rng : N * N * N * N) (e : expr) (tl : list N)
    (* the first cell of a shared group: BrtFmla* [PtgExp p], then BrtShrFmla (rfx = rng) with the
       shared expression e; tl: what follows the rgce in the record *)
| BArray (p : pos) (h : bhead) (rng : N * N * N * N) (flags : N) (e : expr) (tl : list N)
    (* the first cell of an array formula: BrtFmla* [PtgExp p], then BrtArrFmla (rfx, one flag byte) *)
| BMember (p : pos) (h : bhead) (first : pos)                  (* another cell of a group: PtgExp first *)
| BOther (t : N) (d : list N).                                 (* a record the formula side ignores *)

Definition enc_bitem (it : bitem) : list record :=
  match it with
  | BRow r tl => [(0x0000, le 4 r ++ tl)]
  | BPlain p h e extra => [enc_bcell (snd p) h (cpf_b (encode_xlsb e) extra)]
  | BEmpty p h extra => [enc_bcell (snd p) h (cpf_b [] extra)]
  | BShared p h rng e tl =>
      [enc_bcell (snd p) h (cpf_exp_b p); (0x01AB, enc_rfx rng ++ cpf_b (encode_xlsb e) tl)]
  | BArray p h rng flags e tl =>
      [enc_bcell (snd p) h (cpf_exp_b p); (0x01AA, enc_rfx rng ++ [flags] ++ cpf_b (encode_xlsb e) tl)]
  | BMember p h first => [enc_bcell (snd p) h (cpf_exp_b first)]
  | BOther t d => [(t, d)]
  end.

(* the groups met so far, latest first: first cell ↦ (is it an array formula, its expression) *)
Definition bgroups : Type := list (pos * (bool * expr)).
Fixpoint glookup (first : pos) (g : bgroups) : option (bool * expr) :=
  match g with
  | [] => None
  | (k, v) :: t => if pos_eqb k first then Some v else glookup first t
  end.

(* what a cell at [p] that uses group (array?, e) reports: the shared expression seen from p (relative
   references are offsets from p, modulo 1048576 rows and 16384 columns); the array expression as it stands *)
Definition group_text_b (p : pos) (g : bool * expr) : list N :=
  if fst g then render_xlsb show_f64 (benv_at None) (snd g)
  else render_xlsb show_f64 (benv_at (Some p)) (snd g).

(* one cell per formula cell record, in stream order; a cell pointing at a cell that has not started
   a group before it (the records of a group's first cell come first in a sheet: rows and columns
   ascend) has no formula *)
Fixpoint spec_formulas_b (g : bgroups) (l : list bitem) : list (pos * list N) :=
  match l with
  | [] => []
  | BRow _ _ :: t | BOther _ _ :: t => spec_formulas_b g t
  | BPlain p _ e _ :: t => (p, render_xlsb show_f64 (benv_at None) e) :: spec_formulas_b g t
  | BEmpty p _ _ :: t => (p, []) :: spec_formulas_b g t
  | BShared p _ _ e _ :: t => (p, group_text_b p (false, e)) :: spec_formulas_b ((p, (false, e)) :: g) t
  | BArray p _ _ _ e _ :: t => (p, group_text_b p (true, e)) :: spec_formulas_b ((p, (true, e)) :: g) t
  | BMember p _ first :: t =>
      (p, match glookup first g with Some gr => group_text_b p gr | None => [] end) :: spec_formulas_b g t
  end.

(* ---------- the domain ---------- *)
Definition wf_bhead (h : bhead) : bool :=
  match h with
  | HNum mid => (length mid =? 14)%nat
  | HBool mid | HErr mid => (length mid =? 7)%nat
  | HStr sty units grbit =>
      (length sty =? 4)%nat && (length grbit =? 2)%nat && (N.of_nat (length units) <? 4294967296) &&
      forallb (fun u => u <? 65536) units
  end.
Definition wf_bpos (p : pos) : bool := (fst p <? 4294967296) && (snd p <? 4294967296).
Definition small_b (e : expr) : bool := N.of_nat (length (encode_xlsb e)) <? 4294967296.
Definition first_of_b (it : bitem) : list pos :=
  match it with BShared p _ _ _ _ | BArray p _ _ _ _ _ => [p] | _ => [] end.

Definition wf_bitem (it : bitem) : bool :=
  match it with
  | BRow r _ => r <=? 0x100000
  | BPlain p h e _ => wf_bpos p && wf_bhead h && wf_xlsb (benv_at None) e && small_b e
  | BEmpty p h _ => wf_bpos p && wf_bhead h
  | BShared p h _ e _ => wf_bpos p && wf_bhead h && wf_xlsb (benv_at (Some p)) e && small_b e
  | BArray p h _ _ e _ => wf_bpos p && wf_bhead h && wf_xlsb (benv_at None) e && small_b e
  | BMember p h first => wf_bpos p && wf_bhead h && wf_bpos first
  | BOther t _ => negb ((t =? 0x0000) || (t =? 0x0008) || (t =? 0x0009) || (t =? 0x000A) || (t =? 0x000B) ||
                        (t =? 0x0092) || (t =? 0x01AB) || (t =? 0x01AA))
  end.
(* every cell sits in the row announced by the BrtRowHdr before it ([row]: the row so far) *)
Fixpoint rows_ok (row : N) (l : list bitem) : bool :=
  match l with
  | [] => true
  | BRow r _ :: t => rows_ok r t
  | BOther _ _ :: t => rows_ok row t
  | BPlain p _ _ _ :: t | BEmpty p _ _ :: t | BShared p _ _ _ _ :: t | BArray p _ _ _ _ _ :: t
  | BMember p _ _ :: t => (fst p =? row) && rows_ok row t
  end.
Definition wf_layout_b (l : list bitem) : Prop := forallb wf_bitem l = true /\ rows_ok 0 l = true.

End XlsbSheet.
