(* XlsText_proofs — property C19 for the xls (BIFF8) storage forms, as a composition of the string
   theorems of C12 (BiffSst_proofs.v) with the UTF-16 round trip of C19 (Utf16_proofs.v):
   a text (list of Unicode scalar values) stored as a shared string (SST entry under any legal
   CONTINUE layout, with or without formatting runs / phonetic data), as an inline LABEL, or as a
   formula's string result (STRING + CONTINUE records under any legal fragmentation) is read back
   as exactly that text by the models of parse_sst / parse_label_sst, parse_label and the String
   arm of the sheet loop.  No new model: the functions are BiffSst's. *)
From Calamine Require Import Prelude Utf16 Utf16_proofs BiffSst BiffSst_proofs.
Open Scope N_scope.

(* the two developments define the same UTF-16 decoder *)
Lemma is_high_same : forall u, BiffSst.is_high u = Utf16.is_high u.
Proof.
  intros u. unfold BiffSst.is_high, Utf16.is_high.
  destruct (55296 <=? u); cbn [andb]; [|reflexivity].
  destruct (u <? 56320) eqn:A; destruct (u <=? 56319) eqn:B; try reflexivity; lia.
Qed.
Lemma is_low_same : forall u, BiffSst.is_low u = Utf16.is_low u.
Proof.
  intros u. unfold BiffSst.is_low, Utf16.is_low.
  destruct (56320 <=? u); cbn [andb]; [|reflexivity].
  destruct (u <? 57344) eqn:A; destruct (u <=? 57343) eqn:B; try reflexivity; lia.
Qed.

Lemma decode_same : forall us, BiffSst.utf16_decode us = Utf16.utf16_decode us.
Proof.
  intros us. remember (length us) as n eqn:Hn. revert us Hn.
  induction n as [n IH] using lt_wf_ind. intros us Hn.
  destruct us as [|u r]; [reflexivity|].
  cbn [BiffSst.utf16_decode Utf16.utf16_decode]. rewrite is_high_same, is_low_same.
  destruct (Utf16.is_high u).
  - destruct r as [|l r']; [reflexivity|]. rewrite is_low_same.
    destruct (Utf16.is_low l).
    + unfold pair_scalar. f_equal. apply (IH (length r')); [cbn [length] in Hn; lia | reflexivity].
    + change FFFD with REPL. f_equal.
      apply (IH (length (l :: r'))); [cbn [length] in *; lia | reflexivity].
  - destruct (Utf16.is_low u).
    + change FFFD with REPL. f_equal. apply (IH (length r)); [cbn [length] in Hn; lia | reflexivity].
    + f_equal. apply (IH (length r)); [cbn [length] in Hn; lia | reflexivity].
Qed.

(* the stored units of a text decode to the text (BiffSst's decoder) *)
Lemma decode_encode_text : forall s, Forall scalar s ->
  BiffSst.utf16_decode (utf16_encode s) = s.
Proof. intros s Hs. rewrite decode_same. apply utf16_roundtrip, Hs. Qed.

Lemma is_nil_encode : forall s, Forall scalar s -> is_nil (utf16_encode s) = is_nil s.
Proof.
  intros [|c s] Hs; [reflexivity|]. cbn [utf16_encode flat_map is_nil].
  unfold enc_scalar. destruct (c <? 65536); reflexivity.
Qed.

(* C19, xls: every storage form of a cell's text *)
Theorem text_survives_xls : forall s, Forall scalar s ->
  (* shared string: entry i of a table under ANY legal layout, referenced by a LABELSST cell *)
  (forall strs lay i row col ixfe,
     legal_layout strs lay = true -> i <= 4294967295 ->
     nth_error strs (N.to_nat i) = Some (utf16_encode s) ->
     exists tbl, parse_sst (sst_encode strs lay) = Ok tbl /\ length tbl = length strs /\
       nth_error tbl (N.to_nat i) = Some s /\
       parse_label_sst (labelsst_body row col ixfe i) tbl =
       Ok (if is_nil s then None else Some (row, col, s)))
  (* inline string: LABEL record, either packing the units allow *)
  /\ (forall row col ixfe hb, legal_xl_string hb (utf16_encode s) = true ->
        parse_label (label_body row col ixfe hb (utf16_encode s)) = Ok (Some (row, col, s)))
  (* formula string result: STRING + CONTINUE records, any legal fragmentation and packing *)
  /\ (forall hb cuts rest, legal_fstring (utf16_encode s) hb cuts = true ->
        string_arm (fst (frags (fstring_items (utf16_encode s) hb cuts ++ rest)))
                   (cont_opt (snd (frags (fstring_items (utf16_encode s) hb cuts ++ rest))))
        = Ok s).
Proof.
  intros s Hs. repeat split.
  - intros strs lay i row col ixfe Hl Hi Hn.
    destruct (later_strings_unaffected strs lay (N.to_nat i) _ Hl Hn) as (tbl & Hp & Hlen & Hnth).
    destruct (labelsst_resolves strs lay row col ixfe i _ Hl Hi Hn) as (tbl' & Hp' & Hc).
    rewrite Hp in Hp'. injection Hp' as <-.
    unfold units in *. rewrite (decode_encode_text s Hs) in *. rewrite (is_nil_encode s Hs) in Hc.
    exists tbl. repeat split; assumption.
  - intros row col ixfe hb Hl.
    rewrite (parse_label_ok row col ixfe hb _ Hl), (decode_encode_text s Hs). reflexivity.
  - intros hb cuts rest Hl.
    rewrite (formula_string_any_split _ hb cuts rest Hl), (decode_encode_text s Hs). reflexivity.
Qed.

(* non-vacuity: "a", U+1F600, "é" as entry 1 of a table whose first entry is a rich string cut
   inside its run block; as a LABEL; as a formula result cut inside the surrogate pair with a
   compressed last fragment *)
Definition ex_text : list N := [97; 128512; 233].
Lemma example_text_xls :
  Forall scalar ex_text /\ utf16_encode ex_text = [97; 55357; 56832; 233] /\
  legal_layout [[72; 105]; utf16_encode ex_text]
    (mkLay 2 [mkSL false false [] (Some [(0, 1); (1, 2)]) None [5%nat];
              mkSL true true [(2%nat, true)] None (Some [1; 2; 3]) [1%nat]]) = true /\
  legal_xl_string true (utf16_encode ex_text) = true /\
  legal_fstring (utf16_encode ex_text) true [(2%nat, true); (1%nat, false)] = true.
Proof.
  split; [repeat constructor|]. repeat split; vm_compute; reflexivity.
Qed.

(* ------------------------------------------------------------------------------------- *)
(* C19 through a whole workbook (C12's reduced parse_workbook), for EVERY CodePage record the
   globals may carry (any 16-bit value, or none): the code page has no say in BIFF8 (audit-2
   finding XLS-1, repaired), so a sheet name and a text stored in any of the three forms — a LABEL
   cell, a formula's STRING result under any legal fragmentation, a LABELSST cell into a shared
   string table under any legal CONTINUE layout — read back as exactly that text. *)
Lemma filter_nonzero_id : forall n : list N, Forall (fun c => c <> 0) n ->
  filter (fun c => negb (c =? 0)) n = n.
Proof.
  induction n as [|c n IH]; intros H; [reflexivity|]. inversion H as [|? ? Hc Hn]; subst.
  cbn [filter]. replace (c =? 0) with false by lia. cbn [negb]. rewrite (IH Hn). reflexivity.
Qed.

Theorem text_survives_xls_workbook : forall cp strs lay shs,
  legal_workbook cp strs lay shs = true ->
  exists res, wb_strings (workbook_stream cp strs lay shs) = Ok res /\
    length res = length shs /\
    forall k sh, nth_error shs k = Some sh ->
      exists nm cells, nth_error res k = Some (nm, cells) /\
        (forall n, Forall scalar n -> Forall (fun c => c <> 0) n ->
                   sh_name sh = utf16_encode n -> nm = n) /\
        forall s, Forall scalar s ->
          (forall r c hb, In (CLabel r c hb (utf16_encode s)) (sh_cells sh) -> In (r, c, s) cells)
          /\ (forall r c hb cuts, In (CFString r c hb (utf16_encode s) cuts) (sh_cells sh) ->
                In (r, c, s) cells)
          /\ (forall r c i, In (CSst r c i) (sh_cells sh) ->
                nth_error strs (N.to_nat i) = Some (utf16_encode s) -> s <> [] ->
                In (r, c, s) cells).
Proof.
  intros cp strs lay shs Hl. exists (wb_spec strs shs).
  split; [apply wb_strings_ok; exact Hl|]. split; [unfold wb_spec; apply map_length|].
  intros k sh Hk. unfold wb_spec. rewrite (map_nth_error _ _ _ Hk).
  eexists. eexists. split; [reflexivity|]. split.
  - intros n Hn Hz E. rewrite E, (decode_encode_text n Hn). apply filter_nonzero_id, Hz.
  - intros s Hs. repeat split.
    + intros r c hb Hin. apply in_flat_map. eexists. split; [exact Hin|].
      cbn [cell_text]. rewrite (decode_encode_text s Hs). left. reflexivity.
    + intros r c hb cuts Hin. apply in_flat_map. eexists. split; [exact Hin|].
      cbn [cell_text]. rewrite (decode_encode_text s Hs). left. reflexivity.
    + intros r c i Hin Hn Hne. apply in_flat_map. eexists. split; [exact Hin|].
      cbn [cell_text]. rewrite (map_nth_error _ _ _ Hn), (decode_encode_text s Hs).
      destruct s as [|x s']; [contradiction|]. cbn [is_nil]. left. reflexivity.
Qed.

(* non-vacuity: the text of [ex_text] as a sheet name, a LABEL, a continued formula result and a
   shared string, in a workbook whose globals declare code page 1252 (what JExcelApi writes), 932,
   a value no decoder table knows, or nothing *)
Definition ex_wb_strs : list (list N) := [[72; 105]; utf16_encode ex_text].
Definition ex_wb_lay : layout :=
  mkLay 2 [mkSL false false [] (Some [(0, 1); (1, 2)]) None [5%nat];
           mkSL true true [(2%nat, true)] None (Some [1; 2; 3]) [1%nat]].
Definition ex_wb_sheets : list sheet_spec :=
  [mkSheet true (utf16_encode ex_text)
           [CLabel 0 0 true (utf16_encode ex_text);
            CFString 1 0 true (utf16_encode ex_text) [(2%nat, true); (1%nat, false)];
            CSst 2 0 1]].
Lemma example_text_xls_workbook :
  Forall (fun cp => legal_workbook cp ex_wb_strs ex_wb_lay ex_wb_sheets = true /\
                    wb_strings (workbook_stream cp ex_wb_strs ex_wb_lay ex_wb_sheets) =
                    Ok [(ex_text, [(0, 0, ex_text); (1, 0, ex_text); (2, 0, ex_text)])])
         [Some 1252; Some 1200; Some 932; Some 65001; Some 54321; None].
Proof. repeat constructor; vm_compute; reflexivity. Qed.
