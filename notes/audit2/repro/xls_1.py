#!/usr/bin/env python3
"""xls_1: BIFF8 workbook whose CODEPAGE record is not 1200 (JExcelApi writes 0x04E4 = 1252 in BIFF8
files; /repo/tests/sheet_name_parsing.xls is such a file).  [MS-XLS] 2.4.52 CodePage allows any code
page; 2.5.294 XLUnicodeString / 2.5.293: fHighByte=0 means "high byte 0x00, only the low bytes are
stored" (i.e. Latin-1 / UTF-16 low bytes), fHighByte=1 means UTF-16LE - neither depends on the code
page in BIFF8.
Expected (C12/C19/C16): sheet name and cell texts exactly as stored."""
import sys, struct
sys.path.insert(0, '/verif/tools'); sys.path.insert(0, '/tmp/ag/audit2')
import xlsgen
from vhrun import vh, hx
OUT = '/tmp/ag/audit2/repro/out/'
def build(cp, name):
    wb = {"codepage": cp,
          "sst": ["Titel", "€uro", "café"],
          "sheets": [{"name": name, "cells": [
              {"k": "labelsst", "r": 0, "c": 0, "isst": 0},
              {"k": "labelsst", "r": 0, "c": 1, "isst": 1},
              {"k": "labelsst", "r": 0, "c": 2, "isst": 2},
              {"k": "label", "r": 1, "c": 0, "s": "abc"},
              {"k": "formula", "r": 2, "c": 0, "cached": ("str", xlsgen.units_of("xyz"), False)},
          ]}]}
    return xlsgen.write_xls(wb, {"pad_to": 4096})
for cp in (1200, 1252):
    for nm in ("Data", "Tab€"):
        p = OUT + 'xls_1_cp%d_%s.xls' % (cp, 'ascii' if nm == 'Data' else 'wide')
        open(p, 'wb').write(build(cp, nm))
        print(cp, repr(nm), vh('xls', p, ['sheets', 'at 0']))
print('fixture', vh('xls', '/repo/tests/sheet_name_parsing.xls', ['sheets', 'range ' + hx('Sheet1')]))
