# P11: literal CR LF inside <t> (XML 1.0 2.11: a parser passes a single LF to the application; Excel/MSXML does)
from xlsx_base import *
sst = (DECL + '<sst xmlns="%s" count="2" uniqueCount="2"><si><t>a\r\nb\rc</t></si><si><t>a&#13;&#10;b</t></si></sst>' % NS).encode()
p = build('xlsx_11_crlf.xlsx', sheet('<row r="1"><c r="A1" t="s"><v>0</v></c><c r="B1" t="s"><v>1</v></c><c r="C1" t="inlineStr"><is><t>x\r\ny</t></is></c></row>').encode(), sst=sst)
run(p, ['range ' + hx('Sheet1')])
