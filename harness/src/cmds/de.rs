// C09: deserialize a real Range<Data> through the public API (Range::deserialize,
// RangeDeserializerBuilder::{new,has_headers,with_headers,with_deserialize_headers,from_range},
// RangeDeserializer as Iterator) into one of a fixed family of target shapes and print the whole
// observable run: size_hint before every next(), every item, size_hint after the end.
//   args[0] = range: "-" (Range::empty()) or "sr,sc,h,w;cell,cell,…" (h*w cells, row-major)
//             cells as util::data_str prints them: E | I<i64> | F<bits> | S<hex> | B0/1 |
//             D<bits>:<dur>:<1904> | T<hex> | U<hex> | X<code>
//   args[1] = header configuration: N (has_headers(false)) | A (Range::deserialize) |
//             H (builder.has_headers(true)) | C:<hex>,<hex>… (with_headers; "-" = empty string,
//             "C:" = no header) | W (with_deserialize_headers::<Target>())
//             or "@<path>|<n>": the n-th worksheet of a workbook opened with open_workbook_auto
//   args[2] = shape: vec:K | t1:K | t2:K | map:K | bare:K | mix:M1..M4 | st:S1..S5
//             or "dump": print the range in the syntax of args[0]
use crate::util::{data_str, err_code, hex, hexstr, unhex};
use calamine::{
    CellErrorType, Data, DeError, ExcelDateTime, ExcelDateTimeType, Range, RangeDeserializer,
    RangeDeserializerBuilder,
};
use serde::de::{DeserializeOwned, IgnoredAny, Visitor};
use serde::{Deserialize, Deserializer};
use std::collections::HashMap;
use std::fmt;

// ------------------------------------------------------------------ canonical printing
pub trait Show {
    fn show(&self) -> String;
}
macro_rules! show_int {
    ($($t:ty),*) => { $(impl Show for $t { fn show(&self) -> String { format!("i{}", self) } })* };
}
show_int!(i8, i16, i32, i64, u8, u16, u32, u64);
impl Show for bool {
    fn show(&self) -> String {
        format!("b{}", *self as u8)
    }
}
impl Show for f64 {
    fn show(&self) -> String {
        format!("d{}", self.to_bits())
    }
}
impl Show for f32 {
    fn show(&self) -> String {
        if self.is_nan() {
            "fnan".to_string()
        } else {
            format!("f{}", self.to_bits())
        }
    }
}
impl Show for char {
    fn show(&self) -> String {
        format!("c{}", *self as u32)
    }
}
impl Show for String {
    fn show(&self) -> String {
        format!("s{}", hexstr(self))
    }
}
impl Show for () {
    fn show(&self) -> String {
        "u".to_string()
    }
}
impl Show for Data {
    fn show(&self) -> String {
        format!("D{}", data_str(self))
    }
}
impl Show for IgnoredAny {
    fn show(&self) -> String {
        "g".to_string()
    }
}
impl<T: Show> Show for Option<T> {
    fn show(&self) -> String {
        match self {
            None => "n".to_string(),
            Some(v) => format!("o({})", v.show()),
        }
    }
}
impl<T: Show> Show for Result<T, String> {
    fn show(&self) -> String {
        match self {
            Ok(v) => format!("k({})", v.show()),
            Err(s) => format!("e{}", hexstr(s)),
        }
    }
}

/// a byte buffer asked through deserialize_byte_buf
pub struct Bytes(Vec<u8>);
impl<'de> Deserialize<'de> for Bytes {
    fn deserialize<D: Deserializer<'de>>(d: D) -> Result<Self, D::Error> {
        struct V;
        impl<'de> Visitor<'de> for V {
            type Value = Bytes;
            fn expecting(&self, f: &mut fmt::Formatter) -> fmt::Result {
                f.write_str("bytes")
            }
            fn visit_bytes<E>(self, v: &[u8]) -> Result<Bytes, E> {
                Ok(Bytes(v.to_vec()))
            }
            fn visit_byte_buf<E>(self, v: Vec<u8>) -> Result<Bytes, E> {
                Ok(Bytes(v))
            }
        }
        d.deserialize_byte_buf(V)
    }
}
impl Show for Bytes {
    fn show(&self) -> String {
        format!("y{}", hex(&self.0))
    }
}
/// the same through deserialize_bytes
pub struct BytesRef(Vec<u8>);
impl<'de> Deserialize<'de> for BytesRef {
    fn deserialize<D: Deserializer<'de>>(d: D) -> Result<Self, D::Error> {
        struct V;
        impl<'de> Visitor<'de> for V {
            type Value = BytesRef;
            fn expecting(&self, f: &mut fmt::Formatter) -> fmt::Result {
                f.write_str("bytes")
            }
            fn visit_bytes<E>(self, v: &[u8]) -> Result<BytesRef, E> {
                Ok(BytesRef(v.to_vec()))
            }
        }
        d.deserialize_bytes(V)
    }
}
impl Show for BytesRef {
    fn show(&self) -> String {
        format!("y{}", hex(&self.0))
    }
}

#[derive(Deserialize)]
pub enum Color {
    Red,
    Green,
    #[serde(rename = "Dark Blue")]
    Blue,
}
impl Show for Color {
    fn show(&self) -> String {
        format!(
            "v{}",
            match self {
                Color::Red => 0,
                Color::Green => 1,
                Color::Blue => 2,
            }
        )
    }
}

#[derive(Deserialize)]
pub struct Nt<T>(T);
impl<T: Show> Show for Nt<T> {
    fn show(&self) -> String {
        self.0.show()
    }
}

#[derive(Deserialize)]
pub struct I64N(#[serde(deserialize_with = "calamine::deserialize_as_i64_or_none")] Option<i64>);
#[derive(Deserialize)]
pub struct I64S(
    #[serde(deserialize_with = "calamine::deserialize_as_i64_or_string")] Result<i64, String>,
);
#[derive(Deserialize)]
pub struct F64N(#[serde(deserialize_with = "calamine::deserialize_as_f64_or_none")] Option<f64>);
#[derive(Deserialize)]
pub struct F64S(
    #[serde(deserialize_with = "calamine::deserialize_as_f64_or_string")] Result<f64, String>,
);
impl Show for I64N {
    fn show(&self) -> String {
        self.0.show()
    }
}
impl Show for I64S {
    fn show(&self) -> String {
        self.0.show()
    }
}
impl Show for F64N {
    fn show(&self) -> String {
        self.0.show()
    }
}
impl Show for F64S {
    fn show(&self) -> String {
        self.0.show()
    }
}

// sequences
impl<T: Show> Show for Vec<T> {
    fn show(&self) -> String {
        format!("Q[{}]", self.iter().map(|v| v.show()).collect::<Vec<_>>().join(";"))
    }
}
impl<A: Show> Show for (A,) {
    fn show(&self) -> String {
        format!("Q[{}]", self.0.show())
    }
}
impl<A: Show, B: Show> Show for (A, B) {
    fn show(&self) -> String {
        format!("Q[{};{}]", self.0.show(), self.1.show())
    }
}
impl<A: Show, B: Show, C: Show> Show for (A, B, C) {
    fn show(&self) -> String {
        format!("Q[{};{};{}]", self.0.show(), self.1.show(), self.2.show())
    }
}
impl<A: Show, B: Show, C: Show, D: Show> Show for (A, B, C, D) {
    fn show(&self) -> String {
        format!("Q[{};{};{};{}]", self.0.show(), self.1.show(), self.2.show(), self.3.show())
    }
}
impl<A: Show, B: Show, C: Show, D: Show, E: Show> Show for (A, B, C, D, E) {
    fn show(&self) -> String {
        format!(
            "Q[{};{};{};{};{}]",
            self.0.show(),
            self.1.show(),
            self.2.show(),
            self.3.show(),
            self.4.show()
        )
    }
}
// maps: entries sorted by key (a HashMap has no order)
impl<T: Show> Show for HashMap<String, T> {
    fn show(&self) -> String {
        let mut kv: Vec<(&String, &T)> = self.iter().collect();
        kv.sort_by(|a, b| a.0.as_bytes().cmp(b.0.as_bytes()));
        format!(
            "M[{}]",
            kv.iter()
                .map(|(k, v)| format!("{}={}", hexstr(k), v.show()))
                .collect::<Vec<_>>()
                .join(";")
        )
    }
}
/// a primitive asked of a whole row
pub struct Bare<T>(T);
impl<'de, T: Deserialize<'de>> Deserialize<'de> for Bare<T> {
    fn deserialize<D: Deserializer<'de>>(d: D) -> Result<Self, D::Error> {
        T::deserialize(d).map(Bare)
    }
}
impl<T: Show> Show for Bare<T> {
    fn show(&self) -> String {
        format!("P[{}]", self.0.show())
    }
}

// ------------------------------------------------------------------ structs
#[derive(Deserialize)]
pub struct S1 {
    label: String,
    value: f64,
}
impl Show for S1 {
    fn show(&self) -> String {
        format!("R[{};{}]", self.label.show(), self.value.show())
    }
}
#[derive(Deserialize)]
pub struct S2 {
    a: Option<i64>,
    b: Option<String>,
    c: Option<f64>,
    d: Option<bool>,
}
impl Show for S2 {
    fn show(&self) -> String {
        format!("R[{};{};{};{}]", self.a.show(), self.b.show(), self.c.show(), self.d.show())
    }
}
#[derive(Deserialize)]
pub struct S3 {
    #[serde(rename = "First Name")]
    first: Option<String>,
    #[serde(rename = "b")]
    second: i64,
    c: Option<Data>,
}
impl Show for S3 {
    fn show(&self) -> String {
        format!("R[{};{};{}]", self.first.show(), self.second.show(), self.c.show())
    }
}
#[derive(Deserialize)]
pub struct S4 {
    #[serde(default, deserialize_with = "calamine::deserialize_as_i64_or_none")]
    a: Option<i64>,
    #[serde(deserialize_with = "calamine::deserialize_as_f64_or_string")]
    b: Result<f64, String>,
    #[serde(default)]
    c: i64,
    d: Option<Option<u8>>,
    #[serde(default)]
    label: String,
}
impl Show for S4 {
    fn show(&self) -> String {
        format!(
            "R[{};{};{};{};{}]",
            self.a.show(),
            self.b.show(),
            self.c.show(),
            self.d.show(),
            self.label.show()
        )
    }
}
#[derive(Deserialize)]
pub struct S5 {
    value: Data,
    label: Option<Color>,
    a: Option<u8>,
}
impl Show for S5 {
    fn show(&self) -> String {
        format!("R[{};{};{}]", self.value.show(), self.label.show(), self.a.show())
    }
}

// ------------------------------------------------------------------ input
fn err_of(code: u8) -> CellErrorType {
    match code {
        0 => CellErrorType::Div0,
        1 => CellErrorType::NA,
        2 => CellErrorType::Name,
        3 => CellErrorType::Null,
        4 => CellErrorType::Num,
        5 => CellErrorType::Ref,
        6 => CellErrorType::Value,
        _ => CellErrorType::GettingData,
    }
}
fn utf8(hexs: &str) -> String {
    String::from_utf8(unhex(hexs)).expect("utf8")
}
pub fn parse_cell(t: &str) -> Data {
    let (k, rest) = t.split_at(1);
    match k {
        "E" => Data::Empty,
        "I" => Data::Int(rest.parse().unwrap()),
        "F" => Data::Float(f64::from_bits(rest.parse().unwrap())),
        "S" => Data::String(utf8(rest)),
        "B" => Data::Bool(rest == "1"),
        "D" => {
            let p: Vec<&str> = rest.split(':').collect();
            Data::DateTime(ExcelDateTime::new(
                f64::from_bits(p[0].parse().unwrap()),
                if p[1] == "1" { ExcelDateTimeType::TimeDelta } else { ExcelDateTimeType::DateTime },
                p[2] == "1",
            ))
        }
        "T" => Data::DateTimeIso(utf8(rest)),
        "U" => Data::DurationIso(utf8(rest)),
        "X" => Data::Error(err_of(rest.parse().unwrap())),
        _ => panic!("bad cell"),
    }
}
pub fn parse_range(s: &str) -> Range<Data> {
    if s == "-" {
        return Range::empty();
    }
    let (dims, cells) = s.split_once(';').unwrap();
    let d: Vec<u32> = dims.split(',').map(|x| x.parse::<u64>().unwrap() as u32).collect();
    let (sr, sc, h, w) = (d[0], d[1], d[2], d[3]);
    let mut r: Range<Data> = Range::new((sr, sc), (sr + (h - 1), sc + (w - 1)));
    for (i, t) in cells.split(',').enumerate() {
        let v = parse_cell(t);
        if v != Data::Empty {
            r.set_value((sr + (i as u32) / w, sc + (i as u32) % w), v);
        }
    }
    r
}
enum Cfg {
    NoHeaders,
    AllViaRange,
    AllViaBuilder,
    Custom(Vec<String>),
    FromTarget,
}
fn parse_cfg(s: &str) -> Cfg {
    match s {
        "N" => Cfg::NoHeaders,
        "A" => Cfg::AllViaRange,
        "H" => Cfg::AllViaBuilder,
        "W" => Cfg::FromTarget,
        _ => {
            let rest = s.strip_prefix("C:").expect("cfg");
            if rest.is_empty() {
                Cfg::Custom(vec![])
            } else {
                Cfg::Custom(
                    rest.split(',').map(|h| if h == "-" { String::new() } else { utf8(h) }).collect(),
                )
            }
        }
    }
}

fn show_err(e: &DeError) -> String {
    match e {
        DeError::CellOutOfRange { .. } => "err:oor".to_string(),
        DeError::CellError { err, pos } => format!("err:cell:{}:{}:{}", err_code(err), pos.0, pos.1),
        DeError::UnexpectedEndOfRow { pos } => format!("err:eor:{}:{}", pos.0, pos.1),
        DeError::HeaderNotFound(h) => format!("err:hnf:{}", hexstr(h)),
        DeError::Custom(_) => "err:custom".to_string(),
    }
}
fn show_hint(h: (usize, Option<usize>)) -> String {
    match h.1 {
        Some(u) => format!("{}/{}", h.0, u),
        None => format!("{}/-", h.0),
    }
}

fn build<'a, D: DeserializeOwned>(
    range: &'a Range<Data>,
    cfg: &Cfg,
) -> Result<RangeDeserializer<'a, Data, D>, DeError> {
    match cfg {
        Cfg::NoHeaders => RangeDeserializerBuilder::new().has_headers(false).from_range(range),
        Cfg::AllViaRange => range.deserialize(),
        Cfg::AllViaBuilder => RangeDeserializerBuilder::new().has_headers(true).from_range(range),
        Cfg::Custom(hs) => RangeDeserializerBuilder::with_headers(hs).from_range(range),
        Cfg::FromTarget => {
            RangeDeserializerBuilder::with_deserialize_headers::<D>().from_range(range)
        }
    }
}

fn show_item<D: Show>(x: &Result<D, DeError>) -> String {
    match x {
        Ok(rec) => format!("ok:{}", rec.show()),
        Err(e) => show_err(e),
    }
}

/// The items reached through the other ways of driving the iterator (nth, skip, step_by, last,
/// count) must be the items plain next() yields: same records, same error positions.
fn other_drivers<D: DeserializeOwned + Show>(range: &Range<Data>, cfg: &Cfg, plain: &[String]) -> String {
    let n = plain.len();
    for k in [1usize, 2, 3] {
        if let Ok(mut it) = build::<D>(range, cfg) {
            let got = it.nth(k).map(|x| show_item(&x));
            if got.as_deref() != plain.get(k).map(|s| s.as_str()) {
                return format!("|ITERMISMATCH:nth({})", k);
            }
            let next = it.next().map(|x| show_item(&x));
            if next.as_deref() != plain.get(k + 1).map(|s| s.as_str()) {
                return format!("|ITERMISMATCH:next-after-nth({})", k);
            }
        }
    }
    if let Ok(it) = build::<D>(range, cfg) {
        let got: Vec<String> = it.skip(2).map(|x| show_item(&x)).collect();
        if got[..] != plain[n.min(2)..] {
            return "|ITERMISMATCH:skip(2)".to_string();
        }
    }
    if let Ok(it) = build::<D>(range, cfg) {
        let got: Vec<String> = it.step_by(2).map(|x| show_item(&x)).collect();
        let want: Vec<String> = plain.iter().step_by(2).cloned().collect();
        if got != want {
            return "|ITERMISMATCH:step_by(2)".to_string();
        }
    }
    if let Ok(it) = build::<D>(range, cfg) {
        if it.last().map(|x| show_item(&x)).as_deref() != plain.last().map(|s| s.as_str()) {
            return "|ITERMISMATCH:last".to_string();
        }
    }
    if let Ok(it) = build::<D>(range, cfg) {
        if it.count() != n {
            return "|ITERMISMATCH:count".to_string();
        }
    }
    String::new()
}

fn iterate<D: DeserializeOwned + Show>(range: &Range<Data>, cfg: &Cfg) -> String {
    let built: Result<RangeDeserializer<'_, Data, D>, DeError> = build::<D>(range, cfg);
    let mut plain: Vec<String> = Vec::new();
    let mut it = match built {
        Ok(it) => it,
        Err(e) => return format!("new-{}", show_err(&e)),
    };
    let mut out: Vec<String> = Vec::new();
    let mut guard = 0usize;
    loop {
        let h = it.size_hint();
        match it.next() {
            Some(x) => {
                let t = show_item(&x);
                out.push(format!("{}:{}", show_hint(h), t));
                plain.push(t);
            }
            None => {
                out.push(format!("{}:end", show_hint(h)));
                out.push(format!("{}:end", show_hint(it.size_hint())));
                break;
            }
        }
        guard += 1;
        if guard > 100_000 {
            out.push("runaway".to_string());
            break;
        }
    }
    let extra = if guard <= 100_000 { other_drivers::<D>(range, cfg, &plain) } else { String::new() };
    out.join("|") + &extra
}

fn run_vec<K: DeserializeOwned + Show>(r: &Range<Data>, c: &Cfg) -> String {
    iterate::<Vec<K>>(r, c)
}
fn run_t1<K: DeserializeOwned + Show>(r: &Range<Data>, c: &Cfg) -> String {
    iterate::<(K,)>(r, c)
}
fn run_t2<K: DeserializeOwned + Show>(r: &Range<Data>, c: &Cfg) -> String {
    iterate::<(K, K)>(r, c)
}
fn run_map<K: DeserializeOwned + Show>(r: &Range<Data>, c: &Cfg) -> String {
    iterate::<HashMap<String, K>>(r, c)
}
fn run_bare<K: DeserializeOwned + Show>(r: &Range<Data>, c: &Cfg) -> String {
    iterate::<Bare<K>>(r, c)
}

macro_rules! with_kind {
    ($name:expr, $f:ident, $r:expr, $c:expr) => {
        match $name {
            "bool" => $f::<bool>($r, $c),
            "i8" => $f::<i8>($r, $c),
            "i16" => $f::<i16>($r, $c),
            "i32" => $f::<i32>($r, $c),
            "i64" => $f::<i64>($r, $c),
            "u8" => $f::<u8>($r, $c),
            "u16" => $f::<u16>($r, $c),
            "u32" => $f::<u32>($r, $c),
            "u64" => $f::<u64>($r, $c),
            "f32" => $f::<f32>($r, $c),
            "f64" => $f::<f64>($r, $c),
            "char" => $f::<char>($r, $c),
            "string" => $f::<String>($r, $c),
            "bytes" => $f::<Bytes>($r, $c),
            "bytesref" => $f::<BytesRef>($r, $c),
            "unit" => $f::<()>($r, $c),
            "enum" => $f::<Color>($r, $c),
            "data" => $f::<Data>($r, $c),
            "ign" => $f::<IgnoredAny>($r, $c),
            "i64n" => $f::<I64N>($r, $c),
            "i64s" => $f::<I64S>($r, $c),
            "f64n" => $f::<F64N>($r, $c),
            "f64s" => $f::<F64S>($r, $c),
            "opt(bool)" => $f::<Option<bool>>($r, $c),
            "opt(i8)" => $f::<Option<i8>>($r, $c),
            "opt(i64)" => $f::<Option<i64>>($r, $c),
            "opt(u8)" => $f::<Option<u8>>($r, $c),
            "opt(u64)" => $f::<Option<u64>>($r, $c),
            "opt(f32)" => $f::<Option<f32>>($r, $c),
            "opt(f64)" => $f::<Option<f64>>($r, $c),
            "opt(char)" => $f::<Option<char>>($r, $c),
            "opt(string)" => $f::<Option<String>>($r, $c),
            "opt(bytes)" => $f::<Option<Bytes>>($r, $c),
            "opt(unit)" => $f::<Option<()>>($r, $c),
            "opt(enum)" => $f::<Option<Color>>($r, $c),
            "opt(data)" => $f::<Option<Data>>($r, $c),
            "opt(opt(i64))" => $f::<Option<Option<i64>>>($r, $c),
            "nt(i64)" => $f::<Nt<i64>>($r, $c),
            "nt(opt(string))" => $f::<Nt<Option<String>>>($r, $c),
            "opt(nt(f64))" => $f::<Option<Nt<f64>>>($r, $c),
            _ => "bad-kind".to_string(),
        }
    };
}

/// "@<path>|<n>": the n-th worksheet of a real workbook, read by calamine's own readers
fn load_range(spec: &str) -> Range<Data> {
    if let Some(rest) = spec.strip_prefix('@') {
        use calamine::Reader;
        let (p, n) = rest.rsplit_once('|').expect("file spec");
        let mut wb = calamine::open_workbook_auto(p).expect("open");
        wb.worksheet_range_at(n.parse().expect("index")).expect("sheet index").expect("range")
    } else {
        parse_range(spec)
    }
}
/// the textual description (same syntax as the input) of a range
fn dump_range(r: &Range<Data>) -> String {
    match r.start() {
        None => "-".to_string(),
        Some(s) => {
            let (h, w) = r.get_size();
            let cells: Vec<String> = r.rows().flat_map(|row| row.iter().map(data_str)).collect();
            format!("{},{},{},{};{}", s.0, s.1, h, w, cells.join(","))
        }
    }
}

pub fn run(args: &[&str]) -> String {
    let range = load_range(args[0]);
    if args[2] == "dump" {
        return dump_range(&range);
    }
    let cfg = parse_cfg(args[1]);
    let (fam, arg) = args[2].split_once(':').unwrap_or((args[2], ""));
    match fam {
        "vec" => with_kind!(arg, run_vec, &range, &cfg),
        "t1" => with_kind!(arg, run_t1, &range, &cfg),
        "t2" => with_kind!(arg, run_t2, &range, &cfg),
        "map" => with_kind!(arg, run_map, &range, &cfg),
        "bare" => with_kind!(arg, run_bare, &range, &cfg),
        "mix" => match arg {
            "M1" => iterate::<(String, f64)>(&range, &cfg),
            "M2" => iterate::<(Option<i64>, Option<String>, Option<f64>, Option<bool>, Option<Data>)>(
                &range, &cfg,
            ),
            "M3" => iterate::<(i64, String, bool, f64)>(&range, &cfg),
            "M4" => iterate::<(u8, i16, f32, char)>(&range, &cfg),
            _ => "bad-mix".to_string(),
        },
        "st" => match arg {
            "S1" => iterate::<S1>(&range, &cfg),
            "S2" => iterate::<S2>(&range, &cfg),
            "S3" => iterate::<S3>(&range, &cfg),
            "S4" => iterate::<S4>(&range, &cfg),
            "S5" => iterate::<S5>(&range, &cfg),
            _ => "bad-struct".to_string(),
        },
        _ => "bad-shape".to_string(),
    }
}
