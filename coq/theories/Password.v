(* Password.v — detection of password-protected workbooks (property C20), xls and ods parts.
   (The compound-file sniff of xlsx / xlsb is in PasswordCfb.v.)

   xls : Xls::new_with_options -> parse_workbook (src/xls.rs), up to the end of the globals loop:
           the stream lookup `get_stream("Workbook").or_else(get_stream("Book"))`,
           RecordIter::next at the byte level (record framing, CONTINUE collection, its three
           EoStream errors), and the globals loop: the FILEPASS arm (0x002F, since fix 489ec3a for
           every encryption type), the EOF arm (0x000A), and the other arms through a function
           [interp] (Section variable in the theorems; [interp_real] is the executable instance:
           CodePage, Date1904, BOF, XF, 0x013D and the catch-all are modelled, the arms that parse
           strings / formulas — FORMAT, BoundSheet8, Lbl, ExternSheet, SST — answer
           [Err E_UNMODELLED]; since the hardening of /repo the short-record cases of CodePage,
           Date1904 and BOF are XlsError::Len, no longer panics).  XlsError::Password is produced nowhere else in src/xls.rs, so what
           follows the loop cannot change a non-Password result into Password.
   ods : Ods::new (src/ods.rs): the mimetype gate and check_for_password_protected over the
           manifest at the level of quick-xml events (since fix 73af2a4 elements are matched by
           local name = what follows the first ':' of the qualified name).
   Definitions only; everything computes.  Proofs: Password_proofs.v. *)
From Calamine Require Import Prelude.
Open Scope N_scope.
Set Implicit Arguments.

(* error classes (only the class travels on the wire) *)
Definition E_PASSWORD : N := 1.     (* XlsError::Password / OdsError::Password / XlsxError::Password … *)
Definition E_OTHER : N := 2.        (* any other error of the reader *)
Definition E_UNMODELLED : N := 99.  (* an arm of the globals loop that this model does not interpret *)

(* ================================================================== xls: RecordIter *)
Definition u16 (a b : N) : N := a + 256 * b.

Record frec : Type := mkRec {
  f_typ : N;
  f_data : list N;
  f_cont : option (list (list N))
}.

(* split_at(n): None when the slice is shorter than n *)
Fixpoint take_n (s : list N) (n : N) {struct s} : option (list N * list N) :=
  if n =? 0 then Some ([], s) else
  match s with
  | [] => None
  | x :: t => match take_n t (n - 1) with
              | Some (a, b) => Some (x :: a, b)
              | None => None
              end
  end.

Definition CONTINUE : N := 60.     (* 0x003C *)
Definition FILEPASS : N := 47.     (* 0x002F *)
Definition EOF_REC : N := 10.      (* 0x000A *)

(* while self.stream.len() > 4 && read_u16(self.stream) == 0x003C { … }
   fuel: every iteration consumes at least four bytes; callers pass the length of the stream *)
Fixpoint collect_cont (fuel : nat) (s : list N) (acc : list (list N))
  : outcome (list (list N) * list N) :=
  match fuel with
  | O => OutOfFuel
  | S f =>
    match s with
    | c0 :: c1 :: l0 :: l1 :: ((_ :: _) as body) =>
        if u16 c0 c1 =? CONTINUE then
          match take_n body (u16 l0 l1) with
          | None => Err E_OTHER                   (* EoStream("continue record length") *)
          | Some (d, rest) => collect_cont f rest (acc ++ [d])
          end
        else Ok (acc, s)
    | _ => Ok (acc, s)
    end
  end.

Definition starts_cont (s : list N) : bool :=       (* next.len() > 4 && read_u16(next) == 0x3C *)
  match s with
  | c0 :: c1 :: _ :: _ :: _ :: _ => u16 c0 c1 =? CONTINUE
  | _ => false
  end.

(* RecordIter::next.  None = end of stream. *)
Definition next_record (s : list N) : option (outcome (frec * list N)) :=
  match s with
  | [] => None
  | t0 :: t1 :: l0 :: l1 :: body =>
      match take_n body (u16 l0 l1) with
      | None => Some (Err E_OTHER)                (* EoStream("record length") *)
      | Some (d, next) =>
          if starts_cont next then
            Some (do cr <- collect_cont (length next) next [];
                  Ok (mkRec (u16 t0 t1) d (Some (fst cr)), snd cr))
          else Some (Ok (mkRec (u16 t0 t1) d None, next))
      end
  | _ => Some (Err E_OTHER)                       (* EoStream("record type and length") *)
  end.

(* ================================================================== xls: the globals loop *)
Section XlsGlobals.
(* what an arm other than FILEPASS / EOF does to the loop: Ok tt = carry on; Err / Panic = the
   loop (and Xls::new) ends that way *)
Variable interp : frec -> outcome unit.

(* `for record in records { let mut r = record?; match r.typ { … } }`
   fuel: one unit per record; the length of the stream (+1) always suffices *)
Fixpoint globals_loop (fuel : nat) (s : list N) : outcome unit :=
  match fuel with
  | O => OutOfFuel
  | S f =>
    match next_record s with
    | None => Ok tt
    | Some o =>
        do rr <- o;
        if f_typ (fst rr) =? FILEPASS then Err E_PASSWORD
        else if f_typ (fst rr) =? EOF_REC then Ok tt
        else do _ <- interp (fst rr); globals_loop f (snd rr)
    end
  end.

Definition xls_globals (s : list N) : outcome unit := globals_loop (S (length s)) s.

(* Xls::new_with_options after Cfb::new succeeded: the VBA project is read first when a directory
   entry `_VBA_PROJECT_CUR` exists; then the Workbook stream, else the Book stream.
   [vba], [workbook], [book] are the outcomes of VbaProject::from_cfb and of the two
   cfb.get_stream calls (compound-file model: C13 / Cfb.v). *)
Definition or_else (A : Type) (a b : outcome A) : outcome A :=
  match a with Err _ => b | _ => a end.

Definition xls_new (has_vba : bool) (vba : outcome unit) (workbook book : outcome (list N))
  : outcome unit :=
  do _ <- (if has_vba then vba else Ok tt);
  do s <- or_else workbook book;
  xls_globals s.
End XlsGlobals.

(* ---- the executable instance of [interp] ---- *)
(* codepage::to_encoding (crate codepage 0.1.3): the 53 identifiers of its CODE_PAGES table *)
Definition CODE_PAGES : list N :=
  [65001; 1200; 1252; 1251; 936; 932; 949; 1250; 1256; 1254; 950; 874; 1255; 1253; 1257; 1258;
   20932; 28592; 28605; 28597; 20866; 54936; 28595; 38598; 28594; 28596; 50221; 21866; 28603;
   28593; 1201; 866; 28600; 28598; 10000; 10017; 28604; 28606; 951; 10007; 20936; 20949; 21010;
   28591; 28599; 28601; 50220; 50222; 50225; 50227; 51936; 51949; 52936].

(* arms that parse strings / formulas: FORMAT 0x041E, BoundSheet8 0x0085, Lbl 0x0018,
   ExternSheet 0x0017, SST 0x00FC *)
Definition unmodelled_typ (t : N) : bool :=
  (t =? 1054) || (t =? 133) || (t =? 24) || (t =? 23) || (t =? 252).

Definition interp_real (r : frec) : outcome unit :=
  let t := f_typ r in
  if t =? 66 then                                  (* 0x0042 CodePage (force_codepage is None) *)
    (* since the fix of audit-2 finding XLS-1 XlsEncoding::from_codepage is only called when the
       BOF seen so far is not BIFF8 (BIFF8 strings never go through the code page).  This
       record-by-record instance does not carry the BIFF version: a code page of the decoder
       table passes under every version; any other value passes under BIFF8 (C16 / C12 model
       that: Meta.xls_globals, BiffSst.wb_globals) and is CfbError::CodePageNotFound under BIFF5
       and older — E_UNMODELLED here (the check accepts both answers of the reader for it) *)
    match f_data r with
    | a :: b :: _ => if existsb (N.eqb (u16 a b)) CODE_PAGES then Ok tt else Err E_UNMODELLED
    | _ => Err E_OTHER                             (* data.len() < 2: XlsError::Len (hardening) *)
    end
  else if t =? 34 then                             (* 0x0022 Date1904: Len under 2 bytes *)
    match f_data r with _ :: _ :: _ => Ok tt | _ => Err E_OTHER end
  else if t =? 2057 then                           (* 0x0809 BOF: parse_bof, Len under 2 bytes *)
    match f_data r with _ :: _ :: _ => Ok tt | _ => Err E_OTHER end
  else if t =? 224 then                            (* 0x00E0 XF: parse_xf *)
    match f_data r with _ :: _ :: _ :: _ :: _ => Ok tt | _ => Err E_OTHER end
  else if unmodelled_typ t then Err E_UNMODELLED
  else Ok tt.                                      (* 0x013D and `_ => ()` *)

(* ---- encoder side: a globals stream as the writer lays it out ---- *)
Definition lo (n : N) : N := n mod 256.
Definition hi (n : N) : N := n / 256.
Definition lenN (A : Type) (l : list A) : N := N.of_nat (length l).

(* one BIFF record: type, length, body *)
Definition rec_bytes (t : N) (body : list N) : list N :=
  lo t :: hi t :: lo (lenN body) :: hi (lenN body) :: body.

(* a logical record with the CONTINUE records that follow it *)
Record item : Type := mkItem { i_typ : N; i_body : list N; i_conts : list (list N) }.

Definition item_bytes (it : item) : list N :=
  rec_bytes (i_typ it) (i_body it) ++ concat (map (rec_bytes CONTINUE) (i_conts it)).

Definition item_rec (it : item) : frec :=
  mkRec (i_typ it) (i_body it)
        (match i_conts it with [] => None | c => Some c end).

Definition body_ok (b : list N) : bool := lenN b <=? 65535.
Definition item_ok (it : item) : bool :=
  (i_typ it <=? 65535) && negb (i_typ it =? CONTINUE) &&
  body_ok (i_body it) && forallb body_ok (i_conts it).

(* plain records (any type, CONTINUE included) — what follows a FILEPASS record: record headers
   stay in clear under XOR obfuscation and RC4 / CryptoAPI encryption, the bodies are ciphertext *)
Definition raw_ok (r : N * list N) : bool := (fst r <=? 65535) && body_ok (snd r).
Definition raw_bytes (rs : list (N * list N)) : list N :=
  concat (map (fun r => rec_bytes (fst r) (snd r)) rs).

(* ================================================================== ods *)
(* events as quick-xml delivers them with expand_empty_elements = true (an empty-element tag
   arrives as Start + End), check_end_names = false: only Start events are looked at; MErr is a
   reader error (ill-formed markup), after which the check returns OdsError::Xml *)
Inductive mevent : Type :=
| MStart (qname : list N)
| MEnd (qname : list N)
| MOther                           (* text, comments, declarations, processing instructions … *)
| MErr.

Definition str_eqb (a b : list N) : bool :=
  (Nat.eqb (length a) (length b)) && forallb (fun p => fst p =? snd p) (combine a b).

Definition COLON : N := 58.
(* QName::local_name: what follows the first ':' (the whole name when there is none) *)
Fixpoint after_colon (l : list N) : option (list N) :=
  match l with
  | [] => None
  | c :: t => if c =? COLON then Some t else after_colon t
  end.
Definition local_name (q : list N) : list N :=
  match after_colon q with Some t => t | None => q end.

(* "file-entry" and "encryption-data" as bytes *)
Definition FILE_ENTRY : list N := [102;105;108;101;45;101;110;116;114;121].
Definition ENCRYPTION_DATA : list N := [101;110;99;114;121;112;116;105;111;110;45;100;97;116;97].

(* inner loop: after a file-entry start, every later event up to Eof is examined *)
Fixpoint inner_scan (evs : list mevent) : outcome unit :=
  match evs with
  | [] => Ok tt
  | MStart q :: rest =>
      if str_eqb (local_name q) ENCRYPTION_DATA then Err E_PASSWORD else inner_scan rest
  | MErr :: _ => Err E_OTHER
  | _ :: rest => inner_scan rest
  end.

(* outer loop: look for a file-entry start; once the inner loop has run to Eof the outer loop
   reads Eof too *)
Fixpoint manifest_scan (evs : list mevent) : outcome unit :=
  match evs with
  | [] => Ok tt
  | MStart q :: rest =>
      if str_eqb (local_name q) FILE_ENTRY then inner_scan rest else manifest_scan rest
  | MErr :: _ => Err E_OTHER
  | _ :: rest => manifest_scan rest
  end.

(* "application/vnd.oasis.opendocument.spreadsheet" *)
Definition MIMETYPE : list N :=
  [97;112;112;108;105;99;97;116;105;111;110;47;118;110;100;46;111;97;115;105;115;46;111;112;101;
   110;100;111;99;117;109;101;110;116;46;115;112;114;101;97;100;115;104;101;101;116].

(* Ods::new up to and including the password check, after ZipArchive::new succeeded:
   mimetype = content of the zip member "mimetype" (None: no such member),
   manifest = events of META-INF/manifest.xml (None: no such member) *)
Definition ods_new (mimetype : option (list N)) (manifest : option (list mevent)) : outcome unit :=
  match mimetype with
  | None => Err E_OTHER                                  (* FileNotFound("mimetype") *)
  | Some m =>
      if (length m <? 46)%nat then Err E_OTHER           (* read_exact: Io *)
      else if negb (str_eqb (firstn 46 m) MIMETYPE) then Err E_OTHER   (* InvalidMime *)
      else match manifest with
           | None => Err E_OTHER                         (* FileNotFound("META-INF/manifest.xml") *)
           | Some evs => manifest_scan evs
           end
  end.

(* ---- spec: a manifest is a list of file entries, each with or without encryption data;
        every element carries the namespace prefix its author chose ---- *)
Definition qn (prefix : option (list N)) (local : list N) : list N :=
  match prefix with Some p => p ++ COLON :: local | None => local end.

Record entry : Type := mkEntry {
  e_prefix : option (list N);          (* prefix of the file-entry element *)
  e_encrypted : bool;
  e_enc_prefix : option (list N);      (* prefix of the encryption-data element *)
  e_children_before : list (list N);   (* qualified names of other child elements (start + end) *)
  e_algo_children : list (list N)      (* children of encryption-data: algorithm, key-derivation … *)
}.

Definition render_elem (q : list N) : list mevent := [MStart q; MEnd q].

Definition render_entry (e : entry) : list mevent :=
  [MStart (qn (e_prefix e) FILE_ENTRY)] ++
  concat (map render_elem (e_children_before e)) ++
  (if e_encrypted e
   then [MStart (qn (e_enc_prefix e) ENCRYPTION_DATA)] ++
        concat (map render_elem (e_algo_children e)) ++
        [MEnd (qn (e_enc_prefix e) ENCRYPTION_DATA)]
   else []) ++
  [MEnd (qn (e_prefix e) FILE_ENTRY)].

Definition MANIFEST : list N := [109;97;110;105;102;101;115;116].

Definition render_manifest (root_prefix : option (list N)) (es : list entry) : list mevent :=
  [MOther; MStart (qn root_prefix MANIFEST)] ++
  concat (map (fun e => MOther :: render_entry e) es) ++
  [MOther; MEnd (qn root_prefix MANIFEST)].

Definition declares_encryption (es : list entry) : bool := existsb e_encrypted es.

Definition colon_free (p : list N) : bool := forallb (fun c => negb (c =? COLON)) p.
Definition prefix_ok (p : option (list N)) : bool :=
  match p with Some p => colon_free p | None => true end.

(* qualified names whose local part is neither of the two the scan looks for *)
Definition neutral_name (q : list N) : bool :=
  negb (str_eqb (local_name q) FILE_ENTRY) && negb (str_eqb (local_name q) ENCRYPTION_DATA).
Definition entry_ok (e : entry) : bool :=
  prefix_ok (e_prefix e) && prefix_ok (e_enc_prefix e) &&
  forallb neutral_name (e_children_before e) && forallb neutral_name (e_algo_children e).

(* the answer the property demands *)
Definition spec_ods (es : list entry) : outcome unit :=
  if declares_encryption es then Err E_PASSWORD else Ok tt.
