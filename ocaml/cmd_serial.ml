(* C11: serial date-time conversions on the extracted model (Serial.v on Flocq binary64).
   Line: id <TAB> serial <TAB> kind <TAB> value <TAB> is1904 <TAB> what
     kind  = edt_dt | edt_td   ExcelDateTime::new(f64::from_bits(value), DateTime|TimeDelta, is1904)
             float | dt | td   Data::Float / Data::DateTime(.., DateTime|TimeDelta, is1904)  (value = bits)
             int               Data::Int(value)                                                (value = i64)
             bool | empty | string | error   cells that are not dates (value ignored)
     what  = all  (datetime|date|time|duration for cells; datetime|duration for the edt kinds)
             de   (cells only) the same cell through the eight serde helpers
                  deserialize_as_{datetime,date,time,duration}_or_none then .._or_string
                  (a None of the _or_string variants prints E); a failed deserialization prints err
                  (no known class is left at the helpers: F34 / F35 are fixed)
   Answer: fields joined by a vertical bar, each  N  (None),  panic,  or
     datetime  D<days>,<secs>,<nanos>,<y>-<m>-<d>      date  <days>,<y>-<m>-<d>
     time      <secs>,<nanos>                           duration  <num_seconds>,<subsec_nanos>,<num_milliseconds>
   then  |K<class or ->|X<exact ms or ->   (known class and the exact-arithmetic millisecond count,
   used by the Python driver; the harness does not print these, the driver strips them). *)
open Conv
open Prelude
open Serial

let z = string_of_z
let ymd days =
  let ((y, m), d) = Civil.civil_of_days days in
  Printf.sprintf "%s-%s-%s" (z y) (z m) (z d)

let show_o f o =
  match o with
  | Ok (Some v) -> f v
  | Ok None -> "N"
  | Panic -> "panic"
  | Err _ -> "err"
  | OutOfFuel -> "fuel"

let show_dt (r : naive_datetime) =
  let (s, n) = r.dt_time in
  Printf.sprintf "D%s,%s,%s,%s" (z r.dt_days) (z s) (z n) (ymd r.dt_days)
let show_date d = Printf.sprintf "%s,%s" (z d) (ymd d)
let show_time (s, n) = Printf.sprintf "%s,%s" (z s) (z n)
let show_dur t =
  Printf.sprintf "%s,%s,%s" (z (td_num_seconds t)) (z (td_subsec_nanos t)) (z (td_num_milliseconds t))

let run (args : string list) : string =
  match args with
  | kind :: value :: s1904 :: _ ->
    let is1904 = (s1904 = "1") in
    let fl () = F64.f64_of_bits (z_of_string value) in
    let edt dur = { edt_value = fl (); edt_is_duration = dur; edt_is_1904 = is1904 } in
    let de = (match args with _ :: _ :: _ :: "de" :: _ -> true | _ -> false) in
    let helpers_all c =
      let e s = if s = "N" then "E" else s in
      let a = show_o show_dt (helper_as_datetime c) and b = show_o show_date (helper_as_date c)
      and t = show_o show_time (helper_as_time c) and d = show_o show_dur (helper_as_duration c) in
      if List.mem "err" [a; b; t; d] then "err"
      else String.concat "|" [a; b; t; d; e a; e b; e t; e d] in
    let cell_all c v sys = if de then helpers_all c else
      String.concat "|" [ show_o show_dt (data_as_datetime c); show_o show_date (data_as_date c);
                          show_o show_time (data_as_time c); show_o show_dur (data_as_duration c) ]
      ^ (match v with
         | Some v ->
           "|K" ^ (match known_C11 v sys with Some k -> string_of_n k | None -> "-")
           ^ "|X" ^ (match exact_ms v with Some m -> z m | None -> "-")
         | None -> "|K-|X-") in
    (match kind with
     | "edt_dt" | "edt_td" ->
       let x = edt (kind = "edt_td") in
       String.concat "|" [ show_o show_dt (edt_as_datetime x); show_o show_dur (edt_as_duration x) ]
       ^ "|K" ^ (match known_C11 x.edt_value is1904 with Some k -> string_of_n k | None -> "-")
       ^ "|X" ^ (match exact_ms x.edt_value with Some m -> z m | None -> "-")
     | "float" -> let v = fl () in cell_all (CFloat v) (Some v) false
     | "dt" -> let x = edt false in cell_all (CDateTime x) (Some x.edt_value) is1904
     | "td" -> let x = edt true in cell_all (CDateTime x) (Some x.edt_value) is1904
     | "int" -> let i = z_of_string value in cell_all (CInt i) (Some (F64.f64_of_Z i)) false
     | "bool" | "empty" | "string" -> cell_all COther None false
     | "error" -> cell_all CError None false
     | _ -> "bad-kind")
  | _ -> "bad-args"

let () = Registry.register "serial" run
let init () = ()
