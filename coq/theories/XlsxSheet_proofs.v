(* XlsxSheet_proofs — proofs for property C01 (model and definitions: XlsxSheet.v). *)
From Calamine Require Import Prelude Col26 Col26_proofs Range Range_spec Range_proofs HeaderRow XlsxSheet.
From Calamine Require XmlText NumFmt.
From Coq Require Import Sorting.Sorted.
Open Scope N_scope.

(* ------------------------------------------------------------------ strings and names *)
Lemma str_eqb_refl : forall a, str_eqb a a = true.
Proof. induction a as [|x a IH]; cbn; [reflexivity|]. rewrite N.eqb_refl. exact IH. Qed.

Lemma str_eqb_eq : forall a b, str_eqb a b = true <-> a = b.
Proof.
  induction a as [|x a IH]; intros [|y b]; cbn; split; intros H; try reflexivity; try discriminate.
  - apply andb_true_iff in H. destruct H as [H1 H2]. apply N.eqb_eq in H1. apply IH in H2. congruence.
  - inversion H; subst. rewrite N.eqb_refl. apply str_eqb_refl.
Qed.

Lemma after_colon_none : forall l, no_colon l = true -> XmlText.after_colon l = None.
Proof.
  induction l as [|c l IH]; cbn; intros H; [reflexivity|].
  apply andb_true_iff in H. destruct H as [H1 H2].
  destruct (c =? XmlText.COLON); [discriminate|]. apply IH. exact H2.
Qed.

Lemma after_colon_app : forall p l, no_colon p = true ->
  XmlText.after_colon (p ++ XmlText.COLON :: l) = Some l.
Proof.
  induction p as [|c p IH]; cbn; intros l H.
  - rewrite N.eqb_refl. reflexivity.
  - apply andb_true_iff in H. destruct H as [H1 H2].
    destruct (c =? XmlText.COLON); [discriminate|]. apply IH. exact H2.
Qed.

Lemma local_name_qn : forall pfx l, no_colon pfx = true -> no_colon l = true ->
  local_name (qn pfx l) = l.
Proof.
  intros pfx l Hp Hl. unfold XmlText.local_name, XmlText.qn. destruct pfx as [|c p].
  - rewrite after_colon_none by exact Hl. reflexivity.
  - rewrite after_colon_app by exact Hp. reflexivity.
Qed.

Lemma is_local_qn : forall pfx l l', no_colon pfx = true -> no_colon l = true ->
  is_local l' (qn pfx l) = str_eqb l l'.
Proof. intros. unfold is_local. rewrite local_name_qn by assumption. reflexivity. Qed.

(* ------------------------------------------------------------------ attributes *)
Lemma get_attribute_app : forall a b k,
  get_attribute (a ++ b) k =
  match get_attribute a k with Some v => Some v | None => get_attribute b k end.
Proof.
  induction a as [|[k' v] a IH]; intros b k; cbn; [reflexivity|].
  destruct (str_eqb k' k); [reflexivity|]. apply IH.
Qed.

Lemma key_free_none : forall keys a k, key_free keys a = true -> In k keys ->
  get_attribute a k = None.
Proof.
  induction a as [|[k' v] a IH]; intros k H Hin; cbn; [reflexivity|].
  cbn in H. apply andb_true_iff in H. destruct H as [H1 H2].
  destruct (str_eqb k' k) eqn:E.
  - apply str_eqb_eq in E. subst k'. exfalso.
    apply negb_true_iff in H1. rewrite <- not_true_iff_false in H1. apply H1.
    apply existsb_exists. exists k. split; [exact Hin | apply str_eqb_refl].
  - apply IH; assumption.
Qed.

(* ------------------------------------------------------------------ the A1 scanner: Col26.v (hardened code) *)
Lemma sat64_id : forall x, x <= U64MAX -> sat64 x = x.
Proof. intros x H. unfold sat64. lia. Qed.

(* the scanner never panics, on any input (Col26_proofs, the first conjunct of C14_no_panic_a1) *)
Theorem scanner_no_panic : forall range,
  get_row_and_optional_column range <> Panic /\ get_row_and_optional_column range <> OutOfFuel.
Proof. exact get_row_and_optional_column_total. Qed.

(* ------------------------------------------------------------------ (1) A1 names *)
Theorem a1_roundtrip_full : forall row col,
  row + 1 < ROW_LIMIT -> col < COL_LIMIT ->
  get_row_and_optional_column (a1_name row col) = Ok (row, Some col) /\
  get_row_and_optional_column (map to_lower (a1_name row col)) = Ok (row, Some col) /\
  ~ In ch_dollar (a1_name row col).
Proof.
  intros row col Hr Hc. split; [|split].
  - apply get_row_and_optional_column_a1_name; assumption.
  - rewrite get_row_and_optional_column_lower.
    apply get_row_and_optional_column_a1_name; assumption.
  - intros H. unfold a1_name in H. apply in_app_or in H. destruct H as [H|H].
    + pose proof (letters_upper col) as F. rewrite Forall_forall in F. specialize (F _ H).
      unfold is_upper, ch_dollar, ch_A, ch_Z in F. lia.
    + pose proof (dec_digits (row + 1)) as F. rewrite Forall_forall in F. specialize (F _ H).
      unfold is_digit, ch_dollar, ch_0, ch_9 in F. lia.
Qed.

Lemma cell_ref_ok : forall row c, row + 1 < ROW_LIMIT -> ec_col c < COL_LIMIT ->
  get_row_column (cell_ref row c) = Ok (row, ec_col c).
Proof.
  intros row c Hr Hc. unfold cell_ref. destruct (ec_lower c).
  - rewrite get_row_column_lower. apply get_row_column_a1_name; assumption.
  - apply get_row_column_a1_name; assumption.
Qed.

(* ------------------------------------------------------------------ parse_usize on canonical decimals *)
Lemma parse_usize_dec : forall n, n <= U64MAX -> parse_usize (dec n) = Some n.
Proof.
  intros n Hn. unfold parse_usize.
  destruct (dec n) eqn:E; [exfalso; apply (dec_nonempty n); exact E|]. rewrite <- E.
  assert (H1 : forallb is_digit (dec n) = true).
  { apply forallb_forall. intros x Hx. pose proof (dec_digits n) as F.
    rewrite Forall_forall in F. apply F. exact Hx. }
  assert (H2 : (N.of_nat (length (dec n)) <=? 20) = true).
  { apply N.leb_le. pose proof (@dec_length_le 19%nat n) as L.
    assert (n < 10 ^ N.of_nat 20) by (change (10 ^ N.of_nat 20) with 100000000000000000000; unfold U64MAX in Hn; lia).
    specialize (L H). lia. }
  rewrite H1, H2, undec_dec. apply N.leb_le in Hn. rewrite Hn. reflexivity.
Qed.

Lemma nth_N_spec : forall A (l : list A) i, nth_N l i = nth_error l (N.to_nat i).
Proof.
  intros A l i. unfold nth_N. destruct (i <? N.of_nat (length l)) eqn:E; [reflexivity|].
  symmetry. apply nth_error_None. apply N.ltb_ge in E. lia.
Qed.

Section Proofs.
Variable parse_f64 : str -> option N.

Local Notation cells_run := (cells_run parse_f64).
Local Notation cells_step := (cells_step parse_f64).
Local Notation cc_step := (cc_step parse_f64).
Local Notation read_v := (read_v parse_f64).
Local Notation legal_cell := (legal_cell parse_f64).
Local Notation legal_cells := (legal_cells parse_f64).
Local Notation legal_row := (legal_row parse_f64).
Local Notation legal_rows := (legal_rows parse_f64).
Local Notation legal_value := (legal_value parse_f64).
Local Notation legal_sheet := (legal_sheet parse_f64).
Local Notation expected := (expected parse_f64).

Ltac loc := repeat rewrite is_local_qn by (first [assumption | reflexivity]).

(* the DataRef the reader produces for a legal cell *)
Definition cell_dref (en : env) (c : ecell) : dref :=
  match ec_val c with
  | LNumber t =>
      match parse_f64 t with
      | Some bits => format_excel_f64_ref bits (style_format en (ec_style c)) (e_1904 en)
      | None => REmpty
      end
  | LString s => match ec_sform c with SfShared _ => RShared s | _ => RString s end
  | LBool b => RBool b
  | LError code => RError code
  | LIso s => RDateTimeIso s
  | LBlank => REmpty
  end.

Lemma to_data_cell_dref : forall en c,
  to_data (cell_dref en c) = expected en (ec_style c, ec_val c).
Proof.
  intros en c. unfold cell_dref, XlsxSheet.expected. cbn [fst snd].
  destruct (ec_val c) as [t|s|b|code|s|]; try reflexivity.
  - destruct (parse_f64 t); reflexivity.
  - destruct (ec_sform c); reflexivity.
Qed.

(* ------------------------------------------------------------------ one event at a time *)
Lemma run_cont : forall en row col p a st st' e racc rest,
  cc_step en a st e = Cont st' ->
  cells_run en (ShCell row col p a st) racc (e :: rest) = cells_run en (ShCell row col p a st') racc rest.
Proof. intros. cbn [XlsxSheet.cells_run XlsxSheet.cells_step]. rewrite H. reflexivity. Qed.

Lemma run_ret : forall en row col p a st v e racc rest,
  cc_step en a st e = Ret v -> col + 1 <= U32MAX ->
  cells_run en (ShCell row col p a st) racc (e :: rest) =
  cells_run en (ShOuter row (col + 1)) ((p, v) :: racc) rest.
Proof.
  intros. cbn [XlsxSheet.cells_run XlsxSheet.cells_step]. rewrite H.
  apply N.leb_le in H0. rewrite H0. reflexivity.
Qed.

Lemma run_outer_cont : forall en row col e racc rest,
  cells_step en (ShOuter row col) e = SCont (ShOuter row col) ->
  cells_run en (ShOuter row col) racc (e :: rest) = cells_run en (ShOuter row col) racc rest.
Proof. intros. cbn [XlsxSheet.cells_run]. rewrite H. reflexivity. Qed.

(* ------------------------------------------------------------------ ignorable content *)
Lemma noise_skip : forall en row col p a v j racc rest,
  forallb is_noise j = true ->
  cells_run en (ShCell row col p a (CcOuter v)) racc (j ++ rest) =
  cells_run en (ShCell row col p a (CcOuter v)) racc rest.
Proof.
  induction j as [|e j IH]; intros racc rest H; [reflexivity|].
  cbn [forallb] in H. apply andb_true_iff in H. destruct H as [H1 H2].
  cbn [app]. rewrite (@run_cont en row col p a (CcOuter v) (CcOuter v)).
  - apply IH. exact H2.
  - destruct e; cbn in H1; try discriminate; reflexivity.
Qed.

Lemma junk_step : forall en row col e, junk_ok e = true ->
  cells_step en (ShOuter row col) e = SCont (ShOuter row col).
Proof.
  intros en row col e H. destruct e as [n a|n|s|s|]; try reflexivity.
  - cbn in H. apply andb_true_iff in H. destruct H as [H1 H2].
    apply negb_true_iff in H1, H2. cbn [XlsxSheet.cells_step]. rewrite H1, H2. reflexivity.
  - cbn in H. apply andb_true_iff in H. destruct H as [H1 H2].
    apply negb_true_iff in H1, H2. cbn [XlsxSheet.cells_step]. rewrite H1, H2. reflexivity.
Qed.

Lemma junk_skip : forall en row col j racc rest,
  forallb junk_ok j = true ->
  cells_run en (ShOuter row col) racc (j ++ rest) = cells_run en (ShOuter row col) racc rest.
Proof.
  induction j as [|e j IH]; intros racc rest H; [reflexivity|].
  cbn [forallb] in H. apply andb_true_iff in H. destruct H as [H1 H2].
  cbn [app]. rewrite run_outer_cont by (apply junk_step; exact H1). apply IH. exact H2.
Qed.

(* ------------------------------------------------------------------ attributes of an encoded cell *)
Lemma opt_attr_get : forall k v k',
  get_attribute (opt_attr k v) k' = if str_eqb k k' then v else None.
Proof. intros k [x|] k'; cbn; destruct (str_eqb k k'); reflexivity. Qed.

Lemma cell_attrs_r : forall row c, key_free [a_r; a_s; a_t] (ec_extra c) = true ->
  get_attribute (cell_attrs row c) a_r = if ec_explicit c then Some (cell_ref row c) else None.
Proof.
  intros row c H. unfold cell_attrs. rewrite get_attribute_app.
  rewrite (@key_free_none _ _ a_r H) by (cbn; auto).
  rewrite !get_attribute_app, !opt_attr_get.
  change (str_eqb a_r a_r) with true. change (str_eqb a_s a_r) with false.
  change (str_eqb a_t a_r) with false. cbn iota. destruct (ec_explicit c); reflexivity.
Qed.

Lemma cell_attrs_t : forall row c, key_free [a_r; a_s; a_t] (ec_extra c) = true ->
  get_attribute (cell_attrs row c) a_t = cell_t c.
Proof.
  intros row c H. unfold cell_attrs. rewrite get_attribute_app.
  rewrite (@key_free_none _ _ a_t H) by (cbn; auto).
  rewrite !get_attribute_app, !opt_attr_get.
  change (str_eqb a_r a_t) with false. change (str_eqb a_s a_t) with false.
  change (str_eqb a_t a_t) with true. cbn iota. reflexivity.
Qed.

Lemma cell_attrs_fmt : forall en row c, key_free [a_r; a_s; a_t] (ec_extra c) = true ->
  match ec_style c with Some id => id <=? U64MAX | None => true end = true ->
  cell_format_of en (cell_attrs row c) = style_format en (ec_style c).
Proof.
  intros en row c H Hs. unfold cell_format_of, cell_attrs. rewrite get_attribute_app.
  rewrite (@key_free_none _ _ a_s H) by (cbn; auto).
  rewrite !get_attribute_app, !opt_attr_get.
  change (str_eqb a_r a_s) with false. change (str_eqb a_s a_s) with true.
  change (str_eqb a_t a_s) with false. cbn iota. unfold style_format.
  destruct (ec_style c) as [id|]; cbn [option_map].
  - apply N.leb_le in Hs. rewrite parse_usize_dec by exact Hs. reflexivity.
  - reflexivity.
Qed.

(* ------------------------------------------------------------------ read_v on encoded values *)
Definition has_v (c : ecell) : option str :=      (* the text of the <v> element, if any *)
  match ec_val c with
  | LNumber t => Some t
  | LString s => match ec_sform c with SfShared idx => Some (dec idx) | SfInline => None | SfStr => Some s end
  | LBool b => Some (if ec_alt c then (if b then v_true else v_false) else (if b then v_1 else v_0))
  | LError code => Some (err_text code)
  | LIso s => Some s
  | LBlank => if ec_alt c then Some [] else None
  end.

Lemma parse_cell_error_text : forall code, code <= 7 -> parse_cell_error (err_text code) = Some code.
Proof.
  intros code H.
  assert (D : code = 0 \/ code = 1 \/ code = 2 \/ code = 3 \/ code = 4 \/ code = 5 \/ code = 6 \/ code = 7) by lia.
  destruct D as [D|[D|[D|[D|[D|[D|[D|D]]]]]]]; subst; reflexivity.
Qed.

Lemma read_v_ok : forall en a c v,
  get_attribute a a_t = cell_t c ->
  cell_format_of en a = style_format en (ec_style c) ->
  legal_value en c = true ->
  has_v c = Some v ->
  read_v en v a = Cont (cell_dref en c).
Proof.
  intros en a c v Ht Hf Hl Hv. unfold XlsxSheet.read_v. rewrite Ht, Hf.
  unfold cell_t, has_v, cell_dref, XlsxSheet.legal_value in *.
  destruct (ec_val c) as [t|s|b|code|s|].
  - inversion Hv; subst v. destruct t as [|t0 t]; [discriminate|].
    destruct (parse_f64 (t0 :: t)) as [bits|] eqn:P; [|discriminate].
    destruct (ec_tn c); [|reflexivity].
    change (str_eqb v_n v_s) with false. change (str_eqb v_n v_b) with false.
    change (str_eqb v_n v_e) with false. change (str_eqb v_n v_d) with false.
    change (str_eqb v_n v_str) with false. change (str_eqb v_n v_n) with true. cbn iota.
    reflexivity.
  - destruct (ec_sform c) as [idx| |]; [| discriminate |].
    + inversion Hv; subst v. change (str_eqb v_s v_s) with true. cbn iota.
      apply andb_true_iff in Hl. destruct Hl as [H1 H2]. apply N.leb_le in H1.
      rewrite parse_usize_dec by exact H1. rewrite nth_N_spec in H2.
      rewrite nth_N_spec.
      destruct (nth_error (e_strings en) (N.to_nat idx)) as [s'|] eqn:E; [|discriminate].
      apply str_eqb_eq in H2. subst s'. reflexivity.
    + inversion Hv; subst v. change (str_eqb v_str v_s) with false.
      change (str_eqb v_str v_b) with false. change (str_eqb v_str v_e) with false.
      change (str_eqb v_str v_d) with false. change (str_eqb v_str v_str) with true. cbn iota.
      apply str_eqb_eq in Hl. rewrite Hl. reflexivity.
  - inversion Hv; subst v. change (str_eqb v_b v_s) with false. change (str_eqb v_b v_b) with true.
    cbn iota. destruct (ec_alt c); destruct b; reflexivity.
  - inversion Hv; subst v. change (str_eqb v_e v_s) with false. change (str_eqb v_e v_b) with false.
    change (str_eqb v_e v_e) with true. cbn iota.
    apply N.leb_le in Hl. rewrite parse_cell_error_text by exact Hl. reflexivity.
  - inversion Hv; subst v. change (str_eqb v_d v_s) with false. change (str_eqb v_d v_b) with false.
    change (str_eqb v_d v_e) with false. change (str_eqb v_d v_d) with true. reflexivity.
  - destruct (ec_alt c); [|discriminate]. inversion Hv; subst v.
    destruct (ec_tn c); [|reflexivity].
    change (str_eqb v_n v_s) with false. change (str_eqb v_n v_b) with false.
    change (str_eqb v_n v_e) with false. change (str_eqb v_n v_d) with false.
    change (str_eqb v_n v_str) with false. change (str_eqb v_n v_n) with true. reflexivity.
Qed.

(* ------------------------------------------------------------------ the children of <c> *)
Lemma f_elem_run : forall en pfx row col p a v0 f racc rest, no_colon pfx = true ->
  cells_run en (ShCell row col p a (CcOuter v0)) racc (formula_events pfx f ++ rest) =
  cells_run en (ShCell row col p a (CcOuter (match f with Some _ => REmpty | None => v0 end))) racc rest.
Proof.
  intros en pfx row col p a v0 f racc rest Hp. destruct f as [t|]; [|reflexivity].
  unfold formula_events, elem. cbn [app]. rewrite <- app_assoc. cbn [app].
  rewrite (@run_cont en row col p a _ (CcF (qn pfx n_f) 0)).
  2:{ cbn [XlsxSheet.cc_step]. loc. reflexivity. }
  assert (T : cells_run en (ShCell row col p a (CcF (qn pfx n_f) 0)) racc
                (text_ev t ++ End (qn pfx n_f) :: rest) =
              cells_run en (ShCell row col p a (CcF (qn pfx n_f) 0)) racc (End (qn pfx n_f) :: rest)).
  { destruct t as [|t0 t]; [reflexivity|]. cbn [text_ev app].
    apply run_cont. reflexivity. }
  rewrite T. apply run_cont. cbn [XlsxSheet.cc_step]. rewrite str_eqb_refl. reflexivity.
Qed.

Lemma v_elem_run : forall en pfx row col p a v0 s v racc rest, no_colon pfx = true ->
  read_v en s a = Cont v ->
  cells_run en (ShCell row col p a (CcOuter v0)) racc (v_elem pfx s ++ rest) =
  cells_run en (ShCell row col p a (CcOuter v)) racc rest.
Proof.
  intros en pfx row col p a v0 s v racc rest Hp Hr.
  unfold v_elem, elem. cbn [app]. rewrite <- app_assoc. cbn [app].
  rewrite (@run_cont en row col p a _ (CcV (qn pfx n_v) [])).
  2:{ cbn [XlsxSheet.cc_step]. loc. reflexivity. }
  assert (T : cells_run en (ShCell row col p a (CcV (qn pfx n_v) [])) racc
                (text_ev s ++ End (qn pfx n_v) :: rest) =
              cells_run en (ShCell row col p a (CcV (qn pfx n_v) s)) racc (End (qn pfx n_v) :: rest)).
  { destruct s as [|s0 s]; [reflexivity|]. cbn [text_ev app].
    apply run_cont. reflexivity. }
  rewrite T. apply run_cont. cbn [XlsxSheet.cc_step]. rewrite str_eqb_refl, Hr. reflexivity.
Qed.

Lemma is_elem_run : forall en pfx row col p a v0 s racc rest, no_colon pfx = true ->
  cells_run en (ShCell row col p a (CcOuter v0)) racc
            (elem pfx n_is [] (elem pfx n_t [] (text_ev s)) ++ rest) =
  cells_run en (ShCell row col p a (CcOuter (RString (unescape_xstring s)))) racc rest.
Proof.
  intros en pfx row col p a v0 s racc rest Hp.
  unfold elem. cbn [app]. rewrite <- ?app_assoc. cbn [app]. rewrite <- ?app_assoc. cbn [app].
  rewrite (@run_cont en row col p a _ (CcIs (qn pfx n_is) (RsOuter None false))).
  2:{ cbn [XlsxSheet.cc_step]. loc. reflexivity. }
  rewrite (@run_cont en row col p a _ (CcIs (qn pfx n_is) (RsInT None (qn pfx n_t) []))).
  2:{ cbn [XlsxSheet.cc_step rs_step]. loc. reflexivity. }
  assert (T : cells_run en (ShCell row col p a (CcIs (qn pfx n_is) (RsInT None (qn pfx n_t) []))) racc
                (text_ev s ++ End (qn pfx n_t) :: End (qn pfx n_is) :: rest) =
              cells_run en (ShCell row col p a (CcIs (qn pfx n_is) (RsInT None (qn pfx n_t) s))) racc
                (End (qn pfx n_t) :: End (qn pfx n_is) :: rest)).
  { destruct s as [|s0 s]; [reflexivity|]. cbn [text_ev app].
    apply run_cont. reflexivity. }
  rewrite T.
  rewrite (@run_cont en row col p a _ (CcIs (qn pfx n_is) (RsSkip (unescape_xstring s) 0))).
  2:{ cbn [XlsxSheet.cc_step rs_step]. rewrite str_eqb_refl. reflexivity. }
  apply run_cont. cbn [XlsxSheet.cc_step rs_step]. rewrite str_eqb_refl. reflexivity.
Qed.

(* everything between <c …> and </c> *)
Lemma content_run : forall en pfx row col p a c racc rest, no_colon pfx = true ->
  get_attribute a a_t = cell_t c ->
  cell_format_of en a = style_format en (ec_style c) ->
  legal_value en c = true ->
  cells_run en (ShCell row col p a (CcOuter REmpty)) racc (cell_content pfx c ++ rest) =
  cells_run en (ShCell row col p a (CcOuter (cell_dref en c))) racc rest.
Proof.
  intros en pfx row col p a c racc rest Hp Ht Hf Hl.
  pose proof (@read_v_ok en a c) as RV.
  unfold cell_content.
  destruct (ec_val c) as [t|s|b|code|s|] eqn:EV.
  - rewrite <- app_assoc, f_elem_run by exact Hp.
    apply v_elem_run; [exact Hp|]. apply RV; try assumption. unfold has_v. rewrite EV. reflexivity.
  - destruct (ec_sform c) as [idx| |] eqn:ES.
    + apply v_elem_run; [exact Hp|]. apply RV; try assumption. unfold has_v. rewrite EV, ES. reflexivity.
    + rewrite is_elem_run by exact Hp. unfold cell_dref. rewrite EV, ES.
      unfold XlsxSheet.legal_value in Hl. rewrite EV, ES in Hl. apply str_eqb_eq in Hl. rewrite Hl.
      reflexivity.
    + rewrite <- app_assoc, f_elem_run by exact Hp.
      apply v_elem_run; [exact Hp|]. apply RV; try assumption. unfold has_v. rewrite EV, ES. reflexivity.
  - rewrite <- app_assoc, f_elem_run by exact Hp.
    apply v_elem_run; [exact Hp|]. apply RV; try assumption. unfold has_v. rewrite EV. reflexivity.
  - rewrite <- app_assoc, f_elem_run by exact Hp.
    apply v_elem_run; [exact Hp|]. apply RV; try assumption. unfold has_v. rewrite EV. reflexivity.
  - apply v_elem_run; [exact Hp|]. apply RV; try assumption. unfold has_v. rewrite EV. reflexivity.
  - rewrite <- app_assoc, f_elem_run by exact Hp.
    destruct (ec_alt c) eqn:ETN.
    + apply v_elem_run; [exact Hp|]. apply RV; try assumption. unfold has_v. rewrite EV, ETN. reflexivity.
    + cbn [app]. unfold cell_dref. rewrite EV. destruct (ec_formula c); reflexivity.
Qed.

(* ------------------------------------------------------------------ (2) one cell, one row, all rows *)
Lemma andb_split : forall a b, a && b = true -> a = true /\ b = true.
Proof. intros. apply andb_true_iff. assumption. Qed.

Lemma cell_ok : forall en pfx row cur c racc rest,
  no_colon pfx = true -> row + 1 < ROW_LIMIT ->
  legal_cell en cur c = true ->
  cells_run en (ShOuter row cur) racc (cell_events pfx row c ++ rest) =
  cells_run en (ShOuter row (ec_col c + 1)) (((row, ec_col c), cell_dref en c) :: racc) rest.
Proof.
  intros en pfx row cur c racc rest Hp Hr Hl.
  unfold XlsxSheet.legal_cell in Hl.
  apply andb_split in Hl. destruct Hl as [Hl Hval].
  apply andb_split in Hl. destruct Hl as [Hl Hjunk].
  apply andb_split in Hl. destruct Hl as [Hl Hinner].
  apply andb_split in Hl. destruct Hl as [Hl Hextra].
  apply andb_split in Hl. destruct Hl as [Hl Hstyle].
  apply andb_split in Hl. destruct Hl as [Hl Himp].
  apply andb_split in Hl. destruct Hl as [Hcol Hcur].
  apply N.ltb_lt in Hcol.
  unfold cell_events, elem. cbn [app]. rewrite <- ?app_assoc. cbn [app].
  (* <c …> *)
  assert (S1 : cells_step en (ShOuter row cur) (Start (qn pfx n_c) (cell_attrs row c)) =
               SCont (ShCell row (ec_col c) (row, ec_col c) (cell_attrs row c) (CcOuter REmpty))).
  { cbn [XlsxSheet.cells_step]. loc.
    change (str_eqb n_c n_row) with false. change (str_eqb n_c n_c) with true. cbn iota.
    rewrite cell_attrs_r by exact Hextra. destruct (ec_explicit c).
    - rewrite cell_ref_ok by assumption. reflexivity.
    - cbn [orb] in Himp. apply N.eqb_eq in Himp. rewrite Himp. reflexivity. }
  cbn [XlsxSheet.cells_run]. rewrite S1.
  rewrite noise_skip by exact Hinner.
  rewrite content_run; try assumption.
  2:{ apply cell_attrs_t. exact Hextra. }
  2:{ apply cell_attrs_fmt; assumption. }
  rewrite (@run_ret en row (ec_col c) (row, ec_col c) (cell_attrs row c) _ (cell_dref en c)).
  - apply junk_skip. exact Hjunk.
  - cbn [XlsxSheet.cc_step]. loc. reflexivity.
  - unfold COL_LIMIT in Hcol. unfold U32MAX. lia.
Qed.

Definition row_cells (en : env) (r : erow) : list (pos * dref) :=
  map (fun c => ((er_row r, ec_col c), cell_dref en c)) (er_cells r).
Definition sheet_cells_ref (en : env) (sh : esheet) : list (pos * dref) :=
  flat_map (row_cells en) (es_rows sh).

Lemma cells_ok : forall en pfx row cs cur racc rest,
  no_colon pfx = true -> row + 1 < ROW_LIMIT ->
  legal_cells en cur cs = true ->
  exists cur',
  cells_run en (ShOuter row cur) racc (flat_map (cell_events pfx row) cs ++ rest) =
  cells_run en (ShOuter row cur')
            (rev (map (fun c => ((row, ec_col c), cell_dref en c)) cs) ++ racc) rest.
Proof.
  induction cs as [|c cs IH]; intros cur racc rest Hp Hr Hl.
  - exists cur. reflexivity.
  - cbn [XlsxSheet.legal_cells] in Hl. apply andb_split in Hl. destruct Hl as [Hc Hcs].
    cbn [flat_map]. rewrite <- app_assoc.
    rewrite cell_ok; try assumption.
    destruct (IH (ec_col c + 1) (((row, ec_col c), cell_dref en c) :: racc) rest Hp Hr Hcs)
      as [cur' E].
    exists cur'. rewrite E. cbn [map rev]. rewrite <- app_assoc. reflexivity.
Qed.

Lemma row_attrs_r : forall r, key_free [a_r] (er_extra r) = true ->
  get_attribute (row_attrs r) a_r = if er_explicit r then Some (dec (er_row r + 1)) else None.
Proof.
  intros r H. unfold row_attrs. rewrite get_attribute_app.
  rewrite (@key_free_none _ _ a_r H) by (cbn; auto).
  rewrite opt_attr_get. change (str_eqb a_r a_r) with true. cbn iota.
  destruct (er_explicit r); reflexivity.
Qed.

Lemma row_ok : forall en pfx r cur racc rest,
  no_colon pfx = true -> legal_row en cur r = true ->
  cells_run en (ShOuter cur 0) racc (row_events pfx r ++ rest) =
  cells_run en (ShOuter (er_row r + 1) 0) (rev (row_cells en r) ++ racc) rest.
Proof.
  intros en pfx r cur racc rest Hp Hl.
  unfold XlsxSheet.legal_row in Hl.
  apply andb_split in Hl. destruct Hl as [Hl Hcells].
  apply andb_split in Hl. destruct Hl as [Hl Hjunk].
  apply andb_split in Hl. destruct Hl as [Hl Hjunk0].
  apply andb_split in Hl. destruct Hl as [Hl Hextra].
  apply andb_split in Hl. destruct Hl as [Hl Himp].
  apply andb_split in Hl. destruct Hl as [Hrow Hcur].
  apply N.ltb_lt in Hrow.
  unfold row_events, elem. cbn [app]. rewrite <- ?app_assoc. cbn [app].
  assert (S1 : cells_step en (ShOuter cur 0) (Start (qn pfx n_row) (row_attrs r)) =
               SCont (ShOuter (er_row r) 0)).
  { cbn [XlsxSheet.cells_step]. loc. change (str_eqb n_row n_row) with true. cbn iota.
    rewrite row_attrs_r by exact Hextra. destruct (er_explicit r).
    - rewrite (get_row_dec _ Hrow). reflexivity.
    - cbn [orb] in Himp. apply N.eqb_eq in Himp. rewrite Himp. reflexivity. }
  cbn [XlsxSheet.cells_run]. rewrite S1.
  rewrite junk_skip by exact Hjunk0.
  destruct (@cells_ok en pfx (er_row r) (er_cells r) 0 racc
              (End (qn pfx n_row) :: er_junk r ++ rest) Hp Hrow Hcells) as [cur' E].
  rewrite E. unfold row_cells.
  (* </row> *)
  cbn [XlsxSheet.cells_run XlsxSheet.cells_step]. loc.
  change (str_eqb n_row n_row) with true. cbn iota.
  unfold ROW_LIMIT in Hrow.
  assert (B : (er_row r + 1 <=? U32MAX) = true) by (apply N.leb_le; unfold U32MAX; lia).
  rewrite B.
  apply junk_skip. exact Hjunk.
Qed.

Lemma rows_ok : forall en pfx rs cur racc rest,
  no_colon pfx = true -> legal_rows en cur rs = true ->
  exists cur',
  cells_run en (ShOuter cur 0) racc (flat_map (row_events pfx) rs ++ rest) =
  cells_run en (ShOuter cur' 0) (rev (flat_map (row_cells en) rs) ++ racc) rest.
Proof.
  induction rs as [|r rs IH]; intros cur racc rest Hp Hl.
  - exists cur. reflexivity.
  - cbn [XlsxSheet.legal_rows] in Hl. apply andb_split in Hl. destruct Hl as [Hr Hrs].
    cbn [flat_map]. rewrite <- app_assoc.
    rewrite row_ok; try assumption.
    destruct (IH (er_row r + 1) (rev (row_cells en r) ++ racc) rest Hp Hrs) as [cur' E].
    exists cur'. rewrite E. rewrite rev_app_distr, <- app_assoc. reflexivity.
Qed.

(* all cells of an encoded sheet, from <sheetData> on *)
Lemma body_ok : forall en sh rest0,
  legal_sheet en sh = true ->
  cells_run en (ShOuter 0 0) []
    (es_junk0 sh ++ flat_map (row_events (es_pfx sh)) (es_rows sh) ++
     End (qn (es_pfx sh) n_sheetData) :: rest0) = Ok (sheet_cells_ref en sh).
Proof.
  intros en sh rest0 Hl. unfold XlsxSheet.legal_sheet in Hl.
  apply andb_split in Hl. destruct Hl as [Hl Hrows].
  apply andb_split in Hl. destruct Hl as [Hl Hjunk0].
  apply andb_split in Hl. destruct Hl as [Hl Hpre2].
  apply andb_split in Hl. destruct Hl as [Hl Hpre].
  apply andb_split in Hl. destruct Hl as [Hp Hdim].
  rewrite junk_skip by exact Hjunk0.
  destruct (@rows_ok en (es_pfx sh) (es_rows sh) 0 []
              (End (qn (es_pfx sh) n_sheetData) :: rest0) Hp Hrows) as [cur' E].
  rewrite E. cbn [XlsxSheet.cells_run XlsxSheet.cells_step]. loc.
  change (str_eqb n_sheetData n_row) with false. change (str_eqb n_sheetData n_sheetData) with true.
  cbn iota. rewrite app_nil_r, rev_involutive. reflexivity.
Qed.

(* ------------------------------------------------------------------ XlsxCellReader::new on the preamble *)
Lemma pre_skip : forall evs sht d rest, forallb pre_ok evs = true ->
  exists sht', reader_new_loop sht d (evs ++ rest) = reader_new_loop sht' d rest.
Proof.
  induction evs as [|e evs IH]; intros sht d rest H.
  - exists sht. reflexivity.
  - cbn [forallb] in H. apply andb_split in H. destruct H as [H1 H2].
    destruct e as [n a|n|s|s|]; cbn [app reader_new_loop].
    + cbn in H1. apply andb_split in H1. destruct H1 as [Ha Hb].
      apply negb_true_iff in Ha, Hb. rewrite Ha, Hb. apply IH. exact H2.
    + apply IH. exact H2.
    + apply IH. exact H2.
    + apply IH. exact H2.
    + apply IH. exact H2.
Qed.

Lemma dim_skip : forall pfx dm sht d rest, no_colon pfx = true -> legal_dim dm = true ->
  exists d', reader_new_loop sht d (dim_events pfx dm ++ rest) = reader_new_loop sht d' rest.
Proof.
  intros pfx dm sht d rest Hp Hl. unfold dim_events.
  destruct dm as [|p|s e]; cbn [dim_text].
  - exists d. reflexivity.
  - unfold elem. cbn [app reader_new_loop]. loc.
    change (str_eqb n_dimension n_dimension) with true. cbn iota.
    cbn [XmlText.get_attribute]. change (str_eqb a_ref a_ref) with true. cbn iota.
    cbn [legal_dim] in Hl. unfold pos_ok in Hl. apply andb_split in Hl. destruct Hl as [H1 H2].
    apply N.ltb_lt in H1, H2.
    rewrite (@get_dimension_single (fst p) (snd p) H1 H2). cbn [obind].
    eexists. reflexivity.
  - unfold elem. cbn [app reader_new_loop]. loc.
    change (str_eqb n_dimension n_dimension) with true. cbn iota.
    cbn [XmlText.get_attribute]. change (str_eqb a_ref a_ref) with true. cbn iota.
    cbn [legal_dim] in Hl. apply andb_split in Hl. destruct Hl as [Hl H4].
    apply andb_split in Hl. destruct Hl as [Hl H3]. unfold pos_ok in Hl.
    apply andb_split in Hl. destruct Hl as [H1 H2].
    apply N.ltb_lt in H1, H2. apply N.leb_le in H3, H4.
    pose proof (@get_dimension_pair (fst s) (snd s) (fst e) (snd e) H3 H4 H1 H2) as G.
    cbn [app] in G. rewrite G. cbn [obind].
    eexists. reflexivity.
Qed.

Lemma head_ok : forall sh rest,
  no_colon (es_pfx sh) = true -> legal_dim (es_dim sh) = true ->
  forallb pre_ok (es_pre sh) = true -> forallb pre_ok (es_pre2 sh) = true ->
  exists d,
  reader_new (es_pre sh ++ dim_events (es_pfx sh) (es_dim sh) ++ es_pre2 sh ++
              Start (qn (es_pfx sh) n_sheetData) [] :: rest) = Ok (d, rest).
Proof.
  intros sh rest Hp Hd H1 H2. unfold reader_new.
  destruct (@pre_skip (es_pre sh) false dims0
              (dim_events (es_pfx sh) (es_dim sh) ++ es_pre2 sh ++
               Start (qn (es_pfx sh) n_sheetData) [] :: rest) H1) as [s1 E1].
  rewrite E1.
  destruct (@dim_skip (es_pfx sh) (es_dim sh) s1 dims0
              (es_pre2 sh ++ Start (qn (es_pfx sh) n_sheetData) [] :: rest) Hp Hd) as [d E2].
  rewrite E2.
  destruct (@pre_skip (es_pre2 sh) s1 d (Start (qn (es_pfx sh) n_sheetData) [] :: rest) H2) as [s2 E3].
  rewrite E3. exists d. cbn [reader_new_loop]. loc.
  change (str_eqb n_sheetData n_dimension) with false.
  change (str_eqb n_sheetData n_sheetData) with true. reflexivity.
Qed.

(* the cells the reader yields for a legal encoding: one per encoded cell, in document order, at
   the position and with the value the logical sheet has there *)
Theorem sheet_cells_encode : forall en sh,
  legal_sheet en sh = true ->
  sheet_cells parse_f64 en (encode sh) = Ok (Some (sheet_cells_ref en sh)).
Proof.
  intros en sh Hl. pose proof Hl as Hl0. unfold XlsxSheet.legal_sheet in Hl.
  apply andb_split in Hl. destruct Hl as [Hl Hrows].
  apply andb_split in Hl. destruct Hl as [Hl Hjunk0].
  apply andb_split in Hl. destruct Hl as [Hl Hpre2].
  apply andb_split in Hl. destruct Hl as [Hl Hpre].
  apply andb_split in Hl. destruct Hl as [Hp Hdim].
  unfold sheet_cells, encode.
  destruct (@head_ok sh (es_junk0 sh ++ flat_map (row_events (es_pfx sh)) (es_rows sh) ++
                         End (qn (es_pfx sh) n_sheetData) :: es_post sh) Hp Hdim Hpre Hpre2) as [d E].
  rewrite E. rewrite body_ok by assumption. reflexivity.
Qed.

(* ------------------------------------------------------------------ generic list / range facts *)
Definition lex_lt (p q : pos) : Prop := fst p < fst q \/ (fst p = fst q /\ snd p < snd q).

Lemma pos_eqb_eq : forall a b : pos, pos_eqb a b = true <-> a = b.
Proof.
  intros [a1 a2] [b1 b2]. unfold pos_eqb. cbn [fst snd]. split; intros H.
  - apply andb_split in H. destruct H as [H1 H2]. apply N.eqb_eq in H1, H2. congruence.
  - inversion H; subst. rewrite !N.eqb_refl. reflexivity.
Qed.

Lemma sorted_nodup : forall ps, StronglySorted lex_lt ps -> NoDup ps.
Proof.
  induction 1 as [|p ps HS IH HF]; constructor; [|exact IH].
  intros Hin. rewrite Forall_forall in HF. specialize (HF _ Hin). unfold lex_lt in HF. lia.
Qed.

Section Generic.
Variable T : Type.
Variable d : T.

Lemma sorted_by_row_of_lex : forall cs : list (pos * T),
  StronglySorted lex_lt (map fst cs) -> sorted_by_row cs.
Proof.
  induction cs as [|c cs IH]; intros H; [exact I|].
  cbn [map] in H. inversion H as [|? ? HS HF]; subst. cbn [sorted_by_row]. split.
  - destruct cs as [|c' cs']; [exact I|]. cbn [map] in HF. inversion HF as [|? ? Hc _]; subst.
    unfold lex_lt in Hc. lia.
  - apply IH. exact HS.
Qed.

Lemma sorted_filter : forall (Q : pos * T -> bool) cs,
  StronglySorted lex_lt (map fst cs) -> StronglySorted lex_lt (map fst (filter Q cs)).
Proof.
  induction cs as [|c cs IH]; intros H; [constructor|].
  cbn [map] in H. inversion H as [|? ? HS HF]; subst. cbn [filter].
  destruct (Q c); [|apply IH; exact HS]. cbn [map]. constructor; [apply IH; exact HS|].
  rewrite Forall_forall in *. intros p Hp. apply HF.
  apply in_map_iff in Hp. destruct Hp as [x [Hx1 Hx2]]. apply filter_In in Hx2.
  apply in_map_iff. exists x. tauto.
Qed.

Lemma fold_last_write_none : forall (cs : list (pos * T)) q acc,
  ~ In q (map fst cs) ->
  fold_left (fun a c => if pos_eqb (fst c) q then snd c else a) cs acc = acc.
Proof.
  induction cs as [|c cs IH]; intros q acc H; [reflexivity|]. cbn [fold_left].
  destruct (pos_eqb (fst c) q) eqn:E.
  - apply pos_eqb_eq in E. exfalso. apply H. left. exact E.
  - apply IH. intros Hin. apply H. right. exact Hin.
Qed.

Lemma find_none_notin : forall (cs : list (pos * T)) q,
  ~ In q (map fst cs) -> find (fun c => pos_eqb (fst c) q) cs = None.
Proof.
  induction cs as [|c cs IH]; intros q H; [reflexivity|]. cbn [find].
  destruct (pos_eqb (fst c) q) eqn:E.
  - apply pos_eqb_eq in E. exfalso. apply H. left. exact E.
  - apply IH. intros Hin. apply H. right. exact Hin.
Qed.

(* with distinct positions, the last write at q is the one cell stored at q *)
Lemma last_write_find : forall (cs : list (pos * T)) q, NoDup (map fst cs) ->
  last_write d cs q =
  match find (fun c => pos_eqb (fst c) q) cs with Some c => snd c | None => d end.
Proof.
  unfold last_write. intros cs q. generalize d as acc.
  induction cs as [|c cs IH]; intros acc H; [reflexivity|].
  cbn [map] in H. inversion H as [|? ? Hn Hd]; subst. cbn [fold_left find].
  destruct (pos_eqb (fst c) q) eqn:E.
  - apply pos_eqb_eq in E. subst q. apply fold_last_write_none. exact Hn.
  - apply IH. exact Hd.
Qed.

Lemma find_filter_nodup : forall (Q : pos * T -> bool) (cs : list (pos * T)) q,
  NoDup (map fst cs) ->
  match find (fun c => pos_eqb (fst c) q) (filter Q cs) with Some c => snd c | None => d end =
  match find (fun c => pos_eqb (fst c) q) cs with
  | Some c => if Q c then snd c else d
  | None => d
  end.
Proof.
  induction cs as [|c cs IH]; intros q H; [reflexivity|].
  cbn [map] in H. inversion H as [|? ? Hn Hd]; subst. cbn [filter find].
  destruct (pos_eqb (fst c) q) eqn:E.
  - apply pos_eqb_eq in E. subst q.
    assert (N1 : ~ In (fst c) (map fst (filter Q cs))).
    { intros Hin. apply Hn. apply in_map_iff in Hin. destruct Hin as [x [Hx1 Hx2]].
      apply filter_In in Hx2. apply in_map_iff. exists x. tauto. }
    destruct (Q c).
    + cbn [find]. rewrite (proj2 (pos_eqb_eq (fst c) (fst c)) eq_refl). reflexivity.
    + rewrite find_none_notin by exact N1. reflexivity.
  - destruct (Q c).
    + cbn [find]. rewrite E. apply IH. exact Hd.
    + apply IH. exact Hd.
Qed.

(* the far corner of the tight bounding box is bounded by the positions *)
Lemma tight_bbox_bound : forall B ps s e,
  Forall (fun p : pos => fst p <= B /\ snd p <= B) ps ->
  tight_bbox ps = Some (s, e) -> fst e <= B /\ snd e <= B.
Proof.
  intros B ps s e HF H. destruct ps as [|p0 ps]; [discriminate|].
  cbn [tight_bbox] in H. inversion HF as [|? ? H0 HF']; subst.
  assert (G : forall l b, Forall (fun p : pos => fst p <= B /\ snd p <= B) l ->
              fst (snd b) <= B /\ snd (snd b) <= B ->
              fst (snd (fold_left (fun b p => bbox (Some b) p) l b)) <= B /\
              snd (snd (fold_left (fun b p => bbox (Some b) p) l b)) <= B).
  { induction l as [|p l IH]; intros b Hl Hb; [exact Hb|]. cbn [fold_left].
    inversion Hl as [|? ? Hp Hl']; subst. apply IH; [exact Hl'|].
    destruct b as [bs be]. cbn [bbox fst snd] in *. lia. }
  specialize (G ps (p0, p0) HF' H0).
  assert (E : fold_left (fun b p => bbox (Some b) p) ps (p0, p0) = (s, e)) by (inversion H; reflexivity).
  rewrite E in G. exact G.
Qed.

(* map over a range *)
Lemma nth_error_map' : forall A B (f : A -> B) l n,
  nth_error (map f l) n = option_map f (nth_error l n).
Proof. induction l as [|x l IH]; intros [|n]; cbn; auto. Qed.

End Generic.

Lemma map_range_facts : forall A B (f : A -> B) (r : range A),
  Wf r -> Wf (map_range f r) /\ rect (map_range f r) = rect r /\
  (forall q, in_rect (map_range f r) q = in_rect r q) /\
  (forall q, get_value (map_range f r) q = option_map f (get_value r q)).
Proof.
  intros A B f r HW.
  assert (E : is_empty (map_range f r) = is_empty r).
  { unfold is_empty, map_range. cbn [r_inner]. destruct (r_inner r); reflexivity. }
  assert (W : width (map_range f r) = width r) by (unfold width; rewrite E; reflexivity).
  assert (H : height (map_range f r) = height r) by (unfold height; rewrite E; reflexivity).
  split; [|split; [|split]].
  - unfold Wf, map_range in *. cbn [r_inner r_start r_end]. destruct HW as [HW|HW].
    + left. rewrite HW. reflexivity.
    + right. rewrite map_length. exact HW.
  - unfold rect. rewrite E. reflexivity.
  - intros q. unfold in_rect, rect. rewrite E. reflexivity.
  - intros q. unfold get_value. cbn [map_range r_start r_end].
    destruct (r_start r) as [sr sc]. destruct (r_end r) as [er ec].
    destruct ((sr <=? fst q) && (fst q <=? er) && (sc <=? snd q) && (snd q <=? ec)); [|reflexivity].
    unfold get. rewrite W, H.
    destruct ((width r <=? snd q - sc) || (height r <=? fst q - sr)); [reflexivity|].
    cbn [map_range r_inner]. apply nth_error_map'.
Qed.

(* ------------------------------------------------------------------ from_sparse commutes with a map on the values *)
Lemma last_map : forall A B (g : A -> B) l a, last (map g l) (g a) = g (last l a).
Proof.
  induction l as [|x l IH]; intros a; [reflexivity|]. cbn [map]. destruct l as [|y l]; [reflexivity|].
  change (last (g x :: map g (y :: l)) (g a)) with (last (map g (y :: l)) (g a)).
  change (last (x :: y :: l) a) with (last (y :: l) a). apply IH.
Qed.

Lemma fold_left_map' : forall A B C (h : C -> B -> C) (g : A -> B) l a,
  fold_left h (map g l) a = fold_left (fun acc x => h acc (g x)) l a.
Proof. induction l as [|x l IH]; intros a; [reflexivity|]. cbn. apply IH. Qed.

Lemma map_list_set : forall A B (f : A -> B) l i x,
  map f (list_set l i x) = list_set (map f l) i (f x).
Proof. induction l as [|y l IH]; intros [|i] x; cbn; try reflexivity. rewrite IH. reflexivity. Qed.

Lemma map_repeat' : forall A B (f : A -> B) x n, map f (repeat x n) = repeat (f x) n.
Proof. induction n as [|n IH]; cbn; [reflexivity|]. rewrite IH. reflexivity. Qed.

(* Range.from_sparse (Range.v, resynced to the hardened code) with its four bounds abstracted *)
Definition fs_core (T : Type) (d : T) (row_start row_end col_start col_end : N)
           (cells : list (pos * T)) : outcome (range T) :=
  do c0' <- sub32 col_end col_start;
  let cols := c0' + 1 in
  do r0' <- sub32 row_end row_start;
  let rows := r0' + 1 in
  let len := sat_mul_usize cols rows in
  let v0 := repeat d (N.to_nat len) in
  do v <- fold_left (fun (acc : outcome (list T)) c =>
            do v <- acc;
            do row <- sub32 (fst (fst c)) row_start;
            do col <- sub32 (snd (fst c)) col_start;
            let idx := sat_mul_usize row cols + col in
            if idx <? len then Ok (list_set v (N.to_nat idx) (snd c)) else Ok v)
          cells (Ok v0);
  Ok (mkRange (row_start, col_start) (row_end, col_end) v).

Lemma from_sparse_core : forall T (d : T) c0 cs,
  from_sparse d (c0 :: cs) =
  fs_core T d (row_lo (c0 :: cs)) (row_hi (c0 :: cs)) (col_lo (c0 :: cs)) (col_hi (c0 :: cs)) (c0 :: cs).
Proof. reflexivity. Qed.

(* --- the hardened from_sparse commutes with a map on the values --- *)
Lemma fsx_core_map : forall A B (f : A -> B) (d : A) rs re cl ch (cs : list (pos * A)),
  fsx_core (f d) rs re cl ch (map (fun c => (fst c, f (snd c))) cs) =
  map_range f (fsx_core d rs re cl ch cs).
Proof.
  intros A B f d rs re cl ch cs. unfold fsx_core, map_range. cbv zeta. cbn [r_start r_end r_inner].
  f_equal. rewrite <- (map_repeat' A B f d). rewrite fold_left_map'. cbn [fst snd]. unfold pos in *.
  generalize (repeat d (N.to_nat (sat64 ((ch - cl + 1) * (re - rs + 1))))) as v0.
  induction cs as [|x cs IH]; intros v0; [reflexivity|]. cbn [fold_left fst snd].
  destruct (sat64 ((fst (fst x) - rs) * (ch - cl + 1)) + (snd (fst x) - cl) <?
            sat64 ((ch - cl + 1) * (re - rs + 1))).
  - rewrite <- map_list_set. apply IH.
  - apply IH.
Qed.

Lemma from_sparse_x_map : forall A B (f : A -> B) (d : A) (cs : list (pos * A)),
  from_sparse_x (f d) (map (fun c => (fst c, f (snd c))) cs) = map_range f (from_sparse_x d cs).
Proof.
  intros A B f d cs. destruct cs as [|c0 cs]; [reflexivity|].
  change (map (fun c : pos * A => (fst c, f (snd c))) (c0 :: cs))
    with ((fst c0, f (snd c0)) :: map (fun c : pos * A => (fst c, f (snd c))) cs).
  unfold from_sparse_x.
  change ((fst c0, f (snd c0)) :: map (fun c : pos * A => (fst c, f (snd c))) cs)
    with (map (fun c : pos * A => (fst c, f (snd c))) (c0 :: cs)).
  rewrite <- fsx_core_map. f_equal.
  - unfold row_lo. rewrite fold_left_map'. reflexivity.
  - unfold row_hi. rewrite fold_left_map'. reflexivity.
  - unfold col_lo. rewrite fold_left_map'. reflexivity.
  - unfold col_hi. rewrite fold_left_map'. reflexivity.
Qed.

(* --- on row-sorted, bounded cell lists the two generations of from_sparse agree --- *)
Section MinMax.
Variable C : Type.
Variable k : C -> N.
Definition kmin (l : list C) (m : N) : N := fold_left (fun m c => if k c <? m then k c else m) l m.
Definition kmax (l : list C) (m : N) : N := fold_left (fun m c => if m <? k c then k c else m) l m.

Lemma kmin_le : forall l m, kmin l m <= m /\ forall c, In c l -> kmin l m <= k c.
Proof.
  induction l as [|x l IH]; intros m; [split; [cbn; lia|contradiction]|].
  unfold kmin in *. cbn [fold_left]. destruct (k x <? m) eqn:E.
  - apply N.ltb_lt in E. destruct (IH (k x)) as [A B]. split; [lia|].
    intros c [Hc|Hc]; [subst; exact A|apply B; exact Hc].
  - apply N.ltb_ge in E. destruct (IH m) as [A B]. split; [exact A|].
    intros c [Hc|Hc]; [subst; lia|apply B; exact Hc].
Qed.

Lemma kmax_ge : forall l m, m <= kmax l m /\ forall c, In c l -> k c <= kmax l m.
Proof.
  induction l as [|x l IH]; intros m; [split; [cbn; lia|contradiction]|].
  unfold kmax in *. cbn [fold_left]. destruct (m <? k x) eqn:E.
  - apply N.ltb_lt in E. destruct (IH (k x)) as [A B]. split; [lia|].
    intros c [Hc|Hc]; [subst; exact A|apply B; exact Hc].
  - apply N.ltb_ge in E. destruct (IH m) as [A B]. split; [exact A|].
    intros c [Hc|Hc]; [subst; lia|apply B; exact Hc].
Qed.

Lemma kmax_le_bound : forall B l m, m <= B -> (forall c, In c l -> k c <= B) -> kmax l m <= B.
Proof.
  induction l as [|x l IH]; intros m Hm H; [exact Hm|]. unfold kmax in *. cbn [fold_left].
  destruct (m <? k x); apply IH; try (intros c Hc; apply H; right; exact Hc); try exact Hm.
  apply H. left. reflexivity.
Qed.

Lemma kmin_first : forall l m, (forall c, In c l -> m <= k c) -> kmin l m = m.
Proof.
  induction l as [|x l IH]; intros m H; [reflexivity|]. unfold kmin in *. cbn [fold_left].
  assert (Hx : m <= k x) by (apply H; left; reflexivity).
  destruct (k x <? m) eqn:E; [apply N.ltb_lt in E; lia|].
  apply IH. intros c Hc. apply H. right. exact Hc.
Qed.

(* adjacent-sorted: every later element is at least the first, the last is the largest *)
Fixpoint adj_sorted (l : list C) : Prop :=
  match l with
  | [] => True
  | x :: t => match t with [] => True | y :: _ => k x <= k y end /\ adj_sorted t
  end.

Lemma adj_sorted_ge_first : forall l x, adj_sorted (x :: l) -> forall c, In c l -> k x <= k c.
Proof.
  induction l as [|y l IH]; intros x H c Hc; [contradiction|].
  cbn [adj_sorted] in H. destruct H as [H1 H2]. destruct Hc as [Hc|Hc]; [subst; exact H1|].
  specialize (IH y H2 c Hc). lia.
Qed.

Lemma last_default_irrel : forall (l : list C) a b y, last (y :: l) a = last (y :: l) b.
Proof.
  induction l as [|z l IH]; intros a b y; [reflexivity|].
  change (last (y :: z :: l) a) with (last (z :: l) a).
  change (last (y :: z :: l) b) with (last (z :: l) b). apply IH.
Qed.

Lemma kmax_last : forall l x m, adj_sorted (x :: l) -> m <= k x -> kmax (x :: l) m = k (last (x :: l) x).
Proof.
  induction l as [|y l IH]; intros x m H Hm.
  - unfold kmax. cbn. destruct (m <? k x) eqn:E; [reflexivity|]. apply N.ltb_ge in E. lia.
  - unfold kmax in *. cbn [fold_left].
    assert (E : (if m <? k x then k x else m) = k x).
    { destruct (m <? k x) eqn:E; [reflexivity|]. apply N.ltb_ge in E. lia. }
    rewrite E. cbn [adj_sorted] in H. destruct H as [H1 H2].
    change (last (x :: y :: l) x) with (last (y :: l) x).
    rewrite (last_default_irrel l x y y). apply (IH y (k x) H2 H1).
Qed.
End MinMax.

Lemma sorted_by_row_adj : forall T (cs : list (pos * T)),
  sorted_by_row cs -> adj_sorted (pos * T) (fun c => fst (fst c)) cs.
Proof.
  induction cs as [|c cs IH]; intros H; [exact I|]. cbn [sorted_by_row adj_sorted] in *.
  destruct H as [H1 H2]. split; [|apply IH; exact H2]. destruct cs; [exact I|exact H1].
Qed.

Lemma fs_core_eq : forall T (d : T) rs re cl ch (cs : list (pos * T)),
  rs <= re -> cl <= ch ->
  (forall c, In c cs -> rs <= fst (fst c) /\ cl <= snd (fst c)) ->
  fs_core T d rs re cl ch cs = Ok (fsx_core d rs re cl ch cs).
Proof.
  intros T d rs re cl ch cs Hr Hc H. unfold fs_core, fsx_core, sub32, sat_mul_usize, sat64. cbv zeta.
  unfold pos in *.
  assert (E1 : (cl <=? ch) = true) by (apply N.leb_le; exact Hc). rewrite E1. cbn [obind].
  assert (E3 : (rs <=? re) = true) by (apply N.leb_le; exact Hr). rewrite E3. cbn [obind].
  set (cols := ch - cl + 1). set (rows := re - rs + 1).
  assert (G : forall l v, (forall c, In c l -> In c cs) ->
    fold_left (fun (acc : outcome (list T)) c =>
       do v <- acc;
       do row <- (if rs <=? fst (fst c) then Ok (fst (fst c) - rs) else Panic);
       do col <- (if cl <=? snd (fst c) then Ok (snd (fst c) - cl) else Panic);
       if N.min (row * cols) U64MAX + col <? N.min (cols * rows) U64MAX
       then Ok (list_set v (N.to_nat (N.min (row * cols) U64MAX + col)) (snd c)) else Ok v)
      l (Ok v) =
    Ok (fold_left (fun v c =>
       if N.min ((fst (fst c) - rs) * cols) U64MAX + (snd (fst c) - cl) <? N.min (cols * rows) U64MAX
       then list_set v (N.to_nat (N.min ((fst (fst c) - rs) * cols) U64MAX + (snd (fst c) - cl))) (snd c) else v)
      l v)).
  { induction l as [|x l IH]; intros v Hsub; [reflexivity|]. cbn [fold_left obind].
    destruct (H x (Hsub x (or_introl eq_refl))) as [A1 A3].
    apply N.leb_le in A1 as A1', A3 as A3'. rewrite A1', A3'. cbn [obind].
    destruct (N.min ((fst (fst x) - rs) * cols) U64MAX + (snd (fst x) - cl) <? N.min (cols * rows) U64MAX);
      apply IH; intros c0 Hc0; apply Hsub; right; exact Hc0. }
  rewrite G by auto. reflexivity.
Qed.

(* sortedness and the bound are no longer needed (Range.v follows the hardened code); the
   hypotheses are kept so that callers are unchanged *)
Lemma from_sparse_x_eq : forall T (d : T) (cs : list (pos * T)),
  sorted_by_row cs ->
  (forall c, In c cs -> fst (fst c) <= 999999999 /\ snd (fst c) <= 999999999) ->
  from_sparse d cs = Ok (from_sparse_x d cs).
Proof.
  intros T d cs _ _. destruct cs as [|c0 cs]; [reflexivity|].
  rewrite from_sparse_core. unfold from_sparse_x.
  set (kr := fun c : pos * T => fst (fst c)). set (kc := fun c : pos * T => snd (fst c)).
  destruct (kmin_le _ kr (c0 :: cs) U32MAX) as [_ RLle].
  destruct (kmax_ge _ kr (c0 :: cs) 0) as [_ RHge].
  destruct (kmin_le _ kc (c0 :: cs) U32MAX) as [_ CLle].
  destruct (kmax_ge _ kc (c0 :: cs) 0) as [_ CHge].
  change (kmin _ kr (c0 :: cs) U32MAX) with (row_lo (c0 :: cs)) in RLle.
  change (kmax _ kr (c0 :: cs) 0) with (row_hi (c0 :: cs)) in RHge.
  change (kmin _ kc (c0 :: cs) U32MAX) with (col_lo (c0 :: cs)) in CLle.
  change (kmax _ kc (c0 :: cs) 0) with (col_hi (c0 :: cs)) in CHge.
  assert (I0 : In c0 (c0 :: cs)) by (left; reflexivity).
  apply fs_core_eq.
  - specialize (RLle c0 I0). specialize (RHge c0 I0). unfold kr in *. lia.
  - specialize (CLle c0 I0). specialize (CHge c0 I0). unfold kc in *. lia.
  - intros c Hc. split; [apply RLle; exact Hc|apply CLle; exact Hc].
Qed.

(* ------------------------------------------------------------------ the encoded cells as one list *)
Definition ucells_rows (rs : list erow) : list (N * ecell) :=
  flat_map (fun r => map (pair (er_row r)) (er_cells r)) rs.
Definition upos (u : N * ecell) : pos := (fst u, ec_col (snd u)).

Lemma ref_cells_u : forall en rs,
  flat_map (row_cells en) rs = map (fun u => (upos u, cell_dref en (snd u))) (ucells_rows rs).
Proof.
  induction rs as [|r rs IH]; [reflexivity|]. unfold ucells_rows in *. cbn [flat_map].
  rewrite map_app, <- IH. f_equal. unfold row_cells. rewrite map_map. reflexivity.
Qed.

Lemma logical_u : forall rs,
  flat_map logical_row rs =
  map (fun u => (upos u, (ec_style (snd u), ec_val (snd u)))) (ucells_rows rs).
Proof.
  induction rs as [|r rs IH]; [reflexivity|]. unfold ucells_rows in *. cbn [flat_map].
  rewrite map_app, <- IH. f_equal. unfold logical_row. rewrite map_map. reflexivity.
Qed.

Lemma sorted_app : forall A (R : A -> A -> Prop) l1 l2,
  StronglySorted R l1 -> StronglySorted R l2 ->
  (forall x y, In x l1 -> In y l2 -> R x y) -> StronglySorted R (l1 ++ l2).
Proof.
  induction l1 as [|a l1 IH]; intros l2 H1 H2 H; [exact H2|].
  inversion H1 as [|? ? HS HF]; subst. cbn [app]. constructor.
  - apply IH; [exact HS | exact H2 |]. intros x y Hx Hy. apply H; [right; exact Hx | exact Hy].
  - apply Forall_app. split; [exact HF|]. apply Forall_forall. intros y Hy.
    apply H; [left; reflexivity | exact Hy].
Qed.

Lemma cells_sorted : forall en row cs cur, legal_cells en cur cs = true ->
  StronglySorted lex_lt (map (fun c => (row, ec_col c)) cs) /\
  Forall (fun c => cur <= ec_col c /\ ec_col c < COL_LIMIT) cs.
Proof.
  induction cs as [|c cs IH]; intros cur H; [split; constructor|].
  cbn [XlsxSheet.legal_cells] in H. apply andb_split in H. destruct H as [Hc Hcs].
  destruct (IH _ Hcs) as [IS IF]. unfold XlsxSheet.legal_cell in Hc.
  repeat (apply andb_split in Hc; destruct Hc as [Hc ?]).
  apply N.ltb_lt in Hc. apply N.leb_le in H5.
  split.
  - cbn [map]. constructor; [exact IS|]. apply Forall_forall. intros p Hp.
    apply in_map_iff in Hp. destruct Hp as [c' [E Hin]]. subst p.
    rewrite Forall_forall in IF. specialize (IF _ Hin). unfold lex_lt. cbn [fst snd]. lia.
  - constructor; [lia|]. eapply Forall_impl; [|exact IF]. cbn. intros a Ha. lia.
Qed.

Lemma rows_sorted : forall en rs cur, legal_rows en cur rs = true ->
  StronglySorted lex_lt (map upos (ucells_rows rs)) /\
  Forall (fun u => cur <= fst u /\ fst u + 1 < ROW_LIMIT /\ ec_col (snd u) < COL_LIMIT) (ucells_rows rs).
Proof.
  induction rs as [|r rs IH]; intros cur H; [split; constructor|].
  cbn [XlsxSheet.legal_rows] in H. apply andb_split in H. destruct H as [Hr Hrs].
  destruct (IH _ Hrs) as [IS IF]. unfold XlsxSheet.legal_row in Hr.
  repeat (apply andb_split in Hr; destruct Hr as [Hr ?]).
  apply N.ltb_lt in Hr. apply N.leb_le in H4.
  destruct (@cells_sorted en (er_row r) (er_cells r) 0 H) as [CS CF].
  unfold ucells_rows in *. cbn [flat_map]. split.
  - rewrite map_app. apply sorted_app.
    + rewrite map_map. exact CS.
    + exact IS.
    + intros x y Hx Hy. rewrite map_map in Hx. apply in_map_iff in Hx. destruct Hx as [c [E Hc]]. subst x.
      apply in_map_iff in Hy. destruct Hy as [u [E Hu]]. subst y.
      rewrite Forall_forall in IF. specialize (IF _ Hu). unfold lex_lt, upos. cbn [fst snd]. lia.
  - apply Forall_app. split.
    + apply Forall_forall. intros u Hu. apply in_map_iff in Hu. destruct Hu as [c [E Hc]]. subst u.
      rewrite Forall_forall in CF. specialize (CF _ Hc). cbn [fst snd]. lia.
    + eapply Forall_impl; [|exact IF]. cbn. intros a Ha. lia.
Qed.

(* ------------------------------------------------------------------ (4) the sheet-level theorem *)
Lemma filter_map_comm : forall A B (g : A -> B) (P : A -> bool) (Q : B -> bool) l,
  (forall x, Q (g x) = P x) -> map g (filter P l) = filter Q (map g l).
Proof.
  induction l as [|x l IH]; intros H; [reflexivity|]. cbn [filter map]. rewrite H.
  destruct (P x); cbn [map]; rewrite IH by exact H; reflexivity.
Qed.

Lemma find_map : forall A B (g : A -> B) (P : B -> bool) l,
  find P (map g l) = option_map g (find (fun x => P (g x)) l).
Proof.
  induction l as [|x l IH]; [reflexivity|]. cbn [map find]. destruct (P (g x)); [reflexivity|exact IH].
Qed.

Lemma is_dempty_to_data : forall v, is_dempty (to_data v) = is_rempty v.
Proof. destruct v; reflexivity. Qed.

Lemma spec_cells_ref : forall en sh,
  map (fun c => (fst c, to_data (snd c))) (sheet_cells_ref en sh) =
  spec_cells parse_f64 en (logical sh).
Proof.
  intros en sh. unfold sheet_cells_ref, logical, spec_cells.
  rewrite ref_cells_u, logical_u, !map_map. apply map_ext. intros u. cbn [fst snd].
  rewrite to_data_cell_dref. reflexivity.
Qed.

(* the model on any legal encoding is a function of the logical sheet alone *)
Theorem sheet_model_eq : forall en sh,
  legal_sheet en sh = true ->
  xlsx_sheet_model parse_f64 en (encode sh) = Ok (range_of parse_f64 en (logical sh)).
Proof.
  intros en sh Hl. unfold xlsx_sheet_model, xlsx_range, xlsx_range_ref.
  rewrite sheet_cells_encode by assumption. cbn [obind].
  unfold lazy_cells, range_of, used_cells_spec.
  rewrite <- spec_cells_ref.
  rewrite <- (@filter_map_comm _ _ (fun c : pos * dref => (fst c, to_data (snd c)))
                (fun c => negb (is_rempty (snd c))) (fun c => negb (is_dempty (snd c)))).
  2:{ intros x. cbn [snd]. rewrite is_dempty_to_data. reflexivity. }
  change DEmpty with (to_data REmpty). rewrite from_sparse_x_map. reflexivity.
Qed.

Lemma logical_positions : forall sh, map fst (logical sh) = map upos (ucells_rows (es_rows sh)).
Proof. intros sh. unfold logical. rewrite logical_u, map_map. reflexivity. Qed.

Theorem range_of_spec : forall en sh,
  legal_sheet en sh = true ->
  let r := range_of parse_f64 en (logical sh) in
  Wf r /\
    rect r = tight_bbox (map fst (used_cells_spec parse_f64 en (logical sh))) /\
    (forall q, get_value r q =
       if in_rect r q then Some (value_at parse_f64 en (logical sh) q) else None).
Proof.
  intros en sh Hl. unfold XlsxSheet.legal_sheet in Hl.
  apply andb_split in Hl. destruct Hl as [_ Hrows].
  destruct (@rows_sorted en (es_rows sh) 0 Hrows) as [HS HF].
  set (L := logical sh). set (used := used_cells_spec parse_f64 en L).
  assert (PS : map fst (spec_cells parse_f64 en L) = map upos (ucells_rows (es_rows sh))).
  { unfold spec_cells. rewrite map_map. cbn [fst]. apply logical_positions. }
  assert (SS : StronglySorted lex_lt (map fst (spec_cells parse_f64 en L))) by (rewrite PS; exact HS).
  assert (SU : StronglySorted lex_lt (map fst used)) by (apply sorted_filter; exact SS).
  assert (BU : Forall (fun p : pos => fst p <= 999999999 /\ snd p <= 999999999) (map fst used)).
  { apply Forall_forall. intros p Hp. apply in_map_iff in Hp. destruct Hp as [c [E Hc]]. subst p.
    unfold used, used_cells_spec in Hc. apply filter_In in Hc. destruct Hc as [Hc _].
    assert (Hp : In (fst c) (map fst (spec_cells parse_f64 en L))) by (apply in_map; exact Hc).
    rewrite PS in Hp. apply in_map_iff in Hp. destruct Hp as [u [E Hu]].
    rewrite Forall_forall in HF. specialize (HF _ Hu). rewrite <- E. unfold upos, ROW_LIMIT, COL_LIMIT in *.
    cbn [fst snd]. lia. }
  assert (PRE : pre (@empty xdata) (OFromSparse used)).
  { cbn [pre]. split; [|split].
    - apply sorted_by_row_of_lex. exact SU.
    - intros c Hc. rewrite Forall_forall in BU. specialize (BU (fst c) (in_map fst _ _ Hc)).
      unfold U32MAX. lia.
    - destruct (tight_bbox (map fst used)) as [[s e]|] eqn:TB; [|exact I].
      destruct (@tight_bbox_bound 999999999 (map fst used) s e BU TB) as [B1 B2].
      unfold U32MAX. lia. }
  destruct (@from_sparse_spec xdata DEmpty used PRE) as [r [R1 [R2 [R3 R4]]]].
  assert (RX : from_sparse DEmpty used = Ok (from_sparse_x DEmpty used)).
  { apply from_sparse_x_eq; [apply sorted_by_row_of_lex; exact SU|].
    intros c Hc. rewrite Forall_forall in BU. apply (BU (fst c)). apply in_map. exact Hc. }
  rewrite RX in R1. inversion R1 as [R1']. unfold range_of. fold L. fold used. rewrite R1'.
  split; [exact R2|]. split; [exact R3|].
  intros q. rewrite R4. destruct (in_rect r q); [|reflexivity]. f_equal.
  rewrite last_write_find by (apply sorted_nodup; exact SU).
  unfold used, used_cells_spec.
  rewrite find_filter_nodup by (apply sorted_nodup; exact SS).
  unfold spec_cells, value_at. rewrite find_map. cbn [fst].
  destruct (find (fun x => pos_eqb (fst x) q) L) as [lc|]; cbn [option_map]; [|reflexivity].
  cbn [snd]. destruct (expected en (snd lc)); reflexivity.
Qed.

Theorem xlsx_sheet_main : forall en sh,
  legal_sheet en sh = true ->
  let r := range_of parse_f64 en (logical sh) in
  xlsx_sheet_model parse_f64 en (encode sh) = Ok r /\ Wf r /\
    rect r = tight_bbox (map fst (used_cells_spec parse_f64 en (logical sh))) /\
    (forall q, get_value r q =
       if in_rect r q then Some (value_at parse_f64 en (logical sh) q) else None).
Proof.
  intros en sh Hl. split; [apply sheet_model_eq; assumption|]. apply range_of_spec. exact Hl.
Qed.

(* independence of the physical encoding *)
Theorem encoding_independent : forall en sh1 sh2,
  legal_sheet en sh1 = true -> legal_sheet en sh2 = true ->
  logical sh1 = logical sh2 ->
  xlsx_sheet_model parse_f64 en (encode sh1) = xlsx_sheet_model parse_f64 en (encode sh2).
Proof.
  intros en sh1 sh2 H1 H2 E. rewrite !sheet_model_eq by assumption. rewrite E. reflexivity.
Qed.

(* ------------------------------------------------------------------ (2) explicit and implicit references agree *)
Lemma legal_cells_explicit : forall en cs cur, legal_cells en cur cs = true ->
  legal_cells en cur (map explicit_cell cs) = true.
Proof.
  induction cs as [|c cs IH]; intros cur H; [reflexivity|].
  cbn [map XlsxSheet.legal_cells] in *. apply andb_split in H. destruct H as [Hc Hcs].
  change (ec_col (explicit_cell c)) with (ec_col c).
  rewrite (IH _ Hcs). rewrite andb_true_r.
  unfold XlsxSheet.legal_cell, XlsxSheet.legal_value in *. cbn [explicit_cell ec_col ec_explicit ec_style ec_extra ec_inner
    ec_junk ec_val ec_sform orb].
  repeat (apply andb_split in Hc; destruct Hc as [Hc ?]).
  rewrite Hc, H, H0, H1, H2, H3, H5. reflexivity.
Qed.

Lemma legal_rows_explicit : forall en rs cur, legal_rows en cur rs = true ->
  legal_rows en cur (map explicit_row rs) = true.
Proof.
  induction rs as [|r rs IH]; intros cur H; [reflexivity|].
  cbn [map XlsxSheet.legal_rows] in *. apply andb_split in H. destruct H as [Hr Hrs].
  change (er_row (explicit_row r)) with (er_row r). rewrite (IH _ Hrs). rewrite andb_true_r.
  unfold XlsxSheet.legal_row in *. cbn [explicit_row er_row er_explicit er_extra er_junk0 er_junk er_cells orb].
  repeat (apply andb_split in Hr; destruct Hr as [Hr ?]).
  rewrite (legal_cells_explicit _ _ _ H). rewrite Hr, H0, H1, H2, H4. reflexivity.
Qed.

Lemma logical_explicit : forall sh, logical (all_explicit sh) = logical sh.
Proof.
  intros sh. unfold logical, all_explicit. cbn [es_rows].
  induction (es_rows sh) as [|r rs IH]; [reflexivity|]. cbn [map flat_map]. rewrite IH. f_equal.
  unfold logical_row. cbn [explicit_row er_cells er_row]. rewrite map_map. reflexivity.
Qed.

Theorem cursor_equiv : forall en sh,
  legal_sheet en sh = true ->
  legal_sheet en (all_explicit sh) = true /\
  (exists cs, sheet_cells parse_f64 en (encode sh) = Ok (Some cs) /\
              sheet_cells parse_f64 en (encode (all_explicit sh)) = Ok (Some cs) /\
              map fst cs = map fst (logical sh)) /\
  xlsx_sheet_model parse_f64 en (encode sh) = xlsx_sheet_model parse_f64 en (encode (all_explicit sh)).
Proof.
  intros en sh Hl.
  assert (L2 : legal_sheet en (all_explicit sh) = true).
  { unfold XlsxSheet.legal_sheet in *. cbn [all_explicit es_pfx es_dim es_pre es_pre2 es_junk0 es_rows].
    repeat (apply andb_split in Hl; destruct Hl as [Hl ?]).
    rewrite Hl, H0, H1, H2, H3. apply legal_rows_explicit. exact H. }
  split; [exact L2|]. split.
  - exists (sheet_cells_ref en sh). split; [apply sheet_cells_encode; assumption|]. split.
    + rewrite sheet_cells_encode by exact L2.
      do 2 f_equal. unfold sheet_cells_ref, all_explicit. cbn [es_rows].
      induction (es_rows sh) as [|r rs IH]; [reflexivity|]. cbn [map flat_map]. rewrite IH. f_equal.
      unfold row_cells. cbn [explicit_row er_cells er_row]. rewrite map_map. reflexivity.
    + unfold sheet_cells_ref. rewrite ref_cells_u, logical_positions, map_map. reflexivity.
  - apply encoding_independent; try assumption.
    symmetry. apply logical_explicit.
Qed.

(* ------------------------------------------------------------------ (3) the typing table of read_v *)
Lemma str_eqb_neq : forall a b, a <> b -> str_eqb a b = false.
Proof.
  intros a b H. destruct (str_eqb a b) eqn:E; [|reflexivity]. apply str_eqb_eq in E. contradiction.
Qed.

Theorem typing_table : forall en v a,
  let fmt := cell_format_of en a in
  let num := fun bits => format_excel_f64_ref bits fmt (e_1904 en) in
  let idx := match parse_usize v with Some i => i | None => 0 end in
  match get_attribute a a_t with
  | None =>
      read_v en v a =
      match v with
      | [] => Cont REmpty
      | _ => match parse_f64 v with Some bits => Cont (num bits) | None => Cont (RString v) end
      end
  | Some t =>
      (t = v_n -> read_v en v a =
         match v with
         | [] => Cont REmpty
         | _ => match parse_f64 v with Some bits => Cont (num bits) | None => Fail E_PARSEFLOAT end
         end) /\
      (t = v_s -> read_v en v a =
         match nth_N (e_strings en) idx with Some s => Cont (RShared s) | None => Fail E_OUT_OF_RANGE end) /\
      (t = v_str -> read_v en v a = Cont (RString (unescape_xstring v))) /\
      (t = v_b -> read_v en v a = Cont (RBool (negb (str_eqb v v_0) && negb (str_eqb v v_false)))) /\
      (t = v_e -> read_v en v a =
         match parse_cell_error v with Some c => Cont (RError c) | None => Fail E_CELLERROR end) /\
      (t = v_d -> read_v en v a = Cont (RDateTimeIso v)) /\
      (t <> v_n -> t <> v_s -> t <> v_str -> t <> v_b -> t <> v_e -> t <> v_d ->
         read_v en v a = Fail E_TATTR)
  end /\
  (* the number wrapper: by cell format *)
  (forall bits, num bits =
     match fmt with
     | Some NumFmt.DateTime => RDateTime bits false (e_1904 en)
     | Some NumFmt.TimeDelta => RDateTime bits true (e_1904 en)
     | _ => RFloat bits
     end).
Proof.
  intros en v a fmt num idx. split; [|intros bits; reflexivity].
  unfold XlsxSheet.read_v. fold fmt. destruct (get_attribute a a_t) as [t|]; [|reflexivity].
  repeat split; intros; subst; try reflexivity.
  - rewrite !str_eqb_neq by assumption. reflexivity.
Qed.

(* what an <is> child yields, whatever t says: the text of its <t>, or Empty without one *)
Theorem typing_inline : forall en pfx row col p a v0 s racc rest, no_colon pfx = true ->
  cells_run en (ShCell row col p a (CcOuter v0)) racc
            (elem pfx n_is [] (elem pfx n_t [] (text_ev s)) ++ rest) =
  cells_run en (ShCell row col p a (CcOuter (RString (unescape_xstring s)))) racc rest /\
  cells_run en (ShCell row col p a (CcOuter v0)) racc (elem pfx n_is [] [] ++ rest) =
  cells_run en (ShCell row col p a (CcOuter REmpty)) racc rest.
Proof.
  intros en pfx row col p a v0 s racc rest Hp. split; [apply is_elem_run; exact Hp|].
  unfold elem. cbn [app].
  rewrite (@run_cont en row col p a _ (CcIs (qn pfx n_is) (RsOuter None false))).
  2:{ cbn [XlsxSheet.cc_step]. loc. reflexivity. }
  apply run_cont. cbn [XlsxSheet.cc_step rs_step]. rewrite str_eqb_refl. reflexivity.
Qed.

End Proofs.

(* ------------------------------------------------------------------ (5) path functions *)
Lemma starts_with_app : forall p s, starts_with p (p ++ s) = true.
Proof. induction p as [|x p IH]; intros s; [reflexivity|]. cbn. rewrite N.eqb_refl. apply IH. Qed.

Theorem target_normal_form : forall part sp,
  starts_with p_xl part = false -> starts_with p_slash_xl part = false ->
  normalize_target (spell sp part) = p_xl ++ part.
Proof.
  intros part sp H1 H2. unfold normalize_target, spell. destruct sp.
  - rewrite H2, H1. reflexivity.
  - rewrite starts_with_app. reflexivity.
  - change (starts_with p_slash_xl (p_xl ++ part)) with false. cbn iota.
    rewrite starts_with_app. reflexivity.
Qed.

(* the sheet type is the one the relationship Type names — eight types, four kinds — whatever the
   part is called (folder and file name are free) *)
Theorem sheet_type_of_relationship :
  sheet_type_of_rel t_ws = Some 0 /\ sheet_type_of_rel t_ws_strict = Some 0 /\
  sheet_type_of_rel t_cs = Some 1 /\ sheet_type_of_rel t_cs_strict = Some 1 /\
  sheet_type_of_rel t_ds = Some 2 /\ sheet_type_of_rel t_ds_strict = Some 2 /\
  sheet_type_of_rel t_xlm = Some 3 /\ sheet_type_of_rel t_xlim = Some 3 /\
  (forall t, existsb (str_eqb t) sheet_rel_types = true -> exists k, sheet_type_of_rel t = Some k) /\
  (forall k path, sheet_type (Some k) path = Some k).
Proof.
  repeat (split; [reflexivity|]). split; [|reflexivity].
  intros t H. unfold sheet_rel_types in H. cbn [existsb] in H.
  repeat (apply orb_true_iff in H; destruct H as [H|H]); try discriminate;
    apply str_eqb_eq in H; subst t; eexists; reflexivity.
Qed.

(* only when the Type names no sheet kind (absent, unknown) does the reader fall back to the
   folder of the part, whatever the file is called *)
Theorem sheet_type_of_folder : forall rest,
  sheet_type_of (p_xl ++ p_worksheets ++ SLASH :: rest) = Some 0 /\
  sheet_type_of (p_xl ++ p_chartsheets ++ SLASH :: rest) = Some 1 /\
  sheet_type_of (p_xl ++ p_dialogsheets ++ SLASH :: rest) = Some 2 /\
  sheet_type_of (p_xl ++ p_macrosheets ++ SLASH :: rest) = Some 3.
Proof.
  intros rest. unfold sheet_type_of, second_segment.
  assert (G : forall folder, ~ In SLASH folder ->
            nth_error (split_on SLASH (p_xl ++ folder ++ SLASH :: rest) []) 1 = Some folder).
  { intros folder Hf.
    change (p_xl ++ folder ++ SLASH :: rest) with ([120; 108] ++ SLASH :: (folder ++ SLASH :: rest)).
    rewrite split_on_sep by (cbn; unfold SLASH; intuition discriminate).
    rewrite split_on_sep by exact Hf. reflexivity. }
  repeat split; rewrite G; try reflexivity;
    cbn; unfold SLASH; intuition discriminate.
Qed.

Lemma lower_ascii_eqb_sym : forall x y, (lower_ascii x =? lower_ascii y) = (lower_ascii y =? lower_ascii x).
Proof. intros. apply N.eqb_sym. Qed.

Lemma eic_refl : forall a, eq_ignore_ascii_case a a = true.
Proof. induction a as [|x a IH]; cbn; [reflexivity|]. rewrite N.eqb_refl. exact IH. Qed.

Lemma eic_sym : forall a b, eq_ignore_ascii_case a b = eq_ignore_ascii_case b a.
Proof.
  induction a as [|x a IH]; intros [|y b]; cbn; try reflexivity. rewrite IH, N.eqb_sym. reflexivity.
Qed.

Lemma eic_trans : forall a b c, eq_ignore_ascii_case a b = true -> eq_ignore_ascii_case b c = true ->
  eq_ignore_ascii_case a c = true.
Proof.
  induction a as [|x a IH]; intros [|y b] [|z c] H1 H2; cbn in *; try discriminate; try reflexivity.
  apply andb_true_iff in H1, H2. destruct H1 as [A1 A2]. destruct H2 as [B1 B2].
  apply N.eqb_eq in A1, B1. rewrite A1, B1, N.eqb_refl. cbn. eapply IH; eassumption.
Qed.

(* looking a part up under two spellings that differ in ASCII case only gives the same entry *)
Theorem part_lookup_case_insensitive : forall A (parts : list (str * A)) p p',
  eq_ignore_ascii_case p p' = true -> find_part parts p = find_part parts p'.
Proof.
  intros A parts p p' H. unfold find_part. induction parts as [|[n x] parts IH]; [reflexivity|].
  cbn [find fst].
  assert (E : eq_ignore_ascii_case n p = eq_ignore_ascii_case n p').
  { destruct (eq_ignore_ascii_case n p) eqn:E1; symmetry.
    - eapply eic_trans; eassumption.
    - destruct (eq_ignore_ascii_case n p') eqn:E2; [|reflexivity].
      rewrite <- E1. symmetry. eapply eic_trans; [exact E2|]. rewrite eic_sym. exact H. }
  rewrite E. destruct (eq_ignore_ascii_case n p'); [reflexivity|exact IH].
Qed.

(* every re-casing of a name is found; when no other entry matches, it is that entry *)
Theorem part_lookup_recased : forall A (parts : list (str * A)) n x p,
  In (n, x) parts -> eq_ignore_ascii_case n p = true ->
  (forall m y, In (m, y) parts -> eq_ignore_ascii_case m p = true -> (m, y) = (n, x)) ->
  find_part parts p = Some (n, x).
Proof.
  intros A parts n x p Hin He Hu. unfold find_part.
  induction parts as [|[m y] parts IH]; [contradiction|]. cbn [find fst].
  destruct (eq_ignore_ascii_case m p) eqn:E.
  - f_equal. apply Hu; [left; reflexivity | exact E].
  - apply IH.
    + destruct Hin as [Hin|Hin]; [|exact Hin]. inversion Hin; subst. congruence.
    + intros m' y' Hm He'. apply Hu; [right; exact Hm | exact He'].
Qed.

Lemma eic_map : forall (h : N -> N) s, (forall c, lower_ascii (h c) = lower_ascii c) ->
  eq_ignore_ascii_case (map h s) s = true.
Proof.
  intros h s H. induction s as [|c s IH]; [reflexivity|]. cbn. rewrite H, N.eqb_refl. exact IH.
Qed.

(* ------------------------------------------------------------------ totality after the hardening (for C06) *)
Definition total {A} (o : outcome A) : Prop := o <> Panic /\ o <> OutOfFuel.

Lemma total_bind : forall A B (o : outcome A) (f : A -> outcome B),
  total o -> (forall a, total (f a)) -> total (obind o f).
Proof.
  intros A B o f [H1 H2] Hf. destruct o; cbn [obind]; try contradiction; [apply Hf|split; discriminate].
Qed.

Lemma total_ok : forall A (a : A), total (Ok a). Proof. split; discriminate. Qed.
Lemma total_err : forall A e, total (@Err A e). Proof. split; discriminate. Qed.

(* get_row_column / get_row / get_dimension: Col26_proofs.get_row_column_total, get_row_total,
   get_dimension_total (statements of the form [total _]) *)

Lemma reader_new_total : forall evs sht d, total (reader_new_loop sht d evs).
Proof.
  induction evs as [|e evs IH]; intros sht d; [apply total_err|].
  destruct e as [n a|n|s|s|]; cbn [reader_new_loop]; try apply IH.
  destruct (is_local n_dimension n).
  - destruct (get_attribute a a_ref); [|apply total_err].
    apply total_bind; [apply get_dimension_total|]. intros d'. apply IH.
  - destruct (is_local n_sheetData n); [apply total_ok|apply IH].
Qed.

Lemma read_v_no_boom : forall pf en v a, read_v pf en v a <> Boom.
Proof.
  intros pf en v a. unfold read_v.
  repeat match goal with
         | |- context [match ?x with _ => _ end] => destruct x
         | |- context [if ?x then _ else _] => destruct x
         end; discriminate.
Qed.

Lemma rs_step_no_boom : forall closing st e, rs_step closing st e <> Boom.
Proof.
  intros closing st e. unfold rs_step.
  repeat match goal with
         | |- context [match ?x with _ => _ end] => destruct x
         | |- context [if ?x then _ else _] => destruct x
         end; discriminate.
Qed.

Lemma cc_step_no_boom : forall pf en a st e, cc_step pf en a st e <> Boom.
Proof.
  intros pf en a st e. destruct st as [v|closing rs|vn acc|fn dp]; cbn [cc_step].
  - destruct e; try discriminate;
      repeat match goal with |- context [if ?x then _ else _] => destruct x end; discriminate.
  - pose proof (rs_step_no_boom closing rs e). destruct (rs_step closing rs e); try discriminate. contradiction.
  - destruct e; try discriminate. destruct (str_eqb name vn); [|discriminate].
    pose proof (read_v_no_boom pf en acc a). destruct (read_v pf en acc a); try discriminate. contradiction.
  - destruct e; try discriminate;
      repeat match goal with |- context [if ?x then _ else _] => destruct x end; discriminate.
Qed.

Lemma lift_sh_total : forall o, total o -> lift_sh o <> SBoom.
Proof. intros o [H1 H2]. destruct o; cbn; try discriminate; contradiction. Qed.

Lemma cells_step_no_boom : forall pf en st e, cells_step pf en st e <> SBoom.
Proof.
  intros pf en st e. destruct st as [row col|row col p a cst]; cbn [cells_step].
  - destruct e as [n a|n|s|s|]; try discriminate.
    + destruct (is_local n_row n).
      * destruct (get_attribute a a_r); [|discriminate]. apply lift_sh_total.
        apply total_bind; [apply get_row_total|]. intros r. apply total_ok.
      * destruct (is_local n_c n); [|discriminate].
        destruct (get_attribute a a_r); [|discriminate]. apply lift_sh_total.
        apply total_bind; [apply get_row_column_total|]. intros r. apply total_ok.
    + destruct (is_local n_row n); [destruct (row + 1 <=? U32MAX); discriminate|].
      destruct (is_local n_sheetData n); discriminate.
  - pose proof (cc_step_no_boom pf en a cst e). destruct (cc_step pf en a cst e); try discriminate.
    + destruct (col + 1 <=? U32MAX); discriminate.
    + contradiction.
Qed.

Lemma cells_run_total : forall pf en evs st racc, total (cells_run pf en st racc evs).
Proof.
  induction evs as [|e evs IH]; intros st racc; [apply total_err|]. cbn [cells_run].
  pose proof (cells_step_no_boom pf en st e).
  destruct (cells_step pf en st e); try apply IH; try apply total_ok; try apply total_err. contradiction.
Qed.

(* worksheet_range / worksheet_range_ref never panic, whatever the events, strings, formats, header row *)
Theorem sheet_no_panic : forall pf en h evs,
  total (xlsx_range_ref pf en h evs) /\ total (xlsx_range pf en h evs).
Proof.
  intros pf en h evs.
  assert (T : total (xlsx_range_ref pf en h evs)).
  { unfold xlsx_range_ref, sheet_cells. pose proof (reader_new_total evs false dims0) as [R1 R2].
    unfold reader_new. destruct (reader_new_loop false dims0 evs) as [[d rest]|e| |]; try contradiction.
    - pose proof (cells_run_total pf en rest (ShOuter 0 0) []) as [C1 C2].
      destruct (cells_run pf en (ShOuter 0 0) [] rest); cbn [obind]; try contradiction;
        [apply total_ok|apply total_err].
    - destruct (e =? E_NOT_WORKSHEET); cbn [obind]; [apply total_ok|apply total_err]. }
  split; [exact T|]. unfold xlsx_range. apply total_bind; [exact T|]. intros r. apply total_ok.
Qed.

(* ------------------------------------------------------------------ (6) the workbook level *)
Ltac loc := repeat rewrite is_local_qn by (first [assumption | reflexivity]).
Lemma no_colon_app_colon : forall p l, no_colon (p ++ XmlText.COLON :: l) = false.
Proof.
  induction p as [|c p IH]; intros l; cbn.
  - rewrite N.eqb_refl. reflexivity.
  - rewrite IH. apply andb_false_r.
Qed.

Lemma qn_prefixed_neq : forall pfx l k, pfx <> [] -> no_colon k = true -> str_eqb (qn pfx l) k = false.
Proof.
  intros pfx l k Hp Hk. apply str_eqb_neq. intros E. unfold XmlText.qn in E.
  destruct pfx as [|c p]; [contradiction|]. rewrite <- E in Hk.
  change ((c :: p) ++ XmlText.COLON :: l) with ((c :: p) ++ XmlText.COLON :: l) in Hk.
  rewrite no_colon_app_colon in Hk. discriminate.
Qed.

Lemma rid_attr_ok : forall fixed wb, known_C01_wb_gen fixed wb = None ->
  no_colon (wb_relpfx wb) = true -> wb_relpfx wb <> [] ->
  is_rid_attr_gen fixed (qn (wb_relpfx wb) a_id) = true.
Proof.
  intros fixed wb Hk Hn Hne. unfold is_rid_attr_gen, known_C01_wb_gen in *. destruct fixed.
  - unfold has_prefix. rewrite local_name_qn by (first [assumption | reflexivity]).
    unfold XmlText.qn. destruct (wb_relpfx wb) as [|c p] eqn:E; [contradiction|].
    rewrite after_colon_app by exact Hn. reflexivity.
  - cbn [orb] in Hk.
    destruct (str_eqb (wb_relpfx wb) r_prefix) eqn:E1.
    + apply str_eqb_eq in E1. rewrite E1. reflexivity.
    + destruct (str_eqb (wb_relpfx wb) relationships_prefix) eqn:E2; [|discriminate].
      apply str_eqb_eq in E2. rewrite E2. reflexivity.
Qed.

Lemma str_distinct_nodup : forall l, str_distinct l = true -> NoDup l.
Proof.
  induction l as [|x l IH]; intros H; constructor.
  - cbn in H. apply andb_true_iff in H. destruct H as [H _]. intros Hin.
    rewrite forallb_forall in H. specialize (H _ Hin). rewrite str_eqb_refl in H. discriminate.
  - apply IH. cbn in H. apply andb_true_iff in H. tauto.
Qed.

Lemma find_fst_nodup : forall (A : Type) (l : list (str * A)) k v, NoDup (map fst l) -> In (k, v) l ->
  find (fun p => str_eqb (fst p) k) l = Some (k, v).
Proof.
  intros A. induction l as [|[k' v'] l IH]; intros k v Hn Hin; [contradiction|].
  cbn [map fst] in Hn. inversion Hn as [|? ? Hni Hn']; subst. cbn [find fst].
  destruct Hin as [Hin|Hin].
  - inversion Hin; subst. rewrite str_eqb_refl. reflexivity.
  - destruct (str_eqb k' k) eqn:E.
    + apply str_eqb_eq in E. subst k'. exfalso. apply Hni. apply in_map_iff. exists (k, v). tauto.
    + apply IH; assumption.
Qed.

(* --- read_relationships on the encoded part --- *)
Definition rel_pair (s : esheetref) : str * (str * option N) :=
  (sr_rid s, (spell (sr_spelling s) (sr_part s), sheet_type_of_rel (sr_type s))).

Lemma rels_read : forall pfx sheets acc rest, no_colon pfx = true ->
  read_relationships acc
    (flat_map (fun s => elem pfx n_Relationship [(a_Id, sr_rid s); (a_Type, sr_type s);
                                                 (a_Target, spell (sr_spelling s) (sr_part s))] [])
              sheets ++ End (qn pfx n_Relationships) :: rest) =
  Ok (rev (map rel_pair sheets) ++ acc).
Proof.
  induction sheets as [|s sheets IH]; intros acc rest Hp.
  - cbn [flat_map app read_relationships]. loc. reflexivity.
  - cbn [flat_map]. unfold elem at 1. cbn [app read_relationships]. loc.
    change (str_eqb n_Relationship n_Relationship) with true.
    change (str_eqb n_Relationship n_Relationships) with false. cbn iota.
    rewrite IH by exact Hp. cbn [map rev]. rewrite <- app_assoc.
    reflexivity.
Qed.

Lemma rels_events_read : forall wb, no_colon (wb_relspfx wb) = true ->
  read_relationships [] (rels_events wb) = Ok (rev (map rel_pair (wb_sheets wb))).
Proof.
  intros wb Hp. unfold rels_events. unfold elem at 1. cbn [read_relationships]. loc.
  change (str_eqb n_Relationships n_Relationship) with false. cbn iota.
  rewrite (@rels_read (wb_relspfx wb) (wb_sheets wb) [] [] Hp). rewrite app_nil_r. reflexivity.
Qed.

Lemma rel_get_sheet : forall sheets s, str_distinct (map sr_rid sheets) = true -> In s sheets ->
  rel_get (rev (map rel_pair sheets)) (sr_rid s) =
  Some (spell (sr_spelling s) (sr_part s), sheet_type_of_rel (sr_type s)).
Proof.
  intros sheets s Hd Hin. unfold rel_get.
  rewrite (@find_fst_nodup _ _ (sr_rid s) (spell (sr_spelling s) (sr_part s), sheet_type_of_rel (sr_type s)));
    [reflexivity| |].
  - rewrite map_rev, map_map. cbn [rel_pair fst]. apply NoDup_rev. apply str_distinct_nodup. exact Hd.
  - apply -> in_rev. apply in_map_iff. exists s. split; [reflexivity|exact Hin].
Qed.

(* --- parts --- *)
Lemma starts_with_split : forall p s, starts_with p s = true -> exists r, s = p ++ r.
Proof.
  induction p as [|x p IH]; intros s H; [exists s; reflexivity|].
  destruct s as [|y s]; [discriminate|]. cbn in H. apply andb_true_iff in H. destruct H as [H1 H2].
  apply N.eqb_eq in H1. subst y. destruct (IH _ H2) as [r E]. exists r. rewrite E. reflexivity.
Qed.

(* any part name: the Target in any of the three spellings resolves to xl/ ++ part *)
Lemma part_ok_path : forall part sp, part_ok sp part = true ->
  normalize_target (spell sp part) = p_xl ++ part.
Proof.
  intros part sp H. unfold normalize_target, spell. destruct sp.
  - cbn [part_ok] in H. apply andb_true_iff in H. destruct H as [H1 H2].
    apply negb_true_iff in H1, H2. rewrite H2, H1. reflexivity.
  - rewrite starts_with_app. reflexivity.
  - change (starts_with p_slash_xl (p_xl ++ part)) with false. cbn iota.
    rewrite starts_with_app. reflexivity.
Qed.

(* --- the attribute loop of <sheet> --- *)
Lemma sheet_attrs_extra : forall rels extra rest name path rt,
  forallb sheet_attr_ok extra = true ->
  sheet_attrs rels (extra ++ rest) name path rt = sheet_attrs rels rest name path rt.
Proof.
  induction extra as [|[k v] extra IH]; intros rest name path rt H; [reflexivity|].
  cbn [forallb] in H. apply andb_true_iff in H. destruct H as [H1 H2].
  unfold sheet_attr_ok in H1. cbn [fst snd] in H1.
  apply andb_true_iff in H1. destruct H1 as [H1 Hst]. apply andb_true_iff in H1. destruct H1 as [Hn Hr].
  apply negb_true_iff in Hn, Hr. cbn [app sheet_attrs]. rewrite Hn.
  destruct (str_eqb k a_state) eqn:Es.
  - cbn [negb orb] in Hst. rewrite Hst. apply IH. exact H2.
  - rewrite Hr. apply IH. exact H2.
Qed.

Definition name_path (s : esheetref) : str * str := (sr_name s, p_xl ++ sr_part s).

Lemma sheet_elem_read : forall wb sheets0 s,
  legal_workbook wb = true -> known_C01_wb wb = None -> In s (wb_sheets wb) ->
  sheets0 = wb_sheets wb ->
  exists k, sheet_attrs (rev (map rel_pair sheets0))
    ((a_name, sr_name s) :: sr_extra s ++ [(qn (wb_relpfx wb) a_id, sr_rid s)]) [] [] None =
  Ok (name_path s, Some k).
Proof.
  intros wb sheets0 s Hl Hk Hin E0. subst sheets0. unfold legal_workbook in Hl.
  apply andb_true_iff in Hl. destruct Hl as [Hl Hrid].
  apply andb_true_iff in Hl. destruct Hl as [Hl Hname].
  apply andb_true_iff in Hl. destruct Hl as [Hl Hsheets].
  apply andb_true_iff in Hl. destruct Hl as [Hl Hne].
  apply andb_true_iff in Hl. destruct Hl as [Hl Hrel].
  apply andb_true_iff in Hl. destruct Hl as [Hpfx Hrels].
  rewrite forallb_forall in Hsheets. specialize (Hsheets _ Hin).
  apply andb_true_iff in Hsheets. destruct Hsheets as [Hpart Hextra].
  apply andb_true_iff in Hpart. destruct Hpart as [Hpart Htype].
  assert (NE : wb_relpfx wb <> []) by (destruct (wb_relpfx wb); [discriminate|discriminate]).
  pose proof (@part_ok_path (sr_part s) (sr_spelling s) Hpart) as NT.
  destruct sheet_type_of_relationship as [_ [_ [_ [_ [_ [_ [_ [_ [TY _]]]]]]]]].
  destruct (TY _ Htype) as [k Ek]. exists k.
  cbn [sheet_attrs]. change (str_eqb a_name a_name) with true. cbn iota.
  rewrite sheet_attrs_extra by exact Hextra. cbn [sheet_attrs].
  rewrite qn_prefixed_neq by (first [exact NE | reflexivity]).
  rewrite qn_prefixed_neq by (first [exact NE | reflexivity]).
  unfold sheet_rid_attr. rewrite (@rid_attr_ok rid_fix_applied wb Hk Hrel NE).
  rewrite rel_get_sheet by assumption. rewrite NT, Ek. reflexivity.
Qed.

Lemma wb_sheets_read : forall wb rels f sheets racc rest,
  no_colon (wb_pfx wb) = true ->
  (forall s, In s sheets ->
     exists k,
     sheet_attrs rels ((a_name, sr_name s) :: sr_extra s ++ [(qn (wb_relpfx wb) a_id, sr_rid s)]) [] [] None =
     Ok (name_path s, Some k)) ->
  read_workbook rels None f racc
    (flat_map (fun s => elem (wb_pfx wb) n_sheet
                 ((a_name, sr_name s) :: sr_extra s ++ [(qn (wb_relpfx wb) a_id, sr_rid s)]) [])
              sheets ++ rest) =
  read_workbook rels None f (rev (map name_path sheets) ++ racc) rest.
Proof.
  induction sheets as [|s sheets IH]; intros racc rest Hp H; [reflexivity|].
  cbn [flat_map]. unfold elem at 1. cbn [app read_workbook]. loc.
  change (str_eqb n_sheet n_sheet) with true. cbn iota.
  destruct (H s (or_introl eq_refl)) as [k HA]. rewrite HA. unfold name_path at 1.
  cbn [sheet_type]. change (str_eqb n_sheet n_workbook) with false. cbn iota.
  rewrite IH; [|exact Hp|intros s' Hs'; apply H; right; exact Hs'].
  cbn [map rev]. rewrite <- app_assoc. reflexivity.
Qed.

Lemma workbook_events_read : forall wb,
  legal_workbook wb = true -> known_C01_wb wb = None ->
  read_workbook (rev (map rel_pair (wb_sheets wb))) None false [] (workbook_events wb) =
  Ok (map name_path (wb_sheets wb), date_flag wb).
Proof.
  intros wb Hl Hk. pose proof Hl as Hl0. unfold legal_workbook in Hl.
  repeat (apply andb_true_iff in Hl; destruct Hl as [Hl ?]). rename Hl into Hp.
  unfold workbook_events. unfold elem at 1 2 3. cbn [app read_workbook]. loc.
  change (str_eqb n_workbook n_sheet) with false. change (str_eqb n_workbook n_workbookPr) with false.
  change (str_eqb n_workbook n_definedName) with false. cbn iota.
  assert (P : forall rest,
    read_workbook (rev (map rel_pair (wb_sheets wb))) None false []
      (match wb_date1904 wb with
       | Some v => Start (qn (wb_pfx wb) n_workbookPr) [(a_date1904, v)] :: [] ++ [End (qn (wb_pfx wb) n_workbookPr)]
       | None => []
       end ++ rest) =
    read_workbook (rev (map rel_pair (wb_sheets wb))) None (date_flag wb) [] rest).
  { intros rest. unfold date_flag. destruct (wb_date1904 wb) as [v|]; [|reflexivity].
    cbn [app read_workbook]. loc.
    change (str_eqb n_workbookPr n_sheet) with false. change (str_eqb n_workbookPr n_workbookPr) with true.
    change (str_eqb n_workbookPr n_workbook) with false. cbn iota.
    cbn [XmlText.get_attribute]. change (str_eqb a_date1904 a_date1904) with true. reflexivity. }
  rewrite <- app_assoc. rewrite P. cbn [app read_workbook]. loc.
  change (str_eqb n_sheets n_sheet) with false. change (str_eqb n_sheets n_workbookPr) with false.
  change (str_eqb n_sheets n_definedName) with false. cbn iota.
  rewrite <- app_assoc. rewrite wb_sheets_read; [|exact Hp|].
  2:{ intros s Hs. apply sheet_elem_read; auto. }
  cbn [app read_workbook]. loc.
  change (str_eqb n_sheets n_workbook) with false. change (str_eqb n_workbook n_workbook) with true.
  cbn iota. rewrite app_nil_r, rev_involutive. reflexivity.
Qed.

(* --- part lookup in a package whose names are distinct up to ASCII case --- *)
Lemma find_part_distinct : forall A (pk : list (str * A)) n x p,
  eic_distinct (map fst pk) = true -> In (n, x) pk -> eq_ignore_ascii_case n p = true ->
  find_part pk p = Some (n, x).
Proof.
  unfold find_part. induction pk as [|[m y] pk IH]; intros n x p Hd Hin He; [contradiction|].
  cbn [map fst eic_distinct] in Hd. apply andb_true_iff in Hd. destruct Hd as [Hm Hd].
  cbn [find fst]. destruct Hin as [Hin|Hin].
  - inversion Hin; subst. rewrite He. reflexivity.
  - destruct (eq_ignore_ascii_case m p) eqn:E.
    + exfalso. rewrite forallb_forall in Hm.
      assert (Hn : In n (map fst pk)) by (apply in_map_iff; exists (n, x); tauto).
      specialize (Hm _ Hn). apply negb_true_iff in Hm.
      rewrite (eic_trans m p n E) in Hm; [discriminate|]. rewrite eic_sym. exact He.
    + apply IH; assumption.
Qed.

Lemma reader_new_other : forall evs sht d, forallb pre_ok evs = true ->
  reader_new_loop sht d evs = Err (if sht || existsb is_start evs then E_NOT_WORKSHEET else E_EOF).
Proof.
  induction evs as [|e evs IH]; intros sht d H.
  - cbn. rewrite orb_false_r. reflexivity.
  - cbn [forallb] in H. apply andb_true_iff in H. destruct H as [H1 H2].
    destruct e as [n a|n|s|s|]; cbn [reader_new_loop existsb is_start].
    + cbn in H1. apply andb_true_iff in H1. destruct H1 as [Ha Hb]. apply negb_true_iff in Ha, Hb.
      rewrite Ha, Hb. rewrite IH by exact H2. cbn [orb]. rewrite orb_true_r. reflexivity.
    + rewrite IH by exact H2. reflexivity.
    + rewrite IH by exact H2. reflexivity.
    + rewrite IH by exact H2. reflexivity.
    + rewrite IH by exact H2. reflexivity.
Qed.

Lemma content_model : forall parse_f64 en c, legal_content parse_f64 en c = true ->
  xlsx_sheet_model parse_f64 en (content_events c) = sheet_spec parse_f64 en c.
Proof.
  intros parse_f64 en c H. destruct c as [sh|evs]; cbn [legal_content content_events sheet_spec] in *.
  - apply sheet_model_eq. exact H.
  - apply andb_true_iff in H. destruct H as [H1 H2].
    unfold xlsx_sheet_model, xlsx_range, xlsx_range_ref, sheet_cells, reader_new.
    rewrite reader_new_other by exact H1. rewrite H2. cbn [orb].
    change (E_NOT_WORKSHEET =? E_NOT_WORKSHEET) with true. reflexivity.
Qed.

Lemma find_name_distinct : forall sheets s, str_distinct (map sr_name sheets) = true -> In s sheets ->
  find (fun p : str * str => str_eqb (fst p) (sr_name s)) (map name_path sheets) = Some (name_path s).
Proof.
  intros sheets s Hd Hin. unfold name_path at 2.
  apply find_fst_nodup.
  - rewrite map_map. cbn [name_path fst]. apply str_distinct_nodup. exact Hd.
  - apply in_map_iff. exists s. split; [reflexivity|exact Hin].
Qed.

Theorem xlsx_workbook_main : forall parse_f64 strings formats wb pk,
  legal_workbook wb = true -> known_C01_wb wb = None ->
  package_holds parse_f64 strings formats wb pk ->
  let en := mkEnv strings formats (date_flag wb) in
  let sheets := map name_path (wb_sheets wb) in
  open_sheets pk = Ok (sheets, date_flag wb) /\
  (forall s, In s (wb_sheets wb) ->
     workbook_range parse_f64 strings formats pk sheets (date_flag wb) (sr_name s) =
     sheet_spec parse_f64 en (sr_content s)) /\
  workbook_ranges parse_f64 strings formats pk =
    Ok (map (fun s => (sr_name s, sheet_spec parse_f64 en (sr_content s))) (wb_sheets wb)).
Proof.
  intros parse_f64 strings formats wb pk Hl Hk [Hd [[nr [Hr1 Hr2]] [[nw [Hw1 Hw2]] Hs]]] en sheets.
  pose proof Hl as Hl0. unfold legal_workbook in Hl.
  repeat (apply andb_true_iff in Hl; destruct Hl as [Hl ?]).
  assert (OS : open_sheets pk = Ok (sheets, date_flag wb)).
  { unfold open_sheets.
    rewrite (@find_part_distinct _ pk nr (rels_events wb) p_workbook_rels Hd Hr1 Hr2).
    rewrite rels_events_read by assumption. cbn [obind].
    rewrite (@find_part_distinct _ pk nw (workbook_events wb) p_workbook_xml Hd Hw1 Hw2).
    apply workbook_events_read; assumption. }
  assert (WR : forall s, In s (wb_sheets wb) ->
     workbook_range parse_f64 strings formats pk sheets (date_flag wb) (sr_name s) =
     sheet_spec parse_f64 en (sr_content s)).
  { intros s Hin. unfold workbook_range, sheets.
    rewrite find_name_distinct by assumption. unfold name_path at 1.
    destruct (Hs s Hin) as [n [Hn1 [Hn2 Hn3]]].
    rewrite (@find_part_distinct _ pk n _ (p_xl ++ sr_part s) Hd Hn1 Hn2).
    apply content_model. exact Hn3. }
  split; [exact OS|]. split; [exact WR|].
  unfold workbook_ranges. rewrite OS. cbn [obind fst snd]. f_equal. unfold sheets.
  rewrite map_map. apply map_ext_in. intros s Hin. cbn [name_path fst]. f_equal. apply WR. exact Hin.
Qed.

(* worksheets(): every sheet in workbook order; the worksheets with the range their part denotes,
   the other kinds of sheet with the empty range *)
Theorem xlsx_worksheets_main : forall parse_f64 strings formats wb pk,
  legal_workbook wb = true -> known_C01_wb wb = None ->
  package_holds parse_f64 strings formats wb pk ->
  let en := mkEnv strings formats (date_flag wb) in
  exists l, worksheets_model parse_f64 strings formats pk = Ok l /\
    map fst l = map sr_name (wb_sheets wb) /\
    Forall2 (fun nr s => sheet_spec parse_f64 en (sr_content s) = Ok (snd nr)) l (wb_sheets wb).
Proof.
  intros parse_f64 strings formats wb pk Hl Hk Hp en.
  destruct (@xlsx_workbook_main parse_f64 strings formats wb pk Hl Hk Hp) as [_ [_ WR]].
  unfold worksheets_model. rewrite WR. cbn [obind].
  destruct Hp as [_ [_ [_ Hs]]].
  assert (G : forall sl, (forall s, In s sl -> In s (wb_sheets wb)) ->
    exists l,
      flat_map (fun nr : str * outcome (range xdata) =>
                  match snd nr with Ok r => [(fst nr, r)] | _ => [] end)
               (map (fun s => (sr_name s, sheet_spec parse_f64 en (sr_content s))) sl) = l /\
      map fst l = map sr_name sl /\
      Forall2 (fun nr s => sheet_spec parse_f64 en (sr_content s) = Ok (snd nr)) l sl).
  { induction sl as [|s sl IH]; intros Hsub.
    - exists []. repeat split. constructor.
    - destruct IH as [l [E1 [E2 E3]]]; [intros s' Hs'; apply Hsub; right; exact Hs'|].
      destruct (Hs s (Hsub s (or_introl eq_refl))) as [n [_ [_ Hc]]].
      assert (OKR : exists r, sheet_spec parse_f64 en (sr_content s) = Ok r).
      { destruct (sr_content s) as [sh|evs]; cbn [sheet_spec]; eexists; reflexivity. }
      destruct OKR as [r R]. exists ((sr_name s, r) :: l). cbn [map flat_map fst snd]. rewrite R.
      cbn [app]. rewrite E1. split; [reflexivity|]. split; [cbn [map fst]; rewrite E2; reflexivity|].
      constructor; [exact R|exact E3]. }
  destruct (G (wb_sheets wb) (fun s H => H)) as [l [E1 [E2 E3]]].
  exists l. split; [f_equal; exact E1|]. split; assumption.
Qed.

(* ------------------------------------------------------------------ witnesses *)
Module Wit.
Import Coq.Strings.String.
Definition ascii (s : string) : str := XL.s2l s.
Arguments ascii _%string_scope.

(* a toy oracle for the non-vacuity examples: digit strings only, "bits" = the number itself *)
Definition toy_parse (s : str) : option N :=
  match s with [] => None | _ => if forallb is_digit s then Some (undec s) else None end.

Definition wit_env : env := mkEnv [ascii "zero"; ascii "one"] [NumFmt.Other; NumFmt.DateTime] false.

Definition cellN (col : N) (ex : bool) (v : lvalue) (sf : strform) (st : option N) : ecell :=
  mkCell col ex false st v sf false false None [] [] [].

(* rows 3 (explicit), 4 (implicit), 9 (explicit); implicit cells after explicit ones; a prefix;
   a wrong dimension; ignorable elements and white space everywhere; a style-only cell; an empty row *)
Definition wit_sheet : esheet :=
  let x := ascii "x" in
  mkSheet x (DimArea (0, 0) (1, 1))
    [Other; Start (qn x n_worksheet) [(ascii "xmlns:x", ascii "urn:main")];
     Start (qn x (ascii "sheetPr")) []; End (qn x (ascii "sheetPr"))]
    [Text (ascii " "); Start (qn x (ascii "cols")) []; Start (qn x (ascii "col")) [];
     End (qn x (ascii "col")); End (qn x (ascii "cols"))]
    [Text [10]]
    [mkRow 2 true [(ascii "spans", ascii "1:3")] [Text [10]]
       [cellN 25 true (LNumber (ascii "42")) SfInline None;
        cellN 26 false (LString (ascii "one")) (SfShared 1) None;
        mkCell 27 false false (Some 1) (LNumber (ascii "7")) SfInline true false (Some (ascii "1+6")) [] [Text [32]] [Other];
        cellN 701 true (LString (ascii "in")) SfInline None;
        mkCell 702 false false None (LBool true) SfInline false true None [] [] []] [Text [10]];
     mkRow 3 false [] []
       [cellN 0 false (LError 1) SfInline None;
        mkCell 1 false false (Some 1) LBlank SfInline false true None [] [] [];
        cellN 2 false (LString (ascii "f")) SfStr None] [];
     mkRow 5 true [] [] [] [];
     mkRow 8 true [] []
       [mkCell 730 true true None (LIso (ascii "2021-01-01")) SfInline false false None [] [] [];
        cellN 731 false (LError 7) SfInline None] []]
    [Start (qn x (ascii "mergeCells")) []; End (qn x (ascii "mergeCells")); End (qn x n_worksheet)].

(* class 2 (F30): the same workbook opens with r:id and fails with rel:id *)
Definition wit_wb (relpfx : str) : eworkbook :=
  mkWorkbook [] relpfx []
    [mkSheetRef (ascii "First") (ascii "rId1") (ascii "worksheets/sheet1.xml") t_ws SpRelative [(a_sheetId, ascii "1")]
                (SWork wit_sheet);
     mkSheetRef (ascii "Second") (ascii "rId2") (ascii "chartsheets/sheet2.xml") t_cs SpAbsolute
                [(a_state, v_hidden)] (SOther [Start (ascii "chartsheet") []; End (ascii "chartsheet")]);
     mkSheetRef (ascii "Third") (ascii "rId3") (ascii "worksheets/sheet3.xml") t_ws SpXl [] (SWork wit_sheet)]
    (Some (ascii "1")).
Definition wit_package (wb : eworkbook) : package :=
  [(ascii "XL/_rels/Workbook.xml.RELS", rels_events wb); (ascii "xl/WORKBOOK.xml", workbook_events wb)].

(* holds as long as the model describes the unfixed tree; vacuous once rid_fix_applied is flipped *)
Theorem refuted_rel_prefix : rid_fix_applied = false ->
  known_C01_wb (wit_wb (ascii "r")) = None /\
  open_sheets (wit_package (wit_wb (ascii "r"))) =
    Ok ([(ascii "First", ascii "xl/worksheets/sheet1.xml");
         (ascii "Second", ascii "xl/chartsheets/sheet2.xml");
         (ascii "Third", ascii "xl/worksheets/sheet3.xml")], true) /\
  known_C01_wb (wit_wb (ascii "rel")) = Some 2 /\
  open_sheets (wit_package (wit_wb (ascii "rel"))) = Err E_UNRECOGNIZED.
Proof. unfold rid_fix_applied. intros H. first [discriminate H | (vm_compute; repeat split)]. Qed.

Example wit_sheet_legal :
  legal_sheet toy_parse wit_env wit_sheet = true /\
  map fst (logical wit_sheet) =
    [(2, 25); (2, 26); (2, 27); (2, 701); (2, 702); (3, 0); (3, 1); (3, 2); (8, 730); (8, 731)] /\
  (exists r, xlsx_sheet_model toy_parse wit_env (encode wit_sheet) = Ok r /\
             start r = Some (2, 0) /\ end_ r = Some (8, 731) /\
             get_value r (2, 25) = Some (DFloat 42) /\
             get_value r (2, 26) = Some (DString (ascii "one")) /\
             get_value r (2, 27) = Some (DDateTime 7 false false) /\
             get_value r (2, 702) = Some (DBool true) /\
             get_value r (3, 0) = Some (DError 1) /\
             get_value r (3, 1) = Some DEmpty /\
             get_value r (8, 730) = Some (DDateTimeIso (ascii "2021-01-01")) /\
             get_value r (8, 731) = Some (DError 7)).
Proof.
  split; [vm_compute; reflexivity|].
  split; [vm_compute; reflexivity|].
  eexists. split; [vm_compute; reflexivity|]. vm_compute. repeat split.
Qed.

(* a complete package for the three-sheet workbook: re-cased part names, shuffled order, extras;
   no sheet part is where convention would put it: a worksheet directly under xl/, the chart sheet
   under xl/ws/, a (strict-typed) worksheet under xl/chartsheets/ *)
Definition wit_chart : list event := [Start (ascii "chartsheet") []; End (ascii "chartsheet")].
Definition wit_package_full (wb : eworkbook) : package :=
  [(ascii "docProps/app.xml", []);
   (ascii "xl/chartsheets/sheet3.XML", encode wit_sheet);
   (ascii "XL/_rels/Workbook.xml.RELS", rels_events wb);
   (ascii "XL/Ws/A.xml", wit_chart);
   (ascii "xl/WORKBOOK.xml", workbook_events wb);
   (ascii "xl/sharedStrings.xml", [Other]);
   (ascii "Xl/SHEET1.xml", encode wit_sheet)].
Definition wit_wb_r : eworkbook :=
  mkWorkbook (ascii "x") (ascii "r") []
    [mkSheetRef (ascii "First") (ascii "rId1") (ascii "sheet1.xml") t_ws SpRelative [(a_sheetId, ascii "1")]
                (SWork wit_sheet);
     mkSheetRef (ascii "Second") (ascii "rId2") (ascii "ws/a.xml") t_cs SpAbsolute
                [(a_state, v_hidden)] (SOther wit_chart);
     mkSheetRef (ascii "Third") (ascii "rId3") (ascii "chartsheets/sheet3.xml") t_ws_strict SpXl [] (SWork wit_sheet)]
    (Some (ascii "1")).

Example wit_workbook_legal :
  legal_workbook wit_wb_r = true /\ known_C01_wb wit_wb_r = None /\
  package_holds toy_parse (e_strings wit_env) (e_formats wit_env) wit_wb_r (wit_package_full wit_wb_r).
Proof.
  split; [vm_compute; reflexivity|]. split; [vm_compute; reflexivity|].
  unfold package_holds. split; [vm_compute; reflexivity|]. split; [|split].
  - exists (ascii "XL/_rels/Workbook.xml.RELS"). split; [cbn; auto|vm_compute; reflexivity].
  - exists (ascii "xl/WORKBOOK.xml"). split; [cbn; auto 6|vm_compute; reflexivity].
  - intros s Hs. cbn [wit_wb_r wb_sheets] in Hs. destruct Hs as [E|[E|[E|[]]]]; subst s; cbn [sr_content sr_part content_events].
    + exists (ascii "Xl/SHEET1.xml"). split; [cbn; auto 10|]. split; vm_compute; reflexivity.
    + exists (ascii "XL/Ws/A.xml"). split; [cbn; auto 10|]. split; vm_compute; reflexivity.
    + exists (ascii "xl/chartsheets/sheet3.XML"). split; [cbn; auto 10|]. split; vm_compute; reflexivity.
Qed.
End Wit.
Export Wit.
