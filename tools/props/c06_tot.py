"""C06, totality correspondence: the hardened copies of Totality.v (decompress_h, get_chain_h, get_rc_h)
against the real hardened functions (cfb::decompress_stream, Sectors::get_chain through the get_chain
hook, xlsx get_row_and_optional_column) on arbitrary — mostly malformed — inputs.  The answers must be
textually equal: ok:<payload> on both sides, or err on both sides; `panic` on the implementation side
is a violation of the property as well as a broken tie."""
import itertools, struct, mutate

def gen_decompress(ctx, n):
    rng = ctx.rng
    out = []
    alpha = [0x00, 0x01, 0x02, 0x30, 0x3F, 0xB0, 0xBF, 0xFF]
    for l in range(0, 4):                       # every short string over the interesting bytes
        for t in itertools.product(alpha, repeat=l):
            out.append(bytes(t))
    for kind, c in mutate.container_faults(mutate.ovba_compress(b"Attribute VB_Name = \"Module1\"\r\n" * 3)):
        out.append(c)
    for _ in range(n):
        k = rng.random()
        ln = rng.choice([0, 1, 5, 17, 100, 4096, 4097, 5000]) if k < 0.5 else rng.randrange(0, 300)
        data = bytes(rng.choice([65, 66, 67, rng.randrange(256)]) for _ in range(ln))
        c = bytearray(mutate.ovba_compress(data))
        if k < 0.25:
            # a hand-made token chunk: literals and copy tokens with arbitrary fields
            body = bytearray()
            for _ in range(rng.randrange(1, 6)):
                fb = rng.randrange(256)
                body.append(fb)
                for bit in range(8):
                    if (fb >> bit) & 1:
                        body += struct.pack("<H", rng.choice([0, 1, 0x0FFF, 0x1000, 0xF000, 0xFFFF, rng.randrange(65536)]))
                    else:
                        body.append(rng.randrange(256))
            hdr = rng.choice([0xB000 | min(0xFFF, max(0, len(body) - 1)), 0xB000 | rng.randrange(0x1000), 0xBFFF, 0xB000])
            c = bytearray(b"\x01" + struct.pack("<H", hdr) + body)
        for _ in range(rng.choice([0, 1, 1, 2, 4])):
            if not c:
                break
            m = rng.random()
            if m < 0.3:
                del c[rng.randrange(len(c)):]
            elif m < 0.7:
                c[rng.randrange(len(c))] = rng.choice([0, 1, 0x30, 0xB0, 0xFF, rng.randrange(256)])
            else:
                j = rng.randrange(len(c))
                c[j:j + 2] = struct.pack("<H", rng.choice([0, 0x3000, 0xB000, 0xBFFF, 0xFFFF, rng.randrange(65536)]))
        out.append(bytes(c))
    return out

def gen_rc(ctx, n):
    rng = ctx.rng
    out = [b"", b"A", b"1", b"A1", b"a1", b"A0", b"1A", b"$A$1", b"A1:B2", b"XFD1048576", b"A4294967295", b"A4294967296",
           b"A4294967297", b"A00000000001", b"A18446744073709551616", b"A99999999999999999999999", b"FXSHRXW1", b"FXSHRXX1",
           b"ZZZZZZZZZZZZZZZZ1", b"zzzzzzz99999999999", b"\xff1", b"A\x001", b" A1", b"A1 "]
    alpha = b"AZaz09MN15$: \x00\xff@[`{/"
    for _ in range(n):
        k = rng.random()
        if k < 0.4:
            s = bytes(rng.choice(b"ABCXYZabcxyz") for _ in range(rng.randrange(0, 16))) + \
                bytes(rng.choice(b"0123456789") for _ in range(rng.randrange(0, 26)))
        elif k < 0.7:
            s = bytes(rng.choice(alpha) for _ in range(rng.randrange(0, 12)))
        else:
            s = bytes(rng.randrange(256) for _ in range(rng.randrange(0, 8)))
        out.append(s)
    return out

def gen_chain(ctx, n):
    rng = ctx.rng
    EOC = 0xFFFFFFFE
    out = [("", 4, [], 0, 0), ("", 4, [], EOC, 0), ("01020304", 4, [0], 0, 0), ("0102030405060708", 4, [1, 0], 0, 5),
           ("0102030405060708", 4, [1, EOC], 0, 0), ("0102030405060708", 4, [1, EOC], 0, 3), ("01020304", 4, [5], 0, 0),
           ("01020304", 4, [EOC], 7, 0), ("0102030405", 4, [1, EOC], 0, 0), ("01020304", 4, [1, EOC], 0, 0)]
    for _ in range(n):
        size = rng.choice([1, 2, 4, 8, 64])
        nsec = rng.randrange(0, 8)
        body = bytes(rng.randrange(256) for _ in range(max(0, nsec * size + rng.choice([0, 0, 0, -1, 1, size // 2]))))
        nf = rng.randrange(0, 9)
        fats = [rng.choice([EOC, EOC, 0xFFFFFFFF, 0xFFFFFFFD, rng.randrange(0, nf + 2), rng.randrange(0, nf + 2), i + 1, i])
                for i in range(nf)]
        start = rng.choice([0, 0, 1, EOC, rng.randrange(0, nf + 3), 0xFFFFFFFF])
        ln = rng.choice([0, 0, 1, size, size + 1, nsec * size, 10 ** 6, 0xFFFFFFFF])
        out.append((body.hex(), size, fats, start, ln))
    return out

def run(ctx):
    lines, meta = [], {}
    def add(prefix, i, args, what):
        lid = "%s%d" % (prefix, i)
        lines.append("\t".join([lid, "tot"] + args))
        meta[lid] = what
    for i, c in enumerate(gen_decompress(ctx, ctx.scale(1500, 20000))):
        add("td", i, ["decompress"] + ([c.hex()] if c else []), ("decompress_stream", c.hex()))
    for i, s in enumerate(gen_rc(ctx, ctx.scale(1500, 20000))):
        add("tr", i, ["rc"] + ([s.hex()] if s else []), ("get_row_and_optional_column", s.hex()))
    for i, (b, size, fats, start, ln) in enumerate(gen_chain(ctx, ctx.scale(1500, 20000))):
        add("tc", i, ["chain", b or "-", str(size), ",".join(map(str, fats)) or "-", str(start), str(ln)],
            ("get_chain", "%s size=%d fats=%s start=%d len=%d" % (b, size, fats, start, ln)))
    impl, model = ctx.run_both(lines)
    nohook = 0
    for l in lines:
        lid = l.split("\t", 1)[0]
        a, m = impl.get(lid), model.get(lid)
        fn, arg = meta[lid]
        ctx.traces += 1
        if a == "no-hook":
            nohook += 1
            continue
        ctx.count("tot:%s:%s" % (fn, (a or "none").split(":")[0]))
        if a == m and a is not None:
            if a != "err":
                ctx.nontrivial(lid + a[:40])
            continue
        ctx.disagreements.append({"function": "tot:" + fn, "case": l, "impl": a, "model": m})
        if a is None or str(a).startswith(("panic", "alloc", "timeout", "abort")):
            ctx.violations.append({"case": l, "expected": "Ok or Err (model: %s)" % str(m)[:80], "actual": str(a)[:200],
                                   "model": str(m)[:200], "what": "%s on %s" % (fn, arg[:120])})
    if nohook:
        ctx.notes.append("get_chain hook absent in this tree: %d chain cases skipped" % nohook)
    ctx.sample({"totality_cases": len(lines), "example": lines[5] if len(lines) > 5 else ""})
