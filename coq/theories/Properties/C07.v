(* Property C07 — read calls are pure and the alternative access paths agree.
   Model: Reader.v (state machine over call histories; the per-format file semantics [sem] is a
   parameter, instantiated by the sheet models of the other properties).  Partial by nature: the
   runtime state that could break purity (the zip archive's cursor and caches) is not in the
   model; it is exercised by the metamorphic correspondence run only. *)
From Calamine Require Import Prelude Range Range_spec HeaderRow Reader Reader_proofs ReaderCache ReaderCache_proofs.
Open Scope N_scope.

Theorem C07_history_pure :
  forall (Name Result : Type) (sem : header_row -> call Name -> Result)
         (ops : list (op Name)) (c : call Name),
    snd (run sem init (ops ++ [OCall c])) =
    snd (run sem init ops) ++ [Some (sem (header_in_force FirstNonEmptyRow ops) c)].
Proof. exact history_pure. Qed.

Theorem C07_same_option_same_result :
  forall (Name Result : Type) (sem : header_row -> call Name -> Result)
         (ops1 ops2 : list (op Name)) (c : call Name),
    header_in_force FirstNonEmptyRow ops1 = header_in_force FirstNonEmptyRow ops2 ->
    last (snd (run sem init (ops1 ++ [OCall c]))) None =
    last (snd (run sem init (ops2 ++ [OCall c]))) None.
Proof. exact same_option_same_result. Qed.

Theorem C07_calls_keep_option :
  forall (Name : Type) (cs : list (call Name)) (h : header_row),
    header_in_force h (map (@OCall Name) cs) = h.
Proof. exact calls_keep_option. Qed.

Theorem C07_option_reversible :
  forall (Name : Type) (ops mid : list (op Name)) (h h' : header_row),
    header_in_force FirstNonEmptyRow (ops ++ [OSetHeader h] ++ mid ++ [OSetHeader h']) = h'.
Proof. exact option_reversible. Qed.

(* worksheet_range is worksheet_range_ref converted cell by cell *)
Theorem C07_owned_is_ref_mapped :
  forall (A B : Type) (f : A -> B) (r : range A),
    rect (map_range f r) = rect r /\
    (forall q, get_value (map_range f r) q = option_map f (get_value r q)) /\
    rows (map_range f r) = map (map f) (rows r) /\
    (Wf r -> Wf (map_range f r)).
Proof.
  intros A B f r. split; [apply map_range_rect|]. split; [apply map_range_get_value|].
  split; [apply map_range_rows|apply map_range_wf].
Qed.

Theorem C07_range_at_is_nth_name :
  forall (Name R : Type) (names : list Name) (g : Name -> R) (n : nat),
    (forall name, nth_error names n = Some name -> range_at names g n = Some (g name)) /\
    ((length names <= n)%nat -> range_at names g n = None).
Proof.
  intros Name R names g n. split.
  - intros name H. apply range_at_is_nth_name; exact H.
  - apply range_at_out_of_range.
Qed.

Theorem C07_unknown_name_is_error :
  forall (Name S : Type) (eqb : Name -> Name -> bool) (sheets : list (Name * S)) (n : Name),
    ((forall m s, In (m, s) sheets -> eqb m n = false) -> find_sheet eqb sheets n = None) /\
    (forall s, find_sheet eqb sheets n = Some s -> exists m, In (m, s) sheets /\ eqb m n = true).
Proof.
  intros Name S eqb sheets n. split.
  - apply unknown_name_is_none.
  - intros s. apply known_name_is_that_sheet.
Qed.

(* non-vacuity: a concrete interleaved history *)
Example C07_history_nonvacuous :
  let sem := fun (h : header_row) (c : call N) =>
    match h, c with HRow n, CRange m => n + m | _, CRange m => m | _, _ => 0 end in
  snd (run sem init [OCall (CRange 5); OSetHeader (HRow 10); OCall (CFormula 1); OCall (CRange 5);
                     OSetHeader FirstNonEmptyRow; OCall (CRange 5)])
  = [Some 5; None; Some 0; Some 15; None; Some 5].
Proof. reflexivity. Qed.

(* ---- the xlsx reader's lazily filled caches (merged regions, tables) as reader state ---- *)

(* The answer of a call made after ANY history is the specified one (kspec): a cache-free call
   answers as the file does under the header-row option in force; a cache-reading call answers
   with the FILE's table — never with anything an earlier call left behind — once a load call
   was made, and panics (the documented .expect) otherwise; a load call succeeds exactly when the
   file's part is readable. *)
Theorem C07_cache_history_pure :
  forall (Name Call MR TB Result : Type) (file_merged : option MR) (file_tables : option TB)
         (sem : header_row -> Call -> Result) (ops : list (kop Name Call)) (o : kop Name Call),
    snd (krun file_merged file_tables sem (kinit MR TB) (ops ++ [o])) =
    snd (krun file_merged file_tables sem (kinit MR TB) ops) ++ [kspec file_merged file_tables sem ops o].
Proof. exact cache_history_pure. Qed.

Theorem C07_cache_holds_file_table :
  forall (Name Call MR TB Result : Type) (file_merged : option MR) (file_tables : option TB)
         (sem : header_row -> Call -> Result) (ops : list (kop Name Call)),
    let s := fst (krun file_merged file_tables sem (kinit MR TB) ops) in
    (k_merged s = None \/ k_merged s = file_merged) /\
    (k_tables s = None \/ k_tables s = file_tables).
Proof. exact cache_holds_file_table. Qed.

Theorem C07_only_loads_fill :
  forall (Name Call MR TB Result : Type) (file_merged : option MR) (file_tables : option TB)
         (sem : header_row -> Call -> Result) (ops : list (kop Name Call)) (o : kop Name Call),
    is_load_merged o = false ->
    k_merged (fst (krun file_merged file_tables sem (kinit MR TB) (ops ++ [o]))) =
    k_merged (fst (krun file_merged file_tables sem (kinit MR TB) ops)).
Proof. exact only_loads_fill. Qed.

(* non-vacuity: a per-sheet read between two bulk reads changes nothing; an unloaded cache panics *)
Example C07_cache_nonvacuous :
  let sem := fun (h : header_row) (c : N) => match h with HRow n => n + c | _ => c end in
  snd (krun (Some [7; 8]) (@None (list N)) sem (kinit (list N) (list N))
         [KMergedAll; KOther 3; KLoadMerged; KOther 4; KMergedBy (5 : N); KSetHeader (HRow 10);
          KLoadTables; KTableNames; KOther 1; KLoadMerged; KMergedAll])
  = [APanic; AResult 3; ALoaded true; AResult 4; AMergedBy [7; 8] 5; ANone;
     ALoaded false; APanic; AResult 11; ALoaded true; AMerged [7; 8]].
Proof. reflexivity. Qed.

Check C07_history_pure :
  forall (Name Result : Type) (sem : header_row -> call Name -> Result)
         (ops : list (op Name)) (c : call Name),
    snd (run sem init (ops ++ [OCall c])) =
    snd (run sem init ops) ++ [Some (sem (header_in_force FirstNonEmptyRow ops) c)].

Print Assumptions C07_history_pure.
Print Assumptions C07_same_option_same_result.
Print Assumptions C07_calls_keep_option.
Print Assumptions C07_option_reversible.
Print Assumptions C07_owned_is_ref_mapped.
Print Assumptions C07_range_at_is_nth_name.
Print Assumptions C07_unknown_name_is_error.
Print Assumptions C07_cache_history_pure.
Print Assumptions C07_cache_holds_file_table.
Print Assumptions C07_only_loads_fill.
