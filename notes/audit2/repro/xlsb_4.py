# xlsb_4: C03 — the "short" cell records BrtShortBlank 0x0C, BrtShortRk 0x0D, BrtShortError 0x0E, BrtShortBool 0x0F,
# BrtShortReal 0x10, BrtShortSt 0x11, BrtShortIsst 0x12 ([MS-XLSB] record numbers 12..18, between BrtFmlaError 11
# and BrtSSTItem 19): a cell WITHOUT the column field — its column is 1 + the column of the preceding cell of
# the row; body = iStyleRef (24 bits) + flags (8 bits) + the value.  SheetJS (npm xlsx >= 0.18) writes them for
# every cell that directly follows another cell in its row when it writes bookType 'xlsb'.
# (Record numbers / layout from memory of [MS-XLSB] and SheetJS' parse_XLSBShortCell; no copy available offline.)
import struct, sys
sys.path.insert(0, '/tmp/ag/audit2/repro')
from xlsb_common import *

def short(style=0, fl=0): return struct.pack('<I', (style & 0xFFFFFF) | (fl << 24))
sst = rec(0x009F, struct.pack('<II', 1, 1)) + rec(0x0013, b'\0' + wide('shared')) + rec(0x00A0)
body = (rowhdr(0) +
        rec(0x0005, cell(0) + struct.pack('<d', 1.5)) +          # A1 = 1.5   (BrtCellReal, col 0)
        rec(0x0010, short() + struct.pack('<d', 2.5)) +          # B1 = 2.5   (BrtShortReal)
        rec(0x000D, short() + struct.pack('<I', (3 << 2) | 2)) + # C1 = 3     (BrtShortRk)
        rec(0x0012, short() + struct.pack('<I', 0)) +            # D1 = "shared" (BrtShortIsst)
        rec(0x0011, short() + wide('inline')) +                  # E1 = "inline" (BrtShortSt)
        rec(0x000F, short() + b'\x01') +                         # F1 = TRUE  (BrtShortBool)
        rec(0x000E, short() + b'\x07') +                         # G1 = #DIV/0! (BrtShortError)
        rec(0x000C, short()) +                                   # H1 blank
        rec(0x0010, short() + struct.pack('<d', 9.0)))           # I1 = 9
p = OUT + '/xlsb_4_short_cells.xlsb'
package(p, [('Sheet1', sheet(body, (0, 0, 0, 8)))], sst=sst)
print(pretty(run(p, ['range ' + hx('Sheet1')])))
