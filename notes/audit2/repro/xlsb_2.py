# xlsb_2: C16 / C14 — a defined name whose formula uses a name stored AFTER it.
# Excel keeps the BrtName records sorted by name (see tests/issue_182.xlsb: _xlfn.CONCAT, MyBrokenRange,
# MyDataTypes, OneRange), so "Alpha = Beta*2" necessarily refers forward (PtgName index 2 inside record 1).
import struct, sys
sys.path.insert(0, '/tmp/ag/audit2/repro')
from xlsb_common import *

def ptgname(i): return b'\x23' + struct.pack('<I', i)
alpha = ptgname(2) + b'\x1e\x02\x00' + b'\x05'            # Beta*2
beta = b'\x1e\x05\x00'                                     # 5
gamma = ptgname(1) + ptgname(2) + b'\x03'                  # Alpha+Beta  (backward references: fine)
body = rowhdr(0) + rec(0x0009, cell(0) + struct.pack('<d', 10.0) + fml_tail(ptgname(1)))
p = OUT + '/xlsb_2_forward_name.xlsb'
package(p, [('Sheet1', sheet(body))], names=[('Alpha', alpha), ('Beta', beta), ('Gamma', gamma)])
print(pretty(run(p, ['names', 'formula ' + hx('Sheet1')])))
