#!/usr/bin/env python3
"""Runs every seeded change under /verif/seeded against its property's check (in a scratch copy of
/repo, never /repo itself) and writes seeded/RESULTS.md + seeded/results.json.
usage: tools/seedall.py [-j N] [seed-name ...]      (default: all seeds, 4 at a time)"""
import json, os, re, subprocess, sys
from concurrent.futures import ThreadPoolExecutor
ROOT = os.path.dirname(os.path.dirname(os.path.abspath(__file__)))
SD = os.path.join(ROOT, "seeded")

def run(name):
    extra = []
    mp = os.path.join(SD, name, "meta.json")
    if os.path.exists(mp):
        m = json.load(open(mp))
        if m.get("also_checks"):
            extra = [m["property"]] + list(m["also_checks"])
    p = subprocess.run([os.path.join(ROOT, "tools", "seedtest.sh"), os.path.join(SD, name)] + extra, stdout=subprocess.PIPE,
                       stderr=subprocess.STDOUT, env=dict(os.environ, SEED_KEEP_LOG="1"))
    out = [l for l in p.stdout.decode("utf-8", "replace").split("\n") if l.startswith(name + " ")]
    res = []
    for l in out:
        m = re.match(r"(\S+) (\S+) rc=(\d+) ?(.*)", l)
        if m:
            res.append({"check": m.group(2), "rc": int(m.group(3)), "line": m.group(4)})
    return name, res

def main():
    args = sys.argv[1:]
    j = 4
    if args[:1] == ["-j"]:
        j = int(args[1]); args = args[2:]
    names = args or sorted(d for d in os.listdir(SD) if os.path.isfile(os.path.join(SD, d, "patch.diff")))
    rp = os.path.join(SD, "results.json")
    results = json.load(open(rp)) if os.path.exists(rp) else {}
    with ThreadPoolExecutor(j) as ex:
        for name, res in ex.map(run, names):
            results[name] = res
            print(name, res, flush=True)
    mine = {n: results[n] for n in names if n in results}
    results = json.load(open(rp)) if os.path.exists(rp) else {}     # re-read: another run may have finished meanwhile
    results.update(mine)
    json.dump(results, open(rp, "w"), indent=1, sort_keys=True)
    lines = ["# Seeded changes and what catches them", "",
             "Each row is a change to calamine written by an independent sub-agent that saw only the property text",
             "(patch.diff, demo/, meta.json in the directory of that name).  It compiles, keeps the 110-test suite at its",
             "baseline, and its demonstration fails with the change and passes without it (tools/seedverify.sh).",
             "`tools/seedall.py` applies it to a scratch copy of /repo and runs the property's quick check against that copy.", "",
             "| seed | property | what it needs to manifest | quick check | how it is reported |", "|---|---|---|---|---|"]
    for name in sorted(results):
        mp = os.path.join(SD, name, "meta.json")
        meta = json.load(open(mp)) if os.path.exists(mp) else {}
        for r in results[name]:
            if r["rc"] == 1 and "VIOLATION" in r["line"]:
                how = "VIOLATION with failing input" if "no-failing-input-found" not in r["line"] else "VIOLATION (model/code correspondence broken; no-failing-input-found)"
                verdict = "caught"
            elif r["rc"] == 0:
                how, verdict = "-", "MISSED"
            else:
                how, verdict = "rc=%d" % r["rc"], "ERROR"
            need = str(meta.get("needs_to_manifest", "")).replace("|", "/").replace("\n", " ")
            lines.append("| %s | %s | %s | %s (%s) | %s |" % (name, meta.get("property", "?"), need[:260], verdict, r["check"], how))
    open(os.path.join(SD, "RESULTS.md"), "w").write("\n".join(lines) + "\n")

if __name__ == "__main__":
    main()
