(* C14 (and C01/C15/C17): column letters, A1 names and the xlsx coordinate parsers on the
   extracted Col26 model; answers in exactly the format of harness/src/cmds/col26.rs. *)
open Conv
open Prelude
open Col26

let ascii_hex (l : BinNums.coq_N list) : string = hex_of_bytes l
let out_str (o : BinNums.coq_N list outcome) : string =
  match o with
  | Ok s -> "ok:" ^ ascii_hex s
  | Err _ -> "err"
  | Panic -> "panic"
  | OutOfFuel -> "fuel"

let run (args : string list) : string =
  match args with
  | ["push_column"; n] -> out_str (push_column (n_of_string n) [])
  | ["letters"; n] -> "ok:" ^ ascii_hex (letters (n_of_string n))       (* the spec *)
  | ["cn2n"; n] -> out_str (column_number_to_name (n_of_string n))
  | ["c2n"; r; c] -> out_str (coordinate_to_name (n_of_string r, n_of_string c))
  | ["a1"; r; c] -> "ok:" ^ ascii_hex (a1_name (n_of_string r) (n_of_string c))   (* the spec *)
  | ["groc"; h] ->
    (match get_row_and_optional_column (bytes_of_hex h) with
     | Ok (r, Some c) -> Printf.sprintf "ok:%s,%s" (string_of_n r) (string_of_n c)
     | Ok (r, None) -> Printf.sprintf "ok:%s,-" (string_of_n r)
     | Err _ -> "err" | Panic -> "panic" | OutOfFuel -> "fuel")
  | ["grc"; h] ->
    (match get_row_column (bytes_of_hex h) with
     | Ok (r, c) -> Printf.sprintf "ok:%s,%s" (string_of_n r) (string_of_n c)
     | Err _ -> "err" | Panic -> "panic" | OutOfFuel -> "fuel")
  | ["dim"; h] ->
    (match get_dimension (bytes_of_hex h) with
     | Ok ((a, b), (c, d)) ->
       Printf.sprintf "ok:%s,%s,%s,%s" (string_of_n a) (string_of_n b) (string_of_n c) (string_of_n d)
     | Err _ -> "err" | Panic -> "panic" | OutOfFuel -> "fuel")
  | _ -> "bad-args"

let () = Registry.register "col26" run
let init () = ()
