// C12: one text-carrying record body through the code the sheet loop of parse_workbook uses.
// args[0] = kind: label (0x0204 LABEL body) | string (0x0207 STRING body) | labelsst (0x00FD body,
//           args[2] = ','-separated hex utf8 of the shared strings, "-" = none) | bsheet (0x0085 body)
// args[1] = hex body
// answer: label/labelsst: ok:none | ok:<row>:<col>:<hex utf8> ; string: ok:<hex utf8> ;
//         bsheet: ok:<pos>:<hex utf8> ; err
use crate::util::{hexstr, unhex};
use calamine::verif_hooks::xls;
use calamine::Data;

fn cells(v: Vec<((u32, u32), Data)>) -> String {
    match v.first() {
        None => "ok:none".to_string(),
        Some(((r, c), Data::String(s))) => format!("ok:{}:{}:{}", r, c, hexstr(s)),
        Some(other) => format!("ok:?{:?}", other),
    }
}

pub fn run(args: &[&str]) -> String {
    let body = unhex(args[1]);
    match args[0] {
        "label" => match xls::parse_cell_record(0x0204, &body, &[], false, &[]) {
            Ok(v) => cells(v),
            Err(_) => "err".to_string(),
        },
        "labelsst" => {
            let strings: Vec<String> = if args.len() < 3 || args[2] == "-" {
                vec![]
            } else {
                args[2]
                    .split(',')
                    .map(|h| String::from_utf8(unhex(h)).unwrap())
                    .collect()
            };
            match xls::parse_cell_record(0x00FD, &body, &[], false, &strings) {
                Ok(v) => cells(v),
                Err(_) => "err".to_string(),
            }
        }
        "string" => match xls::parse_string(&body) {
            Ok(s) => format!("ok:{}", hexstr(&s)),
            Err(_) => "err".to_string(),
        },
        "bsheet" => match xls::parse_sheet_metadata(&body) {
            Ok((pos, name)) => format!("ok:{}:{}", pos, hexstr(&name)),
            Err(_) => "err".to_string(),
        },
        _ => "bad-kind".to_string(),
    }
}
