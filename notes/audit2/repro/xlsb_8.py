# xlsb_8: observation (spec side, Ptg.sheet_text = code's quote_sheet_name): sheet names that look like a cell
# reference / R1C1 reference / boolean must be quoted in formula text ('AB12'!A1, 'R1C1'!A1, 'TRUE'!A1).
import struct, sys
sys.path.insert(0, '/tmp/ag/audit2/repro')
from xlsb_common import *
r3d = lambda ixti: b'\x3a' + struct.pack('<HIH', ixti, 0, 0xC000)
body = rowhdr(0) + b''.join(rec(0x0009, cell(c) + struct.pack('<d', 0.0) + fml_tail(r3d(c))) for c in range(3))
e = sheet(b'')
p = OUT + '/xlsb_8_sheetnames.xlsb'
package(p, [('AB12', e), ('R1C1', e), ('TRUE', e), ('Data', sheet(body, (0, 0, 0, 2)))])
print(pretty(run(p, ['formula ' + hx('Data')])))
