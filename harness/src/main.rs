// vh — the implementation side of the correspondence check.
// Reads one case per line on stdin: id<TAB>cmd<TAB>args…; answers id<TAB>answer on stdout.
// Every case runs under catch_unwind; a panic answers "panic" ("alloc" when the capped global
// allocator refused a request).  A journal line "#begin id" is flushed to stderr before each
// case when VH_JOURNAL is set, so that an abort or hang is attributed to the right case.
use std::alloc::{GlobalAlloc, Layout, System};
use std::io::{self, BufRead, Write};
use std::sync::atomic::{AtomicBool, AtomicUsize, Ordering};

pub mod util;
mod cmds {
    include!(concat!(env!("OUT_DIR"), "/cmds.rs"));
}

pub static ALLOC_CAP: AtomicUsize = AtomicUsize::new(512 << 20);
/// the cap in force when no per-case cap is set (VH_ALLOC_CAP or 512 MiB); restored before each case
pub static ALLOC_CAP_DEFAULT: AtomicUsize = AtomicUsize::new(512 << 20);
pub static ALLOC_TRIPPED: AtomicBool = AtomicBool::new(false);
pub static ALLOC_MAX_SEEN: AtomicUsize = AtomicUsize::new(0);

struct Capped;
unsafe impl GlobalAlloc for Capped {
    unsafe fn alloc(&self, l: Layout) -> *mut u8 {
        Self::note(l.size());
        System.alloc(l)
    }
    unsafe fn dealloc(&self, p: *mut u8, l: Layout) {
        System.dealloc(p, l)
    }
    unsafe fn alloc_zeroed(&self, l: Layout) -> *mut u8 {
        Self::note(l.size());
        System.alloc_zeroed(l)
    }
    unsafe fn realloc(&self, p: *mut u8, l: Layout, n: usize) -> *mut u8 {
        Self::note(n);
        System.realloc(p, l, n)
    }
}
impl Capped {
    #[inline]
    fn note(size: usize) {
        if size > ALLOC_MAX_SEEN.load(Ordering::Relaxed) {
            ALLOC_MAX_SEEN.store(size, Ordering::Relaxed);
        }
        if size > ALLOC_CAP.load(Ordering::Relaxed) {
            ALLOC_TRIPPED.store(true, Ordering::Relaxed);
            panic!("verif-alloc-cap: request of {} bytes", size);
        }
    }
}
#[global_allocator]
static GLOBAL: Capped = Capped;

thread_local! {
    pub static LAST_PANIC: std::cell::RefCell<String> = std::cell::RefCell::new(String::new());
}

fn main() {
    let journal = std::env::var("VH_JOURNAL").is_ok();
    let verbose_panics = std::env::var("VH_PANIC_INFO").is_ok();
    if let Ok(c) = std::env::var("VH_ALLOC_CAP") {
        if let Ok(n) = c.parse::<usize>() {
            ALLOC_CAP.store(n, Ordering::Relaxed);
            ALLOC_CAP_DEFAULT.store(n, Ordering::Relaxed);
        }
    }
    std::panic::set_hook(Box::new(|info| {
        let loc = info
            .location()
            .map(|l| format!("{}:{}", l.file(), l.line()))
            .unwrap_or_default();
        let msg = if let Some(s) = info.payload().downcast_ref::<&str>() {
            s.to_string()
        } else if let Some(s) = info.payload().downcast_ref::<String>() {
            s.clone()
        } else {
            String::new()
        };
        // the failure is attributed to the innermost calamine frame of the backtrace that is not
        // a src/utils.rs helper (the raw location is kept as a fallback)
        let loc = if std::env::var("VH_PANIC_INFO").is_ok() {
            let bt = std::backtrace::Backtrace::force_capture().to_string();
            let mut found = None;
            for l in bt.lines() {
                let l = l.trim();
                if let Some(i) = l.find("calamine::") {
                    if !l.contains("verif_hooks") && !l[i..].starts_with("calamine::utils::") {
                        found = Some(format!("fn:{}", &l[i..]));
                        break;
                    }
                }
            }
            found.unwrap_or(loc)
        } else {
            loc
        };
        // VH_PANIC_LOC: keep the raw file:line in the message too (corpus building groups the
        // witnesses by panic site)
        let msg = if std::env::var("VH_PANIC_LOC").is_ok() {
            let raw = info
                .location()
                .map(|l| format!("{}:{}", l.file(), l.line()))
                .unwrap_or_default();
            format!("{} [at {}]", msg, raw)
        } else {
            msg
        };
        LAST_PANIC.with(|p| *p.borrow_mut() = format!("{} @ {}", msg, loc));
    }));
    // watchdog: a case that runs longer than VH_CASE_TIMEOUT_MS is answered "timeout" and the
    // process exits (the driver restarts it for the remaining cases)
    let limit_ms: u64 = std::env::var("VH_CASE_TIMEOUT_MS").ok().and_then(|v| v.parse().ok()).unwrap_or(0);
    if limit_ms > 0 {
        std::thread::spawn(move || loop {
            std::thread::sleep(std::time::Duration::from_millis(50));
            let st = CASE_START.load(Ordering::Relaxed);
            if st != 0 {
                let now = now_ms();
                if now > st + limit_ms as usize {
                    let id = CASE_ID.lock().map(|g| g.clone()).unwrap_or_default();
                    println!("{}\ttimeout", id);
                    let _ = io::stdout().flush();
                    std::process::exit(3);
                }
            }
        });
    }
    let stdin = io::stdin();
    for line in stdin.lock().lines() {
        let line = match line {
            Ok(l) => l,
            Err(_) => break,
        };
        if line.is_empty() {
            continue;
        }
        let parts: Vec<&str> = line.split('\t').collect();
        if parts.len() < 2 {
            continue;
        }
        let id = parts[0];
        let cmd = parts[1];
        let args = &parts[2..];
        if journal {
            eprintln!("#begin {}", id);
        }
        if let Ok(mut g) = CASE_ID.lock() {
            *g = id.to_string();
        }
        ALLOC_TRIPPED.store(false, Ordering::Relaxed);
        ALLOC_MAX_SEEN.store(0, Ordering::Relaxed);
        ALLOC_CAP.store(ALLOC_CAP_DEFAULT.load(Ordering::Relaxed), Ordering::Relaxed);
        CASE_START.store(now_ms(), Ordering::Relaxed);
        let res = std::panic::catch_unwind(std::panic::AssertUnwindSafe(|| cmds::dispatch(cmd, args)));
        CASE_START.store(0, Ordering::Relaxed);
        let ans = match res {
            Ok(Some(s)) => s,
            Ok(None) => format!("unknown-command {}", cmd),
            Err(_) => {
                let kind = if ALLOC_TRIPPED.load(Ordering::Relaxed) { "alloc" } else { "panic" };
                if verbose_panics {
                    format!("{}\t{}", kind, last_panic())
                } else {
                    kind.to_string()
                }
            }
        };
        println!("{}\t{}", id, ans);
        let _ = io::stdout().flush();
    }
}

pub static CASE_START: AtomicUsize = AtomicUsize::new(0);
pub static CASE_ID: std::sync::Mutex<String> = std::sync::Mutex::new(String::new());

fn now_ms() -> usize {
    std::time::SystemTime::now()
        .duration_since(std::time::UNIX_EPOCH)
        .map(|d| d.as_millis() as usize)
        .unwrap_or(0)
}

/// message and location of the last panic on this thread (tabs and newlines removed)
pub fn last_panic() -> String {
    LAST_PANIC.with(|p| p.borrow().clone()).replace(['\t', '\n'], " ")
}
/// VH_ALLOC_REL="base:mult": for the running case only, lower the single-request allocation cap to
/// base + mult * input_len bytes (never above the default cap).  Used by the `open` command so that
/// "memory out of proportion to the input" is measured against the size of the file.
pub fn set_relative_alloc_cap(input_len: usize) {
    if let Ok(v) = std::env::var("VH_ALLOC_REL") {
        let mut it = v.split(':');
        let base = it.next().and_then(|x| x.parse::<usize>().ok());
        let mult = it.next().and_then(|x| x.parse::<usize>().ok());
        if let (Some(base), Some(mult)) = (base, mult) {
            let cap = base.saturating_add(mult.saturating_mul(input_len));
            let cap = cap.min(ALLOC_CAP_DEFAULT.load(Ordering::Relaxed));
            ALLOC_CAP.store(cap, Ordering::Relaxed);
        }
    }
}
pub fn verbose_panics() -> bool {
    std::env::var("VH_PANIC_INFO").is_ok()
}
