// C05: interpret an operation history on a real Range<Data> and dump every accessor after
// each step.  args[0] = ops separated by '|':
//   new r c r c | empty | sparse r:c:v,r:c:v,… | set r c v | win r c r c
// values: 0 = Data::Empty (the default), n > 0 = Data::Int(n).
use calamine::{Cell, Data, Range};
use std::panic::{catch_unwind, AssertUnwindSafe};

fn val(v: i64) -> Data {
    if v == 0 {
        Data::Empty
    } else if v == 7 {
        // a non-default value that "looks empty": the empty text (what =IF(A1>5,"big","") caches)
        Data::String(String::new())
    } else if v == 8 {
        Data::Bool(false)
    } else if v == 9 {
        Data::Float(0.0)
    } else {
        Data::Int(v)
    }
}
fn show(d: &Data) -> String {
    match d {
        Data::Empty => "0".to_string(),
        Data::String(s) if s.is_empty() => "7".to_string(),
        Data::Bool(false) => "8".to_string(),
        Data::Float(f) if *f == 0.0 => "9".to_string(),
        Data::Int(i) => i.to_string(),
        other => format!("?{:?}", other),
    }
}

pub fn dump(r: &Range<Data>) -> String {
    let mut s = String::new();
    match (r.start(), r.end()) {
        (Some(a), Some(b)) => s.push_str(&format!("S{},{}E{},{}", a.0, a.1, b.0, b.1)),
        (None, None) => s.push_str("S-E-"),
        _ => s.push_str("S?E?"),
    }
    let (h, w) = r.get_size();
    s.push_str(&format!("Z{},{}h{}w{}e{}", h, w, r.height(), r.width(), r.is_empty() as u8));
    s.push_str("R[");
    for (i, row) in r.rows().enumerate() {
        if i > 0 {
            s.push(';');
        }
        s.push_str(&row.iter().map(show).collect::<Vec<_>>().join(","));
    }
    s.push_str("]C[");
    s.push_str(
        &r.cells()
            .map(|(i, j, v)| format!("{}:{}:{}", i, j, show(v)))
            .collect::<Vec<_>>()
            .join(","),
    );
    s.push_str("]U[");
    s.push_str(
        &r.used_cells()
            .map(|(i, j, v)| format!("{}:{}:{}", i, j, show(v)))
            .collect::<Vec<_>>()
            .join(","),
    );
    s.push_str("]D[");
    // double-ended use of the two cell iterators: one item from the front, one from the back,
    // alternately, until exhausted (coordinates must not depend on the order of consumption)
    {
        let mut out: Vec<String> = Vec::new();
        let mut it = r.cells();
        let mut front = true;
        loop {
            let x = if front { it.next() } else { it.next_back() };
            match x {
                Some((i, j, v)) => out.push(format!("{}:{}:{}", i, j, show(v))),
                None => break,
            }
            front = !front;
        }
        out.push("|".to_string());
        let mut it = r.used_cells();
        let mut front = true;
        loop {
            let x = if front { it.next() } else { it.next_back() };
            match x {
                Some((i, j, v)) => out.push(format!("{}:{}:{}", i, j, show(v))),
                None => break,
            }
            front = !front;
        }
        s.push_str(&out.join(","));
    }
    s.push_str("]G[");
    // relative probes, one past each edge included
    let mut first = true;
    for i in 0..=h {
        for j in 0..=w {
            if !first {
                s.push(',');
            }
            first = false;
            let g = r.get((i, j)).map(show).unwrap_or_else(|| "-".to_string());
            let ix = catch_unwind(AssertUnwindSafe(|| show(&r[(i, j)]))).unwrap_or_else(|_| "!".to_string());
            s.push_str(&format!("{}/{}", g, ix));
        }
    }
    s.push_str("]A[");
    // absolute probes around the rectangle (or around the origin when empty)
    let (sr, sc, er, ec) = match (r.start(), r.end()) {
        (Some(a), Some(b)) => (a.0 as u64, a.1 as u64, b.0 as u64, b.1 as u64),
        _ => (0, 0, 0, 0),
    };
    let lo = |x: u64| x.saturating_sub(1);
    let hi = |x: u64| (x + 1).min(u32::MAX as u64);
    let mut first = true;
    for row in lo(sr)..=hi(er) {
        for col in lo(sc)..=hi(ec) {
            if !first {
                s.push(',');
            }
            first = false;
            s.push_str(
                &r.get_value((row as u32, col as u32))
                    .map(show)
                    .unwrap_or_else(|| "-".to_string()),
            );
        }
    }
    s.push(']');
    s
}

pub fn run(args: &[&str]) -> String {
    let mut r: Range<Data> = Range::empty();
    let mut out: Vec<String> = Vec::new();
    for op in args[0].split('|') {
        let f: Vec<&str> = op.split(' ').collect();
        let n = |i: usize| -> u32 { f[i].parse::<u64>().unwrap() as u32 };
        let res = catch_unwind(AssertUnwindSafe(|| match f[0] {
            "new" => Range::new((n(1), n(2)), (n(3), n(4))),
            "empty" => Range::empty(),
            // the derived Default: what the readers return for a sheet without cells
            "default" => Range::default(),
            "sparse" => {
                let cells: Vec<Cell<Data>> = if f.len() < 2 || f[1].is_empty() {
                    vec![]
                } else {
                    f[1].split(',')
                        .map(|c| {
                            let p: Vec<&str> = c.split(':').collect();
                            Cell::new(
                                (p[0].parse::<u64>().unwrap() as u32, p[1].parse::<u64>().unwrap() as u32),
                                val(p[2].parse().unwrap()),
                            )
                        })
                        .collect()
                };
                Range::from_sparse(cells)
            }
            "set" => {
                let mut r2 = r.clone();
                r2.set_value((n(1), n(2)), val(f[3].parse().unwrap()));
                r2
            }
            "win" => r.range((n(1), n(2)), (n(3), n(4))),
            _ => panic!("bad op"),
        }));
        match res {
            Ok(nr) => {
                r = nr;
                out.push(dump(&r));
            }
            Err(_) => {
                out.push("panic".to_string());
                break;
            }
        }
    }
    out.join(";;")
}
