"""C14 — formulas are reported at their cell with the A1 text the file encodes.

Correspondence (implementation vs extracted Coq model) and search for failing inputs
(implementation vs the Coq spec `render`) for
  * column lettering: utils::push_column, xlsx::column_number_to_name / coordinate_to_name,
    xlsx::get_row_and_optional_column / get_row_column / get_dimension (cmd `col26`);
  * the two token decoders xls::parse_formula / xlsb::parse_formula (cmd `ptg`): random ASTs
    encoded by the extracted Coq encoders (cmd `ptg_ast`, model side only), raw and mutated rgce
    byte strings (the model must predict err / panic / text exactly).
All randomness comes from ctx.rng."""
import os, struct, sys
import vlib

sys.path.insert(0, os.path.dirname(os.path.dirname(os.path.abspath(__file__))))
import gen_tables

ASSUMPTIONS = [
    "f64 Display (PtgNum) is a parameter of model and spec (Section variable show_f64); the OCaml driver instantiates it with a shortest-round-trip printer compared against Rust's on every PtgNum case",
    "offsets into the formula buffer are modelled as character offsets (Rust: byte offsets, always at character boundaries); exercised with non-ASCII sheet names, defined names and string literals",
    "the decoders are reached through the verif hooks with code page 1200 (what BIFF8 files declare); other code pages are outside the model",
    "FTAB / FTAB_ARGC are compared with a frozen reference copy (regression pin, not a conformance claim against MS-XLS 2.5.198.17)",
    "external-workbook references (iSupBook not the internal SupBook) and multi-sheet 3-D spans (itabFirst <> itabLast) are outside the property's grammar; calamine ignores iSupBook/itabLast",
]

U32 = 2**32 - 1
KNOWN_NAMES = {}      # no known class is left (K_STR_WIDE fixed by a3d91ee, K_STR_QUOTE by 6ef7f34)


def hx(s):
    return s.encode("utf-8").hex()


def names_arg(lst):
    if not lst:
        return "-"
    return ",".join(hx(s) if s else "." for s in lst)


# ------------------------------------------------------------------------------- column lettering
def py_letters(c):
    """independent Python reading of bijective base 26 (used only to cross-check the Coq spec)"""
    s = ""
    c += 1
    while c > 0:
        c, r = divmod(c - 1, 26)
        s = chr(65 + r) + s
    return s


def run_columns(ctx):
    full = ctx.tier == "thorough" or True      # the 0..16383 sweep is cheap: always exhaustive
    cols = list(range(16384)) if full else []
    edges = [16383, 16384, 16385, 18277, 18278, 18279, 475253, 475254, 12356629, 12356630,
             321272405, 321272406, 321272407, 2**31 - 1, 2**31, U32 - 1, U32, 65535, 65536, 255, 256, 701, 702, 703, 25, 26]
    extra = edges + [ctx.rng.randrange(0, U32 + 1) for _ in range(ctx.scale(2000, 40000))] + \
        [ctx.rng.randrange(16384, 20000) for _ in range(200)]
    lines = []
    for c in cols + extra:
        lines.append("pc%d\tcol26\tpush_column\t%d" % (c, c))
        lines.append("lt%d\tcol26\tletters\t%d" % (c, c))
    for c in cols + edges + [ctx.rng.randrange(16384, U32 + 1) for _ in range(200)]:
        lines.append("cn%d\tcol26\tcn2n\t%d" % (c, c))
    lines = list(dict((l.split("\t", 1)[0], l) for l in lines).values())
    impl = ctx.run_impl([l for l in lines if not l.startswith("lt")])
    model = ctx.run_model(lines)
    ctx.evaluations += 0
    for l in lines:
        lid, _, sub, arg = l.split("\t")
        if sub == "letters":
            c = int(arg)
            if model.get(lid) != "ok:" + hx(py_letters(c)):
                ctx.disagreements.append({"function": "letters(spec) vs python reading", "case": l,
                                          "impl": py_letters(c), "model": model.get(lid)})
            continue
        c = int(arg)
        i, m = impl.get(lid), model.get(lid)
        ctx.traces += 1
        ctx.count("col26:" + sub)
        if i != m:
            ctx.disagreements.append({"function": "Col26." + sub, "case": l, "impl": i, "model": m})
        spec = model.get("lt%d" % c)
        if sub == "push_column" or (sub == "cn2n" and c < 16384):
            if spec is not None and i != spec:
                ctx.violations.append({"case": l, "expected": spec, "actual": i, "model": m,
                                       "what": "column %d must be lettered %s" % (c, py_letters(c))})
        if sub == "push_column":
            ctx.nontrivial("col:%d" % c)
    ctx.sample({"case": "col26 push_column 702", "impl": impl.get("pc702"), "model": model.get("pc702")})


def rand_case(rng, s):
    return "".join(ch.lower() if rng.random() < 0.5 else ch for ch in s)


def run_a1(ctx):
    rng = ctx.rng
    lines = []
    rows = [0, 1, 8, 9, 98, 99, 1048574, 1048575, 1048576, 99999998, 999999997, 999999998, 999999999,
            1000000000, 2**31, U32 - 1, U32]
    colsel = [0, 1, 25, 26, 27, 255, 256, 701, 702, 16382, 16383, 16384, 18277, 18278]
    pairs = [(r, c) for r in rows for c in colsel]
    for _ in range(ctx.scale(3000, 60000)):
        r = rng.choice([rng.randrange(0, 1048576), rng.randrange(0, 10**9), rng.randrange(0, U32 + 1)])
        c = rng.choice([rng.randrange(0, 16384), rng.randrange(0, 300), rng.randrange(0, 20000)])
        pairs.append((r, c))
    meta = {}
    for k, (r, c) in enumerate(pairs):
        lines.append("c2n%d\tcol26\tc2n\t%d\t%d" % (k, r, c))
        name = py_letters(c) + str(r + 1)
        shown = rand_case(rng, name) if k % 3 else name
        lines.append("grc%d\tcol26\tgrc\t%s" % (k, hx(shown)))
        lines.append("groc%d\tcol26\tgroc\t%s" % (k, hx(str(r + 1) if k % 5 == 0 else shown)))
        meta[k] = (r, c, name)
    # dimensions: ordered, reversed, single, too many parts
    for k in range(ctx.scale(1500, 30000)):
        (r0, c0), (r1, c1) = [(rng.randrange(0, 1048600), rng.randrange(0, 16400)) for _ in range(2)]
        mode = rng.randrange(6)
        if mode < 3:
            r0, r1 = min(r0, r1), max(r0, r1)
            c0, c1 = min(c0, c1), max(c0, c1)
        a, b = py_letters(c0) + str(r0 + 1), py_letters(c1) + str(r1 + 1)
        txt = a if mode == 3 else (a + ":" + b + ":" + a if mode == 5 and k % 2 else a + ":" + b)
        lines.append("dim%d\tcol26\tdim\t%s" % (k, hx(rand_case(rng, txt))))
    # malformed cell names
    alphabet = "AZaz09:$ .-@[`{/"
    for k in range(ctx.scale(2000, 40000)):
        n = rng.randrange(0, 14)
        s = "".join(rng.choice(alphabet + "ABCXYZ0123456789") for _ in range(n))
        if rng.random() < 0.3:
            s = rng.choice(["A", "ZZZZZZZ", "AAAAAAA", "A0", "0", "", "1A", "A1A", "FXSHRXX1", "FXSHRXW1",
                            "A4294967295", "A4294967296", "A0000000001", "A999999999", "a1:b2:c3", ":", "A1:", ":A1"])
        sub = rng.choice(["grc", "groc", "dim"])
        lines.append("bad%d\tcol26\t%s\t%s" % (k, sub, hx(s)))
    impl, model = ctx.run_both(lines)
    for l in lines:
        lid = l.split("\t", 1)[0]
        i, m = impl.get(lid), model.get(lid)
        ctx.traces += 1
        ctx.count("col26:" + l.split("\t")[2])
        if i != m:
            ctx.disagreements.append({"function": "Col26." + l.split("\t")[2], "case": l, "impl": i, "model": m})
    # implementation vs spec: the round trip inside the proved bounds
    for k, (r, c, name) in meta.items():
        if c < 16384 and r < U32:
            exp = "ok:" + hx(name)
            if impl.get("c2n%d" % k) != exp:
                ctx.violations.append({"case": "c2n %d %d" % (r, c), "expected": exp,
                                       "actual": impl.get("c2n%d" % k), "model": model.get("c2n%d" % k),
                                       "what": "coordinate_to_name must give the A1 name"})
        if r + 1 < 10**9 and c < 26**6:
            exp = "ok:%d,%d" % (r, c)
            if impl.get("grc%d" % k) != exp:
                ctx.violations.append({"case": "grc %s" % name, "expected": exp,
                                       "actual": impl.get("grc%d" % k), "model": model.get("grc%d" % k),
                                       "what": "get_row_column must invert the A1 name (either letter case)"})
            ctx.nontrivial("a1:%s" % name)


# ------------------------------------------------------------------------------- formula ASTs
F64_POOL = [0.0, -0.0, 1.0, -1.0, 0.1, 0.5, 1.5, 2.5, 1e21, 1e22, 1e23, 1e-7, 1e-5, 123456.789, 3.141592653589793,
            1e300, 1e-300, 5e-324, 1.7976931348623157e308, 2.2250738585072014e-308, 4.35, 0.3, 1e15, 1e16, 1e17,
            9007199254740993.0, 0.1 + 0.2, 100.0, 1234567890123456789.0, float("inf"), float("-inf"), float("nan")]


def f64_bits(rng):
    p = rng.random()
    if p < 0.5:
        return struct.unpack("<Q", struct.pack("<d", rng.choice(F64_POOL)))[0]
    if p < 0.8:
        return struct.unpack("<Q", struct.pack("<d", rng.uniform(-1e6, 1e6)))[0]
    return rng.getrandbits(64)


class Gen:
    def __init__(self, ctx, fmt, ftab_argc):
        self.ctx, self.rng, self.fmt = ctx, ctx.rng, fmt
        self.fixed = {}
        for i, a in enumerate(ftab_argc):
            if a <= 5:
                self.fixed.setdefault(a, []).append(i)
        self.nftab = len(ftab_argc)
        self.rowlim = 65536 if fmt == "xls" else 2**32

    def env(self):
        rng = self.rng
        pool = ["Sheet1", "Sheet2", "Data", "My Sheet", "Übersicht", "数据", "S", "a'b", "Sheet 10", "Δ"]
        ns = rng.randrange(1, 6)
        self.sheets = rng.sample(pool, ns)
        self.names = rng.sample(["rate", "Total", "x", "名前", "_n1", "Prix_€"], rng.randrange(0, 4))
        if self.fmt == "xls":
            xt = []
            for _ in range(rng.randrange(0, 6)):
                p = rng.random()
                if p < 0.7:
                    f = rng.randrange(0, ns)
                elif p < 0.8:
                    f = rng.choice([65535, 65534])
                elif p < 0.9:
                    f = rng.choice([ns, ns + 1, 32767, 32768, 40000])
                else:
                    f = rng.randrange(0, ns)
                xt.append((rng.choice([0, 0, 0, 1]), f, f))
            self.xtis = xt
            self.nixti = len(xt)
        else:
            self.xtis = None
            self.nixti = ns
        return self

    def env_args(self):
        a = [names_arg(self.sheets), names_arg(self.names)]
        if self.fmt == "xls":
            a.append(",".join("%d:%d:%d" % t for t in self.xtis) if self.xtis else "-")
        return a

    def cref(self):
        rng = self.rng
        r = rng.choice([0, 1, 9, 98, 99, 65534, 65535, rng.randrange(0, 65536), rng.randrange(0, 100)])
        if self.fmt == "xlsb" and rng.random() < 0.4:
            r = rng.choice([65536, 1048575, 1048576, 2**31, U32, rng.randrange(0, 1048576)])
        lim = 256 if (self.fmt == "xls" and rng.random() < 0.8) else 16384
        c = rng.choice([0, 1, 25, 26, 27, 51, 52, 255, lim - 1, rng.randrange(0, lim), rng.randrange(0, lim), 701 % lim, 702 % lim])
        rr, cr = rng.randrange(2), rng.randrange(2)
        self.ctx.count("%s:flags:row_%s,col_%s" % (self.fmt, "rel" if rr else "abs", "rel" if cr else "abs"))
        self.ctx.count("%s:col:%s" % (self.fmt, "A-Z" if c < 26 else "AA-IV" if c < 256 else "IW-ZZ" if c < 702 else "AAA-XFD"))
        return "%d %d %d %d" % (r, c, rr, cr)

    def ixti(self):
        rng = self.rng
        if rng.random() < 0.12:
            v = rng.choice([self.nixti, self.nixti + 1, 255, 65535])
            self.ctx.count("%s:ixti:out_of_range" % self.fmt)
            return v
        if self.nixti == 0:
            self.ctx.count("%s:ixti:out_of_range" % self.fmt)
            return 0
        v = rng.randrange(0, self.nixti)
        self.ctx.count("%s:ixti:in_range" % self.fmt)
        return v

    def string(self):
        rng = self.rng
        p = rng.random()
        n = rng.choice([0, 1, 2, 3, 5, 8, 12]) if p < 0.95 else rng.choice([126, 127, 128, 254, 255])
        wide = 0
        if self.fmt == "xls":
            if rng.random() < 0.12:
                wide = 1
                alph = "abcXYZ 中文é€Ω\U0001F600\U00010000\U0010FFFF" + '"'
            else:
                alph = "abcdefXYZ 0123,;()!$é\xff\x80" + ('"' if rng.random() < 0.15 else "")
        else:
            alph = "abcdefXYZ 0123,;()!$é中文€Ω\U0001F600\U00010000\U0010FFFF\uFEFF" + ('"' if rng.random() < 0.15 else "")
        s = [ord(rng.choice(alph)) for _ in range(n)]
        if self.fmt == "xlsb" and n >= 2 and rng.random() < 0.04:
            k = rng.randrange(3)
            if k == 0:
                s[0] = 0xFEFF
            elif k == 1:
                s[0] = 0xFFFE
            else:
                s[0], s[1] = 0xBBEF, rng.choice([0x00BF, 0x4EBF, 0x41])
        return "%d %s" % (wide, ".".join(str(c) for c in s) if s else "-")

    def expr(self, depth):
        rng, c = self.rng, self.ctx
        leaf = depth <= 0 or rng.random() < 0.25
        if leaf:
            k = rng.choice(["ref", "ref", "area", "ref3", "area3", "name", "int", "num", "str", "bool", "err", "miss"])
        else:
            k = rng.choice(["un", "bin", "bin", "par", "func", "fvar", "fvar", "sum", "attr"])
        c.count("%s:ctor:%s" % (self.fmt, k))
        cls = lambda: rng.choice("rva")
        if k == "ref":
            return "ref %s %s" % (cls(), self.cref())
        if k == "area":
            return "area %s %s %s" % (cls(), self.cref(), self.cref())
        if k == "ref3":
            return "ref3 %s %d %s" % (cls(), self.ixti(), self.cref())
        if k == "area3":
            return "area3 %s %d %s %s" % (cls(), self.ixti(), self.cref(), self.cref())
        if k == "name":
            n = len(self.names)
            idx = rng.randrange(1, n + 1) if n and rng.random() < 0.85 else rng.choice([0, n + 1, n + 7, U32])
            return "name %s %d" % (cls(), idx)
        if k == "int":
            return "int %d" % rng.choice([0, 1, 9, 10, 65535, rng.randrange(0, 65536)])
        if k == "num":
            return "num %d" % f64_bits(rng)
        if k == "str":
            return "str " + self.string()
        if k == "bool":
            return "bool %d" % rng.randrange(2)
        if k == "err":
            return "err %d" % (rng.choice([0, 7, 15, 23, 29, 36, 42, 43]) if rng.random() < 0.93 else rng.choice([1, 8, 44, 255]))
        if k == "miss":
            return "miss"
        if k == "un":
            return "un %s %s" % (rng.choice("+-%"), self.expr(depth - 1))
        if k == "bin":
            op = rng.randrange(3, 18) if rng.random() < 0.97 else rng.choice([2, 18])
            return "bin %d %s %s" % (op, self.expr(depth - 1), self.expr(depth - 1))
        if k == "par":
            return "par " + self.expr(depth - 1)
        if k == "func":
            argc = rng.choice(sorted(self.fixed))
            ift = rng.choice(self.fixed[argc])
            n = argc
            if rng.random() < 0.05:
                n = max(0, argc + rng.choice([-1, 1]))          # wrong count: not wf
            c.count("%s:func_argc:%d" % (self.fmt, argc))
            return "func %s %d %d%s" % (cls(), ift, n, "".join(" " + self.expr(depth - 1) for _ in range(n)))
        if k == "fvar":
            n = rng.choice([0, 1, 1, 2, 2, 3, 4, 7])
            ift = rng.randrange(0, self.nftab) if rng.random() < 0.95 else rng.choice([self.nftab, self.nftab + 1, 0x8004, 65535])
            c.count("%s:fvar_argc:%d" % (self.fmt, n))
            return "fvar %s %d %d%s" % (cls(), ift, n, "".join(" " + self.expr(depth - 1) for _ in range(n)))
        if k == "sum":
            return "sum " + self.expr(depth - 1)
        et = rng.choice([1, 2, 8, 0x20, 0x21]) if rng.random() < 0.9 else rng.choice([0x40, 0x41, 0x80, 0x04, 0x03])
        return "attr %d %d %s" % (et, rng.choice([0, 1, 0x1234, 65535]), self.expr(depth - 1))


def classify_ast(ctx, fmt, lid, ast_line, impl_line, ans, impl):
    """ans = hex|model|spec|known|wf from the model side; impl = answer of the real decoder"""
    parts = ans.split("|")
    if len(parts) != 5:
        ctx.disagreements.append({"function": "ptg_ast(model side)", "case": ast_line, "impl": impl, "model": ans})
        return
    hexb, model, spec, known, wf = parts
    ctx.traces += 1
    if impl != model:
        ctx.disagreements.append({"function": "%s::parse_formula" % fmt, "case": impl_line, "impl": impl,
                                  "model": model, "ast": ast_line})
        # fall through: still compare against the spec
    in_domain = wf == "1" and (fmt != "xls" or len(hexb) // 2 - 2 < 65536)
    ctx.count("%s:%s" % (fmt, "wf" if in_domain else "not_wf"))
    if not in_domain:
        ctx.count("%s:not_wf:%s" % (fmt, (impl or "?").split(":")[0]))
        return
    expected = "ok:" + spec
    if known != "-":
        ctx.count("%s:known:%s" % (fmt, KNOWN_NAMES.get(known, known)))
        if impl != expected:
            ctx.known_hits.setdefault(KNOWN_NAMES.get(known, known),
                                      {"case": impl_line, "ast": ast_line, "expected": expected, "actual": impl})
        return
    if impl != expected:
        ctx.violations.append({"case": impl_line, "expected": expected, "actual": impl, "model": model,
                               "what": "%s formula text differs from the A1 rendering of the token stream; AST: %s"
                                       % (fmt, ast_line.split("\t")[-1])})
    elif model != expected:
        ctx.disagreements.append({"function": "rpn_correct_%s (model vs spec)" % fmt, "case": ast_line,
                                  "impl": impl, "model": model})
    ctx.nontrivial(hexb)


def run_ast_batch(ctx, fmt, n, tag, ftab_argc, depth=6):
    g = Gen(ctx, fmt, ftab_argc)
    ast_lines, envs = [], []
    for k in range(n):
        g.env()
        d = ctx.rng.choice([0, 1, 2, 3, 4, 5, depth]) if k % 4 else depth
        ast = g.expr(d)
        ea = g.env_args()
        ast_lines.append("%s%d\tptg_ast\t%s\t%s\t%s" % (tag, k, fmt, "\t".join(ea), ast))
        envs.append(ea)
    model = ctx.run_model(ast_lines)
    impl_lines = []
    for k, l in enumerate(ast_lines):
        lid = "%s%d" % (tag, k)
        a = model.get(lid, "")
        hexb = a.split("|", 1)[0] if "|" in a else ""
        impl_lines.append("%s\tptg\t%s\t%s\t%s" % (lid, fmt, "\t".join(envs[k]), hexb))
    impl = ctx.run_impl(impl_lines)
    for k, l in enumerate(ast_lines):
        lid = "%s%d" % (tag, k)
        classify_ast(ctx, fmt, lid, l, impl_lines[k], model.get(lid, "(missing)"), impl.get(lid))
        if k < 2:
            ctx.sample({"ast": l.split("\t", 2)[2], "impl": impl.get(lid), "model_hex|model|spec|known|wf": model.get(lid)})
    return ast_lines, impl_lines, model


# ------------------------------------------------------------------------------- raw / malformed rgce
PTGS = [0x01, 0x03, 0x05, 0x08, 0x0F, 0x10, 0x11, 0x12, 0x13, 0x14, 0x15, 0x16, 0x17, 0x18, 0x19, 0x1C, 0x1D, 0x1E,
        0x1F, 0x20, 0x40, 0x21, 0x41, 0x22, 0x42, 0x62, 0x23, 0x43, 0x24, 0x44, 0x64, 0x25, 0x45, 0x26, 0x29, 0x49,
        0x2A, 0x2B, 0x2C, 0x2D, 0x39, 0x59, 0x79, 0x3A, 0x5A, 0x3B, 0x7B, 0x3C, 0x3D, 0x02, 0x00, 0xFF]


def rand_token(rng, fmt):
    p = rng.choice(PTGS)
    rb = 2 if fmt == "xls" else 4
    def by(n):
        return bytes(rng.randrange(256) if rng.random() < 0.5 else rng.choice([0, 1, 2, 255]) for _ in range(n))
    if p in (0x24, 0x44, 0x64):
        body = by(rb + 2)
    elif p in (0x25, 0x45):
        body = by(2 * rb + 4)
    elif p in (0x3A, 0x5A):
        body = bytes([rng.randrange(4), 0]) + by(rb + 2)
    elif p in (0x3B, 0x7B):
        body = bytes([rng.randrange(4), 0]) + by(2 * rb + 4)
    elif p in (0x3C,):
        body = bytes([rng.randrange(4), 0]) + by(rb + 2)
    elif p in (0x3D,):
        body = bytes([rng.randrange(4), 0]) + by(2 * rb + 4)
    elif p == 0x17:
        n = rng.randrange(0, 6)
        if fmt == "xls":
            fl = rng.choice([0, 0, 1, 2, 3])
            body = bytes([n, fl]) + by(n * (2 if (fl & 1 and rng.random() < 0.5) else 1))
        else:
            lead = rng.choice([b"", b"", b"\xff\xfe", b"\xfe\xff", b"\xef\xbb\xbf\xbf", b"\xef\xbb"])
            chars = lead + by(2 * n)
            chars = chars[: 2 * (len(chars) // 2)]
            if rng.random() < 0.3:   # surrogates
                chars += rng.choice([b"\x00\xd8\x00\xdc", b"\x00\xd8", b"\x00\xdc", b"\x3d\xd8\x00\xde", b"\x00\xd8\x41\x00"])
            body = struct.pack("<H", len(chars) // 2) + chars
    elif p == 0x19:
        et = rng.choice([1, 2, 4, 8, 0x10, 0x10, 0x20, 0x21, 0x40, 0x41, 0x80, 0x03])
        if et == 4:
            body = bytes([et]) + struct.pack("<H", rng.randrange(0, 3)) + by(rng.randrange(0, 10))
        elif et in (0x40, 0x41):
            body = bytes([et, rng.randrange(0, 8), rng.randrange(0, 4)])
        else:
            body = bytes([et]) + by(2)
    elif p == 0x18:
        body = (bytes([rng.choice([0x19, 0x1D, 0x00])]) + by(rng.choice([4, 12]))) if fmt == "xlsb" else by(5)
    elif p == 0x1C:
        body = bytes([rng.choice([0, 7, 15, 23, 29, 36, 42, 43, 1, 255])])
    elif p == 0x1D:
        body = bytes([rng.choice([0, 1, 2, 255])])
    elif p == 0x1E:
        body = by(2)
    elif p == 0x1F:
        body = struct.pack("<Q", f64_bits(rng))
    elif p in (0x20, 0x40):
        body = by(7 if fmt == "xls" else 14)
    elif p in (0x21, 0x41):
        body = struct.pack("<H", rng.choice([rng.randrange(0, 485), 484, 485, 486, 10, 19, 34, 35, 65535]))
    elif p in (0x22, 0x42, 0x62):
        body = bytes([rng.choice([0, 1, 2, 3, 0x81, 255])]) + struct.pack("<H", rng.choice([rng.randrange(0, 485), 484, 485, 0x8004, 4, 0, 255]))
    elif p in (0x23, 0x43):
        body = struct.pack("<I", rng.choice([0, 1, 2, 3, 4, U32]))
    elif p in (0x29, 0x49):
        inner = b"".join(rand_token(rng, fmt) for _ in range(rng.randrange(0, 3)))
        ln = len(inner) if rng.random() < 0.8 else rng.choice([0, len(inner) + 1, 65535])
        body = struct.pack("<H", ln) + inner
    elif p in (0x2A,):
        body = by(rb + 2)
    elif p in (0x2B,):
        body = by(2 * rb + 4)
    elif p in (0x39, 0x59, 0x79):
        body = by(6)
    elif p == 0x01:
        body = by(4)
    else:
        body = b""
    return bytes([p]) + body


def raw_env(rng, fmt):
    sheets = rng.sample(["S1", "Sheet2", "Ünï", "数"], rng.randrange(0, 4))
    names = rng.sample(["n1", "名", "total"], rng.randrange(0, 3))
    a = [names_arg(sheets), names_arg(names)]
    if fmt == "xls":
        xt = [(0, rng.choice([0, 1, 2, 3, 65535, 65534, 32768]), 0) for _ in range(rng.randrange(0, 4))]
        a.append(",".join("%d:%d:%d" % t for t in xt) if xt else "-")
    return a


def run_raw(ctx, fmt, n, tag, seeds):
    """random token soups, truncations and byte mutations of valid encodings (seeds: hex strings)"""
    rng = ctx.rng
    lines = []
    for k in range(n):
        mode = rng.randrange(10)
        if mode < 5 or not seeds:
            rg = b"".join(rand_token(rng, fmt) for _ in range(rng.randrange(0, 7)))
            if fmt == "xls":
                cce = len(rg) if rng.random() < 0.85 else rng.choice([0, max(0, len(rg) - 1), len(rg) + 1, 65535])
                data = struct.pack("<H", cce) + rg
                if rng.random() < 0.03:
                    data = data[: rng.randrange(0, 3)]
            else:
                data = rg
            kind = "soup"
        else:
            data = bytearray(bytes.fromhex(rng.choice(seeds)))
            if mode < 7 and len(data) > 0:
                data = data[: rng.randrange(0, len(data) + 1)]
                if fmt == "xls" and len(data) >= 2 and rng.random() < 0.7:
                    data[0:2] = struct.pack("<H", len(data) - 2)
                kind = "truncate"
            else:
                for _ in range(rng.randrange(1, 4)):
                    if data:
                        data[rng.randrange(len(data))] = rng.choice([0, 1, 255, 0x80, rng.randrange(256)])
                kind = "flip"
            data = bytes(data)
        ctx.count("%s:raw:%s" % (fmt, kind))
        lines.append("%s%d\tptg\t%s\t%s\t%s" % (tag, k, fmt, "\t".join(raw_env(rng, fmt)), data.hex()))
    impl, model = ctx.run_both(lines)
    for l in lines:
        lid = l.split("\t", 1)[0]
        i, m = impl.get(lid), model.get(lid)
        ctx.traces += 1
        ctx.count("%s:raw_outcome:%s" % (fmt, (i or "?").split(":")[0]))
        if i != m:
            ctx.disagreements.append({"function": "%s::parse_formula (raw bytes)" % fmt, "case": l, "impl": i, "model": m})
        elif i and i.startswith("ok:") and len(i) > 3:
            ctx.nontrivial(l.split("\t", 2)[2])


# ------------------------------------------------------------------------------- corpus
def corpus(ctx):
    """witnesses of the repaired defects F1, F18, F19, F20, F28 (must now agree with the spec) and of
    the known classes (must still fail, as the refutation lemmas say)"""
    xenv = [names_arg(["S0", "S1", "S2"]), names_arg(["nm"]), "0:2:2,0:0:0"]
    benv = [names_arg(["S0", "S1", "S2"]), names_arg(["nm"])]
    cases = [
        ("xls", xenv, "ref r 0 26 1 1"),                          # F1: AA1
        ("xls", xenv, "ref r 0 702 1 1"),                         # F1: AAA1
        ("xls", xenv, "ref v 0 1 1 0"),                           # F18: $B1
        ("xls", xenv, "ref v 0 1 0 1"),                           # F18: B$1
        ("xlsb", benv, "ref v 0 1 1 0"),
        ("xls", xenv, "ref3 r 0 0 1 1 1"),                        # F19: S2!B1
        ("xls", xenv, "area r 0 0 1 1 1 1 1 1"),                  # F20: A1:B2
        ("xls", xenv, "area3 r 0 0 0 1 1 1 1 0 0"),               # F20: S2!A1:$B$2 through the XTI table
        ("xlsb", benv, "area3 r 2 0 0 1 1 1 16383 0 0"),
        ("xls", xenv, "fvar v 4 3 ref r 0 0 1 1 miss int 7"),     # SUM(A1,,7)
        ("xls", xenv, "func v 1 3 bool 1 int 5 func v 19 0"),     # IF(TRUE,5,PI())
        ("xls", xenv, "str 1 97.98"),                             # former K_STR_WIDE witness (fixed by a3d91ee)
        ("xls", xenv, "str 1 97"),
        ("xls", xenv, "str 1 20013.128512.34.65279"),             # wide, astral (surrogate pair), quote, U+FEFF
        ("xls", xenv, "bin 8 str 1 26085.26412 ref r 0 0 1 1"),    # tokens after a wide string stay in sync
        ("xls", xenv, "str 0 97.34.98"),                          # former K_STR_QUOTE witness (fixed by 6ef7f34)
        ("xlsb", benv, "str 0 97.34.98"),
        ("xlsb", benv, "str 0 34.34.128512.34"),
        ("xlsb", benv, "str 0 65279.97"),                         # BOM-like first character (fixed by 98c2838)
    ]
    ast_lines, impl_lines = [], []
    for k, (fmt, env, ast) in enumerate(cases):
        ast_lines.append("k%d\tptg_ast\t%s\t%s\t%s" % (k, fmt, "\t".join(env), ast))
    model = ctx.run_model(ast_lines)
    for k, (fmt, env, ast) in enumerate(cases):
        hexb = model.get("k%d" % k, "").split("|", 1)[0]
        impl_lines.append("k%d\tptg\t%s\t%s\t%s" % (k, fmt, "\t".join(env), hexb))
    # F28: PtgFunc with iftab == 485 must be an error, not a panic (raw)
    impl_lines.append("k28a\tptg\txls\t-\t-\t-\t" + (struct.pack("<H", 3) + bytes([0x21]) + struct.pack("<H", 485)).hex())
    impl_lines.append("k28b\tptg\txlsb\t-\t-\t" + (bytes([0x21]) + struct.pack("<H", 485)).hex())
    impl = ctx.run_impl(impl_lines)
    m2 = ctx.run_model(impl_lines[-2:])
    for k, (fmt, env, ast) in enumerate(cases):
        lid = "k%d" % k
        classify_ast(ctx, fmt, lid, ast_lines[k], impl_lines[k], model.get(lid, "(missing)"), impl.get(lid))
    for lid in ("k28a", "k28b"):
        ctx.traces += 1
        if impl.get(lid) != m2.get(lid):
            ctx.disagreements.append({"function": "parse_formula (F28 witness)", "case": lid,
                                      "impl": impl.get(lid), "model": m2.get(lid)})
        if impl.get(lid) != "err":
            ctx.violations.append({"case": [l for l in impl_lines if l.startswith(lid)][0], "expected": "err",
                                   "actual": impl.get(lid), "model": m2.get(lid),
                                   "what": "PtgFunc with iftab == FTAB_LEN must be rejected, not panic (F28)"})


# ------------------------------------------------------------------------------- end to end (.xls files)
def run_files(ctx, n, ftab_argc):
    """generated .xls files through the public API: Xls::worksheet_formula must return, for every
    sheet, the tight rectangle of the formula cells with each formula's A1 text (the Coq spec's
    rendering) at its absolute position and "" everywhere else."""
    import shutil
    from props import c14_xlsfile as xf
    rng = ctx.rng
    tmp = os.path.join(vlib.CACHE, "tmp", "c14")
    shutil.rmtree(tmp, ignore_errors=True)
    os.makedirs(tmp, exist_ok=True)
    g = Gen(ctx, "xls", ftab_argc)
    books, ast_lines = [], []
    for k in range(n):
        g.env()
        g.names = [x for x in g.names if all(ord(ch) < 256 for ch in x)]
        ea = g.env_args()
        sheets = []
        for si in range(len(g.sheets)):
            br, bc = rng.choice([0, 0, 3, 65535 - 40, rng.randrange(0, 65000)]), rng.choice([0, 0, 2, 255 - 12, rng.randrange(0, 240)])
            poss = sorted(set((br + rng.randrange(0, 40), bc + rng.randrange(0, 12)) for _ in range(rng.choice([0, 1, 2, 3, 6]))))
            slots = []
            for (r, c) in poss:
                lid = "fa%d_%d_%d" % (k, si, len(slots))
                ast_lines.append("%s\tptg_ast\txls\t%s\t%s" % (lid, "\t".join(ea), g.expr(rng.choice([0, 1, 2, 3]))))
                slots.append((r, c, lid))
            sheets.append(slots)
        books.append((list(g.sheets), list(g.names), list(g.xtis), sheets))
    model = ctx.run_model(ast_lines)
    impl_lines, expected = [], {}
    for k, (snames, names, xtis, sheets) in enumerate(books):
        fbs, exps = [], []
        for slots in sheets:
            fl, ex = [], []
            for (r, c, lid) in slots:
                parts = model.get(lid, "").split("|")
                if len(parts) != 5 or parts[4] != "1" or parts[3] != "-" or len(parts[0]) // 2 > 8000:
                    continue                      # outside the theorem's domain: leave the cell out
                fl.append((r, c, bytes.fromhex(parts[0])))
                ex.append((r, c, parts[2]))
            fbs.append(fl)
            exps.append(ex)
        data = xf.cfb_write([("Workbook", xf.workbook_stream(snames, names, xtis, fbs))])
        path = os.path.join(tmp, "b%d.xls" % k)
        with open(path, "wb") as f:
            f.write(data)
        for si, ex in enumerate(exps):
            lid = "ff%d_%d" % (k, si)
            impl_lines.append("%s\txlsformula\t%s\t%s" % (lid, path, hx(snames[si])))
            if not ex:
                expected[lid] = "ok:empty"
            else:
                r0, r1 = min(e[0] for e in ex), max(e[0] for e in ex)
                c0, c1 = min(e[1] for e in ex), max(e[1] for e in ex)
                m = {(e[0], e[1]): e[2] for e in ex}
                cells = [(m.get((r, c), "") or ".") for r in range(r0, r1 + 1) for c in range(c0, c1 + 1)]
                expected[lid] = "ok:%d,%d,%d,%d|%s" % (r0, c0, r1, c1, ";".join(cells))
            ctx.count("file:formulas_per_sheet:%d" % len(ex))
    impl = ctx.run_impl(impl_lines)
    for l in impl_lines:
        lid = l.split("\t", 1)[0]
        ctx.traces += 1
        if impl.get(lid) != expected[lid]:
            ctx.violations.append({"case": l, "expected": expected[lid], "actual": impl.get(lid), "model": None,
                                   "what": "Xls::worksheet_formula on a generated file: formula cells must sit at their absolute position with the A1 text, every other cell empty"})
        elif expected[lid] != "ok:empty":
            ctx.nontrivial("file:" + expected[lid])
    ctx.sample({"case": impl_lines[0] if impl_lines else None, "impl": impl.get(impl_lines[0].split("\t", 1)[0]) if impl_lines else None})
    ctx.extra["generated_files"] = len(books)



def load_ftab():
    src = os.path.join(os.environ.get("VERIF_REPO", "/repo"), "src", "utils.rs")
    _, _, argc = gen_tables.extract(src)
    return argc


def run(ctx):
    argc = load_ftab()
    corpus(ctx)
    run_columns(ctx)
    run_a1(ctx)
    seeds = {"xls": [], "xlsb": []}
    for fmt in ("xls", "xlsb"):
        _, impl_lines, model = run_ast_batch(ctx, fmt, ctx.scale(5000, 100000), fmt[-1] + "a", argc)
        seeds[fmt] = [l.split("\t")[-1] for l in impl_lines[:400] if l.split("\t")[-1]]
    for fmt in ("xls", "xlsb"):
        run_raw(ctx, fmt, ctx.scale(6000, 120000), fmt[-1] + "r", seeds[fmt])
    run_files(ctx, ctx.scale(150, 2000), argc)


def search(ctx):
    argc = load_ftab()
    for fmt in ("xls", "xlsb"):
        _, impl_lines, _ = run_ast_batch(ctx, fmt, ctx.scale(50000, 300000), fmt[-1] + "s", argc)
        run_raw(ctx, fmt, ctx.scale(30000, 200000), fmt[-1] + "q", [l.split("\t")[-1] for l in impl_lines[:400]])


def replay(ctx, rep):
    case = rep.get("case")
    print("replaying:", case)
    impl, model = ctx.run_both([case])
    lid = case.split("\t", 1)[0]
    print("impl    :", impl.get(lid))
    print("model   :", model.get(lid))
    print("expected:", rep.get("expected"))
    return 0 if impl.get(lid) == rep.get("expected") else 1
