(* Property C18 — VBA modules are extracted byte-exact from the compressed project.
   This file contains only the property theorems (closed by [exact]), [Check] pins of the main
   statements, non-vacuity examples and [Print Assumptions].
   Model, spec and encoder: Ovba.v (compression), OvbaDir.v (dir stream, project);
   proofs: Ovba_proofs.v, OvbaDir_proofs.v. *)
From Calamine Require Import Prelude Ovba Ovba_proofs OvbaDir OvbaDir_proofs.
Open Scope N_scope.

(* Decompression inverts every valid compressed container: any list of valid chunks (raw chunks
   and token chunks mixing literal and copy tokens within the format's limits, any number of
   4096-byte chunks) written by the MS-OVBA container writer is decompressed by the model of
   cfb::decompress_stream to exactly the bytes the tokens mean.  No class of valid containers is
   excepted any more ([known_C18] is constantly [None]). *)
Theorem C18_decompress_inverts_encode :
  forall cs : list chunk,
    Forall valid_chunk cs -> known_C18 cs = None ->
    decompress (ovba_encode cs) = Ok (concat (map sem_chunk cs)).
Proof. exact decompress_encode. Qed.

(* the same with the fuel stated: any fuel not below the container length suffices … *)
Theorem C18_decompress_inverts_encode_fuel :
  forall (cs : list chunk) (fuel : nat),
    Forall valid_chunk cs -> known_C18 cs = None ->
    (length (ovba_encode cs) <= fuel)%nat ->
    decompress_fuel fuel (ovba_encode cs) = Ok (sem cs).
Proof. exact decompress_encode_fuel. Qed.

(* … and on EVERY input (malformed ones included) the fuel [decompress] uses is enough *)
Theorem C18_decompress_never_out_of_fuel :
  forall s : list N, decompress s <> OutOfFuel.
Proof. exact decompress_no_fuel. Qed.

(* totality (for property C06 as well): on EVERY input — no well-formedness hypothesis, not even
   that the elements are bytes — the model of decompress_stream neither panics nor runs out of
   the fuel [length s] it is given, and a successful decompression is at most 4096 bytes per
   chunk header processed ([n_chunks s], at most (|s| - 1) / 2 of them): no unbounded
   expansion.  The remaining [Panic] sites of the model (the [unwrap] of the bit-count search,
   [buf[..offset]], [buf[..len]], the slices of the copy) are thereby proved unreachable. *)
Theorem C18_no_panic_decompress :
  forall s : list N,
    decompress s <> Panic /\ decompress s <> OutOfFuel /\
    (forall out : list N, decompress s = Ok out ->
       N.of_nat (length out) <= 4096 * N.of_nat (n_chunks s)) /\
    (2 * n_chunks s <= length s - 1)%nat.
Proof. exact decompress_total. Qed.

(* the same for the project reader: EVERY dir stream and EVERY container (missing streams,
   malformed compression, truncated or corrupt dir records, lengths and skips beyond the
   stream, text offsets beyond the module stream) is answered by Ok or an error, for every
   code-page decoder *)
Theorem C18_no_panic_dir :
  forall (decode : N -> list N -> list N),
    (forall s : list N, parse_dir decode s <> Panic /\ parse_dir decode s <> OutOfFuel) /\
    (forall streams : list (list N * list N),
       vba_project decode streams <> Panic /\ vba_project decode streams <> OutOfFuel) /\
    (forall (s : list N) (off : N),
       module_content s off <> Panic /\ module_content s off <> OutOfFuel).
Proof. exact dir_total. Qed.
(* inputs on which the code used to panic, and the chunk count of the example container *)
Example C18_no_panic_nonvacuous :
  decompress [] = Err E_TRUNCATED /\
  decompress [1; 5] = Err E_TRUNCATED /\
  decompress [1; 0; 0] = Err E_CHUNK_SIGNATURE /\
  decompress [1; 255; 63; 1; 2] = Err E_TRUNCATED /\
  decompress [1; 2; 176; 1; 0; 0] = Err E_COPY_OFFSET /\
  decompress [1; 3; 176; 2; 65; 255; 15] = Err E_CHUNK_OUTPUT /\
  n_chunks (ovba_encode example_chunks) = 5%nat /\
  parse_dir dec_id [1; 2; 3] = Err E_IO /\
  module_content [1; 2] 5 = Err E_TRUNCATED /\
  vba_project dec_id [(DIR_NAME, [1; 2; 176; 0; 7; 8])] = Err E_IO.
Proof. exact ex_malformed_outcomes. Qed.

(* the encoder really emits bytes, so the containers of the main theorem are byte strings *)
Theorem C18_encoder_emits_bytes :
  forall cs : list chunk, Forall valid_chunk cs -> Forall (fun b => b < 256) (ovba_encode cs).
Proof. exact encode_bytes. Qed.

(* copy tokens: at every position of a chunk the code's field extraction inverts MS-OVBA's
   packing, for every offset and length the format allows there *)
Theorem C18_copy_token_codec :
  forall pos off len : N,
    1 <= pos <= 4096 -> 1 <= off <= pos -> 3 <= len <= max_len pos ->
    pack pos off len < 65536 /\
    copy_token_fields pos (pack pos off len) = Ok (len, off).
Proof. exact copy_token_codec. Qed.

(* the bit count found by the code's search through POWER_2 is MS-OVBA's
   max(ceil(log2(position)), 4), powers of two included, as long as the search succeeds at all *)
Theorem C18_bit_count_is_msovba :
  forall d : N, d <= 32768 -> bit_count_of d = Some (spec_bit_count d).
Proof. exact bit_count_of_spec. Qed.

(* the copy loop through the 4096-byte scratch buffer equals the byte-by-byte copy, overlapping
   source and destination included *)
Theorem C18_overlap_copy_is_bytewise :
  forall (l : list N) (off len : N),
    1 <= off <= N.of_nat (length l) -> off <= 4096 -> 1 <= len ->
    (do (len', res1) <- copy_loop (N.to_nat len) len off (vec_of l); copy_tail len' off res1)
    = Ok (vec_of (copy_bytes (N.to_nat len) (N.to_nat off) l)).
Proof. exact overlap_copy_is_bytewise. Qed.

(* a module's raw content is the decompression of its stream from the recorded text offset,
   whatever precedes the container in the stream *)
Theorem C18_module_from_offset :
  forall (pcode : list N) (cs : list chunk),
    Forall valid_chunk cs -> known_C18 cs = None ->
    module_content (pcode ++ ovba_encode cs) (N.of_nat (length pcode)) = Ok (sem cs).
Proof. exact module_content_roundtrip. Qed.

(* the dir stream: for every project description whose fields fit their size fields, written
   record by record as MS-OVBA 2.3.4.2 prescribes (optional PROJECTCOMPATVERSION; references of
   the three kinds, each WITH OR WITHOUT its optional NameRecord (2.3.4.2.2.1), REFERENCECONTROL
   with or without REFERENCEORIGINAL and extended name; modules WITH OR WITHOUT their optional
   MODULENAMEUNICODE record (2.3.4.2.3.2; [ms_name_u m = None] = not written) and with optional
   read-only / private records), the three passes of vba.rs return the code page, the references with their
   names (description and path as the libid texts say; a reference without NameRecord is listed
   with the empty name) and the modules with name (the MODULENAME text, whether or not the
   Unicode twin is there), stream name and text offset — for every code-page decoder.  No class of descriptions is excepted (the former known class 1, a
   REFERENCE without NameRecord, was repaired in vba.rs). *)
Theorem C18_dir_roundtrip :
  forall (decode : N -> list N -> list N) (p : proj) (refs : list reference),
    valid_projb p = true ->
    expected_refs decode (p_codepage p) (p_refs p) = Some refs ->
    parse_dir decode (encode_dir p)
    = Ok (p_codepage p, refs, map (expected_mod decode (p_codepage p)) (p_mods p)).
Proof. exact dir_roundtrip. Qed.

(* one MODULE record of the dir stream (MS-OVBA 2.3.4.2.3.2: MODULENAME [MODULENAMEUNICODE]
   MODULESTREAMNAME MODULEDOCSTRING MODULEOFFSET MODULEHELPCONTEXT MODULECOOKIE MODULETYPE
   [MODULEREADONLY] [MODULEPRIVATE] Terminator): for every module description whose fields fit
   their size fields — [ms_name_u m] is [Some _] (the record 0x0047 is written) or [None] (it is
   not) — and whatever follows it, read_modules' loop body returns the module with the decoded
   MODULENAME text, the decoded stream name and the text offset, and stops exactly behind the
   record *)
Theorem C18_module_record_roundtrip :
  forall (decode : N -> list N -> list N) (cp : N) (m : mod_spec) (rest : list N),
    valid_modb m = true ->
    read_module decode cp (enc_mod m ++ rest) = Ok (expected_mod decode cp m, rest).
Proof. exact read_module_enc. Qed.
(* non-vacuity: the same module written without and with the MODULENAMEUNICODE record (the two
   streams differ by exactly the 8 bytes of that record) reads as the same module; the two
   short-stream edges of the [starts_with] test; a dir stream whose only module lacks it *)
Example C18_module_without_name_unicode_nonvacuous :
  valid_modb ex_mod_plain = true /\ valid_modb ex_mod_uni = true /\
  ms_name_u ex_mod_plain = None /\ ms_name_u ex_mod_uni = Some [77; 0] /\
  firstn 14 (enc_mod ex_mod_plain) = [25; 0; 1; 0; 0; 0; 77; 26; 0; 1; 0; 0; 0; 83] /\
  firstn 22 (enc_mod ex_mod_uni)
  = [25; 0; 1; 0; 0; 0; 77; 71; 0; 2; 0; 0; 0; 77; 0; 26; 0; 1; 0; 0; 0; 83] /\
  skipn 7 (enc_mod ex_mod_plain) = skipn 15 (enc_mod ex_mod_uni) /\
  read_module dec_id 1252 (enc_mod ex_mod_plain ++ [9]) = Ok (mkmod [77] [83] 5, [9]) /\
  read_module dec_id 1252 (enc_mod ex_mod_uni ++ [9]) = Ok (mkmod [77] [83] 5, [9]) /\
  read_module dec_id 1252 [25; 0; 1; 0; 0; 0; 77; 71] = Err E_IO /\
  read_module dec_id 1252 [25; 0; 1; 0; 0; 0; 77; 71; 1; 0; 0; 0; 0] = Err E_RECORD_ID /\
  parse_dir dec_id (encode_dir (mkproj 1 None 1033 1033 1252 [86] [] [] [] [] 0 0 1 2 [] [] []
                                  [ex_mod_plain] 0))
  = Ok (1252, [], [mkmod [77] [83] 5]).
Proof.
  destruct module_without_name_unicode_reads as (H1 & H2 & H3).
  split; [exact H1|]. split; [exact H2|]. split; [reflexivity|]. split; [reflexivity|]. exact H3.
Qed.

(* the whole project: dir stream under ANY valid compression, every module stream = any
   performance cache of [offset] bytes followed by ANY valid compression of its source:
   VbaProject::from_cfb returns the references and, module by module, the decoded name with
   exactly the bytes its tokens mean *)
Theorem C18_vba_project_roundtrip :
  forall (decode : N -> list N -> list N) (p : proj) (dir_chunks : list chunk)
         (mbs : list (mod_spec * mod_body)) (refs : list reference),
    valid_projb p = true ->
    expected_refs decode (p_codepage p) (p_refs p) = Some refs ->
    Forall valid_chunk dir_chunks -> known_C18 dir_chunks = None ->
    sem dir_chunks = encode_dir p ->
    p_mods p = map fst mbs ->
    Forall body_ok mbs ->
    NoDup (stream_keys (project_streams decode p dir_chunks mbs)) ->
    vba_project decode (project_streams decode p dir_chunks mbs)
    = Ok (mkproject (p_codepage p) refs
            (map (fun mb => (decode (p_codepage p) (ms_name (fst mb)), sem (mb_chunks (snd mb))))
                 mbs)).
Proof. exact vba_project_roundtrip. Qed.

(* CFB-1 (audit 2): compound-file names compare up to the case of their ASCII letters ([MS-CFB] 2.6.4;
   Cfb::find since the fix).  [stream_keys]: the names of one storage are distinct up to case.
   [respelled l l']: the same streams, every name in another case spelling.  The project reader
   does not see the difference, so the round trip holds for a container that stores dir, the
   module streams … under ANY case spelling (DIR, MODULE1 for the recorded Module1, …) *)
Theorem C18_vba_project_respelled :
  forall (decode : N -> list N -> list N) (l l' : list (list N * list N)),
    respelled l l' -> vba_project decode l = vba_project decode l'.
Proof. exact vba_project_respelled. Qed.

Theorem C18_vba_project_roundtrip_any_case :
  forall (decode : N -> list N -> list N) (p : proj) (dir_chunks : list chunk)
         (mbs : list (mod_spec * mod_body)) (refs : list reference) (streams : list (list N * list N)),
    valid_projb p = true ->
    expected_refs decode (p_codepage p) (p_refs p) = Some refs ->
    Forall valid_chunk dir_chunks -> known_C18 dir_chunks = None ->
    sem dir_chunks = encode_dir p ->
    p_mods p = map fst mbs ->
    Forall body_ok mbs ->
    NoDup (stream_keys (project_streams decode p dir_chunks mbs)) ->
    respelled (project_streams decode p dir_chunks mbs) streams ->
    vba_project decode streams
    = Ok (mkproject (p_codepage p) refs
            (map (fun mb => (decode (p_codepage p) (ms_name (fst mb)), sem (mb_chunks (snd mb))))
                 mbs)).
Proof. exact vba_project_roundtrip_any_case. Qed.

(* get_module: for EVERY decoder and on EVERY container the project reader accepts, the text
   returned for a module name is the decoder of the project's code page (the one read from the
   PROJECTCODEPAGE record of the decompressed dir stream) applied to exactly the bytes
   get_module_raw returns, and these are the decompression of the stream the dir stream records
   for a module of that name, taken from the text offset recorded there (offset applied to the
   compressed stream).  [decode] being arbitrary, no shortcut on the bytes themselves (such as
   returning them unchanged when they happen to be valid UTF-8) satisfies this. *)
Theorem C18_module_text_is_codepage_decoding :
  forall (decode : N -> list N -> list N) (streams : list (list N * list N)) (pj : project)
         (name text : list N),
    vba_project decode streams = Ok pj ->
    get_module decode pj name = Some text ->
    exists (dir d rest : list N) (refs : list reference) (mods : list module)
           (stream_name : list N) (off : N) (s raw : list N),
      get_stream streams DIR_NAME = Ok dir /\ decompress dir = Ok d /\
      read_dir_information d = Ok (pj_codepage pj, rest) /\
      parse_dir decode d = Ok (pj_codepage pj, refs, mods) /\
      In (mkmod name stream_name off) mods /\
      get_stream streams stream_name = Ok s /\ off <= N.of_nat (length s) /\
      decompress (skipn (N.to_nat off) s) = Ok raw /\
      get_module_raw (pj_modules pj) name = Some raw /\
      text = decode (pj_codepage pj) raw.
Proof. exact module_text_is_codepage_decoding. Qed.

(* … and on the containers of C18_vba_project_roundtrip with distinct module names, every module
   is found under its decoded name; its raw content is what its tokens mean and its text the
   decoding of exactly these bytes with the project's code page *)
Theorem C18_module_text_roundtrip :
  forall (decode : N -> list N -> list N) (p : proj) (dir_chunks : list chunk)
         (mbs : list (mod_spec * mod_body)) (refs : list reference) (mb : mod_spec * mod_body),
    valid_projb p = true ->
    expected_refs decode (p_codepage p) (p_refs p) = Some refs ->
    Forall valid_chunk dir_chunks -> known_C18 dir_chunks = None ->
    sem dir_chunks = encode_dir p ->
    p_mods p = map fst mbs ->
    Forall body_ok mbs ->
    NoDup (stream_keys (project_streams decode p dir_chunks mbs)) ->
    NoDup (map (fun mb => decode (p_codepage p) (ms_name (fst mb))) mbs) ->
    In mb mbs ->
    exists pj : project,
      vba_project decode (project_streams decode p dir_chunks mbs) = Ok pj /\
      get_module_raw (pj_modules pj) (decode (p_codepage p) (ms_name (fst mb)))
      = Some (sem (mb_chunks (snd mb))) /\
      get_module decode pj (decode (p_codepage p) (ms_name (fst mb)))
      = Some (decode (p_codepage p) (sem (mb_chunks (snd mb)))).
Proof. exact module_text_roundtrip. Qed.

(* the fuel used by the loops of the project reader is enough on every container, malformed
   ones included: the model never answers OutOfFuel *)
Theorem C18_vba_project_never_out_of_fuel :
  forall (decode : N -> list N -> list N) (streams : list (list N * list N)),
    vba_project decode streams <> OutOfFuel.
Proof. exact vba_project_no_fuel. Qed.

(* get_module_raw finds every module under its name when the names are distinct (BTreeMap) *)
Theorem C18_module_lookup :
  forall (ms : list (list N * list N)) (n c : list N),
    NoDup (map fst ms) -> In (n, c) ms -> get_module_raw ms n = Some c.
Proof. exact get_module_raw_in. Qed.

(* the libid text "…#path#description": description = after the last '#', path = between the
   last two; no '#' at all is the LibId error *)
Theorem C18_libid_split :
  forall a path desc : list N, ~ In 35 path -> ~ In 35 desc ->
    rsplit2 (a ++ 35 :: path ++ 35 :: desc) = Some (desc, path).
Proof. exact rsplit2_spec. Qed.
Theorem C18_libid_no_hash :
  forall l : list N, ~ In 35 l -> rsplit2 l = None.
Proof. exact rsplit2_no_hash. Qed.

(* non-vacuity: raw chunk, a chunk of exactly 8 tokens followed by others, overlapping copies,
   chunks reaching exactly 4096 bytes, a short final chunk *)
Example C18_decompress_nonvacuous :
  Forall valid_chunk example_chunks /\ known_C18 example_chunks = None.
Proof. exact example_valid. Qed.
Example C18_example_runs_nonvacuous :
  decompress (ovba_encode example_chunks) = Ok (sem example_chunks) /\
  length (sem example_chunks) = N.to_nat (20 + 4096 + 4096 + 4096 + 9).
Proof. exact example_decompress. Qed.
Example C18_codec_nonvacuous :
  pack 17 17 2050 = 34815 /\ max_len 17 = 2050 /\ copy_token_fields 17 34815 = Ok (2050, 17) /\
  pack 16 16 4098 = 65535 /\ max_len 16 = 4098 /\ copy_token_fields 16 65535 = Ok (4098, 16).
Proof. exact example_codec. Qed.
Example C18_overlap_nonvacuous :
  copy_bytes 7 2 [120; 121] = [120; 121; 120; 121; 120; 121; 120; 121; 120].
Proof. exact example_overlap. Qed.

(* a project with eight references: nameless ones first, in the middle, last and two in a row,
   of all three kinds; a named one whose name is empty; two modules, the first with and the
   second WITHOUT the optional MODULENAMEUNICODE record *)
Example C18_project_nonvacuous :
  map ms_name_u (p_mods ex_proj) = [Some [77; 0; 49; 0]; None] /\
  valid_projb ex_proj = true /\
  (exists refs, expected_refs dec_id 1252 (p_refs ex_proj) = Some refs /\ length refs = 8%nat) /\
  Forall valid_chunk ex_dir_chunks /\ sem ex_dir_chunks = encode_dir ex_proj /\
  p_mods ex_proj = map fst ex_bodies /\ Forall body_ok ex_bodies /\
  NoDup (stream_keys (project_streams dec_id ex_proj ex_dir_chunks ex_bodies)).
Proof. split; [reflexivity|exact ex_project_valid]. Qed.
(* the example project in a container whose writer upper-cased every stream name (DIR, …) *)
Example C18_respelled_nonvacuous :
  let up := map (fun x => (sn_key (fst x), snd x)) (project_streams dec_id ex_proj ex_dir_chunks ex_bodies) in
  respelled (project_streams dec_id ex_proj ex_dir_chunks ex_bodies) up /\
  map fst up <> map fst (project_streams dec_id ex_proj ex_dir_chunks ex_bodies) /\
  hd [] (map fst up) = [68; 73; 82] /\
  vba_project dec_id up = vba_project dec_id (project_streams dec_id ex_proj ex_dir_chunks ex_bodies).
Proof. exact ex_project_upper_case. Qed.
(* a decoder that is not the identity, distinct module names: the text is the decoding *)
Example C18_module_text_nonvacuous :
  NoDup (map (fun mb => dec_shift 1252 (ms_name (fst mb))) ex_bodies) /\
  NoDup (stream_keys (project_streams dec_shift ex_proj ex_dir_chunks ex_bodies)) /\
  exists pj, vba_project dec_shift (project_streams dec_shift ex_proj ex_dir_chunks ex_bodies) = Ok pj /\
    get_module dec_shift pj [333; 305]
    = Some [339; 373; 354; 339; 373; 354; 339; 373; 354; 266].
Proof. exact ex_project_module_text. Qed.
(* regression: the witness of the former known class 1 (REFERENCENAME std + REGISTERED, then a
   bare REGISTERED) is now read as two references, the second with the empty name *)
Example C18_nameless_reference_reads_nonvacuous :
  valid_projb ex_proj_nameless = true /\
  expected_refs dec_id 1252 (p_refs ex_proj_nameless)
  = Some [ mkref [115; 116; 100] [79; 76; 69] [67; 58; 92; 115; 46; 116; 108; 98];
           mkref [] [70; 111; 111] [68; 58; 92; 116; 46; 116; 108; 98] ] /\
  parse_dir dec_id (encode_dir ex_proj_nameless)
  = Ok (1252, [ mkref [115; 116; 100] [79; 76; 69] [67; 58; 92; 115; 46; 116; 108; 98];
                mkref [] [70; 111; 111] [68; 58; 92; 116; 46; 116; 108; 98] ], []).
Proof. exact nameless_reference_reads. Qed.

Check C18_decompress_inverts_encode :
  forall cs : list chunk,
    Forall valid_chunk cs -> known_C18 cs = None ->
    decompress (ovba_encode cs) = Ok (concat (map sem_chunk cs)).
Check C18_copy_token_codec :
  forall pos off len : N,
    1 <= pos <= 4096 -> 1 <= off <= pos -> 3 <= len <= max_len pos ->
    pack pos off len < 65536 /\ copy_token_fields pos (pack pos off len) = Ok (len, off).
Check C18_decompress_never_out_of_fuel : forall s : list N, decompress s <> OutOfFuel.
Check C18_no_panic_decompress :
  forall s : list N,
    decompress s <> Panic /\ decompress s <> OutOfFuel /\
    (forall out : list N, decompress s = Ok out ->
       N.of_nat (length out) <= 4096 * N.of_nat (n_chunks s)) /\
    (2 * n_chunks s <= length s - 1)%nat.
Check C18_dir_roundtrip :
  forall (decode : N -> list N -> list N) (p : proj) (refs : list reference),
    valid_projb p = true ->
    expected_refs decode (p_codepage p) (p_refs p) = Some refs ->
    parse_dir decode (encode_dir p)
    = Ok (p_codepage p, refs, map (expected_mod decode (p_codepage p)) (p_mods p)).
Check C18_module_record_roundtrip :
  forall (decode : N -> list N -> list N) (cp : N) (m : mod_spec) (rest : list N),
    valid_modb m = true ->
    read_module decode cp (enc_mod m ++ rest) = Ok (expected_mod decode cp m, rest).
(* the layout quantified over: the MODULENAMEUNICODE field of a module description is optional,
   the encoder writes the record 0x0047 only when it is there, validity asks nothing of an
   absent record *)
Check ms_name_u : mod_spec -> option (list N).
Check ((fun m => eq_refl) : forall m,
  enc_mod m =
  var_rec 0x0019 (ms_name m) ++
  (match ms_name_u m with Some nu => var_rec 0x0047 nu | None => [] end) ++
  var_rec 0x001A (ms_stream m) ++ var_rec 0x0032 (ms_stream_u m) ++
  var_rec 0x001C (ms_doc m) ++ var_rec 0x0048 (ms_doc_u m) ++
  le16 0x0031 ++ le32 4 ++ le32 (ms_offset m) ++
  le16 0x001E ++ le32 4 ++ le32 (ms_helpctx m) ++
  le16 0x002C ++ le32 2 ++ le16 (ms_cookie m) ++
  le16 (if ms_document m then 0x0022 else 0x0021) ++ le32 0 ++
  (if ms_readonly m then le16 0x0025 ++ le32 0 else []) ++
  (if ms_private m then le16 0x0028 ++ le32 0 else []) ++
  le16 0x002B ++ le32 0).

Print Assumptions C18_decompress_inverts_encode.
Print Assumptions C18_decompress_inverts_encode_fuel.
Print Assumptions C18_decompress_never_out_of_fuel.
Print Assumptions C18_no_panic_decompress.
Print Assumptions C18_no_panic_dir.
Print Assumptions C18_encoder_emits_bytes.
Print Assumptions C18_copy_token_codec.
Print Assumptions C18_bit_count_is_msovba.
Print Assumptions C18_overlap_copy_is_bytewise.
Print Assumptions C18_module_from_offset.
Print Assumptions C18_dir_roundtrip.
Print Assumptions C18_module_record_roundtrip.
Print Assumptions C18_vba_project_roundtrip.
Print Assumptions C18_vba_project_respelled.
Print Assumptions C18_vba_project_roundtrip_any_case.
Print Assumptions C18_module_lookup.
Print Assumptions C18_libid_split.
Print Assumptions C18_libid_no_hash.
Print Assumptions C18_module_text_is_codepage_decoding.
Print Assumptions C18_module_text_roundtrip.
Print Assumptions C18_vba_project_never_out_of_fuel.
