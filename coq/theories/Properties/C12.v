(* Property C12 — XLS strings decode identically however records are split and characters packed.
   Only the property theorems (closed by [exact]), [Check] pins of the main statements,
   non-vacuity examples and [Print Assumptions].
   Model, specification, writer: BiffSst.v; proofs: BiffSst_proofs.v. *)
From Calamine Require Import Prelude BiffSst BiffSst_proofs.
Open Scope N_scope.

(* Main statement.  For every string table (any count below 2^31, lengths 0..65535, any UTF-16
   code units, optional formatting runs and extended blocks) and every legal layout (a CONTINUE
   record may start before a string, between two characters — also between the two halves of a
   surrogate pair —, then with a fresh fHighByte flag, 8-bit only where the code units fit,
   anywhere inside rgRun/ExtRst; headers are not split), parse_sst returns the stored text of
   every string.  No layout is excepted. *)
Theorem C12_sst_any_split :
  forall strs lay, legal_layout strs lay = true ->
    parse_sst (sst_encode strs lay) = Ok (map (fun s => utf16_decode (units s)) strs).
Proof. exact sst_any_split. Qed.

(* Position invariant: reading one string consumes exactly its own bytes (header, character
   segments, rgRun, ExtRst, across all their cuts) and leaves the reader on the first byte of
   whatever follows: runs and extended data never eat into later strings. *)
Theorem C12_string_read_exact :
  forall us sl rest, legal_string us sl = true ->
    read_rich_extended_string (frags (string_items us sl ++ rest)) =
    Ok (utf16_decode us, frags rest).
Proof. exact read_string_ok. Qed.

Theorem C12_later_strings_unaffected :
  forall strs lay i s, legal_layout strs lay = true ->
    nth_error strs i = Some s ->
    exists tbl, parse_sst (sst_encode strs lay) = Ok tbl /\ length tbl = length strs /\
                nth_error tbl i = Some (utf16_decode (units s)).
Proof. exact later_strings_unaffected. Qed.

Theorem C12_layout_irrelevant :
  forall strs lay lay',
    legal_layout strs lay = true ->
    legal_layout strs lay' = true ->
    parse_sst (sst_encode strs lay) = parse_sst (sst_encode strs lay').
Proof. exact layout_irrelevant. Qed.

(* a LABELSST cell shows the text of the string it refers to (no cell for an empty string) *)
Theorem C12_labelsst_resolves :
  forall strs lay row col ixfe i s,
    legal_layout strs lay = true ->
    i <= 4294967295 -> nth_error strs (N.to_nat i) = Some s ->
    exists tbl, parse_sst (sst_encode strs lay) = Ok tbl /\
      parse_label_sst (labelsst_body row col ixfe i) tbl =
      Ok (if is_nil (units s) then None else Some (row, col, utf16_decode (units s))).
Proof. exact labelsst_resolves. Qed.

(* LABEL and formula STRING values (XLUnicodeString), sheet names (ShortXLUnicodeString) *)
Theorem C12_parse_string_ok :
  forall hb us extra, legal_xl_string hb us = true ->
    parse_string (xl_string hb us ++ extra) = Ok (utf16_decode us).
Proof. exact parse_string_ok. Qed.

Theorem C12_parse_label_ok :
  forall row col ixfe hb us, legal_xl_string hb us = true ->
    parse_label (label_body row col ixfe hb us) = Ok (Some (row, col, utf16_decode us)).
Proof. exact parse_label_ok. Qed.

Theorem C12_sheet_name_ok :
  forall pos vis typ hb us,
    pos <= 4294967295 -> vis <= 2 ->
    (typ =? 0) || (typ =? 1) || (typ =? 2) || (typ =? 6) = true ->
    legal_short_string hb us = true ->
    parse_sheet_metadata (boundsheet_body pos vis typ hb us) =
    Ok (pos, filter (fun c => negb (c =? 0)) (utf16_decode us)).
Proof. exact sheet_name_ok. Qed.

(* RecordIter hands parse_sst exactly the bodies the writer produced *)
Theorem C12_record_iter_collects :
  forall st tail,
    len (fst st) <= 65535 -> forallb (fun c => len c <=? 65535) (snd st) = true ->
    tail <> [] -> starts_continue tail = false ->
    next_record (frame_sst st ++ tail) =
    Some (Ok ((252, fst st, match snd st with [] => None | _ => Some (snd st) end), tail)).
Proof. exact next_record_sst. Qed.

(* A formula's string result (FORMULA, then STRING, then CONTINUE records).  For every string
   (length up to 65535, any UTF-16 code units) and every legal fragmentation of its character data
   over the STRING record and its CONTINUE records — a cut before any character, also between the
   two halves of a surrogate pair, empty segments allowed, every fragment with its own fHighByte
   flag byte and any 8/16-bit mixture (8-bit only where the units fit) — and whatever else sits
   in the CONTINUE queue behind the characters ([rest], e.g. flag-only CONTINUE records), the
   String (0x0207) arm of the sheet loop, given the record body and Record::cont as RecordIter
   builds it, returns the stored text.  Proved from the read_dbcs lemmas of the SST reader
   (read_dbcs_ok, the character-data part of C12_string_read_exact) — the model is shared — and
   from C12_parse_string_ok when no CONTINUE record follows. *)
Theorem C12_formula_string_any_split :
  forall us hb cuts rest, legal_fstring us hb cuts = true ->
    string_arm (fst (frags (fstring_items us hb cuts ++ rest)))
               (cont_opt (snd (frags (fstring_items us hb cuts ++ rest))))
    = Ok (utf16_decode us).
Proof. exact formula_string_any_split. Qed.

Theorem C12_formula_string_layout_irrelevant :
  forall us hb cuts hb' cuts',
    legal_fstring us hb cuts = true -> legal_fstring us hb' cuts' = true ->
    string_arm (fst (fstring_encode us hb cuts)) (cont_opt (snd (fstring_encode us hb cuts))) =
    string_arm (fst (fstring_encode us hb' cuts')) (cont_opt (snd (fstring_encode us hb' cuts'))).
Proof. exact fstring_layout_irrelevant. Qed.

(* RecordIter hands the arm exactly the STRING body and the CONTINUE bodies the writer produced
   (a record of any type followed by its CONTINUE records) *)
Theorem C12_record_iter_collects_any :
  forall t st tail,
    len (fst st) <= 65535 -> forallb (fun c => len c <=? 65535) (snd st) = true ->
    tail <> [] -> starts_continue tail = false ->
    next_record (frame_rec t st ++ tail) = Some (Ok ((t, fst st, cont_opt (snd st)), tail)).
Proof. exact next_record_conts. Qed.

(* The whole path of the observation points: Workbook stream -> RecordIter -> globals loop
   (BoundSheet8 names, SST with its CONTINUE records) -> per-sheet loop (LABELSST through the table,
   LABEL, FORMULA + STRING + CONTINUE records under any legal fragmentation of the result): sheet
   names and text cells are what the writer stored. *)
(* [cp] is the CodePage record of the globals ([MS-XLS] 2.4.52): ANY 16-bit value (Excel writes
   1200 into BIFF8 files, JExcelApi 1252 — tests/sheet_name_parsing.xls of the repository —,
   localised writers 932 / 65001 / ..., values no decoder table knows) or no record (None): BIFF8
   strings are Unicode whatever it says (2.5.240, 2.5.293, 2.5.294).  Until the repair of audit-2
   finding XLS-1 the code decoded every string of a workbook with cp <> 1200 through that code
   page, and this theorem was stated for the fixed value 1200 only. *)
Theorem C12_workbook_strings :
  forall cp strs lay shs, legal_workbook cp strs lay shs = true ->
    wb_strings (workbook_stream cp strs lay shs) = Ok (wb_spec strs shs).
Proof. exact wb_strings_ok. Qed.

(* the record decides nothing: two workbooks that differ only in it read identically, and the
   globals loop skips a CodePage record with any body of at least two bytes *)
Theorem C12_codepage_irrelevant :
  forall cp cp' strs lay shs,
    legal_workbook cp strs lay shs = true -> legal_workbook cp' strs lay shs = true ->
    wb_strings (workbook_stream cp strs lay shs) = wb_strings (workbook_stream cp' strs lay shs).
Proof. exact wb_strings_codepage_irrelevant. Qed.
Theorem C12_codepage_record_skipped :
  forall d c rest sh st, 2 <= len d ->
    wb_globals (Ok (66, d, c) :: rest) sh st = wb_globals rest sh st.
Proof. exact wb_globals_codepage_any. Qed.

(* a substream nested in a worksheet substream (the chart of an embedded chart object, whose series
   cache is made of LABEL / NUMBER / ... records) contributes no text cell and its EOF does not
   end the sheet (the sheet loop counts open substreams since the repair of audit-2 finding XLS-2) *)
Theorem C12_nested_substream_skipped :
  forall d0 c0 inner d1 c1 rest tbl fp cells,
    Forall plain_inner inner ->
    wb_sheet (Ok (2057, d0, c0) :: inner ++ Ok (10, d1, c1) :: rest) tbl fp cells 1 =
    wb_sheet rest tbl fp cells 1.
Proof. exact wb_sheet_nested_skipped. Qed.
Example C12_nested_substream_nonvacuous :
  Forall plain_inner [Ok (516, label_body 0 0 15 false [120], None); Ok (515, [], None)] /\
  wb_sheet (records (frame 2057 (bof_body 16) ++ frame 516 (label_body 0 0 15 false [97])
                     ++ frame 2057 (bof_body 32) ++ frame 516 (label_body 0 0 15 false [120])
                     ++ frame 515 [] ++ frame 10 []
                     ++ frame 516 (label_body 1 0 15 false [98]) ++ frame 10 []))
           [] (0, 0) [] 0 = Ok [(0, 0, [97]); (1, 0, [98])].
Proof.
  split; [|vm_compute; reflexivity].
  repeat constructor; eexists; eexists; eexists; (split; [reflexivity|split; discriminate]).
Qed.

(* the decoder state machine of encoding_rs run on the bytes of a unit sequence is UTF-16 decoding;
   fed segment by segment (one decoder per string, as read_dbcs does) and then finished it yields
   the decoding of the whole string; decoding each segment on its own (what read_dbcs did before)
   agrees with that unless a cut separates a surrogate pair *)
Theorem C12_segment_decoder :
  forall us, all_lt 65536 us = true -> enc_decode (flat_map le16 us) = utf16_decode us.
Proof. exact enc_decode_le16. Qed.
Theorem C12_decoder_chunks :
  forall be a b lb ls,
    utf16_sm be (a ++ b) lb ls =
    fst (utf16_feed be a lb ls) ++
    utf16_sm be b (fst (snd (utf16_feed be a lb ls))) (snd (snd (utf16_feed be a lb ls))).
Proof. exact sm_feed_app. Qed.
Theorem C12_decode_app :
  forall a b, ends_high a && starts_low b = false ->
    utf16_decode (a ++ b) = utf16_decode a ++ utf16_decode b.
Proof. exact decode_app. Qed.

(* OutOfFuel is not an outcome of the parse_sst model, on any input: the fuel it carries is no
   restriction (every successful string read consumes at least 3 bytes) *)
Theorem C12_sst_fuel_suffices : forall st, parse_sst st <> OutOfFuel.
Proof. exact sst_fuel_suffices. Qed.

(* Totality (for C06): no well-formedness hypothesis.  parse_sst on any record body and any list
   of CONTINUE bodies ends with Ok or Err — no panic site is reachable (negative or huge count, a
   fragment ending inside cRun / cbExtRst, an empty CONTINUE where the flag byte is read, short
   records), the fuel 1 + (bytes of the record and its CONTINUE records) suffices, and the capacity
   reserved before reading anything is at most a third of those bytes. *)
Theorem C12_no_panic_parse_sst :
  forall data conts,
    parse_sst (data, conts) <> Panic /\
    parse_sst (data, conts) <> OutOfFuel /\
    3 * sst_capacity_request (data, conts) <= N.of_nat (total_bytes (data, conts)).
Proof. exact no_panic_parse_sst. Qed.
Theorem C12_no_panic_short_string :
  forall data, parse_short_string data <> Panic /\ parse_short_string data <> OutOfFuel.
Proof. exact no_panic_short_string. Qed.
(* RecordIter on any stream: each step and the whole iteration (fuel 1 + length of the stream) *)
Theorem C12_no_panic_record_iter :
  forall stream,
    next_record stream <> Some Panic /\ next_record stream <> Some OutOfFuel /\
    ~ In Panic (records stream) /\ ~ In OutOfFuel (records stream).
Proof. exact no_panic_record_iter. Qed.
Theorem C12_no_panic_parse_string :
  forall r, parse_string r <> Panic /\ parse_string r <> OutOfFuel.
Proof. exact no_panic_parse_string. Qed.
Theorem C12_no_panic_string_arm :
  forall d c, string_arm d c <> Panic /\ string_arm d c <> OutOfFuel.
Proof. exact no_panic_string_arm. Qed.
Theorem C12_no_panic_parse_label :
  forall r, parse_label r <> Panic /\ parse_label r <> OutOfFuel.
Proof. exact no_panic_parse_label. Qed.
Theorem C12_no_panic_parse_label_sst :
  forall r strings, parse_label_sst r strings <> Panic /\ parse_label_sst r strings <> OutOfFuel.
Proof. exact no_panic_parse_label_sst. Qed.
Theorem C12_no_panic_sheet_metadata :
  forall data, parse_sheet_metadata data <> Panic /\ parse_sheet_metadata data <> OutOfFuel.
Proof. exact no_panic_sheet_metadata. Qed.
(* the reduced parse_workbook (globals loop, per-sheet loops from the BoundSheet8 positions) *)
Theorem C12_no_panic_wb_strings :
  forall stream, wb_strings stream <> Panic /\ wb_strings stream <> OutOfFuel.
Proof. exact no_panic_wb_strings. Qed.

(* the former class CutInsidePair (finding F24): the witness now reads back as stored; a dangling
   lead surrogate before an 8-bit segment is one U+FFFD; an empty segment between the halves of a
   pair changes nothing *)
Example C12_former_CutInsidePair :
  legal_layout wit_pair_strs wit_pair_lay = true /\
  sst_encode wit_pair_strs wit_pair_lay =
    ([1; 0; 0; 0; 1; 0; 0; 0; 4; 0; 1; 97; 0; 61; 216], [[1; 0; 222; 98; 0]]) /\
  parse_sst (sst_encode wit_pair_strs wit_pair_lay) = Ok [[97; 128512; 98]] /\
  parse_sst (sst_encode [[97; 55357; 98]] (mkLay 1 [mkSL false true [(2%nat, false)] None None []]))
    = Ok [[97; 65533; 98]] /\
  parse_sst (sst_encode wit_pair_strs
               (mkLay 1 [mkSL false true [(2%nat, false); (0%nat, true)] None None []]))
    = Ok [[97; 128512; 98]].
Proof. exact former_CutInsidePair_value. Qed.
(* non-vacuity *)
Example C12_sst_nonvacuous :
  legal_layout ex_strs ex_lay = true /\
  length (snd (sst_encode ex_strs ex_lay)) = 9%nat /\
  parse_sst (sst_encode ex_strs ex_lay) =
  Ok [[104; 233; 233; 128512; 122]; []; [65279; 20013; 97]].
Proof. exact example_nonvacuous. Qed.
Example C12_xl_nonvacuous :
  legal_xl_string true [65279; 55357; 56832] = true /\
  legal_short_string false [83; 233] = true /\
  parse_sheet_metadata (boundsheet_body 1234 1 0 true [83; 0; 20013]) = Ok (1234, [83; 20013]).
Proof. exact example_xl_nonvacuous. Qed.
Example C12_workbook_codepages_nonvacuous :
  forallb (fun cp => legal_workbook cp ex_strs ex_lay ex_sheets) ex_codepages = true /\
  Forall (fun cp => wb_strings (workbook_stream cp ex_strs ex_lay ex_sheets)
                    = Ok (wb_spec ex_strs ex_sheets)) ex_codepages /\
  firstn 10 (skipn 20 (workbook_stream (Some 1252) ex_strs ex_lay ex_sheets)) =
    [66; 0; 2; 0; 228; 4; 133; 0; 14; 0].
Proof. exact example_workbook_codepages. Qed.
Example C12_workbook_nonvacuous :
  legal_workbook (Some 1252) ex_strs ex_lay ex_sheets = true /\
  wb_spec ex_strs ex_sheets =
  [([83; 20013], [(0, 0, [104; 233; 233; 128512; 122]); (2, 0, [65279; 20013; 97]);
                  (4, 1, [104; 105]); (6, 2, [128512]); (7, 1, [104; 128512; 233; 105])]);
   ([66], [(5, 5, [65279; 20013; 97])])].
Proof. exact example_workbook. Qed.
Example C12_formula_string_nonvacuous :
  legal_fstring [104; 55357; 56832; 233; 105] true [(2%nat, true); (1%nat, false)] = true /\
  fstring_encode [104; 55357; 56832; 233; 105] true [(2%nat, true); (1%nat, false)] =
    ([5; 0; 1; 104; 0; 61; 216], [[1; 0; 222]; [0; 233; 105]]) /\
  string_arm [5; 0; 1; 104; 0; 61; 216] (Some [[1; 0; 222]; [0; 233; 105]]) =
    Ok [104; 128512; 233; 105] /\
  string_arm [5; 0; 1; 104; 0; 61; 216] (Some [[1; 0; 222]; [0; 233; 105]; [1]]) =
    Ok [104; 128512; 233; 105] /\
  records (frame_rec 519 (fstring_encode [104; 55357; 56832; 233; 105] true
                            [(2%nat, true); (1%nat, false)]) ++ frame 10 []) =
    [Ok (519, [5; 0; 1; 104; 0; 61; 216], Some [[1; 0; 222]; [0; 233; 105]]); Ok (10, [], None)].
Proof. exact example_fstring. Qed.
Example C12_empty_xl_string_ok :
  parse_string (xl_string false []) = Ok [] /\
  parse_label (label_body 3 7 15 true []) = Ok (Some (3, 7, [])).
Proof. exact empty_xl_string_ok. Qed.
Example C12_record_iter_nonvacuous :
  fits_records (sst_encode ex_strs ex_lay) = true /\
  records (frame_sst (sst_encode ex_strs ex_lay) ++ frame 10 []) =
  [Ok (252, fst (sst_encode ex_strs ex_lay), Some (snd (sst_encode ex_strs ex_lay)));
   Ok (10, [], None)].
Proof. exact example_record_iter. Qed.

Check C12_sst_any_split :
  forall strs lay, legal_layout strs lay = true ->
    parse_sst (sst_encode strs lay) = Ok (map (fun s => utf16_decode (units s)) strs).
Check C12_string_read_exact :
  forall us sl rest, legal_string us sl = true ->
    read_rich_extended_string (frags (string_items us sl ++ rest)) =
    Ok (utf16_decode us, frags rest).
Check C12_labelsst_resolves :
  forall strs lay row col ixfe i s,
    legal_layout strs lay = true ->
    i <= 4294967295 -> nth_error strs (N.to_nat i) = Some s ->
    exists tbl, parse_sst (sst_encode strs lay) = Ok tbl /\
      parse_label_sst (labelsst_body row col ixfe i) tbl =
      Ok (if is_nil (units s) then None else Some (row, col, utf16_decode (units s))).
Check C12_formula_string_any_split :
  forall us hb cuts rest, legal_fstring us hb cuts = true ->
    string_arm (fst (frags (fstring_items us hb cuts ++ rest)))
               (cont_opt (snd (frags (fstring_items us hb cuts ++ rest))))
    = Ok (utf16_decode us).
Check C12_workbook_strings :
  forall cp strs lay shs, legal_workbook cp strs lay shs = true ->
    wb_strings (workbook_stream cp strs lay shs) = Ok (wb_spec strs shs).
Check C12_codepage_irrelevant :
  forall cp cp' strs lay shs,
    legal_workbook cp strs lay shs = true -> legal_workbook cp' strs lay shs = true ->
    wb_strings (workbook_stream cp strs lay shs) = wb_strings (workbook_stream cp' strs lay shs).
Check C12_parse_string_ok :
  forall hb us extra, legal_xl_string hb us = true ->
    parse_string (xl_string hb us ++ extra) = Ok (utf16_decode us).
Check C12_sheet_name_ok :
  forall pos vis typ hb us,
    pos <= 4294967295 -> vis <= 2 ->
    (typ =? 0) || (typ =? 1) || (typ =? 2) || (typ =? 6) = true ->
    legal_short_string hb us = true ->
    parse_sheet_metadata (boundsheet_body pos vis typ hb us) =
    Ok (pos, filter (fun c => negb (c =? 0)) (utf16_decode us)).

Check C12_no_panic_parse_sst :
  forall data conts,
    parse_sst (data, conts) <> Panic /\
    parse_sst (data, conts) <> OutOfFuel /\
    3 * sst_capacity_request (data, conts) <= N.of_nat (total_bytes (data, conts)).
Check C12_no_panic_short_string :
  forall data, parse_short_string data <> Panic /\ parse_short_string data <> OutOfFuel.
Check C12_no_panic_record_iter :
  forall stream,
    next_record stream <> Some Panic /\ next_record stream <> Some OutOfFuel /\
    ~ In Panic (records stream) /\ ~ In OutOfFuel (records stream).

Print Assumptions C12_sst_any_split.
Print Assumptions C12_string_read_exact.
Print Assumptions C12_later_strings_unaffected.
Print Assumptions C12_layout_irrelevant.
Print Assumptions C12_labelsst_resolves.
Print Assumptions C12_parse_string_ok.
Print Assumptions C12_parse_label_ok.
Print Assumptions C12_sheet_name_ok.
Print Assumptions C12_record_iter_collects.
Print Assumptions C12_workbook_strings.
Print Assumptions C12_codepage_irrelevant.
Print Assumptions C12_nested_substream_skipped.
Print Assumptions C12_nested_substream_nonvacuous.
Print Assumptions C12_codepage_record_skipped.
Print Assumptions C12_workbook_codepages_nonvacuous.
Print Assumptions C12_formula_string_any_split.
Print Assumptions C12_formula_string_layout_irrelevant.
Print Assumptions C12_record_iter_collects_any.
Print Assumptions C12_no_panic_string_arm.
Print Assumptions C12_formula_string_nonvacuous.
Print Assumptions C12_segment_decoder.
Print Assumptions C12_decode_app.
Print Assumptions C12_sst_fuel_suffices.
Print Assumptions C12_decoder_chunks.
Print Assumptions C12_no_panic_parse_sst.
Print Assumptions C12_no_panic_short_string.
Print Assumptions C12_no_panic_record_iter.
Print Assumptions C12_no_panic_parse_string.
Print Assumptions C12_no_panic_parse_label.
Print Assumptions C12_no_panic_parse_label_sst.
Print Assumptions C12_no_panic_sheet_metadata.
Print Assumptions C12_no_panic_wb_strings.
Print Assumptions C12_former_CutInsidePair.
Print Assumptions C12_sst_nonvacuous.
Print Assumptions C12_xl_nonvacuous.
Print Assumptions C12_workbook_nonvacuous.
Print Assumptions C12_empty_xl_string_ok.
Print Assumptions C12_record_iter_nonvacuous.
