"""C13 — compound-file streams are recovered whatever the container's physical layout.
Correspondence: containers (sector size 512 / 4096, storages, named streams) and layouts (placement
of every FAT / DIFAT / directory / mini-FAT / mini-stream / stream sector, directory slots with
unused entries, free sectors, surplus table sectors, padding) are generated here, ENCODED by the
extracted Coq encoder `Cfb.cfb_write` (vm cfb_write), then read by the real code through the hook
around Cfb::new / has_directory / get_stream (vh cfb) and by the extracted model (vm cfb).
Spec side: the streams the generator put in.  End to end: real .xls fixtures are parsed by a small
independent Python reader, re-emitted by the Coq encoder under a random layout and opened with
Xls::new; worksheet_range of every sheet and vba_project() must equal those of the original."""
import os, struct
import vlib

ASSUMPTIONS = [
    "stream names: 1..31 UTF-16 units, no NUL, unique over the whole directory (calamine looks names up in a flat list), different from the root entry's name",
    "stream sizes below 2^32 (the model's lists; version-4 files may declare more)",
    "the reader is a Cursor over the whole file (std::io::Read returning everything up to EOF)",
    "hierarchy (red-black tree links) is not modelled: calamine ignores it",
]

EOC, FREE = 0xFFFFFFFE, 0xFFFFFFFF

# ------------------------------------------------------------------ generation of containers
NAME_POOL = ["Workbook", "Book", "dir", "PROJECT", "_VBA_PROJECT", "Module1", "ThisWorkbook", "Sheet1",
             "\x05SummaryInformation", "\x05DocumentSummaryInformation", "\x01CompObj", "PROJECTwm",
             "a", "Zz", "Ünïcode", "名前", "𝔘𝔫𝔦", "x" * 31, "EncryptionInfo", "EncryptedPackage"]
STORAGE_POOL = ["_VBA_PROJECT_CUR", "VBA", "MBD0001", "\x06DataSpaces", "Forms"]

def u16len(s):
    return len(s.encode("utf-16le")) // 2

def gen_name(rng, used):
    for _ in range(100):
        k = rng.random()
        if k < 0.6:
            n = rng.choice(NAME_POOL)
        elif k < 0.8:
            n = "".join(rng.choice("abcXYZ012_ \x01\x05é漢") for _ in range(rng.randrange(1, 12)))
        else:
            n = "".join(chr(rng.choice([rng.randrange(1, 0x7F), rng.randrange(0xA0, 0xD7FF), rng.randrange(0xE000, 0xFFFD),
                                        rng.randrange(0x10000, 0x10FFFF)])) for _ in range(rng.randrange(1, 9)))
        if n not in used and n != "Root Entry" and 1 <= u16len(n) <= 31 and "\0" not in n:
            used.add(n)
            return n
    raise RuntimeError("name generation")

def gen_bytes(rng, n):
    k = rng.random()
    if k < 0.4:
        return bytes((i * 7 + 3) & 255 for i in range(n))
    if k < 0.5:
        return bytes(n)
    return rng.randbytes(n) if n < 20000 else (rng.randbytes(1024) * (n // 1024 + 1))[:n]

BOUNDARY_SIZES = [0, 1, 63, 64, 65, 127, 128, 129, 511, 512, 513, 1023, 1024, 1025, 4031, 4032, 4033,
                  4095, 4096, 4097, 4607, 4608, 4609, 8191, 8192, 8193, 12287, 12288, 12289]

def gen_size(rng, ss):
    k = rng.random()
    if k < 0.45:
        return rng.choice(BOUNDARY_SIZES)
    if k < 0.6:
        return rng.randrange(0, 400)
    if k < 0.8:
        return rng.randrange(3000, 5200)
    m = rng.randrange(1, 12)
    return max(0, m * ss + rng.choice([-1, 0, 1]))

def ceil_div(a, b):
    return (a + b - 1) // b

def order_ids(rng, n, mode):
    ids = list(range(n))
    if mode == "shuffled":
        rng.shuffle(ids)
    elif mode == "reversed":
        ids.reverse()
    elif mode == "interleaved":
        ids = ids[0::2] + ids[1::2]
    return ids

def gen_layout(rng, ss, storages, streams, mode=None, force_nfat=None, surplus=True):
    """storages: [name]; streams: [(name, bytes)] -> layout dict (see Cfb.layout)"""
    mode = mode or rng.choice(["sequential", "shuffled", "shuffled", "shuffled", "reversed", "interleaved"])
    epf = ss // 4
    sp = (lambda p: surplus and rng.random() < p)
    # mini sectors
    mini_need = []
    big_need = []
    for n, b in streams:
        if len(b) < 4096:
            k = ceil_div(len(b), 64)
            if k and sp(0.1):
                k += rng.randrange(1, 3)
            mini_need.append(k)
        else:
            k = ceil_div(len(b), ss)
            if sp(0.1):
                k += rng.randrange(1, 3)
            big_need.append(k)
    nmini = sum(mini_need) + (rng.randrange(0, 4) if sp(0.4) else 0)
    mini_ids = order_ids(rng, nmini, mode)
    n_root = ceil_div(nmini * 64, ss) + (1 if sp(0.15) else 0)
    n_minifat = ceil_div(nmini, epf) + (1 if sp(0.15) else 0)
    n_items = len(storages) + len(streams)
    n_entries = 1 + n_items + (rng.randrange(0, 6) if sp(0.6) else 0)
    n_dir = ceil_div(n_entries * 128, ss) + (1 if sp(0.15) else 0)
    nslots = n_dir * (ss // 128)
    n_free = rng.randrange(0, 5) if sp(0.5) else 0
    data = n_dir + n_minifat + n_root + sum(big_need) + n_free
    nfat = 1
    def ndifat_for(nf):
        return 0 if nf <= 109 else ceil_div(nf - 109, epf - 1)
    while nfat * epf < data + nfat + ndifat_for(nfat):
        nfat += 1
    if force_nfat:
        nfat = max(nfat, force_nfat)
    elif sp(0.1):
        nfat += rng.randrange(1, 3)
    ndifat = ndifat_for(nfat) + (1 if (nfat > 100 and sp(0.3)) else 0)
    nsect = data + nfat + ndifat
    ids = order_ids(rng, nsect, mode)
    pos = [0]
    def take(k):
        r = ids[pos[0]:pos[0] + k]
        pos[0] += k
        return r
    # the order in which the kinds of sectors draw from the id sequence is itself random
    kinds = ["fat", "difat", "dir", "minifat", "root"] + ["s%d" % i for i in range(len(big_need))]
    if mode != "sequential" or rng.random() < 0.5:
        rng.shuffle(kinds)
    got = {}
    for k in kinds:
        cnt = {"fat": nfat, "difat": ndifat, "dir": n_dir, "minifat": n_minifat, "root": n_root}.get(k)
        if cnt is None:
            cnt = big_need[int(k[1:])]
        got[k] = take(cnt)
    if mode == "shuffled" and rng.random() < 0.3:
        # fragmentation: sequential ids, but the chains of two objects interleave
        pass
    chains, bi, mp = [], 0, 0
    for n, b in streams:
        if len(b) < 4096:
            k = mini_need[len([1 for x in chains if x[0] == "m"])]
            chains.append(("m", mini_ids[mp:mp + k]))
            mp += k
        else:
            chains.append(("b", got["s%d" % bi]))
            bi += 1
    slots = rng.sample(range(1, nslots), n_items) if mode != "sequential" else list(range(1, n_items + 1))
    return {"nsect": nsect, "fat": got["fat"], "difat": got["difat"], "dir": got["dir"],
            "minifat": got["minifat"], "root": got["root"], "nmini": nmini,
            "chains": [c[1] for c in chains], "slots": slots,
            "pad": rng.choice([0, 0, 0xFF, 0xAA, rng.randrange(256)]),
            "hi": rng.choice([0, 0, 0xFFFFFFFF, 1, rng.randrange(1 << 32)]) if ss == 512 else rng.choice([0, 7]),
            "es": rng.choice([EOC, EOC, 0, 0, FREE, 1, rng.randrange(1 << 32)]),
            "mode": mode}

def lay_text(l):
    j = lambda x: ",".join(str(i) for i in x)
    return "|".join([str(l["nsect"]), j(l["fat"]), j(l["difat"]), j(l["dir"]), j(l["minifat"]), j(l["root"]),
                     str(l["nmini"]), "/".join(j(c) for c in l["chains"]) if l["chains"] else "-",
                     j(l["slots"]), str(l["pad"]), str(l["hi"]), str(l["es"])])

def hx(s):
    return s.encode("utf-8").hex() or "-"

def write_line(cid, ss, storages, streams, lay):
    st = ";".join(hx(n) for n in storages) or "-"
    sm = ";".join("%s:%s" % (hx(n), b.hex() or "-") for n, b in streams) or "-"
    return "%s\tcfb_write\t%d\t%s\t%s\t%s" % (cid, ss, st, sm, lay_text(lay))

class Case:
    pass

def make_case(rng, cid, ss, sizes=None, nstor=None, mode=None, force_nfat=None, names=None, surplus=True, tag="random"):
    used = set()
    c = Case()
    c.cid, c.ss, c.tag = cid, ss, tag
    if sizes is None:
        sizes = [gen_size(rng, ss) for _ in range(rng.randrange(0, 7))]
    c.storages = [n for n in rng.sample(STORAGE_POOL, nstor if nstor is not None else rng.choice([0, 0, 1, 2]))]
    used.update(c.storages)
    c.streams = []
    for k, sz in enumerate(sizes):
        n = names[k] if names else gen_name(rng, used)
        c.streams.append((n, gen_bytes(rng, sz)))
    c.lay = gen_layout(rng, ss, c.storages, c.streams, mode=mode, force_nfat=force_nfat, surplus=surplus)
    return c

def ops_for(rng, c, absent=True):
    ops = []
    for n in c.storages:
        ops.append(("h", n))
    order = list(c.streams)
    rng.shuffle(order)
    for n, b in order:
        ops.append(("h", n))
        ops.append(("g", n))
    if order and rng.random() < 0.5:           # read again (sector cache already filled)
        ops.append(("g", order[0][0]))
    if absent:
        ops.append(("h", "No Such Stream"))
        ops.append(("g", "No Such Stream"))
    ops.append(("n", ""))
    return ops

def ops_text(ops):
    return ";".join("n" if k == "n" else "%s:%s" % (k, hx(n)) for k, n in ops)

def spec_answers(c, ops):
    d = dict(c.streams)
    names = set(c.storages) | set(d)
    out = ["new=ok"]
    for k, n in ops:
        if k == "h":
            out.append("1" if n in names else "0")
        elif k == "g":
            if n in d:
                out.append("ok:" + d[n].hex())
            elif n in names:
                out.append(None)           # a storage: nothing demanded
            else:
                out.append("err:notfound")
        else:
            out.append(None)
    return out

def same_outcome(i, m):
    """impl vs model; memory exhaustion of the real loop (alloc) = the model running out of fuel"""
    if i == m:
        return True
    if i is None or m is None:
        return False
    fi, fm = i.split(";"), m.split(";")
    if len(fi) != len(fm):
        return False
    for a, b in zip(fi, fm):
        if a == b:
            continue
        if a.replace("alloc", "fuel") == b:
            continue
        return False
    return True

def run_cases(ctx, cases, rng):
    """encode with the extracted encoder; read with the code and the model; three-way compare"""
    enc = ctx.run_model([write_line(c.cid, c.ss, c.storages, c.streams, c.lay) for c in cases])
    lines, meta = [], {}
    for c in cases:
        a = enc.get(c.cid, "")
        f = a.split("|")
        if len(f) != 4:
            ctx.disagreements.append({"function": "cfb_write", "case": write_line(c.cid, c.ss, c.storages, c.streams, c.lay)[:3000],
                                      "impl": "(n/a)", "model": a[:200]})
            continue
        c.file, c.valid, c.known, c.fuel = f[0], f[1] == "1", f[2], f[3]
        c.ops = ops_for(rng, c)
        c.line = "%s\tcfb\t%s\t%s\t%s" % (c.cid, c.file, c.fuel, ops_text(c.ops))
        lines.append(c.line)
        meta[c.cid] = c
    # very large files: the model's list-based sector cache is too slow to read them back in the
    # quick tier; they are still checked implementation-vs-specification
    skip_model = set(c.cid for c in meta.values() if getattr(c, "no_model_read", False))
    impl = ctx.run_impl(lines)
    model = ctx.run_model([l for l in lines if l.split("\t", 1)[0] not in skip_model])
    for cid, c in meta.items():
        i, m = impl.get(cid), model.get(cid)
        if cid in skip_model:
            m = i
            ctx.count("model_read_skipped(big file)")
        ctx.traces += 1
        ctx.count("tag:" + c.tag)
        ctx.count("sector_size:%d" % c.ss)
        ctx.count("layout:" + c.lay["mode"])
        ctx.count("fat_sectors:" + ("1" if len(c.lay["fat"]) == 1 else "2..109" if len(c.lay["fat"]) <= 109 else ">109"))
        ctx.count("difat_sectors:%d" % min(len(c.lay["difat"]), 3))
        for n, b in c.streams:
            ctx.count("stream:" + ("empty" if not b else "mini" if len(b) < 4096 else "regular"))
            if len(b) in (4095, 4096, 4097):
                ctx.count("stream_size:%d" % len(b))
        ctx.nontrivial(c.line.split("\t", 2)[2][:6000] + str(len(c.file)))
        ctx.sample({"case": cid, "ss": c.ss, "sizes": [len(b) for _, b in c.streams], "layout": lay_text(c.lay)[:300],
                    "file_bytes": len(c.file) // 2})
        wl = write_line(c.cid, c.ss, c.storages, c.streams, c.lay)
        if not same_outcome(i, m):
            ctx.disagreements.append({"function": "Cfb::new/get_stream", "case": c.line[:200000], "impl": (i or "")[:2000],
                                      "model": (m or "")[:2000], "generator": wl[:20000]})
        if not c.valid:
            if c.tag != "invalid":
                ctx.disagreements.append({"function": "valid_layoutb(generator)", "case": wl[:20000], "impl": "(n/a)",
                                          "model": "valid=0 for a layout the generator meant to be valid"})
            continue
        spec = spec_answers(c, c.ops)
        got = (i or "").split(";")
        bad = None
        for k, s in enumerate(spec):
            if s is None:
                continue
            g = got[k] if k < len(got) else "(missing)"
            if g != s:
                bad = (k, s, g)
                break
        if c.known != "-":
            ctx.count("known_class:" + c.known)
            if bad:
                ctx.known_hits["bom_name"] = {"case": wl[:4000], "expected": bad[1][:200], "actual": bad[2][:200]}
            else:
                ctx.notes.append("known class %s: case %s reads correctly" % (c.known, cid))
            continue
        if bad:
            k, s, g = bad
            gen_note = ""
            if len(c.line) > 400000:
                # too big for a replay file: keep the generator command in a side file
                gp = os.path.join(vlib.ROOT, "replays", "C13-generator-%s-%d.txt" % (cid, ctx.seed))
                os.makedirs(os.path.dirname(gp), exist_ok=True)
                open(gp, "w").write(wl + "\n" + ops_text(c.ops) + "\n")
                gen_note = " [generator file %s]" % gp
            what = "open" if k == 0 else "%s(%r)" % ({"h": "has_directory", "g": "get_stream"}[c.ops[k - 1][0]], c.ops[k - 1][1])
            ctx.violations.append({"case": c.line[:400000], "expected": s[:4000], "actual": g[:4000], "model": (m or "")[:4000],
                                   "what": "%s on a valid container (ss=%d, stream sizes %s, layout %s)%s: generator line %s" % (
                                       what, c.ss, [len(b) for _, b in c.streams], c.lay["mode"], gen_note, wl[:3000])})

# ------------------------------------------------------------------ structured / boundary cases
def boundary_cases(rng, tier):
    cases = []
    k = 0
    for ss in (512, 4096):
        for sz in BOUNDARY_SIZES + [ss * 3 - 1, ss * 3, ss * 3 + 1]:
            for mode in ("sequential", "shuffled"):
                cases.append(make_case(rng, "b%d" % k, ss, sizes=[sz], nstor=0, mode=mode, tag="boundary_single"))
                k += 1
        # several streams around the cutoff in one container
        cases.append(make_case(rng, "b%d" % k, ss, sizes=[4095, 4096, 4097, 0, 1, 64, 65, 63], mode="shuffled", tag="boundary_mix")); k += 1
        cases.append(make_case(rng, "b%d" % k, ss, sizes=[], nstor=0, tag="no_streams")); k += 1
        cases.append(make_case(rng, "b%d" % k, ss, sizes=[0, 0], nstor=1, tag="only_empty")); k += 1
        cases.append(make_case(rng, "b%d" % k, ss, sizes=[5000], nstor=0, surplus=False, mode="sequential", tag="no_mini_stream")); k += 1
        # many directory entries: several directory sectors
        cases.append(make_case(rng, "b%d" % k, ss, sizes=[rng.choice([10, 70, 4100]) for _ in range(40)], mode="shuffled", tag="many_entries")); k += 1
        # DIFAT chain through surplus FAT sectors (small file, > 109 FAT sectors)
        for nf in ((110, 236, 237, 364) if ss == 512 else (110, 300)):
            if ss == 4096 and tier != "thorough" and nf > 110:
                continue
            cases.append(make_case(rng, "b%d" % k, ss, sizes=[4096, 100, 9000], mode=rng.choice(["shuffled", "sequential"]),
                                   force_nfat=nf, tag="difat_chain")); k += 1
    # names that begin like a byte-order mark (class bom_name until Directory::from_slice was fixed)
    for nm in ("\ufeffWorkbook", "\ufffeab", "\ubbef\u00bfx"):
        cases.append(make_case(rng, "b%d" % k, 512, sizes=[100], nstor=0, names=[nm], tag="bom_name")); k += 1
    return cases

# ------------------------------------------------------------------ malformed inputs (model tie only)
def malformed_cases(rng, valid_cases, n):
    out = []
    pool = [c for c in valid_cases if getattr(c, "file", None) and len(c.file) < 60000]
    if not pool:
        return out
    for k in range(n):
        c = rng.choice(pool)
        b = bytearray(bytes.fromhex(c.file))
        kind = rng.choice(["flip_header", "flip_any", "truncate", "truncate_sector", "fat_cycle", "dword", "empty", "short"])
        hs = 512 if c.ss == 512 else 4096
        if kind == "flip_header":
            for _ in range(rng.randrange(1, 3)):
                b[rng.randrange(0, 76 + 8)] = rng.randrange(256)
        elif kind == "flip_any":
            for _ in range(rng.randrange(1, 4)):
                b[rng.randrange(len(b))] = rng.randrange(256)
        elif kind == "truncate":
            b = b[:rng.randrange(0, len(b))]
        elif kind == "truncate_sector":
            b = b[:max(0, len(b) - rng.randrange(1, c.ss + 2))]
        elif kind == "fat_cycle":
            # make some chain link point back to an earlier sector of a chain
            f = c.lay["fat"][0]
            off = hs + f * c.ss
            ch = [x for x in (c.lay["dir"], c.lay["root"], c.lay["minifat"]) if x]
            tgt = rng.choice(rng.choice(ch))
            if tgt < c.ss // 4:
                b[off + 4 * tgt: off + 4 * tgt + 4] = struct.pack("<I", tgt if rng.random() < 0.5 else rng.choice(rng.choice(ch)))
        elif kind == "dword":
            p = rng.randrange(0, max(1, len(b) - 4)) & ~3
            b[p:p + 4] = struct.pack("<I", rng.choice([0, 1, EOC, FREE, 0xFFFFFFFC, 0xFFFFFFFD, 0xFFFFFFFA, 0x7FFFFFFF, rng.randrange(1 << 32), rng.randrange(64)]))
        elif kind == "empty":
            b = bytearray()
        elif kind == "short":
            b = b[:rng.choice([0, 7, 8, 76, 511, 512, 513, 4095, 4096])]
        ops = ops_for(rng, c, absent=False)
        out.append(("m%d" % k, kind, "m%d\tcfb\t%s\t%d\t%s" % (k, bytes(b).hex(), len(b) // 512 + 4, ops_text(ops))))
    return out

def run_malformed(ctx, cases):
    lines = [l for _, _, l in cases]
    impl, model = ctx.run_both(lines)
    for cid, kind, line in cases:
        i, m = impl.get(cid), model.get(cid)
        ctx.traces += 1
        ctx.count("malformed:" + kind)
        ctx.count("malformed_open:" + (i or "none").split(";")[0])
        if not same_outcome(i, m):
            # a request above the harness' allocation cap is environment-dependent: the model has no cap
            if i and "alloc" in i:
                ctx.count("malformed_alloc_cap_not_modelled")
                continue
            ctx.disagreements.append({"function": "Cfb::new/get_stream(malformed)", "case": line[:200000],
                                      "impl": (i or "")[:1000], "model": (m or "")[:1000]})

# ------------------------------------------------------------------ end to end on real fixtures
def py_cfb_read(data):
    """independent reader of a well-formed compound file: [(name, type, bytes)] in directory order"""
    if data[:8] != bytes.fromhex("D0CF11E0A1B11AE1"):
        raise ValueError("signature")
    shift = struct.unpack_from("<H", data, 30)[0]
    ss = 1 << shift
    sect = lambda i: data[(i + 1) * ss:(i + 2) * ss]
    nfat, dir_start = struct.unpack_from("<II", data, 44)
    minifat_start, nminifat, difat_start, ndifat = struct.unpack_from("<IIII", data, 60)
    difat = list(struct.unpack_from("<109I", data, 76))
    s = difat_start
    while s < 0xFFFFFFFA:
        e = struct.unpack("<%dI" % (ss // 4), sect(s))
        difat += e[:-1]
        s = e[-1]
    fat = []
    for f in difat:
        if f < 0xFFFFFFFA:
            fat += struct.unpack("<%dI" % (ss // 4), sect(f))
    def chain(start, table, getter):
        out, seen = [], set()
        while start != EOC:
            if start in seen or start >= len(table):
                raise ValueError("bad chain")
            seen.add(start)
            out.append(getter(start))
            start = table[start]
        return b"".join(out)
    d = chain(dir_start, fat, sect)
    ents = []
    for k in range(len(d) // 128):
        e = d[k * 128:(k + 1) * 128]
        nl = struct.unpack_from("<H", e, 64)[0]
        typ = e[66]
        name = e[:max(0, nl - 2)].decode("utf-16le")
        start = struct.unpack_from("<I", e, 116)[0]
        size = struct.unpack_from("<Q", e, 120)[0] if ss == 4096 else struct.unpack_from("<I", e, 120)[0]
        ents.append((name, typ, start, size))
    root = ents[0]
    # (issue444.xls: no mini stream, root start = FREESECT; calamine only follows the root chain
    #  when the header declares mini-FAT sectors)
    mini = chain(root[2], fat, sect)[:root[3]] if (nminifat and root[2] < 0xFFFFFFFA) else b""
    minifat = []
    if nminifat:
        mf = chain(minifat_start, fat, sect)
        minifat = list(struct.unpack("<%dI" % (len(mf) // 4), mf))
    out = []
    for name, typ, start, size in ents[1:]:
        if typ == 2:
            if size < 4096:
                b = chain(start, minifat, lambda i: mini[i * 64:(i + 1) * 64])[:size] if size else b""
            else:
                b = chain(start, fat, sect)[:size]
            out.append((name, 2, b))
        elif typ == 1:
            out.append((name, 1, b""))
    return out

def run_fixtures(ctx, per_file):
    rng = ctx.rng
    d = vlib.tmpdir(ctx)
    files = [p for e, p in vlib.fixtures({"xls", "xla"}) if os.path.getsize(p) > 0]
    jobs, wlines = [], []
    for p in files:
        data = open(p, "rb").read()
        try:
            ents = py_cfb_read(data)
        except Exception as ex:
            ctx.notes.append("fixture %s not parsed by the Python reader: %r" % (os.path.basename(p), ex))
            continue
        seen, storages, streams = set(), [], []
        for name, typ, b in ents:
            if name in seen or not name:
                continue              # calamine only ever sees the first entry of a name
            seen.add(name)
            (storages if typ == 1 else streams).append(name if typ == 1 else (name, b))
        for k in range(per_file):
            c = Case()
            c.cid = "f%d_%d" % (len(jobs), k)
            c.ss = rng.choice([512, 4096])
            c.storages, c.streams, c.src = storages, streams, p
            c.lay = gen_layout(rng, c.ss, storages, streams)
            jobs.append(c)
            wlines.append(write_line(c.cid, c.ss, storages, streams, c.lay))
    enc = ctx.run_model(wlines)
    lines, meta = [], {}
    calls = "sheets;wsall;vba"
    for p in files:
        lines.append("orig:%s\topen\txls\t%s\t%s" % (os.path.basename(p), p, calls))
    for c in jobs:
        f = enc.get(c.cid, "").split("|")
        if len(f) != 4 or f[1] != "1":
            ctx.disagreements.append({"function": "cfb_write(fixture)", "case": wlines[jobs.index(c)][:3000], "impl": "(n/a)",
                                      "model": "|".join(f[1:])[:200]})
            continue
        path = os.path.join(d, c.cid + ".xls")
        open(path, "wb").write(bytes.fromhex(f[0]))
        c.path = path
        lines.append("%s\topen\txls\t%s\t%s" % (c.cid, path, calls))
        meta[c.cid] = c
    impl = ctx.run_impl(lines)
    for cid, c in meta.items():
        want = impl.get("orig:" + os.path.basename(c.src))
        got = impl.get(cid)
        ctx.traces += 1
        ctx.count("fixture_relayout:ss%d" % c.ss)
        ctx.count("fixture_outcome:" + ("openerr" if (want or "").startswith("openerr") else "ok"))
        ctx.nontrivial("fixture" + c.src + lay_text(c.lay))
        if got != want:
            ctx.violations.append({"case": "%s\topen\txls\t%s\t%s" % (cid, c.path, calls), "expected": (want or "")[:3000],
                                   "actual": (got or "")[:3000], "model": "(the model is not involved: the same streams re-laid out by cfb_write)",
                                   "what": "Xls::new + worksheet_range/vba_project of %s re-emitted with sector size %d, layout %s differs from the original; generator line %s"
                                           % (os.path.basename(c.src), c.ss, c.lay["mode"], write_line(c.cid, c.ss, c.storages, c.streams, c.lay)[:2000])})
        else:
            try:
                os.remove(c.path)
            except OSError:
                pass

# ------------------------------------------------------------------ big files (real DIFAT chain)
def big_cases(ctx):
    rng = ctx.rng
    cases = []
    # > 109 FAT sectors needed for real: one stream of ~7.2 MB in a 512-byte-sector file
    c = make_case(rng, "big0", 512, sizes=[110 * 128 * 512 + 777, 4095, 100], nstor=0, mode="shuffled", surplus=False, tag="big_difat_real")
    c.no_model_read = True    # reading 7 MB back through the list-based model takes > 6 min
    cases.append(c)
    return cases

# ------------------------------------------------------------------ entry points
def run(ctx):
    rng = ctx.rng
    cases = boundary_cases(rng, ctx.tier)
    n = ctx.scale(500, 4000)
    for k in range(n):
        cases.append(make_case(rng, "r%d" % k, rng.choice([512, 512, 4096])))
    # one file whose FAT really needs more than 109 sectors (7.2 MB, 512-byte sectors): the FAT
    # sectors listed in the DIFAT sector describe the end of the file
    cases = big_cases(ctx) + cases
    run_cases(ctx, cases, rng)
    run_malformed(ctx, malformed_cases(rng, cases, ctx.scale(300, 4000)))
    run_fixtures(ctx, ctx.scale(2, 12))

def search(ctx):
    rng = ctx.rng
    cases = [make_case(rng, "x%d" % k, rng.choice([512, 4096])) for k in range(ctx.scale(600, 4000))]
    run_cases(ctx, cases, rng)

def replay(ctx, rep):
    line = rep.get("case") or ""
    if not line:
        print("replay: no case in the file"); return 2
    import re
    mt = re.search(r"\[generator file ([^\]]+)\]", rep.get("what") or "")
    if mt and os.path.exists(mt.group(1)):
        wl, ops = open(mt.group(1)).read().split("\n")[:2]
        cid = wl.split("\t", 1)[0]
        f = ctx.run_model([wl]).get(cid, "").split("|")
        if len(f) == 4:
            line = "%s\tcfb\t%s\t%s\t%s" % (cid, f[0], f[3], ops)
    impl = ctx.run_impl([line])
    cid = line.split("\t", 1)[0]
    got = impl.get(cid)
    print("expected: %s" % (rep.get("expected") or rep.get("model") or "")[:500])
    print("actual  : %s" % (got or "")[:500])
    if rep.get("kind") == "correspondence":
        m = ctx.run_model([line]).get(cid)
        print("model   : %s" % (m or "")[:500])
        return 0 if same_outcome(got, m) else 1
    exp = rep.get("expected")
    if exp is None:
        return 2
    if "\topen\t" in line:
        return 0 if got == exp else 1
    return 0 if exp in (got or "").split(";") and (rep.get("actual") not in (got or "").split(";")) else 1
